From Coq Require Import extraction.Extraction extraction.ExtrOcamlBasic.
From EinxV Require Import Base.Sexp Model.Run.
Extraction Language OCaml.
(* coqc runs in /verif/coq; the generated OCaml goes to /verif/ocaml/gen *)
Cd "../ocaml/gen".
Extraction "einxmodel.ml" Run.run.
Cd "../../coq".
