(* Meaning of set_at / add_at / subtract_at on flat data, given the index plan of
   Spec/LoopSem.plan_update_at: one (target position, update position) pair per loop iteration. *)
From Coq Require Import List NArith ZArith.
From EinxV Require Import Spec.LoopSem.
Import ListNotations.
Open Scope Z_scope.

Fixpoint upd_at (l : list Z) (i : nat) (f : Z -> Z) : list Z :=
  match l, i with
  | [], _ => []
  | x :: r, O => f x :: r
  | x :: r, S j => x :: upd_at r j f
  end.

(* sgn = 1 for add_at, -1 for subtract_at *)
Definition apply_acc (sgn : Z) (t : list Z) (plan : list (N * N)) (u : list Z) : list Z :=
  fold_left (fun t pq => upd_at t (N.to_nat (fst pq)) (fun x => x + sgn * getZ u (snd pq))) plan t.

(* set_at executed in loop order (the last writer wins); any other order is equally allowed *)
Definition apply_set (t : list Z) (plan : list (N * N)) (u : list Z) : list Z :=
  fold_left (fun t pq => upd_at t (N.to_nat (fst pq)) (fun _ => getZ u (snd pq))) plan t.

(* candidates for position p under set_at *)
Definition candidates (plan : list (N * N)) (u : list Z) (p : nat) : list Z :=
  map (fun pq => getZ u (snd pq)) (filter (fun pq => Nat.eqb (N.to_nat (fst pq)) p) plan).

Definition contributions (plan : list (N * N)) (u : list Z) (p : nat) : Z :=
  fold_right Z.add 0 (candidates plan u p).

(* row-major multipliers as computed by the source's _ravel loop (right to left) *)
Fixpoint multipliers (lens : list N) : list N :=
  match lens with
  | [] => []
  | _ :: r => nprod r :: multipliers r
  end.
Definition dotN (a b : list N) : N := fold_right N.add 0%N (map (fun xy => (fst xy * snd xy)%N) (combine a b)).
