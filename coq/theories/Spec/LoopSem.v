(* Reference semantics of the notation ("loop notation"), executable.

   A solved tensor expression is a list of dimensions [ex3]; a tensor is identified with its
   row-major flat data, so the meaning of an expression is a map from loop environments
   (axis name -> index) to flat positions.  Concatenations split an expression into
   concatenation-free *pieces* (in the order in which the documentation pairs them); within a
   piece the position is pure mixed-radix arithmetic.

   The semantics of each operation family is an *index plan*: for every output position the
   input positions the elementary operation must see.  The plan is what C01 ("holds, at every
   position, the value obtained by running the elementary operation inside the loops") says,
   independently of how einx lowers the call.  No proofs in this file (Proofs/LoopSemProofs.v). *)
From Coq Require Import List NArith ZArith Bool.
Import ListNotations.
Open Scope N_scope.

(* ------------------------------------------------------------------ expressions *)
Inductive ex3 :=
| Ax (name : N) (len : N) (marked : bool)
| Fl (cs : list ex3)
| Cat (cs : list ex3).

Definition nprod (l : list N) : N := fold_right N.mul 1 l.
Definition nsum (l : list N) : N := fold_right N.add 0 l.

Fixpoint esize (e : ex3) : N :=
  match e with
  | Ax _ l _ => l
  | Fl cs => nprod (map esize cs)
  | Cat cs => nsum (map esize cs)
  end.
Definition shape_of (dims : list ex3) : list N := map esize dims.

(* concatenation-free piece: a Cat is resolved to one child placed at an offset *)
Inductive pex :=
| PAx (name : N) (len : N) (marked : bool)
| PFl (cs : list pex)
| POff (off tot : N) (inner : pex).

Fixpoint psize (p : pex) : N :=
  match p with
  | PAx _ l _ => l
  | PFl cs => nprod (map psize cs)
  | POff _ tot _ => tot
  end.

Fixpoint product {A} (ls : list (list A)) : list (list A) :=
  match ls with
  | [] => [[]]
  | l :: r => flat_map (fun x => map (cons x) (product r)) l
  end.

(* pieces of one dimension, leftmost concatenation varying slowest *)
Fixpoint alts (e : ex3) : list pex :=
  match e with
  | Ax n l m => [PAx n l m]
  | Fl cs => map PFl (product (map alts cs))
  | Cat cs =>
    let tot := nsum (map esize cs) in
    (fix go (cs : list ex3) (off : N) : list pex :=
       match cs with
       | [] => []
       | c :: r => map (POff off tot) (alts c) ++ go r (off + esize c)
       end) cs 0
  end.
Definition alts_dims (dims : list ex3) : list (list pex) := product (map alts dims).

(* leaves in nodes() order: (name, len, marked) *)
Fixpoint pleaves (p : pex) : list (N * N * bool) :=
  match p with
  | PAx n l m => [(n, l, m)]
  | PFl cs => flat_map pleaves cs
  | POff _ _ i => pleaves i
  end.
Definition leaves (dims : list pex) : list (N * N * bool) := flat_map pleaves dims.

(* ------------------------------------------------------------------ environments, positions *)
Definition env := list (N * N).
Fixpoint lookup (rho : env) (n : N) : N :=
  match rho with
  | [] => 0                                (* absent names are length-1 axes: index 0 *)
  | (k, v) :: r => if k =? n then v else lookup r n
  end.

(* mixed radix, most significant first *)
Fixpoint ravel (idx lens : list N) : N :=
  match idx, lens with
  | i :: ir, l :: lr => i * nprod lr + ravel ir lr
  | _, _ => 0
  end.

Fixpoint pidx (rho : env) (p : pex) : N :=
  match p with
  | PAx n _ _ => lookup rho n
  | PFl cs => ravel (map (pidx rho) cs) (map psize cs)
  | POff off _ i => off + pidx rho i
  end.
Definition pos (rho : env) (dims : list pex) : N := ravel (map (pidx rho) dims) (map psize dims).

Definition nrange (n : N) : list N := map N.of_nat (seq 0 (N.to_nat n)).

(* all environments over the given (name, len) axes, first axis slowest *)
Fixpoint envs (axes : list (N * N)) : list env :=
  match axes with
  | [] => [[]]
  | (n, l) :: r => flat_map (fun i => map (cons (n, i)) (envs r)) (nrange l)
  end.

Definition memN (n : N) (l : list N) : bool := existsb (N.eqb n) l.
Fixpoint dedup_axes (l : list (N * N)) (seen : list N) : list (N * N) :=
  match l with
  | [] => []
  | (n, len) :: r => if memN n seen then dedup_axes r seen else (n, len) :: dedup_axes r (n :: seen)
  end.
Definition unmarked_axes (ls : list (N * N * bool)) : list (N * N) :=
  dedup_axes (map (fun x => (fst (fst x), snd (fst x))) (filter (fun x => negb (snd x)) ls)) [].
Definition marked_names (ls : list (N * N * bool)) : list (N * N) :=
  dedup_axes (map (fun x => (fst (fst x), snd (fst x))) (filter (fun x => snd x) ls)) [].

(* give every *occurrence* of a marked leaf its own name (marked axes of one tensor are the
   positional axes of the sub-tensor handed to the elementary operation); fresh names count
   upwards from [base] *)
Fixpoint rename_marked (p : pex) (k : N) : pex * N :=
  match p with
  | PAx n l true => (PAx k l true, k + 1)
  | PAx n l false => (p, k)
  | PFl cs =>
    let '(cs', k') := (fix go (cs : list pex) (k : N) : list pex * N :=
                         match cs with
                         | [] => ([], k)
                         | c :: r => let '(c', k1) := rename_marked c k in
                                     let '(r', k2) := go r k1 in (c' :: r', k2)
                         end) cs k in
    (PFl cs', k')
  | POff o t i => let '(i', k') := rename_marked i k in (POff o t i', k')
  end.
Fixpoint rename_marked_dims (dims : list pex) (k : N) : list pex :=
  match dims with
  | [] => []
  | d :: r => let '(d', k') := rename_marked d k in d' :: rename_marked_dims r k'
  end.
Definition marked_occ (dims : list pex) : list (N * N) :=
  map (fun x => (fst (fst x), snd (fst x))) (filter (fun x => snd x) (leaves dims)).

Definition fresh_base : N := 1000000.

(* a concatenation-free tensor expression has exactly one piece *)
Definition single (dims : list ex3) : option (list pex) :=
  match alts_dims dims with [p] => Some p | _ => None end.
Fixpoint singles (l : list (list ex3)) : option (list (list pex)) :=
  match l with
  | [] => Some []
  | d :: r => match single d, singles r with Some p, Some ps => Some (p :: ps) | _, _ => None end
  end.

(* ------------------------------------------------------------------ plans *)
(* id: per output tensor, (output position, (input tensor, input position)) *)
Definition tag_pieces (ts : list (list ex3)) : list (N * list pex) :=
  concat (map (fun kt => map (fun p => (fst kt, p)) (alts_dims (snd kt)))
              (combine (nrange (N.of_nat (length ts))) ts)).

Definition plan_id (ins outs : list (list ex3)) : option (list (N * N * (N * N))) :=
  let pin := tag_pieces ins in
  let pout := tag_pieces outs in
  if negb (Nat.eqb (length pin) (length pout)) then None
  else Some (flat_map (fun io =>
         let '((ki, pi), (ko, po)) := io in
         map (fun rho => (ko, pos rho po, (ki, pos rho pi)))
             (envs (unmarked_axes (leaves po))))
       (combine pin pout)).

(* elementwise: (output position, [input positions, one per input]) *)
Definition plan_elementwise (ins : list (list ex3)) (out : list ex3) : option (list (N * list N)) :=
  match singles ins, single out with
  | Some pins, Some pout =>
    Some (map (fun rho => (pos rho pout, map (pos rho) pins)) (envs (unmarked_axes (leaves pout))))
  | _, _ => None
  end.

(* reduce: (output position, input positions over all bracket environments) *)
Definition plan_reduce (inp out : list ex3) : option (list (N * list N)) :=
  match single inp, single out with
  | Some pin0, Some pout =>
    let pin := rename_marked_dims pin0 fresh_base in
    let benv := envs (marked_occ pin) in
    Some (map (fun rho => (pos rho pout, map (fun rb => pos (rb ++ rho) pin) benv))
              (envs (unmarked_axes (leaves pout))))
  | _, _ => None
  end.

(* dot: (output position, for every contraction environment the input positions) *)
Definition plan_dot (ins : list (list ex3)) (out : list ex3) : option (list (N * list (list N))) :=
  match singles ins, single out with
  | Some pins, Some pout =>
    let benv := envs (marked_names (flat_map leaves pins)) in
    Some (map (fun rho => (pos rho pout, map (fun rb => map (pos (rb ++ rho)) pins) benv))
              (envs (unmarked_axes (leaves pout))))
  | _, _ => None
  end.

(* preserve_shape: per environment of the un-bracketed axes: (input positions of the sub-tensor,
   output positions of the sub-tensor), both in row-major order of the bracketed axes as they
   occur in the respective expression; plus the sub-tensor shape *)
Definition plan_preserve (inp out : list ex3) : option (list N * list (list N * list N)) :=
  match single inp, single out with
  | Some pin0, Some pout0 =>
    let pin := rename_marked_dims pin0 fresh_base in
    let pout := rename_marked_dims pout0 fresh_base in
    let benv := envs (marked_occ pin) in
    Some (map snd (marked_occ pin),
          map (fun rho => (map (fun rb => pos (rb ++ rho) pin) benv, map (fun rb => pos (rb ++ rho) pout) benv))
              (envs (unmarked_axes (leaves pout))))
  | _, _ => None
  end.

(* argfind: per environment of the un-bracketed output axes: (input positions of the sub-tensor,
   output positions for component 0..k-1 of the unravelled index; a single position when the
   output has no bracketed axis) *)
Definition plan_argfind (inp out : list ex3) : option (list N * list (list N * list N)) :=
  match single inp, single out with
  | Some pin0, Some pout =>
    let pin := rename_marked_dims pin0 fresh_base in
    let benv := envs (marked_occ pin) in
    let oenv := envs (marked_names (leaves pout)) in
    Some (map snd (marked_occ pin),
          map (fun rho => (map (fun rb => pos (rb ++ rho) pin) benv, map (fun ro => pos (ro ++ rho) pout) oenv))
              (envs (unmarked_axes (leaves pout))))
  | _, _ => None
  end.

(* ---- indexing with data ---- *)
Definition getZ (d : list Z) (i : N) : Z := nth (N.to_nat i) d 0%Z.

(* coordinates addressed by environment rho: for every coordinate tensor, all components along
   its bracketed axis (one component if it has none) *)
Definition coords_at (rho : env) (coords : list (list pex * list Z)) : list Z :=
  flat_map (fun cd =>
      let '(c, d) := cd in
      match marked_names (leaves c) with
      | [] => [getZ d (pos rho c)]
      | (n, l) :: _ => map (fun i => getZ d (pos ((n, i) :: rho) c)) (nrange l)
      end) coords.

(* position in the target: bracketed target axes (in order) take the coordinates *)
Definition target_pos (rho : env) (t : list pex) (cs : list Z) : option N :=
  let mk := marked_occ t in
  if negb (Nat.eqb (length mk) (length cs)) then None
  else if forallb (fun nc => let '((_, l), c) := nc in (0 <=? c)%Z && (c <? Z.of_N l)%Z) (combine mk cs)
  then Some (pos (combine (map fst mk) (map Z.to_N cs) ++ rho) t)
  else None.

Definition opt_all {A} (l : list (option A)) : option (list A) :=
  fold_right (fun o acc => match o, acc with Some a, Some r => Some (a :: r) | _, _ => None end) (Some []) l.

(* get_at: (output position, position in the tensor that is read) *)
Definition plan_get_at (t : list ex3) (coords : list (list ex3 * list Z)) (out : list ex3)
  : option (list (N * N)) :=
  match single t, singles (map fst coords), single out with
  | Some pt0, Some pcs, Some pout =>
    let pt := rename_marked_dims pt0 fresh_base in
    let cds := combine pcs (map snd coords) in
    opt_all (map (fun rho =>
                    match target_pos rho pt (coords_at rho cds) with
                    | Some p => Some (pos rho pout, p)
                    | None => None
                    end) (envs (unmarked_axes (leaves pout))))
  | _, _, _ => None
  end.

(* update_at: list of (target position, position in the update tensor), one entry per
   environment of all un-bracketed axes of target, coordinates and updates, in loop order *)
Definition plan_update_at (t : list ex3) (coords : list (list ex3 * list Z)) (upd : list ex3)
  : option (list (N * N)) :=
  match single t, singles (map fst coords), single upd with
  | Some pt0, Some pcs, Some pu =>
    let pt := rename_marked_dims pt0 fresh_base in
    let cds := combine pcs (map snd coords) in
    let vec := dedup_axes (unmarked_axes (flat_map leaves pcs) ++ unmarked_axes (leaves pu)
                           ++ unmarked_axes (leaves pt)) [] in
    opt_all (map (fun rho =>
                    match target_pos rho pt (coords_at rho cds) with
                    | Some p => Some (p, pos rho pu)
                    | None => None
                    end) (envs vec))
  | _, _, _ => None
  end.
