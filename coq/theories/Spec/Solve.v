(* Size constraints of einx expressions and a reference solver by substitution ("one flattened /
   concatenated axis at a time").  Variables are axis names (equal names = one variable), all
   lengths are positive integers of unbounded size (N).  An equation says that a tensor dimension,
   a keyword size or a number equals the value its expression denotes. *)
From Coq Require Import List NArith Bool Arith.
Import ListNotations.
Open Scope N_scope.

Inductive cexp := CV (x : nat) | CN (n : N) | CProd (l : list cexp) | CSum (l : list cexp).
Definition equation := (cexp * N)%type.

Definition nprod (l : list N) : N := fold_right N.mul 1 l.
Definition nsum (l : list N) : N := fold_right N.add 0 l.

Fixpoint eval (tau : nat -> N) (e : cexp) : N :=
  match e with
  | CV x => tau x
  | CN n => n
  | CProd l => nprod (map (eval tau) l)
  | CSum l => nsum (map (eval tau) l)
  end.
Definition sat (tau : nat -> N) (sys : list equation) : Prop := Forall (fun ev => eval tau (fst ev) = snd ev) sys.
Definition pos (tau : nat -> N) : Prop := forall x, 1 <= tau x.

(* ---- partial assignments ---- *)
Definition passign := list (nat * N).
Fixpoint plookup (s : passign) (x : nat) : option N :=
  match s with [] => None | (k, v) :: r => if Nat.eqb k x then Some v else plookup r x end.
Definition agree (tau : nat -> N) (s : passign) : Prop := forall x v, plookup s x = Some v -> tau x = v.

Definition omap_all {A B} (f : A -> option B) : list A -> option (list B) :=
  fix go (l : list A) : option (list B) :=
    match l with
    | [] => Some []
    | x :: r => match f x, go r with Some a, Some b => Some (a :: b) | _, _ => None end
    end.

Fixpoint peval (s : passign) (e : cexp) : option N :=
  match e with
  | CV x => plookup s x
  | CN n => Some n
  | CProd l => option_map nprod (omap_all (peval s) l)
  | CSum l => option_map nsum (omap_all (peval s) l)
  end.

Definition is_known (s : passign) (e : cexp) : bool := match peval s e with Some _ => true | None => false end.
Definition kval (s : passign) (e : cexp) : N := match peval s e with Some v => v | None => 1 end.

Inductive inv_res := IAssign (x : nat) (v : N) | IOk | IContra | IStuck.

(* solve [e = v] for its single unknown variable, if it has exactly one unknown sub-expression at
   every level; running out of fuel only loses information *)
Fixpoint invert (fuel : nat) (s : passign) (e : cexp) (v : N) : inv_res :=
  match fuel with
  | O => IStuck
  | S f =>
    match e with
    | CV x => match plookup s x with
              | Some k => if k =? v then IOk else IContra
              | None => if 1 <=? v then IAssign x v else IContra
              end
    | CN n => if n =? v then IOk else IContra
    | CProd l =>
      let k := nprod (map (kval s) (filter (is_known s) l)) in
      match filter (fun x => negb (is_known s x)) l with
      | [] => if k =? v then IOk else IContra
      | [u] => if k =? 0 then IStuck
               else if v mod k =? 0 then invert f s u (v / k) else IContra
      | _ => if k =? 0 then IStuck else if v mod k =? 0 then (if 1 <=? v / k then IStuck else IContra) else IContra
      end
    | CSum l =>
      let k := nsum (map (kval s) (filter (is_known s) l)) in
      match filter (fun x => negb (is_known s x)) l with
      | [] => if k =? v then IOk else IContra
      | [u] => if k <=? v then invert f s u (v - k) else IContra
      | un => if k + N.of_nat (List.length un) <=? v then IStuck else IContra     (* every part is at least 1 *)
      end
    end
  end.

Inductive outcome := Det (s : passign) | Contra | Unknown (s : passign).

Fixpoint scan (fuel : nat) (s : passign) (sys : list equation) : inv_res :=
  (* first equation that forces a value or is contradictory *)
  match sys with
  | [] => IOk
  | (e, v) :: r =>
    match invert fuel s e v with
    | IAssign x val => IAssign x val
    | IContra => IContra
    | _ => scan fuel s r
    end
  end.

Definition all_ok (fuel : nat) (s : passign) (sys : list equation) : bool :=
  forallb (fun ev => match invert fuel s (fst ev) (snd ev) with IOk => true | _ => false end) sys.

Fixpoint propagate (rounds fuel : nat) (s : passign) (sys : list equation) : outcome :=
  match rounds with
  | O => Unknown s
  | S r =>
    match scan fuel s sys with
    | IAssign x val => propagate r fuel ((x, val) :: s) sys
    | IContra => Contra
    | _ => if all_ok fuel s sys then Det s else Unknown s
    end
  end.

(* a total assignment out of a partial one (unassigned variables do not occur in a Det system) *)
Definition total (s : passign) (x : nat) : N := match plookup s x with Some v => v | None => 1 end.
