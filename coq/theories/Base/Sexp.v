(* S-expressions: the wire format between the OCaml driver and the executable models.
   Everything here is glue (encoders / decoders); no property theorem depends on it. *)
From Coq Require Import List String Ascii NArith ZArith DecimalString Decimal.
Import ListNotations.
Open Scope string_scope.

Inductive sexp := A (s : string) | L (l : list sexp).

Definition string_of_N (n : N) : string := NilZero.string_of_uint (N.to_uint n).
Definition string_of_nat (n : nat) : string := string_of_N (N.of_nat n).
Definition string_of_Z (z : Z) : string :=
  match z with
  | Z0 => "0"
  | Zpos p => string_of_N (Npos p)
  | Zneg p => String "-" (string_of_N (Npos p))
  end.

Definition N_of_string (s : string) : option N :=
  match NilZero.uint_of_string s with
  | Some u => Some (N.of_uint u)
  | None => None
  end.
Definition Z_of_string (s : string) : option Z :=
  match s with
  | String "-" r => match N_of_string r with Some n => Some (Z.opp (Z.of_N n)) | None => None end
  | _ => match N_of_string s with Some n => Some (Z.of_N n) | None => None end
  end.

Definition sN (n : N) := A (string_of_N n).
Definition sNat (n : nat) := A (string_of_nat n).
Definition sZ (z : Z) := A (string_of_Z z).
Definition sB (b : bool) := A (if b then "T" else "F").
Definition sListN (l : list N) := L (map sN l).
Definition sListNat (l : list nat) := L (map sNat l).
Definition sListZ (l : list Z) := L (map sZ l).
Definition sOpt {X} (f : X -> sexp) (o : option X) := match o with Some x => L [f x] | None => L [] end.

Definition dN (s : sexp) : option N := match s with A a => N_of_string a | _ => None end.
Definition dNat (s : sexp) : option nat := option_map N.to_nat (dN s).
Definition dZ (s : sexp) : option Z := match s with A a => Z_of_string a | _ => None end.
Definition dB (s : sexp) : option bool :=
  match s with A "T" => Some true | A "F" => Some false | _ => None end.
Definition dStr (s : sexp) : option string := match s with A a => Some a | _ => None end.

Fixpoint mapM {X Y} (f : X -> option Y) (l : list X) : option (list Y) :=
  match l with
  | [] => Some []
  | x :: r => match f x, mapM f r with Some y, Some ys => Some (y :: ys) | _, _ => None end
  end.
Definition dList {X} (f : sexp -> option X) (s : sexp) : option (list X) :=
  match s with L l => mapM f l | _ => None end.
Definition dListN := dList dN.
Definition dListNat := dList dNat.
Definition dListZ := dList dZ.
Definition dOpt {X} (f : sexp -> option X) (s : sexp) : option (option X) :=
  match s with L [] => Some None | L [x] => option_map Some (f x) | _ => None end.

Definition bad (msg : string) : sexp := L [A "BADCASE"; A msg].
