(* Executable model of einx/_src/namedtensor/stage1/{parse.py,tree.py}: lexer, space
   de-duplication, delimiter grouping, the recursive-descent parse, both move_up passes,
   traverse, the two final checks, and every __str__.  No proofs here (Proofs/ParseProofs.v).

   Characters are Unicode code points (N).  Positions are Z because the source uses -1 for
   "no position".  Every `assert` / unchecked lookup of the modelled source that is not
   guarded by an `if` on the line before it has its own [Internal site] outcome.            *)
From Coq Require Import List NArith ZArith Bool.
Import ListNotations.
Open Scope Z_scope.

Inductive result (A : Type) :=
| Ok (a : A)
| Err (site : nat) (pos : list Z)     (* einx.errors.SyntaxError raised at source line [site] *)
| Internal (site : nat).              (* AssertionError / IndexError / ValueError at line [site] *)
Arguments Ok {A} _. Arguments Err {A} _ _. Arguments Internal {A} _.

Definition bind {A B} (r : result A) (f : A -> result B) : result B :=
  match r with Ok a => f a | Err s p => Err s p | Internal s => Internal s end.
Notation "'do' x <- r ; k" := (bind r (fun x => k)) (at level 200, x name, r at level 100, k at level 200).
Notation "'do' ' p <- r ; k" := (bind r (fun x => match x with p => k end)) (at level 200, p pattern, r at level 100, k at level 200).

Fixpoint sequence {A} (l : list (result A)) : result (list A) :=
  match l with
  | [] => Ok []
  | r :: rest => do a <- r; do rs <- sequence rest; Ok (a :: rs)
  end.

(* ---------------------------------------------------------------- characters ----------- *)
Definition is_lower (c : N) := (97 <=? c)%N && (c <=? 122)%N.
Definition is_upper (c : N) := (65 <=? c)%N && (c <=? 90)%N.
Definition is_digit (c : N) := (48 <=? c)%N && (c <=? 57)%N.
Definition is_name_start (c : N) := is_lower c || is_upper c || (c =? 95)%N.
Definition is_name_char (c : N) := is_name_start c || is_digit c.
Definition is_name (cs : list N) : bool :=
  match cs with [] => false | c :: r => is_name_start c && forallb is_name_char r end.
Definition is_number (cs : list N) : bool :=
  match cs with [] => false | _ => forallb is_digit cs end.
Definition digits_value (cs : list N) : N := fold_left (fun acc c => (acc * 10 + (c - 48))%N) cs 0%N.

(* ---------------------------------------------------------------- tokens --------------- *)
Inductive lit := LArrow | LComma | LPlus | LSpace | LOpenP | LOpenB | LCloseP | LCloseB | LDots.
Definition lit_eqb (a b : lit) : bool :=
  match a, b with
  | LArrow, LArrow | LComma, LComma | LPlus, LPlus | LSpace, LSpace | LOpenP, LOpenP
  | LOpenB, LOpenB | LCloseP, LCloseP | LCloseB, LCloseB | LDots, LDots => true
  | _, _ => false
  end.
Definition lit_text (l : lit) : list N :=
  match l with
  | LArrow => [45; 62] | LComma => [44] | LPlus => [43] | LSpace => [32] | LOpenP => [40]
  | LOpenB => [91] | LCloseP => [41] | LCloseB => [93] | LDots => [46; 46; 46]
  end%N.
(* _nary_ops, in the order the parser tries them = loosest binding first *)
Definition nary_ops : list lit := [LArrow; LComma; LPlus; LSpace].

Inductive tkind := TLit (l : lit) | TName (cs : list N) | TNum (cs : list N) | TBad (cs : list N).
Record token := mkTok { tbeg : Z; tend : Z; tk : tkind }.

Definition classify (run : list N) : tkind :=
  if is_name run then TName run else if is_number run then TNum run else TBad run.

(* flush the pending run (kept reversed) as one token ending at [pos] *)
Definition flush (run : list N) (pos : Z) : list token :=
  match run with
  | [] => []
  | _ => [mkTok (pos - Z.of_nat (length run)) pos (classify (rev run))]
  end.

Fixpoint lex (cs : list N) (pos : Z) (run : list N) : list token :=
  match cs with
  | [] => flush run pos
  | c :: r =>
    let one (l : lit) := flush run pos ++ mkTok pos (pos + 1) (TLit l) :: lex r (pos + 1) [] in
    match c with
    | 45%N => match r with
              | 62%N :: r2 => flush run pos ++ mkTok pos (pos + 2) (TLit LArrow) :: lex r2 (pos + 2) []
              | _ => lex r (pos + 1) (c :: run)
              end
    | 46%N => match r with
              | 46%N :: 46%N :: r3 => flush run pos ++ mkTok pos (pos + 3) (TLit LDots) :: lex r3 (pos + 3) []
              | _ => lex r (pos + 1) (c :: run)
              end
    | 44%N => one LComma
    | 43%N => one LPlus
    | 32%N => one LSpace
    | 40%N => one LOpenP
    | 91%N => one LOpenB
    | 41%N => one LCloseP
    | 93%N => one LCloseB
    | _ => lex r (pos + 1) (c :: run)
    end
  end.

Definition range (b e : Z) : list Z := map (fun i => b + Z.of_nat i) (seq 0 (Z.to_nat (e - b))).

Fixpoint first_bad (ts : list token) : option token :=
  match ts with
  | [] => None
  | t :: r => match tk t with TBad _ => Some t | _ => first_bad r end
  end.

Definition is_space (t : token) : bool := match tk t with TLit LSpace => true | _ => false end.

Fixpoint dedupe (ts : list token) (last_ws : bool) : list token :=
  match ts with
  | [] => []
  | t :: r => if is_space t then (if last_ws then dedupe r true else t :: dedupe r true)
              else t :: dedupe r false
  end.

(* ---------------------------------------------------------------- grouping ------------- *)
Inductive ttree := TT (t : token) | TG (paren : bool) (op cl : token) (inner : list ttree).

(* stack entries: (is_paren, opening token, reversed children so far) *)
Fixpoint group (ts : list token) (stack : list (bool * token * list ttree)) (cur : list ttree)
  : result (list ttree) :=
  match ts with
  | [] => match stack with
          | [] => Ok (rev cur)
          | (_, o, _) :: _ => Err 128 (range (tbeg o) (tend o))
          end
  | t :: r =>
    match tk t with
    | TLit LOpenP => group r ((true, t, cur) :: stack) []
    | TLit LOpenB => group r ((false, t, cur) :: stack) []
    | TLit LCloseP =>
      match stack with
      | (true, o, outer) :: st => group r st (TG true o t (rev cur) :: outer)
      | _ => Err 118 (range (tbeg t) (tend t))
      end
    | TLit LCloseB =>
      match stack with
      | (false, o, outer) :: st => group r st (TG false o t (rev cur) :: outer)
      | _ => Err 118 (range (tbeg t) (tend t))
      end
    | _ => group r stack (TT t :: cur)
    end
  end.

(* ---------------------------------------------------------------- stage1 trees --------- *)
Inductive aname := NName (cs : list N) | NAnon | NUnnamed (id : Z).
Inductive expr :=
| EAxis (n : aname) (v : option N) (b e : Z)
| EList (cs : list expr) (b e : Z)
| EFlat (i : expr) (b e : Z)
| ECat (cs : list expr) (b e : Z)
| EBr (i : expr) (b e : Z)
| EEll (i : expr) (b e : Z) (id : Z * Z)
| EArgs (cs : list expr) (b e : Z)
| EOp (cs : list expr) (b e : Z).

Definition ebeg (x : expr) : Z :=
  match x with EAxis _ _ b _ | EList _ b _ | EFlat _ b _ | ECat _ b _ | EBr _ b _ | EEll _ b _ _
             | EArgs _ b _ | EOp _ b _ => b end.
Definition eend (x : expr) : Z :=
  match x with EAxis _ _ _ e | EList _ _ e | EFlat _ _ e | ECat _ _ e | EBr _ _ e | EEll _ _ e _
             | EArgs _ _ e | EOp _ _ e => e end.

Definition osum (l : list (option nat)) : option nat :=
  fold_right (fun o acc => match o, acc with Some a, Some b => Some (a + b)%nat | _, _ => None end) (Some 0%nat) l.

Fixpoint ndim (x : expr) : option nat :=
  match x with
  | EAxis _ _ _ _ => Some 1%nat
  | EList cs _ _ => osum (map ndim cs)
  | EFlat _ _ _ => Some 1%nat
  | ECat _ _ _ => Some 1%nat
  | EBr i _ _ => ndim i
  | EEll i _ _ _ => match ndim i with Some 0%nat => Some 0%nat | _ => None end
  | EArgs _ _ _ => None
  | EOp _ _ _ => None
  end.
Definition ndim0 (x : expr) : bool := match ndim x with Some 0%nat => true | _ => false end.
Definition ndim1 (x : expr) : bool := match ndim x with Some 1%nat => true | _ => false end.

(* the normalising constructors of tree.py *)
Definition empty_list : expr := EList [] (-1) (-1).
Definition flat_create (i : expr) (b e : Z) : expr := match i with EFlat _ _ _ => i | _ => EFlat i b e end.
Definition br_create (i : expr) (b e : Z) : expr :=
  match i with EBr _ _ _ => i | _ => if ndim0 i then empty_list else EBr i b e end.
Definition ell_create (i : expr) (b e : Z) (id : Z * Z) : expr :=
  if ndim0 i then empty_list else EEll i b e id.
Definition list_flatten1 (x : expr) : list expr :=
  (* List.create._add; children of an existing List are never Lists, one level suffices *)
  match x with EList cs _ _ => cs | _ => [x] end.
Definition list_create (cs : list expr) (b e : Z) : expr :=
  match flat_map list_flatten1 cs with
  | [x] => x
  | cs' => EList cs' b e
  end.
Definition cat_create (cs : list expr) (b e : Z) : result expr :=
  match cs with
  | [] => Internal 211
  | [x] => Ok x
  | _ => if forallb ndim1 cs then Ok (ECat cs b e) else Internal 221
  end.
Definition op_create (cs : list expr) (b e : Z) : result expr :=
  match cs with [] => Internal 360 | _ => Ok (EOp cs b e) end.
Definition is_args (x : expr) : bool := match x with EArgs _ _ _ => true | _ => false end.
Definition args_create (cs : list expr) (b e : Z) : result expr :=
  if existsb is_args cs then Internal 324 else Ok (EArgs cs b e).

(* ---------------------------------------------------------------- parse ---------------- *)
Inductive item := ITok (t : token) | IGrp (b e : Z) (r : result expr).
Definition ibeg (i : item) := match i with ITok t => tbeg t | IGrp b _ _ => b end.
Definition iend (i : item) := match i with ITok t => tend t | IGrp _ e _ => e end.
Definition item_is (l : lit) (i : item) : bool :=
  match i with ITok t => match tk t with TLit l' => lit_eqb l l' | _ => false end | _ => false end.

Fixpoint strip_front (is : list item) : list item :=
  match is with i :: r => if item_is LSpace i then strip_front r else is | [] => [] end.
Definition strip (is : list item) : list item := rev (strip_front (rev (strip_front is))).

(* split at every occurrence of [l]; each operand comes with the begin position the source
   gives its TokenList (first token, else the separator's begin; for the last operand the
   separator's end) *)
Fixpoint split_at (l : lit) (is : list item) (cur : list item) (last_sep_end : Z) : list (list item * Z) :=
  match is with
  | [] => [(rev cur, match rev cur with i :: _ => ibeg i | [] => last_sep_end end)]
  | i :: r =>
    if item_is l i then
      (rev cur, match rev cur with j :: _ => ibeg j | [] => ibeg i end) :: split_at l r [] (iend i)
    else split_at l r (i :: cur) last_sep_end
  end.

Definition tl_end (is : list item) (b : Z) : Z := match rev is with i :: _ => iend i | [] => b end.
Definition is_axis_or_flat (x : expr) : bool :=
  match x with EAxis _ _ _ _ | EFlat _ _ _ => true | _ => false end.

Definition atom1 (i : item) : result expr :=
  match i with
  | IGrp _ _ r => r
  | ITok t =>
    match tk t with
    | TNum cs => Ok (EAxis (NUnnamed (tbeg t)) (Some (digits_value cs)) (tbeg t) (tend t))
    | TName cs => Ok (EAxis (NName cs) None (tbeg t) (tend t))
    | TLit LDots => Ok (ell_create (EAxis NAnon None (tbeg t) (tbeg t)) (tbeg t) (tend t) (tbeg t, tend t))
    | _ => Internal 237
    end
  end.

Definition parse_atoms (is : list item) : result expr :=
  match is with
  | [i] => atom1 i
  | [i; j] =>
    if item_is LDots j then
      do operand <- atom1 i; Ok (ell_create operand (ibeg i) (iend j) (ibeg i, iend j))
    else Err 243 (range (ibeg i) (iend j))
  | i :: _ => Err 243 (range (ibeg i) (tl_end is 0))
  | [] => Internal 154
  end.

(* parse(in_tokens, is_parent_composition) for a token list without the outer delimiters.
   [b] [e]: begin/end position of the TokenList object (used only for the empty expression). *)
Fixpoint parse_ops (ops : list lit) (comp : bool) (b e : Z) (is0 : list item) : result expr :=
  let is := strip is0 in
  match is with
  | [] => Ok (EList [] b e)
  | [IGrp _ _ r] => r
  | first :: _ =>
    let bp := ibeg first in
    let ep := tl_end is bp in
    match ops with
    | [] => parse_atoms is
    | op :: rest =>
      if existsb (item_is op) is then
        let operands := split_at op is [] 0 in
        let operands := match op with
                        | LSpace => filter (fun o => match fst o with [] => false | _ => true end) operands
                        | _ => operands end in
        do xs <- sequence (map (fun o => parse_ops rest false (snd o) (tl_end (fst o) (snd o)) (fst o)) operands);
        match op with
        | LSpace => Ok (list_create xs bp ep)
        | LArrow => op_create xs bp ep
        | LComma => args_create xs bp ep
        | LPlus =>
          let invalid := filter (fun x => negb (is_axis_or_flat x)) xs in
          match invalid with
          | _ :: _ =>
            Err 210 (flat_map (fun x => range (ebeg x) (eend x)) invalid
                     ++ flat_map (fun i => if item_is LPlus i then range (ibeg i) (iend i) else []) is)
          | [] => if comp then cat_create xs bp ep else Err 216 (range bp ep)
          end
        | _ => Internal 219
        end
      else parse_ops rest comp b e is
    end
  end.

Definition group_result (paren : bool) (o c : token) (inner : list item) : result expr :=
  let ib := match inner with i :: _ => ibeg i | [] => tbeg c end in
  do x <- parse_ops nary_ops paren ib (tl_end inner ib) inner;
  if paren then
    match x with ECat _ _ _ => Ok x | _ => Ok (flat_create x (tbeg o) (tend c)) end
  else Ok (br_create x (tbeg o) (tend c)).

Fixpoint pre (t : ttree) : item :=
  match t with
  | TT tok => ITok tok
  | TG paren o c inner => IGrp (tbeg o) (tend c) (group_result paren o c (map pre inner))
  end.

Definition parse_top (ts : list ttree) : result expr :=
  let is := map pre ts in
  parse_ops nary_ops false 0 (tl_end is 0) is.

(* ---------------------------------------------------------------- move_up -------------- *)
Definition dedup_nat (l : list nat) : list nat := nodup Nat.eq_dec l.

Definition nth_res {A} (l : list A) (i : nat) (site : nat) : result A :=
  match nth_error l i with Some a => Ok a | None => Internal site end.

(* the common List/Concat/Args distribution: [alts] = children of the Op/Args returned for each
   child; returns the list of re-assembled alternatives' children lists *)
Definition distribute (alts : list (list expr)) (arrow_pos : list Z) (site : nat)
  : result (list (list expr)) :=
  let nums := dedup_nat (filter (fun n => negb (Nat.eqb n 1)) (map (@length expr) alts)) in
  match nums with
  | _ :: _ :: _ => Err site arrow_pos
  | _ =>
    let num := match nums with [n] => n | _ => 1%nat end in
    sequence (map (fun idx =>
        sequence (map (fun (a : list expr) =>
            match a with [x] => Ok x | _ => nth_res a idx (site + 12) end) alts))
      (seq 0 num))
  end.

Definition mk_op3 (cs : list expr) (b e : Z) : result (list expr * Z * Z) :=
  match cs with [] => Internal 360 | _ => Ok (cs, b, e) end.       (* Op.__init__ assert *)
Definition mk_args3 (cs : list expr) (b e : Z) : result (list expr * Z * Z) :=
  if existsb is_args cs then Internal 324 else Ok (cs, b, e).       (* Args.__init__ assert *)

(* move_up for Op: returns (children, begin, end) of the resulting Op *)
Fixpoint mu_op (arrow_pos : list Z) (x : expr) : result (list expr * Z * Z) :=
  match x with
  | EAxis _ _ _ _ => mk_op3 [x] (-1) (-1)
  | EFlat i b e => do '(cs, ob, oe) <- mu_op arrow_pos i; mk_op3 (map (fun a => flat_create a b e) cs) ob oe
  | EBr i b e => do '(cs, ob, oe) <- mu_op arrow_pos i; mk_op3 (map (fun a => br_create a b e) cs) ob oe
  | EEll i b e id => do '(cs, ob, oe) <- mu_op arrow_pos i; mk_op3 (map (fun a => ell_create a b e id) cs) ob oe
  | EList cs b e =>
    do subs <- sequence (map (mu_op arrow_pos) cs);
    do alts <- distribute (map (fun s => fst (fst s)) subs) arrow_pos 270;
    mk_op3 (map (fun a => list_create a b e) alts) b e
  | ECat cs b e =>
    do subs <- sequence (map (mu_op arrow_pos) cs);
    do alts <- distribute (map (fun s => fst (fst s)) subs) arrow_pos 270;
    do ys <- sequence (map (fun a => cat_create a b e) alts); mk_op3 (ys) b e
  | EArgs cs b e =>
    do subs <- sequence (map (mu_op arrow_pos) cs);
    do alts <- distribute (map (fun s => fst (fst s)) subs) arrow_pos 270;
    do ys <- sequence (map (fun a => args_create a b e) alts); mk_op3 (ys) b e
  | EOp cs b e =>
    do subs <- sequence (map (mu_op arrow_pos) cs);
    mk_op3 (flat_map (fun s => fst (fst s)) subs) b e
  end.

Fixpoint mu_args (arrow_pos : list Z) (x : expr) : result (list expr * Z * Z) :=
  match x with
  | EAxis _ _ _ _ => mk_args3 [x] (-1) (-1)
  | EFlat i b e => do '(cs, ob, oe) <- mu_args arrow_pos i; mk_args3 (map (fun a => flat_create a b e) cs) ob oe
  | EBr i b e => do '(cs, ob, oe) <- mu_args arrow_pos i; mk_args3 (map (fun a => br_create a b e) cs) ob oe
  | EEll i b e id => do '(cs, ob, oe) <- mu_args arrow_pos i; mk_args3 (map (fun a => ell_create a b e id) cs) ob oe
  | EList cs b e =>
    do subs <- sequence (map (mu_args arrow_pos) cs);
    do alts <- distribute (map (fun s => fst (fst s)) subs) arrow_pos 316;
    mk_args3 (map (fun a => list_create a b e) alts) b e
  | ECat cs b e =>
    do subs <- sequence (map (mu_args arrow_pos) cs);
    do alts <- distribute (map (fun s => fst (fst s)) subs) arrow_pos 316;
    do ys <- sequence (map (fun a => cat_create a b e) alts); mk_args3 (ys) b e
  | EArgs cs b e =>
    do subs <- sequence (map (mu_args arrow_pos) cs);
    mk_args3 (flat_map (fun s => fst (fst s)) subs) b e
  | EOp _ _ _ => Internal 337
  end.

(* ---------------------------------------------------------------- traverse ------------- *)
Fixpoint traverse (inbr : bool) (x : expr) : result expr :=
  match x with
  | EAxis _ _ _ _ => Ok x
  | EFlat i b e => do y <- traverse inbr i; Ok (flat_create y b e)
  | EList cs b e => do ys <- sequence (map (traverse inbr) cs); Ok (list_create ys b e)
  | ECat cs b e => do ys <- sequence (map (traverse inbr) cs); cat_create ys b e
  | EBr i b e => if inbr then traverse true i else do y <- traverse true i; Ok (br_create y b e)
  | EEll i b e id => do y <- traverse inbr i; Ok (ell_create y b e id)
  | EOp cs b e => do ys <- sequence (map (traverse inbr) cs); op_create ys b e
  | EArgs cs b e => do ys <- sequence (map (traverse inbr) cs); args_create ys b e
  end.

(* ---------------------------------------------------------------- final checks --------- *)
Definition aname_eqb (a b : aname) : bool :=
  match a, b with
  | NName x, NName y => if list_eq_dec N.eq_dec x y then true else false
  | NAnon, NAnon => true
  | NUnnamed i, NUnnamed j => Z.eqb i j
  | _, _ => false
  end.

(* all Axis nodes in nodes() order, each with (is_in_brackets, bracket marker positions of all
   enclosing Brackets from the innermost outwards) *)
Fixpoint axes_of (x : expr) (inbr : bool) (brpos : list Z) : list (aname * Z * Z * bool * list Z) :=
  match x with
  | EAxis n _ b e => [(n, b, e, inbr, brpos)]
  | EList cs _ _ | ECat cs _ _ | EArgs cs _ _ | EOp cs _ _ => flat_map (fun c => axes_of c inbr brpos) cs
  | EFlat i _ _ | EEll i _ _ _ => axes_of i inbr brpos
  | EBr i b e => axes_of i true ([b; e - 1] ++ brpos)
  end.

Definition ax_name (a : aname * Z * Z * bool * list Z) := fst (fst (fst (fst a))).
Definition ax_inbr (a : aname * Z * Z * bool * list Z) := snd (fst a).

Definition inconsistent (axs : list (aname * Z * Z * bool * list Z)) (n : aname) : bool :=
  let mine := filter (fun a => aname_eqb (ax_name a) n) axs in
  existsb ax_inbr mine && existsb (fun a => negb (ax_inbr a)) mine.

Definition bracket_check_pos (axs : list (aname * Z * Z * bool * list Z)) (n : aname) : list Z :=
  flat_map (fun a => match a with (n', b, e, _, brpos) =>
                       if aname_eqb n' n then range b e ++ brpos else [] end) axs.

(* ---------------------------------------------------------------- parse_op ------------- *)
Fixpoint literal_positions (cs : list N) (pos : Z) : list Z :=
  match cs with
  | 45%N :: ((62%N :: _) as r) => pos :: (pos + 1) :: literal_positions r (pos + 1)
  | _ :: r => literal_positions r (pos + 1)
  | [] => []
  end.

Definition op_children (x : expr) : list expr := match x with EOp cs _ _ => cs | _ => [] end.

Definition parse_op (text : list N) : result expr :=
  let arrow_pos := literal_positions text 0 in
  let toks := lex text 0 [] in
  match first_bad toks with
  | Some t => Err 73 (range (tbeg t) (tend t))
  | None =>
    do tts <- group (dedupe toks false) [] [];
    do x <- parse_top tts;
    do '(cs, b, e) <- mu_op arrow_pos x;
    do cs2 <- sequence (map (fun c => do '(as_, ab, ae) <- mu_args arrow_pos c; args_create as_ ab ae) cs);
    do y <- op_create cs2 b e;
    do z <- traverse false y;
    if (2 <? length (op_children z))%nat then Err 374 arrow_pos
    else
      let axs := axes_of z false [] in
      (* the source iterates a *set* of names and raises for the first inconsistent one it meets;
         which one that is depends on the hash seed - the model reports the positions of the
         first inconsistent name in tree order and the harness compares error *class* and
         in-range-ness for this site, not the exact positions, when several names qualify *)
      match find (fun a => inconsistent axs (ax_name a)) axs with
      | Some a => Err 397 (bracket_check_pos axs (ax_name a))
      | None => Ok z
      end
  end.

Definition parse_args (text : list N) : result expr :=
  do x <- parse_op text;
  match op_children x with
  | [a] => if is_args a then Ok a else Internal 413
  | _ => Err 412 (literal_positions text 0)
  end.

Fixpoint comma_positions (cs : list N) (pos : Z) : list Z :=
  match cs with 44%N :: r => pos :: comma_positions r (pos + 1) | _ :: r => comma_positions r (pos + 1) | [] => [] end.

Definition parse_arg (text : list N) : result expr :=
  do a <- parse_args text;
  match a with
  | EArgs [x] _ _ => Ok x
  | _ => Err 423 (comma_positions text 0)
  end.

(* ---------------------------------------------------------------- printing ------------- *)
Fixpoint N_digits_fuel (fuel : nat) (n : N) (acc : list N) : list N :=
  match fuel with
  | O => acc
  | S f => let d := (48 + n mod 10)%N in
           if (n <? 10)%N then d :: acc else N_digits_fuel f (n / 10)%N (d :: acc)
  end.
Definition N_digits (n : N) : list N := N_digits_fuel (S (N.to_nat (N.log2 n))) n [].

Fixpoint join (sep : list N) (l : list (list N)) : list N :=
  match l with [] => [] | [x] => x | x :: r => x ++ sep ++ join sep r end.

Definition print_name (n : aname) : list N :=
  match n with
  | NName cs => cs
  | NAnon => [46; 97; 110; 111; 110]%N                 (* never printed by the source: "..." instead *)
  | NUnnamed i => [117; 110; 110; 97; 109; 101; 100; 46]%N ++ N_digits (Z.to_N i)
  end.

Fixpoint print (x : expr) : list N :=
  match x with
  | EAxis n None _ _ => print_name n
  | EAxis _ (Some v) _ _ => N_digits v
  | EList cs _ _ => join [32%N] (map print cs)
  | EFlat i _ _ => [40%N] ++ print i ++ [41%N]
  | ECat cs _ _ => [40%N] ++ join [32; 43; 32]%N (map print cs) ++ [41%N]
  | EBr i _ _ => [91%N] ++ print i ++ [93%N]
  | EEll i _ _ _ =>
    match i with
    | EAxis NAnon _ _ _ => [46; 46; 46]%N
    | EList cs _ _ => (match cs with [_] => print i | _ => [123%N] ++ print i ++ [125%N] end) ++ [46; 46; 46]%N
    | _ => print i ++ [46; 46; 46]%N
    end
  | EArgs cs _ _ => join [44; 32]%N (map print cs)
  | EOp cs _ _ => join [32; 45; 62; 32]%N (map print cs)
  end.

(* structure without positions / identifiers: what `==` on stage1 trees compares (plus ellipsis
   nesting), with unnamed axes compared by value only *)
Fixpoint erase (x : expr) : expr :=
  match x with
  | EAxis (NUnnamed _) v _ _ => EAxis (NUnnamed 0) v 0 0
  | EAxis n v _ _ => EAxis n v 0 0
  | EList cs _ _ => EList (map erase cs) 0 0
  | EFlat i _ _ => EFlat (erase i) 0 0
  | ECat cs _ _ => ECat (map erase cs) 0 0
  | EBr i _ _ => EBr (erase i) 0 0
  | EEll i _ _ _ => EEll (erase i) 0 0 (0, 0)
  | EArgs cs _ _ => EArgs (map erase cs) 0 0
  | EOp cs _ _ => EOp (map erase cs) 0 0
  end.
