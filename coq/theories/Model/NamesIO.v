(* Wire command for the name stream (glue): (names_take (count (reserved ...))) -> the first [count] generated names as text *)
From Coq Require Import List String Ascii Arith Bool.
From EinxV Require Import Base.Sexp Gen.GenNames Model.Names.
Import ListNotations.
Open Scope string_scope.

(* a reserved identifier as a word (least significant letter first); None if it has a character outside the alphabet -
   such a word is never generated, so it need not be looked for *)
Fixpoint word_of_string (s : string) (acc : word) : option word :=
  match s with
  | EmptyString => Some acc
  | String c r =>
    let n := nat_of_ascii c in
    if Nat.leb gen_names_first_char n && Nat.ltb n (gen_names_first_char + gen_names_alphabet)
    then word_of_string r ((n - gen_names_first_char) :: acc) else None
  end.
Fixpoint words_of (l : list string) : list word :=
  match l with
  | [] => []
  | s :: r => match word_of_string s [] with Some w => w :: words_of r | None => words_of r end
  end.

Definition run_names (cmd : string) (arg : sexp) : sexp :=
  match arg with
  | L [c; rs] =>
    match dNat c, dList dStr rs with
    | Some c, Some rs => L (map (fun w => A (render w)) (gen_take (words_of rs) c))
    | _, _ => bad "names: cannot decode"
    end
  | _ => bad "names: expected (count (reserved ...))"
  end.
