(* Decidable equality on symbolic values / events and the validator [agree]. *)
From Coq Require Import List String ZArith Bool Arith.
From EinxV Require Import Model.Ir.
Import ListNotations.

Definition opt_eqb {A} (f : A -> A -> bool) (a b : option A) : bool :=
  match a, b with Some x, Some y => f x y | None, None => true | _, _ => false end.

Fixpoint sval_eqb (a b : sval) {struct a} : bool :=
  let list_eqb := fix go (l1 l2 : list sval) : bool :=
                    match l1, l2 with
                    | [], [] => true
                    | x :: r1, y :: r2 => sval_eqb x y && go r1 r2
                    | _, _ => false
                    end in
  let dict_eqb := fix go (l1 l2 : list (sval * sval)) : bool :=
                    match l1, l2 with
                    | [], [] => true
                    | (k1, v1) :: r1, (k2, v2) :: r2 => sval_eqb k1 k2 && sval_eqb v1 v2 && go r1 r2
                    | _, _ => false
                    end in
  let o_eqb := fun (x y : option sval) =>
                 match x, y with Some p, Some q => sval_eqb p q | None, None => true | _, _ => false end in
  match a, b with
  | SIn i, SIn j => Nat.eqb i j
  | SEv i, SEv j => Nat.eqb i j
  | SInt x, SInt y => Z.eqb x y
  | SStr x, SStr y => String.eqb x y
  | SNone, SNone => true
  | SBool x, SBool y => Bool.eqb x y
  | SFloat x, SFloat y => String.eqb x y
  | STuple l1, STuple l2 => list_eqb l1 l2
  | SList l1, SList l2 => list_eqb l1 l2
  | SDict l1, SDict l2 => dict_eqb l1 l2
  | SSlice a1 b1 c1, SSlice a2 b2 c2 => o_eqb a1 a2 && o_eqb b1 b2 && o_eqb c1 c2
  | SAttr o1 k1, SAttr o2 k2 => sval_eqb o1 o2 && String.eqb k1 k2
  | SItem o1 k1, SItem o2 k2 => sval_eqb o1 o2 && sval_eqb k1 k2
  | SOp p1 l1, SOp p2 l2 => String.eqb p1 p2 && list_eqb l1 l2
  | SPure p1 l1, SPure p2 l2 => String.eqb p1 p2 && list_eqb l1 l2
  | SImport i1 f1, SImport i2 f2 => String.eqb i1 i2 && opt_eqb String.eqb f1 f2
  | SBuiltin x, SBuiltin y => String.eqb x y
  | SConst i, SConst j => Nat.eqb i j
  | _, _ => false
  end.

Fixpoint slist_eqb (l1 l2 : list sval) : bool :=
  match l1, l2 with
  | [], [] => true
  | x :: r1, y :: r2 => sval_eqb x y && slist_eqb r1 r2
  | _, _ => false
  end.
Fixpoint kw_eqb (l1 l2 : list (string * sval)) : bool :=
  match l1, l2 with
  | [], [] => true
  | (k1, v1) :: r1, (k2, v2) :: r2 => String.eqb k1 k2 && sval_eqb v1 v2 && kw_eqb r1 r2
  | _, _ => false
  end.

Definition event_eqb (a b : event) : bool :=
  match a, b with
  | ECall f1 a1 k1, ECall f2 a2 k2 => sval_eqb f1 f2 && slist_eqb a1 a2 && kw_eqb k1 k2
  | EUpdate o1 k1 v1 p1, EUpdate o2 k2 v2 p2 => sval_eqb o1 o2 && sval_eqb k1 k2 && sval_eqb v1 v2 && String.eqb p1 p2
  | EAssert c1 m1, EAssert c2 m2 => sval_eqb c1 c2 && opt_eqb String.eqb m1 m2
  | _, _ => false
  end.
Fixpoint events_eqb (l1 l2 : list event) : bool :=
  match l1, l2 with
  | [], [] => true
  | x :: r1, y :: r2 => event_eqb x y && events_eqb r1 r2
  | _, _ => false
  end.

(* the validator: does the generated code denote the graph? *)
Definition agree (fuel : nat) (g : graph) (pre : list stmt) (c : code) : bool :=
  match seval fuel g, sexec fuel pre c with
  | Some (e1, r1), Some (e2, r2) => events_eqb e1 e2 && sval_eqb r1 r2
  | _, _ => false
  end.

(* index of the first event on which the two sides differ (for the replay file) *)
Fixpoint first_diff (l1 l2 : list event) (k : nat) : option nat :=
  match l1, l2 with
  | [], [] => None
  | x :: r1, y :: r2 => if event_eqb x y then first_diff r1 r2 (S k) else Some k
  | _, _ => Some k
  end.
