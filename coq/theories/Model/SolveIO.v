(* Wire format for the reference solver (glue). *)
From Coq Require Import String List NArith Arith.
From EinxV Require Import Base.Sexp Spec.Solve.
Import ListNotations.
Open Scope string_scope.

Fixpoint dCexp (fuel : nat) (s : sexp) : option cexp :=
  match fuel with
  | O => None
  | S f =>
    match s with
    | L [A "v"; x] => option_map CV (dNat x)
    | L [A "n"; k] => option_map CN (dN k)
    | L [A "prod"; L l] => option_map CProd (mapM (dCexp f) l)
    | L [A "sum"; L l] => option_map CSum (mapM (dCexp f) l)
    | _ => None
    end
  end.
Definition dEq (s : sexp) : option equation :=
  match s with L [e; v] => match dCexp 60 e, dN v with Some e, Some v => Some (e, v) | _, _ => None end | _ => None end.
Definition ePassign (s : passign) : sexp := L (map (fun xv => L [sNat (fst xv); sN (snd xv)]) s).

Definition run_solve (cmd : string) (arg : sexp) : sexp :=
  if String.eqb cmd "solve_propagate" then
    match arg with
    | L eqs =>
      match mapM dEq eqs with
      | Some sys =>
        match propagate (S (List.length sys * 8)) 60 [] sys with
        | Det s => L [A "det"; ePassign s]
        | Contra => A "contra"
        | Unknown s => L [A "unknown"; ePassign s]
        end
      | None => bad "solve_propagate: cannot decode"
      end
    | _ => bad "solve_propagate: expected a list of equations"
    end
  else bad "solve: unknown command".
