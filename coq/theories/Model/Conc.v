(* Interleaving semantics of threads using the registry (einx/_src/frontend/backend.py,
   class BackendRegistry): every method is  [acquire?] ; read self.state ; compute on a private
   copy ; write self.state ; [release?].  A thread that has read but not yet written is
   "pending"; other threads may run in between unless the method holds the lock. *)
From Coq Require Import List ZArith Bool Arith.
From EinxV Require Import Model.Registry.
Import ListNotations.

Definition S := (list nat * rstate)%type.          (* imported modules (environment) and registry state *)

Record tstate := { prog : list rop; pending : option (rop * S); outs : list rres }.
Record gstate := {
  shared : S;
  owner : option nat;                              (* which thread holds use_lock *)
  threads : list tstate;
  log : list (nat * rop)                           (* completed operations, in completion order *)
}.

Section Sched.
  Variable locked : rop -> bool.                   (* does the method hold use_lock around read and write? *)

  Fixpoint upd {A} (l : list A) (i : nat) (x : A) : list A :=
    match l, i with
    | [], _ => []
    | _ :: r, O => x :: r
    | y :: r, Datatypes.S j => y :: upd r j x
    end.

  (* one scheduling decision: thread i makes its next micro-step if it can *)
  Definition sched_step (g : gstate) (i : nat) : gstate :=
    match nth_error (threads g) i with
    | None => g
    | Some t =>
      match pending t with
      | Some (o, snap) =>
        let '(s', r) := step snap o in
        {| shared := s';
           owner := if locked o then None else owner g;
           threads := upd (threads g) i {| prog := prog t; pending := None; outs := outs t ++ [r] |};
           log := log g ++ [(i, o)] |}
      | None =>
        match prog t with
        | [] => g
        | o :: rest =>
          if locked o then
            match owner g with
            | Some _ => g                                  (* blocked on the lock *)
            | None => {| shared := shared g; owner := Some i;
                         threads := upd (threads g) i {| prog := rest; pending := Some (o, shared g); outs := outs t |};
                         log := log g |}
            end
          else {| shared := shared g; owner := owner g;
                  threads := upd (threads g) i {| prog := rest; pending := Some (o, shared g); outs := outs t |};
                  log := log g |}
        end
      end
    end.

  Definition run_sched (g : gstate) (sched : list nat) : gstate := fold_left sched_step sched g.
End Sched.

Definition ginit (s0 : S) (progs : list (list rop)) : gstate :=
  {| shared := s0; owner := None; threads := map (fun p => {| prog := p; pending := None; outs := [] |}) progs; log := [] |}.

(* ---- the serial specification: run operations one after the other ---- *)
Fixpoint serial (s : S) (l : list (nat * rop)) : S * list (nat * rres) :=
  match l with
  | [] => (s, [])
  | (i, o) :: r => let '(s1, x) := step s o in let '(s2, xs) := serial s1 r in (s2, (i, x) :: xs)
  end.
Definition results_of (i : nat) (rs : list (nat * rres)) : list rres :=
  map snd (filter (fun ir => Nat.eqb (fst ir) i) rs).
Definition ops_of (i : nat) (l : list (nat * rop)) : list rop :=
  map snd (filter (fun io => Nat.eqb (fst io) i) l).
