(* Term view of traced graphs (sharing unfolded, identity casts dropped), numpy's meaning of the
   shape-moving primitives on index/value entries, and a normaliser applying the rewrite rules of
   einx/_src/tracer/optimizer/classical.py (side conditions and merged arguments come from the
   regenerated Gen/GenOpt.v).  Two graphs are accepted as equivalent when their normal forms
   coincide; OptProofs.v shows that normalisation preserves the meaning. *)
From Coq Require Import List String NArith Arith Bool.
From EinxV Require Import Spec.LoopSem Gen.GenOpt.
Import ListNotations.
Open Scope N_scope.

Inductive tm :=
| MIn (k : nat) (shape : list N)
| MReshape (x : tm) (shape : list N)
| MTranspose (x : tm) (perm : list nat)
| MBroadcast (x : tm) (shape : list N)
| MConcat (xs : list tm) (axis : nat)
| MOther (f : string) (args : list tm) (lits : list string) (shape : list N).

Definition gather {A} (d : A) (l : list A) (p : list nat) : list A := map (fun k => nth k l d) p.

Fixpoint replace_nth (l : list N) (k : nat) (v : N) : list N :=
  match l, k with
  | [], _ => []
  | _ :: r, O => v :: r
  | x :: r, S j => x :: replace_nth r j v
  end.

Fixpoint mshape (t : tm) : list N :=
  match t with
  | MIn _ s => s
  | MReshape _ s => s
  | MTranspose x p => gather 0 (mshape x) p
  | MBroadcast _ s => s
  | MConcat xs ax =>
    match xs with
    | [] => []
    | x :: _ => replace_nth (mshape x) ax (nsum (map (fun y => nth ax (mshape y) 0) xs))
    end
  | MOther _ _ _ s => s
  end.

(* mixed radix decoding, most significant first *)
Fixpoint unravel (n : N) (lens : list N) : list N :=
  match lens with
  | [] => []
  | _ :: r => (n / nprod r) mod (match lens with l :: _ => l | [] => 1 end) :: unravel (n mod nprod r) r
  end.

Section Meaning.
  Variable V : Type.
  Definition entries := list (list N * V).
  Variable inp : nat -> entries.                                   (* graph inputs *)
  Variable F : string -> list entries -> list string -> entries.   (* every other primitive *)
  Variable BC : list N -> list N -> entries -> entries.            (* numpy.broadcast_to *)
  Variable CC : nat -> list (list N * entries) -> entries.         (* numpy.concatenate *)

  Definition e_reshape (s0 s1 : list N) (e : entries) : entries :=
    map (fun iv => (unravel (ravel (fst iv) s0) s1, snd iv)) e.
  Definition e_transpose (p : list nat) (e : entries) : entries :=
    map (fun iv => (gather 0 (fst iv) p, snd iv)) e.

  Fixpoint meval (t : tm) : entries :=
    match t with
    | MIn k _ => inp k
    | MReshape x s => e_reshape (mshape x) s (meval x)
    | MTranspose x p => e_transpose p (meval x)
    | MBroadcast x s => BC (mshape x) s (meval x)
    | MConcat xs ax => CC ax (map (fun x => (mshape x, meval x)) xs)
    | MOther f args lits _ => F f (map meval args) lits
    end.
End Meaning.

(* ---- one rewrite step at the root, children already normal ---- *)
Definition simp_reshape (x : tm) (s : list N) : tm :=
  let x' := match x with MReshape y _ => y | _ => x end in     (* merge consecutive reshapes *)
  if gen_reshape_nop (gen_merge_shape (mshape x) s) (mshape x') then x' else MReshape x' (gen_merge_shape (mshape x) s).

Definition simp_transpose (x : tm) (p : list nat) : tm :=
  match x with
  | MTranspose y p1 =>
    let q := gen_merge_perm p1 p in
    if gen_transpose_nop q (List.length (mshape y)) then y else MTranspose y q
  | _ => if gen_transpose_nop p (List.length (mshape x)) then x else MTranspose x p
  end.

Definition simp_broadcast (x : tm) (s : list N) : tm :=
  if gen_reshape_nop s (mshape x) then x else MBroadcast x s.

Definition simp_concat (xs : list tm) (ax : nat) : tm :=
  match xs with [x] => x | _ => MConcat xs ax end.

Fixpoint norm (t : tm) : tm :=
  match t with
  | MIn k s => MIn k s
  | MReshape x s => simp_reshape (norm x) s
  | MTranspose x p => simp_transpose (norm x) p
  | MBroadcast x s => simp_broadcast (norm x) s
  | MConcat xs ax => simp_concat (map norm xs) ax
  | MOther f args lits s => MOther f (map norm args) lits s
  end.

Fixpoint tsize (t : tm) : nat :=
  match t with
  | MIn _ _ => 1
  | MReshape x _ | MTranspose x _ | MBroadcast x _ => S (tsize x)
  | MConcat xs _ => S (fold_right (fun x acc => tsize x + acc)%nat 0%nat xs)
  | MOther _ args _ _ => S (fold_right (fun x acc => tsize x + acc)%nat 0%nat args)
  end.

(* ---- decidable equality of terms ---- *)
Definition listN_eqb (a b : list N) : bool := if list_eq_dec N.eq_dec a b then true else false.
Definition listnat_eqb (a b : list nat) : bool := if list_eq_dec Nat.eq_dec a b then true else false.
Definition liststr_eqb (a b : list string) : bool := if list_eq_dec string_dec a b then true else false.

Fixpoint tm_eqb (a b : tm) {struct a} : bool :=
  let list_eqb := fix go (l1 l2 : list tm) : bool :=
                    match l1, l2 with
                    | [], [] => true
                    | x :: r1, y :: r2 => tm_eqb x y && go r1 r2
                    | _, _ => false
                    end in
  match a, b with
  | MIn k1 s1, MIn k2 s2 => Nat.eqb k1 k2 && listN_eqb s1 s2
  | MReshape x1 s1, MReshape x2 s2 => tm_eqb x1 x2 && listN_eqb s1 s2
  | MTranspose x1 p1, MTranspose x2 p2 => tm_eqb x1 x2 && listnat_eqb p1 p2
  | MBroadcast x1 s1, MBroadcast x2 s2 => tm_eqb x1 x2 && listN_eqb s1 s2
  | MConcat l1 a1, MConcat l2 a2 => list_eqb l1 l2 && Nat.eqb a1 a2
  | MOther f1 l1 t1 s1, MOther f2 l2 t2 s2 => String.eqb f1 f2 && list_eqb l1 l2 && liststr_eqb t1 t2 && listN_eqb s1 s2
  | _, _ => false
  end.

Definition equiv (a b : tm) : bool := tm_eqb (norm a) (norm b).

(* static well-formedness that the rewrite rules rely on *)
Fixpoint wf_tm (t : tm) : bool :=
  match t with
  | MIn _ _ => true
  | MReshape x s => wf_tm x && (nprod (mshape x) =? nprod s)
  | MTranspose x p => wf_tm x && forallb (fun k => Nat.ltb k (List.length (mshape x))) p
  | MBroadcast x _ => wf_tm x
  | MConcat xs _ => forallb wf_tm xs
  | MOther _ args _ _ => forallb wf_tm args
  end.
