(* Wire command: compare the lowering model of a rearrangement with the graph einx built (glue). *)
From Coq Require Import String List NArith Arith Bool.
From EinxV Require Import Base.Sexp Spec.LoopSem Model.LoopIO Model.IrIO Model.Opt Model.OptIO Model.Lower.
Import ListNotations.
Open Scope string_scope.

Definition run_lower (cmd : string) (arg : sexp) : sexp :=
  if String.eqb cmd "lower_rearrange" then
    match arg with
    | L [din; dout; g] =>
      match dec_dims din, dec_dims dout, dTm 500 g with
      | Some din, Some dout, Some g =>
        match single din, single dout with
        | Some pin, Some pout =>
          let m := lower_rearrange 0 pin pout in
          L [A "lower"; sB (rearrange_ok pin pout); sB (equiv m g); sB (wf_tm m); sB (wf_tm g); sNat (tsize (norm m)); sNat (tsize (norm g))]
        | _, _ => A "not_single"
        end
      | _, _, _ => bad "lower_rearrange: cannot decode"
      end
    | _ => bad "lower_rearrange: expected (din dout graph)"
    end
  else if String.eqb cmd "lower_broadcast" then
    match arg with
    | L [din; dout; g] =>
      match dec_dims din, dec_dims dout, dTm 500 g with
      | Some din, Some dout, Some g =>
        match single din, single dout with
        | Some pin, Some pout =>
          let m := lower_broadcast 0 pin pout in
          L [A "lower"; sB (broadcast_ok pin pout); sB (equiv m g); sB (wf_tm m); sB (wf_tm g); sNat (tsize (norm m)); sNat (tsize (norm g))]
        | _, _ => A "not_single"
        end
      | _, _, _ => bad "lower_broadcast: cannot decode"
      end
    | _ => bad "lower_broadcast: expected (din dout graph)"
    end
  else if String.eqb cmd "lower_elementwise" then
    match arg with
    | L [fn; dins; dout; g] =>
      match dS fn, dec_dimss dins, dec_dims dout, dTm 500 g with
      | Some fn, Some dins, Some dout, Some g =>
        match singles dins, single dout with
        | Some pins, Some pout =>
          let m := lower_elementwise fn pins pout in
          L [A "lower"; sB (elementwise_ok pins pout); sB (equiv m g); sB (wf_tm m); sB (wf_tm g); sNat (tsize (norm m)); sNat (tsize (norm g))]
        | _, _ => A "not_single"
        end
      | _, _, _, _ => bad "lower_elementwise: cannot decode"
      end
    | _ => bad "lower_elementwise: expected (name dins dout graph)"
    end
  else if String.eqb cmd "lower_reduce" then
    match arg with
    | L [fn; din; dout; g] =>
      match dS fn, dec_dims din, dec_dims dout, dTm 500 g with
      | Some fn, Some din, Some dout, Some g =>
        match single din, single dout with
        | Some pin, Some pout =>
          let m := lower_reduce fn pin pout in
          L [A "lower"; sB (reduce_ok pin pout); sB (equiv m g); sB (wf_tm m); sB (wf_tm g); sNat (tsize (norm m)); sNat (tsize (norm g))]
        | _, _ => A "not_single"
        end
      | _, _, _, _ => bad "lower_reduce: cannot decode"
      end
    | _ => bad "lower_reduce: expected (name din dout graph)"
    end
  else if String.eqb cmd "lower_reduce_auto" then
    (* the description was written without brackets: the model brackets the axes missing from the output itself *)
    match arg with
    | L [fn; din; dout; g] =>
      match dS fn, dec_dims din, dec_dims dout, dTm 500 g with
      | Some fn, Some din, Some dout, Some g =>
        match single din, single dout with
        | Some pin, Some pout =>
          let m := lower_reduce fn (automark pin pout) pout in
          L [A "lower"; sB (reduce_ok (automark pin pout) pout && forallb plain pin); sB (equiv m g); sB (wf_tm m); sB (wf_tm g); sNat (tsize (norm m)); sNat (tsize (norm g))]
        | _, _ => A "not_single"
        end
      | _, _, _, _ => bad "lower_reduce_auto: cannot decode"
      end
    | _ => bad "lower_reduce_auto: expected (name din dout graph)"
    end
  else if String.eqb cmd "lower_dot" then
    match arg with
    | L [d1; d2; dout; g] =>
      match dec_dims d1, dec_dims d2, dec_dims dout, dTm 500 g with
      | Some d1, Some d2, Some dout, Some g =>
        match single d1, single d2, single dout with
        | Some p1, Some p2, Some pout =>
          let m := lower_dot p1 p2 pout in
          L [A "lower"; sB (dot_ok p1 p2 pout); sB (equiv m g); sB (wf_tm m); sB (wf_tm g); sNat (tsize (norm m)); sNat (tsize (norm g))]
        | _, _, _ => A "not_single"
        end
      | _, _, _, _ => bad "lower_dot: cannot decode"
      end
    | _ => bad "lower_dot: expected (d1 d2 dout graph)"
    end
  else if String.eqb cmd "lower_einsum_dot" then
    match arg with
    | L [d1; d2; dout; g] =>
      match dec_dims d1, dec_dims d2, dec_dims dout, dTm 500 g with
      | Some d1, Some d2, Some dout, Some g =>
        match single d1, single d2, single dout with
        | Some p1, Some p2, Some pout =>
          let m := lower_einsum_dot p1 p2 pout in
          L [A "lower"; sB (einsum_dot_ok p1 p2 pout); sB (equiv m g); sB (wf_tm m); sB (wf_tm g); sNat (tsize (norm m)); sNat (tsize (norm g))]
        | _, _, _ => A "not_single"
        end
      | _, _, _, _ => bad "lower_einsum_dot: cannot decode"
      end
    | _ => bad "lower_einsum_dot: expected (d1 d2 dout graph)"
    end
  else if String.eqb cmd "lower_preserve" then
    match arg with
    | L [fn; L extra; kwlit; din; dout; g] =>
      match dS fn, dS kwlit, dec_dims din, dec_dims dout, dTm 500 g with
      | Some fn, Some kwlit, Some din, Some dout, Some g =>
        let ex := fold_right (fun e acc => match dS e, acc with Some x, Some l => Some (x :: l) | _, _ => None end) (Some []) extra in
        match ex, single din, single dout with
        | Some ex, Some pin, Some pout =>
          let m := lower_preserve fn ex kwlit pin pout in
          L [A "lower"; sB (preserve_ok pin pout); sB (equiv m g); sB (wf_tm m); sB (wf_tm g); sNat (tsize (norm m)); sNat (tsize (norm g))]
        | _, _, _ => A "not_single"
        end
      | _, _, _, _, _ => bad "lower_preserve: cannot decode"
      end
    | _ => bad "lower_preserve: expected (name extra kwlit din dout graph)"
    end
  else bad "lower: unknown command".
