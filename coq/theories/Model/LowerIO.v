(* Wire command: compare the lowering model of a rearrangement with the graph einx built (glue). *)
From Coq Require Import String List NArith Arith Bool.
From EinxV Require Import Base.Sexp Spec.LoopSem Model.LoopIO Model.IrIO Model.Opt Model.OptIO Model.Lower.
Import ListNotations.
Open Scope string_scope.

Definition run_lower (cmd : string) (arg : sexp) : sexp :=
  if String.eqb cmd "lower_rearrange" then
    match arg with
    | L [din; dout; g] =>
      match dec_dims din, dec_dims dout, dTm 500 g with
      | Some din, Some dout, Some g =>
        match single din, single dout with
        | Some pin, Some pout =>
          let m := lower_rearrange 0 pin pout in
          L [A "lower"; sB (rearrange_ok pin pout); sB (equiv m g); sB (wf_tm m); sB (wf_tm g); sNat (tsize (norm m)); sNat (tsize (norm g))]
        | _, _ => A "not_single"
        end
      | _, _, _ => bad "lower_rearrange: cannot decode"
      end
    | _ => bad "lower_rearrange: expected (din dout graph)"
    end
  else if String.eqb cmd "lower_elementwise" then
    match arg with
    | L [fn; dins; dout; g] =>
      match dS fn, dec_dimss dins, dec_dims dout, dTm 500 g with
      | Some fn, Some dins, Some dout, Some g =>
        match singles dins, single dout with
        | Some pins, Some pout =>
          let m := lower_elementwise fn pins pout in
          L [A "lower"; sB (elementwise_ok pins pout); sB (equiv m g); sB (wf_tm m); sB (wf_tm g); sNat (tsize (norm m)); sNat (tsize (norm g))]
        | _, _ => A "not_single"
        end
      | _, _, _, _ => bad "lower_elementwise: cannot decode"
      end
    | _ => bad "lower_elementwise: expected (name dins dout graph)"
    end
  else if String.eqb cmd "lower_reduce" then
    match arg with
    | L [fn; din; dout; g] =>
      match dS fn, dec_dims din, dec_dims dout, dTm 500 g with
      | Some fn, Some din, Some dout, Some g =>
        match single din, single dout with
        | Some pin, Some pout =>
          let m := lower_reduce fn pin pout in
          L [A "lower"; sB (reduce_ok pin pout); sB (equiv m g); sB (wf_tm m); sB (wf_tm g); sNat (tsize (norm m)); sNat (tsize (norm g))]
        | _, _ => A "not_single"
        end
      | _, _, _, _ => bad "lower_reduce: cannot decode"
      end
    | _ => bad "lower_reduce: expected (name din dout graph)"
    end
  else bad "lower: unknown command".
