(* Frozen argument values as they appear in the compiled-function cache key
   (einx/_src/util/lru_cache.py:_freeze_value) and Python's equality on them.  Numbers compare
   across types in Python (2 == 2.0 == True); [typed] says whether the key wraps numbers so that
   they only match numbers of the same type (Gen/GenFreeze.v reads this off the source). *)
From Coq Require Import String List ZArith Bool Arith.
Import ListNotations.

Inductive nty := TBool | TInt | TFloat | TNpInt | TNpFloat | TNpBool.
(* a number: its Python type, its value if it is integral, else an opaque code of the non-integral value; [negz] marks the
   negative zero of a float type (-0.0 == 0.0 and both hash alike, but they print differently and copysign tells them apart) *)
Record num := { nt : nty; integral : bool; code : Z; negz : bool }.

(* how the key compares numbers: Python's == (the pinned tree), == and the type, or == and the type and the printed value
   (the source now - Gen/GenFreeze.v reads the conjuncts of _Scalar.__eq__) *)
Inductive kmode := ByValue | ByType | ByTypeAndRepr.
Definition m_typed (m : kmode) : bool := match m with ByValue => false | _ => true end.
Definition m_repr (m : kmode) : bool := match m with ByTypeAndRepr => true | _ => false end.

Inductive fv :=
| FNum (n : num)
| FStr (s : string)
| FNone
| FTuple (l : list fv)
| FDict (l : list (string * fv))
| FOther (id : nat).             (* tracer placeholders, types, ...: compared by their own __eq__, modelled as identity *)

Definition nty_eqb (a b : nty) : bool :=
  match a, b with
  | TBool, TBool | TInt, TInt | TFloat, TFloat | TNpInt, TNpInt | TNpFloat, TNpFloat | TNpBool, TNpBool => true
  | _, _ => false
  end.

(* Python's == on numbers: by value, whatever the types *)
Definition num_eq (a b : num) : bool := Bool.eqb (integral a) (integral b) && Z.eqb (code a) (code b).

Fixpoint key_eq (m : kmode) (a b : fv) {struct a} : bool :=
  let list_eq := fix go (l1 l2 : list fv) : bool :=
                   match l1, l2 with [], [] => true | x :: r1, y :: r2 => key_eq m x y && go r1 r2 | _, _ => false end in
  let dict_eq := fix go (l1 l2 : list (string * fv)) : bool :=
                   match l1, l2 with
                   | [], [] => true
                   | (k1, v1) :: r1, (k2, v2) :: r2 => String.eqb k1 k2 && key_eq m v1 v2 && go r1 r2
                   | _, _ => false end in
  match a, b with
  | FNum x, FNum y => (if m_typed m then nty_eqb (nt x) (nt y) else true) && num_eq x y && (if m_repr m then Bool.eqb (negz x) (negz y) else true)
  | FStr x, FStr y => String.eqb x y
  | FNone, FNone => true
  | FTuple l1, FTuple l2 => list_eq l1 l2
  | FDict l1, FDict l2 => dict_eq l1 l2
  | FOther i, FOther j => Nat.eqb i j
  | _, _ => false
  end.
