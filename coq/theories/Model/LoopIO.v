(* Wire encoding for the reference semantics (glue). *)
From Coq Require Import List String NArith ZArith.
From EinxV Require Import Base.Sexp Spec.LoopSem Spec.UpdateSem.
Import ListNotations.
Open Scope string_scope.

Fixpoint dec_ex3 (fuel : nat) (s : sexp) : option ex3 :=
  match fuel with
  | O => None
  | S f =>
    match s with
    | L [A "ax"; n; l; m] =>
      match dN n, dN l, dB m with Some n, Some l, Some m => Some (Ax n l m) | _, _, _ => None end
    | L [A "fl"; L cs] => option_map Fl (mapM (dec_ex3 f) cs)
    | L [A "cat"; L cs] => option_map Cat (mapM (dec_ex3 f) cs)
    | _ => None
    end
  end.
Definition dec_dims (s : sexp) : option (list ex3) := dList (dec_ex3 64) s.
Definition dec_dimss (s : sexp) : option (list (list ex3)) := dList dec_dims s.
Definition dec_coord (s : sexp) : option (list ex3 * list Z) :=
  match s with
  | L [e; d] => match dec_dims e, dListZ d with Some e, Some d => Some (e, d) | _, _ => None end
  | _ => None
  end.

Definition none_s := A "none".
Definition enc_pair_list (l : list (N * list N)) : sexp := L (map (fun x => L [sN (fst x); sListN (snd x)]) l).
Definition enc_groups (r : list N * list (list N * list N)) : sexp :=
  L [sListN (fst r); L (map (fun g => L [sListN (fst g); sListN (snd g)]) (snd r))].

Definition run_loop (cmd : string) (arg : sexp) : sexp :=
  if String.eqb cmd "plan_id" then
    match arg with
    | L [i; o] =>
      match dec_dimss i, dec_dimss o with
      | Some ins, Some outs =>
        match plan_id ins outs with
        | Some p => L (map (fun x => let '(ko, po, (ki, pi)) := x in L [sN ko; sN po; sN ki; sN pi]) p)
        | None => none_s
        end
      | _, _ => bad "plan_id: cannot decode"
      end
    | _ => bad "plan_id: expected (ins outs)"
    end
  else if String.eqb cmd "plan_elementwise" then
    match arg with
    | L [i; o] =>
      match dec_dimss i, dec_dims o with
      | Some ins, Some out => match plan_elementwise ins out with Some p => enc_pair_list p | None => none_s end
      | _, _ => bad "plan_elementwise: cannot decode"
      end
    | _ => bad "plan_elementwise: expected (ins out)"
    end
  else if String.eqb cmd "plan_reduce" then
    match arg with
    | L [i; o] =>
      match dec_dims i, dec_dims o with
      | Some inp, Some out => match plan_reduce inp out with Some p => enc_pair_list p | None => none_s end
      | _, _ => bad "plan_reduce: cannot decode"
      end
    | _ => bad "plan_reduce: expected (in out)"
    end
  else if String.eqb cmd "plan_dot" then
    match arg with
    | L [i; o] =>
      match dec_dimss i, dec_dims o with
      | Some ins, Some out =>
        match plan_dot ins out with
        | Some p => L (map (fun x => L [sN (fst x); L (map sListN (snd x))]) p)
        | None => none_s
        end
      | _, _ => bad "plan_dot: cannot decode"
      end
    | _ => bad "plan_dot: expected (ins out)"
    end
  else if String.eqb cmd "plan_preserve" then
    match arg with
    | L [i; o] =>
      match dec_dims i, dec_dims o with
      | Some inp, Some out => match plan_preserve inp out with Some p => enc_groups p | None => none_s end
      | _, _ => bad "plan_preserve: cannot decode"
      end
    | _ => bad "plan_preserve: expected (in out)"
    end
  else if String.eqb cmd "plan_argfind" then
    match arg with
    | L [i; o] =>
      match dec_dims i, dec_dims o with
      | Some inp, Some out => match plan_argfind inp out with Some p => enc_groups p | None => none_s end
      | _, _ => bad "plan_argfind: cannot decode"
      end
    | _ => bad "plan_argfind: expected (in out)"
    end
  else if String.eqb cmd "plan_get_at" then
    match arg with
    | L [t; cs; o] =>
      match dec_dims t, dList dec_coord cs, dec_dims o with
      | Some t, Some cs, Some out =>
        match plan_get_at t cs out with
        | Some p => L (map (fun x => L [sN (fst x); sN (snd x)]) p)
        | None => none_s
        end
      | _, _, _ => bad "plan_get_at: cannot decode"
      end
    | _ => bad "plan_get_at: expected (tensor coords out)"
    end
  else if String.eqb cmd "plan_update_at" then
    match arg with
    | L [t; cs; u] =>
      match dec_dims t, dList dec_coord cs, dec_dims u with
      | Some t, Some cs, Some u =>
        match plan_update_at t cs u with
        | Some p => L (map (fun x => L [sN (fst x); sN (snd x)]) p)
        | None => none_s
        end
      | _, _, _ => bad "plan_update_at: cannot decode"
      end
    | _ => bad "plan_update_at: expected (tensor coords updates)"
    end
  else if String.eqb cmd "plan_update_result" then
    (* (op target coords updates target_data update_data) -> (result plan); op: add | sub | set *)
    match arg with
    | L [A op; t; cs; u; td; ud] =>
      match dec_dims t, dList dec_coord cs, dec_dims u, dListZ td, dListZ ud with
      | Some t, Some cs, Some u, Some td, Some ud =>
        match plan_update_at t cs u with
        | Some p =>
          let res := if String.eqb op "add" then apply_acc 1 td p ud
                     else if String.eqb op "sub" then apply_acc (-1) td p ud
                     else apply_set td p ud in
          L [sListZ res; L (map (fun x => L [sN (fst x); sN (snd x)]) p)]
        | None => none_s
        end
      | _, _, _, _, _ => bad "plan_update_result: cannot decode"
      end
    | _ => bad "plan_update_result: expected (op target coords updates tdata udata)"
    end
  else bad "loop: unknown command".
