(* What the compiled-function cache key holds for a tensor argument: the placeholder that
   einx/_src/frontend/api.py:_to_tracer builds (a Tensor or ConvertibleTensor of
   einx/_src/tracer/signature/classical/tensor.py with origin None), and Python's == on such
   placeholders.  Both are read off the source on every run (Gen/GenTracerKey.v): the rows of
   _to_tracer (which class, where the shape comes from, which fields the `concrete` namespace has)
   and the attributes that each class's __eq__ compares.  Tracing and compilation see the
   placeholders only - never the caller's tensors - so a cache hit is a faithful stand-in for a
   fresh compilation exactly when equal placeholders are identical (Proofs/TracerKeyProofs.v). *)
From Coq Require Import String List ZArith Bool Arith.
From EinxV Require Import Model.PyVal Gen.GenTracerKey.
Import ListNotations.
Open Scope string_scope.

(* the caller's argument, as far as _to_tracer looks at it *)
Inductive akind := KNative | KNdarray | KScalar | KCallable.
Record arg := { a_kind : akind;
                a_shape : list Z;               (* backend.get_shape / ndarray.shape *)
                a_type : nat;                   (* identity of type(x.value) *)
                a_params : list string }.       (* the factory's signature (inspect.Signature compares parameter by parameter) *)

Inductive cval := CType (t : nat) | CParams (l : list string).
Record ph := { p_conv : bool;                   (* ConvertibleTensor (true) or Tensor (false) *)
               p_origin : option nat;
               p_shape : option (list Z);
               p_concrete : list (string * cval) }.   (* vars() of the SimpleNamespace; [] for a Tensor *)

Definition kind_of_test (t : string) : option akind :=
  if String.eqb t "backend.is_supported_tensor(x.value)" then Some KNative
  else if String.eqb t "isinstance(x.value, np.ndarray)" then Some KNdarray
  else if String.eqb t "_is_scalar(x.value)" then Some KScalar
  else if String.eqb t "callable(x.value)" then Some KCallable
  else None.
Definition akind_eqb (a b : akind) : bool :=
  match a, b with KNative, KNative | KNdarray, KNdarray | KScalar, KScalar | KCallable, KCallable => true | _, _ => false end.

Definition shape_of_expr (e : string) (a : arg) : option (option (list Z)) :=
  if String.eqb e "backend.get_shape(x.value)" then Some (Some (a_shape a))
  else if String.eqb e "tuple((int(x) for x in x.value.shape))" then Some (Some (a_shape a))
  else if String.eqb e "()" then Some (Some [])
  else if String.eqb e "None" then Some None
  else None.
Definition cfield (a : arg) (f : string) : option (string * cval) :=
  if String.eqb f "type" then Some (f, CType (a_type a))
  else if String.eqb f "parameters" then Some (f, CParams (a_params a))
  else None.
Fixpoint cfields (a : arg) (fs : list string) : option (list (string * cval)) :=
  match fs with
  | [] => Some []
  | f :: r => match cfield a f, cfields a r with Some x, Some xs => Some (x :: xs) | _, _ => None end
  end.

Definition row := (string * (string * (string * list string)))%type.
Definition build (r : row) (a : arg) : option ph :=
  let '(_, (cls, (she, cfs))) := r in
  match shape_of_expr she a, cfields a cfs with
  | Some sh, Some cs =>
    if String.eqb cls "Tensor" then (match cs with [] => Some {| p_conv := false; p_origin := None; p_shape := sh; p_concrete := [] |} | _ => None end)
    else if String.eqb cls "ConvertibleTensor" then Some {| p_conv := true; p_origin := None; p_shape := sh; p_concrete := cs |}
    else None
  | _, _ => None
  end.
(* the first row whose test is the argument's kind (the kinds are the tests, in the order of the chain) *)
Fixpoint to_ph_rows (rows : list row) (a : arg) : option ph :=
  match rows with
  | [] => None
  | r :: rest =>
    match kind_of_test (fst r) with
    | Some k => if akind_eqb k (a_kind a) then build r a else to_ph_rows rest a
    | None => None
    end
  end.
Definition to_ph (a : arg) : option ph := to_ph_rows gen_to_tracer a.

(* ---- Python's == on placeholders: same class, then the listed attributes one by one ---- *)
Definition optnat_eqb (a b : option nat) : bool :=
  match a, b with None, None => true | Some x, Some y => Nat.eqb x y | _, _ => false end.
Fixpoint listZ_eqb (a b : list Z) : bool :=
  match a, b with [], [] => true | x :: r, y :: s => Z.eqb x y && listZ_eqb r s | _, _ => false end.
Definition shape_eqb (a b : option (list Z)) : bool :=
  match a, b with None, None => true | Some x, Some y => listZ_eqb x y | _, _ => false end.
Fixpoint liststr_eqb (a b : list string) : bool :=
  match a, b with [], [] => true | x :: r, y :: s => String.eqb x y && liststr_eqb r s | _, _ => false end.
Definition cval_eqb (a b : cval) : bool :=
  match a, b with CType x, CType y => Nat.eqb x y | CParams x, CParams y => liststr_eqb x y | _, _ => false end.
Fixpoint concrete_eqb (a b : list (string * cval)) : bool :=
  match a, b with
  | [], [] => true
  | (k1, v1) :: r, (k2, v2) :: s => String.eqb k1 k2 && cval_eqb v1 v2 && concrete_eqb r s
  | _, _ => false
  end.
Fixpoint clookup (k : string) (l : list (string * cval)) : option cval :=
  match l with [] => None | (k1, v) :: r => if String.eqb k k1 then Some v else clookup k r end.
Definition centry_eqb (k : string) (a b : list (string * cval)) : bool :=
  match clookup k a, clookup k b with Some x, Some y => cval_eqb x y | None, None => true | _, _ => false end.
(* an attribute the model does not know makes the comparison fail: a changed __eq__ cannot be read as a weaker one *)
Definition field_eqb (f : string) (p q : ph) : bool :=
  if String.eqb f "origin" then optnat_eqb (p_origin p) (p_origin q)
  else if String.eqb f "shape" then shape_eqb (p_shape p) (p_shape q)
  else if String.eqb f "concrete" then concrete_eqb (p_concrete p) (p_concrete q)
  else if String.eqb f "concrete.type" then centry_eqb "type" (p_concrete p) (p_concrete q)
  else if String.eqb f "concrete.parameters" then centry_eqb "parameters" (p_concrete p) (p_concrete q)
  else false.
Definition ph_eqb_with (tensor_fields conv_fields : list string) (p q : ph) : bool :=
  Bool.eqb (p_conv p) (p_conv q) && forallb (fun f => field_eqb f p q) (if p_conv p then conv_fields else tensor_fields).
Definition ph_eqb : ph -> ph -> bool := ph_eqb_with gen_tensor_eq_fields gen_convertible_eq_fields.

(* ---- the key of one call: frozen option values and placeholders, position by position ---- *)
Inductive item := IVal (v : fv) | IPh (p : ph).
Definition item_eqb (a b : item) : bool :=
  match a, b with IVal x, IVal y => key_eq ByTypeAndRepr x y | IPh p, IPh q => ph_eqb p q | _, _ => false end.
Fixpoint ckey_eqb (a b : list item) : bool :=
  match a, b with [] , [] => true | x :: r, y :: s => item_eqb x y && ckey_eqb r s | _, _ => false end.

(* what a placeholder built by _to_tracer looks like *)
Definition wf_ph (p : ph) : Prop := p_origin p = None /\ (p_conv p = false -> p_concrete p = []).
Definition wf_item (i : item) : Prop := match i with IVal _ => True | IPh p => wf_ph p end.

(* the cache as a state machine over such keys *)
Section Machine.
  Variable O : Type.
  Variable trace : list item -> O.
  Variable keq : list item -> list item -> bool.
  Definition kcache := list (list item * O).
  Fixpoint klookup (c : kcache) (a : list item) : option O :=
    match c with [] => None | (k, o) :: r => if keq k a then Some o else klookup r a end.
  Definition kcall (c : kcache) (a : list item) : kcache * O :=
    match klookup c a with Some o => (c, o) | None => ((a, trace a) :: c, trace a) end.
  Fixpoint krun (c : kcache) (h : list (list item)) : list O :=
    match h with [] => [] | a :: r => let '(c1, o) := kcall c a in o :: krun c1 r end.
End Machine.
