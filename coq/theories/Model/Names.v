(* The stream of variable names of the code generator (einx/_src/tracer/compiler/python/__init__.py: compile(), nested
   generator names()): all words over an alphabet of K letters in the order of itertools.product with growing length
   (a, b, .., z, aa, ab, ..), skipping reserved words (Python keywords, builtins, hinted names).  K, the first letter and the
   start length are regenerated (Gen/GenNames.v).  Words are lists of letter indices, LEAST significant letter first. *)
From Coq Require Import List Arith Bool Ascii String.
From EinxV Require Import Gen.GenNames.
Import ListNotations.

Definition word := list nat.

Section Stream.
  Variable K : nat.                         (* size of the alphabet *)

  Fixpoint wsucc (w : word) : word :=
    match w with
    | [] => [0]
    | d :: r => if Nat.ltb (S d) K then S d :: r else 0 :: wsucc r
    end.

  Variable res : word -> bool.              (* reserved words *)

  (* the first [count] names from [w] on; [fuel] bounds the number of words looked at *)
  Fixpoint take (fuel count : nat) (w : word) : list word :=
    match fuel with
    | O => []
    | S f =>
      match count with
      | O => []
      | S c => if res w then take f count (wsucc w) else w :: take f c (wsucc w)
      end
    end.
End Stream.

Definition word_eqb (a b : word) : bool := if list_eq_dec Nat.eq_dec a b then true else false.
Definition reserved_in (L : list word) (w : word) : bool := existsb (word_eqb w) L.

(* the stream of the source: alphabet and start length as regenerated *)
Definition start_word : word := repeat 0 gen_names_start_length.
Definition gen_take (L : list word) (count : nat) : list word :=
  take gen_names_alphabet (reserved_in L) (count + List.length L) count start_word.

(* a word as text: most significant letter first *)
Definition render (w : word) : string :=
  fold_left (fun acc d => String (ascii_of_nat (gen_names_first_char + d)) acc) w EmptyString.

(* groups of variables: a group with a single hint takes it, every other group the next generated name *)
Fixpoint name_groups (hints : list (option word)) (stream : list word) : list (option word) :=
  match hints with
  | [] => []
  | Some h :: r => Some h :: name_groups r stream
  | None :: r => match stream with n :: s => Some n :: name_groups r s | [] => None :: name_groups r [] end
  end.
