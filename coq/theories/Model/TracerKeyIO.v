(* Wire command for the placeholder model (glue; no property theorem depends on it):
   (tracerkey_eq ((kind shape type params) (kind shape type params)))  ->  (T|F conv1 conv2) or none *)
From Coq Require Import List String ZArith.
From EinxV Require Import Base.Sexp Model.TracerKey.
Import ListNotations.
Open Scope string_scope.

Definition dKind (s : sexp) : option akind :=
  match s with
  | A "native" => Some KNative | A "ndarray" => Some KNdarray | A "scalar" => Some KScalar | A "callable" => Some KCallable
  | _ => None
  end.
Definition dArg (s : sexp) : option arg :=
  match s with
  | L [k; sh; t; ps] =>
    match dKind k, dListZ sh, dNat t, dList dStr ps with
    | Some k, Some sh, Some t, Some ps => Some {| a_kind := k; a_shape := sh; a_type := t; a_params := ps |}
    | _, _, _, _ => None
    end
  | _ => None
  end.
Definition run_tracerkey (cmd : string) (arg : sexp) : sexp :=
  match arg with
  | L [x; y] =>
    match dArg x, dArg y with
    | Some a, Some b =>
      match to_ph a, to_ph b with
      | Some p, Some q => L [sB (ph_eqb p q); sB (p_conv p); sB (p_conv q)]
      | _, _ => A "none"
      end
    | _, _ => bad "tracerkey: cannot decode"
    end
  | _ => bad "tracerkey: expected two arguments"
  end.
