(* Wire format for registry histories (glue). *)
From Coq Require Import String List ZArith Bool Arith.
From EinxV Require Import Base.Sexp Model.Registry.
Import ListNotations.
Open Scope string_scope.

Definition dBackend (s : sexp) : option backend :=
  match s with
  | L [A "b"; i; n; p; f; v] =>
    match dNat i, dNat n, dZ p, dNat f, dB v with
    | Some i, Some n, Some p, Some f, Some v => Some {| bid := i; bname := n; bprio := p; bfw := f; bvalid := v |}
    | _, _, _, _, _ => None
    end
  | _ => None
  end.
Definition dTtype (s : sexp) : option ttype :=
  match s with
  | A "scalar" => Some {| tfw := None |}
  | L [A "t"; m] => option_map (fun m => {| tfw := Some m |}) (dNat m)
  | _ => None
  end.
Definition dBarg (s : sexp) : option barg :=
  match s with
  | A "none" => Some BNone
  | A "bad" => Some BBad
  | L [A "name"; n] => option_map BName (dNat n)
  | L [A "obj"; b] => option_map BObj (dBackend b)
  | _ => None
  end.
Definition dRop (s : sexp) : option rop :=
  match s with
  | L [A "register"; b] => option_map RRegister (dBackend b)
  | L [A "register_on_import"; m; b] => match dNat m, dBackend b with Some m, Some b => Some (RRegisterOnImport m b) | _, _ => None end
  | L [A "import"; m] => option_map RImport (dNat m)
  | L [A "lookup"; a; L tys] => match dBarg a, mapM dTtype tys with Some a, Some tys => Some (RLookup a tys) | _, _ => None end
  | L [A "enter"; b] => option_map REnter (dBackend b)
  | A "exit" => Some (RExit None)
  | L [A "exitb"; b] => option_map (fun b => RExit (Some b)) (dBackend b)
  | _ => None
  end.
Definition eRes (r : rres) : sexp :=
  match r with
  | ResNone => A "none"
  | ResAssert => A "assert"
  | ResOutcome (OBackend b) => L [A "backend"; sNat (bid b)]
  | ResOutcome OValueError => A "ValueError"
  | ResOutcome OResolutionError => A "BackendResolutionError"
  end.

Definition run_registry (cmd : string) (arg : sexp) : sexp :=
  if String.eqb cmd "registry_run" then
    match arg with
    | L [L mods; L ops] =>
      match mapM dNat mods, mapM dRop ops with
      | Some mods, Some ops =>
        let '((mods', s), rs) := run_history (mods, rinit) ops in
        L [L (map eRes rs); L (map (fun b => sNat (bid b)) (stack s)); L (map (fun nb => sNat (fst nb)) (names s))]
      | _, _ => bad "registry_run: cannot decode"
      end
    | _ => bad "registry_run: expected (mods ops)"
    end
  else bad "registry: unknown command".
