(* Wire decoding of graphs / generated code and the validator command (glue). *)
From Coq Require Import List String ZArith Bool Arith Ascii.
From EinxV Require Import Base.Sexp Model.Ir Model.IrEq.
Import ListNotations.
Open Scope string_scope.
Open Scope list_scope.

(* strings travel as lists of byte codes: (s 110 112) *)
Definition str_of_codes (l : list sexp) : option string :=
  option_map (fun ns => fold_right (fun n acc => String (ascii_of_nat n) acc) EmptyString ns) (mapM dNat l).
Definition dS (s : sexp) : option string := match s with L (A "s" :: cs) => str_of_codes cs | _ => None end.
Definition dOS (s : sexp) : option (option string) :=
  match s with A "none" => Some None | _ => option_map Some (dS s) end.
Definition eS (s : string) : sexp :=
  L (A "s" :: map (fun c => sNat (nat_of_ascii c)) (list_ascii_of_string s)).

Fixpoint dGval (fuel : nat) (s : sexp) : option gval :=
  match fuel with
  | O => None
  | S f =>
    let dl := mapM (dGval f) in
    let dopt := fun (x : sexp) => match x with A "none" => Some None | _ => option_map Some (dGval f x) end in
    match s with
    | L (A "r" :: id :: path) => match dNat id, mapM dNat path with Some i, Some p => Some (GRef i p) | _, _ => None end
    | L [A "i"; z] => option_map GInt (dZ z)
    | L (A "s" :: cs) => option_map GStr (str_of_codes cs)
    | A "none" => Some GNone
    | L [A "b"; b] => option_map GBool (dB b)
    | L (A "f" :: cs) => option_map GFloat (str_of_codes cs)
    | L (A "tup" :: l) => option_map GTuple (dl l)
    | L (A "lst" :: l) => option_map GList (dl l)
    | L (A "dct" :: l) =>
      option_map GDict (mapM (fun kv => match kv with
                                        | L [k; v] => match dGval f k, dGval f v with Some a, Some b => Some (a, b) | _, _ => None end
                                        | _ => None end) l)
    | L [A "slc"; a; b; c] => match dopt a, dopt b, dopt c with Some x, Some y, Some z => Some (GSlice x y z) | _, _, _ => None end
    | _ => None
    end
  end.
Definition dG := dGval 200.
Definition dKw (s : sexp) : option (list (string * gval)) :=
  match s with
  | L l => mapM (fun kv => match kv with L [k; v] => match dS k, dG v with Some a, Some b => Some (a, b) | _, _ => None end | _ => None end) l
  | _ => None end.
Definition dGl (s : sexp) : option (list gval) := match s with L l => mapM dG l | _ => None end.

Definition dApp (s : sexp) : option app :=
  match s with
  | L [A "input"; k] => option_map AInput (dNat k)
  | L [A "call"; f; a; kw] => match dG f, dGl a, dKw kw with Some f, Some a, Some kw => Some (ACall f a kw) | _, _, _ => None end
  | L [A "callinplace"; xs; f; a; kw] =>
    match dG xs, dG f, dGl a, dKw kw with Some xs, Some f, Some a, Some kw => Some (ACallInplace xs f a kw) | _, _, _, _ => None end
  | L [A "getattr"; o; k] => match dG o, dS k with Some o, Some k => Some (AGetAttr o k) | _, _ => None end
  | L [A "getitem"; o; k] => match dG o, dG k with Some o, Some k => Some (AGetItem o k) | _, _ => None end
  | L [A "updateitem"; o; k; v; op] =>
    match dG o, dG k, dG v, dS op with Some o, Some k, Some v, Some op => Some (AUpdateItem o k v op) | _, _, _, _ => None end
  | L [A "import"; i; f] => match dS i, dOS f with Some i, Some f => Some (AImport i f) | _, _ => None end
  | L [A "op"; o; a] => match dS o, dGl a with Some o, Some a => Some (AOp o a) | _, _ => None end
  | L [A "builtin"; n] => option_map ABuiltin (dS n)
  | L [A "assert"; xs; c; m] => match dG xs, dG c, dOS m with Some xs, Some c, Some m => Some (AAssert xs c m) | _, _, _ => None end
  | A "constant" => Some AConstant
  | L [A "cast"; i] => option_map ACast (dG i)
  | _ => None
  end.

Definition dGraph (s : sexp) : option graph :=
  match s with
  | L [A "graph"; L nodes; out] =>
    match mapM (fun n => match n with L [id; a] => match dNat id, dApp a with Some i, Some a => Some (i, a) | _, _ => None end | _ => None end) nodes,
          dG out with
    | Some ns, Some o => Some {| g_nodes := ns; g_output := o |}
    | _, _ => None
    end
  | _ => None
  end.

Fixpoint dExpr (fuel : nat) (s : sexp) : option expr :=
  match fuel with
  | O => None
  | S f =>
    let dl := mapM (dExpr f) in
    let dopt := fun (x : sexp) => match x with A "none" => Some None | _ => option_map Some (dExpr f x) end in
    match s with
    | L [A "v"; n] => option_map XVar (dS n)
    | L [A "i"; z] => option_map XInt (dZ z)
    | L (A "s" :: cs) => option_map XStr (str_of_codes cs)
    | A "none" => Some XNone
    | L [A "b"; b] => option_map XBool (dB b)
    | L (A "f" :: cs) => option_map XFloat (str_of_codes cs)
    | L (A "tup" :: l) => option_map XTuple (dl l)
    | L (A "lst" :: l) => option_map XList (dl l)
    | L (A "dct" :: l) =>
      option_map XDict (mapM (fun kv => match kv with
                                        | L [k; v] => match dExpr f k, dExpr f v with Some a, Some b => Some (a, b) | _, _ => None end
                                        | _ => None end) l)
    | L [A "slc"; a; b; c] => match dopt a, dopt b, dopt c with Some x, Some y, Some z => Some (XSlice x y z) | _, _, _ => None end
    | L [A "attr"; o; k] => match dExpr f o, dS k with Some o, Some k => Some (XAttr o k) | _, _ => None end
    | L [A "item"; o; k] => match dExpr f o, dExpr f k with Some o, Some k => Some (XItem o k) | _, _ => None end
    | L [A "op"; o; L a] => match dS o, dl a with Some o, Some a => Some (XOp o a) | _, _ => None end
    | L [A "call"; fn; L a; L kw] =>
      match dExpr f fn, dl a,
            mapM (fun kv => match kv with L [k; v] => match dS k, dExpr f v with Some a, Some b => Some (a, b) | _, _ => None end | _ => None end) kw with
      | Some fn, Some a, Some kw => Some (XCall fn a kw)
      | _, _, _ => None
      end
    | _ => None
    end
  end.
Definition dX := dExpr 200.

Definition dStmt (s : sexp) : option stmt :=
  match s with
  | L [A "assign"; x; e] => match dS x, dX e with Some x, Some e => Some (StAssign x e) | _, _ => None end
  | L [A "expr"; e] => option_map StExpr (dX e)
  | L [A "aug"; o; k; op; v] => match dX o, dX k, dS op, dX v with Some o, Some k, Some op, Some v => Some (StAug o k op v) | _, _, _, _ => None end
  | L [A "assert"; c; m] => match dX c, dOS m with Some c, Some m => Some (StAssert c m) | _, _ => None end
  | L [A "import"; i; f; a] => match dS i, dOS f, dS a with Some i, Some f, Some a => Some (StImport i f a) | _, _, _ => None end
  | _ => None
  end.

Definition dCode (s : sexp) : option (list stmt * code) :=
  match s with
  | L [A "code"; L pre; L params; L body; r] =>
    match mapM dStmt pre, mapM dS params, mapM dStmt body, dX r with
    | Some pre, Some ps, Some b, Some r => Some (pre, {| c_params := ps; c_body := b; c_ret := r |})
    | _, _, _, _ => None
    end
  | _ => None
  end.

(* ---- encoders (diagnostics, and comparison with the recorded execution of the real text) ---- *)
Fixpoint eSval (v : sval) : sexp :=
  let eo := fun (o : option sval) => match o with Some x => eSval x | None => A "none" end in
  match v with
  | SIn k => L [A "in"; sNat k]
  | SEv k => L [A "ev"; sNat k]
  | SInt z => L [A "i"; sZ z]
  | SStr s => eS s
  | SNone => A "none"
  | SBool b => L [A "b"; sB b]
  | SFloat s => L [A "f"; eS s]
  | STuple l => L (A "tup" :: map eSval l)
  | SList l => L (A "lst" :: map eSval l)
  | SDict l => L (A "dct" :: map (fun kv => L [eSval (fst kv); eSval (snd kv)]) l)
  | SSlice a b c => L [A "slc"; eo a; eo b; eo c]
  | SAttr o k => L [A "attr"; eSval o; eS k]
  | SItem o k => L [A "item"; eSval o; eSval k]
  | SOp op a => L [A "op"; eS op; L (map eSval a)]
  | SPure f a => L [A "pure"; eS f; L (map eSval a)]
  | SImport i f => L [A "import"; eS i; match f with Some x => eS x | None => A "none" end]
  | SBuiltin n => L [A "builtin"; eS n]
  | SConst k => L [A "const"; sNat k]
  end.
Definition eEvent (e : event) : sexp :=
  match e with
  | ECall f a kw => L [A "call"; eSval f; L (map eSval a); L (map (fun kv => L [eS (fst kv); eSval (snd kv)]) kw)]
  | EUpdate o k v op => L [A "update"; eSval o; eSval k; eSval v; eS op]
  | EAssert c m => L [A "assert"; eSval c; match m with Some x => eS x | None => A "none" end]
  end.

Definition fuel0 : nat := 5000.

Definition run_ir (cmd : string) (arg : sexp) : sexp :=
  if String.eqb cmd "ir_agree" then
    match arg with
    | L [g; c] =>
      match dGraph g, dCode c with
      | Some g, Some (pre, c) =>
        match seval fuel0 g, sexec fuel0 pre c with
        | Some (e1, r1), Some (e2, r2) =>
          L [A "agree"; sB (agree fuel0 g pre c); sNat (List.length e1); sNat (List.length e2);
             sOpt sNat (first_diff e1 e2 0); sB (sval_eqb r1 r2); L (map eEvent e1); eSval r1]
        | None, _ => L [A "stuck"; A "graph"]
        | _, None => L [A "stuck"; A "code"]
        end
      | None, _ => bad "ir_agree: cannot decode graph"
      | _, None => bad "ir_agree: cannot decode code"
      end
    | _ => bad "ir_agree: expected (graph code)"
    end
  else if String.eqb cmd "ir_seval" then
    match dGraph arg with
    | Some g => match seval fuel0 g with
                | Some (e, r) => L [A "ok"; L (map eEvent e); eSval r]
                | None => L [A "stuck"; A "graph"] end
    | None => bad "ir_seval: cannot decode graph"
    end
  else bad "ir: unknown command".
