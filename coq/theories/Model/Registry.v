(* Model of einx/_src/frontend/backend.py (BackendRegistryState) and the specification [select]
   of property C11.  Backends, names, modules and tensor types are natural-number identifiers.
   A tensor type belongs to one framework (= the module whose import makes such tensors exist) or
   is a Python scalar; a backend accepts exactly the non-scalar types of its own framework (the
   hypothesis "different frameworks accept disjoint tensor types" of the property); an
   InvalidBackend (failed factory) accepts nothing. *)
From Coq Require Import List ZArith Bool Arith.
Import ListNotations.

Record backend := { bid : nat; bname : nat; bprio : Z; bfw : nat; bvalid : bool }.
Record ttype := { tfw : option nat }.                      (* None = Python / numpy scalar *)

Definition accepts (b : backend) (t : ttype) : bool :=
  bvalid b && match tfw t with Some m => Nat.eqb m (bfw b) | None => false end.
Definition is_scalar (t : ttype) : bool := match tfw t with None => true | Some _ => false end.

Definition numpy_name : nat := 0.

(* what a lookup is asked *)
Inductive barg := BNone | BName (n : nat) | BObj (b : backend) | BBad.
Inductive outcome :=
| OBackend (b : backend)
| OValueError                      (* unknown name / invalid backend argument *)
| OResolutionError.                (* zero or several candidates *)

Definition ttype_eqb (a b : ttype) : bool :=
  match tfw a, tfw b with Some x, Some y => Nat.eqb x y | None, None => true | _, _ => false end.
Fixpoint ttypes_eqb (a b : list ttype) : bool :=
  match a, b with [] , [] => true | x :: r, y :: s => ttype_eqb x y && ttypes_eqb r s | _, _ => false end.

Definition mem_nat (n : nat) (l : list nat) : bool := existsb (Nat.eqb n) l.

(* ---------------------------------------------------------------- the state *)
Record rstate := {
  seen : list nat;                                   (* seen_module_names *)
  uninit : list (nat * list backend);                (* module -> factories (each yields this backend when run) *)
  backends : list backend;                           (* in registration order *)
  memo : list (list ttype * backend);                (* tensortypes_to_backend *)
  names : list (nat * backend);                      (* name_to_backend, latest first *)
  stack : list backend                               (* use_stack, innermost first *)
}.
Definition rinit : rstate := {| seen := []; uninit := []; backends := []; memo := []; names := []; stack := [] |}.

Definition set_backends (s : rstate) (b : backend) : rstate :=
  {| seen := seen s; uninit := uninit s; backends := backends s ++ [b]; memo := memo s; names := (bname b, b) :: names s; stack := stack s |}.

Definition register_all (s : rstate) (bs : list backend) : rstate := fold_left set_backends bs s.

Fixpoint uninit_add (u : list (nat * list backend)) (m : nat) (b : backend) : list (nat * list backend) :=
  match u with
  | [] => [(m, [b])]
  | (k, l) :: r => if Nat.eqb k m then (k, l ++ [b]) :: r else (k, l) :: uninit_add r m b
  end.
Fixpoint uninit_find (u : list (nat * list backend)) (m : nat) : list backend :=
  match u with [] => [] | (k, l) :: r => if Nat.eqb k m then l else uninit_find r m end.
Fixpoint uninit_del (u : list (nat * list backend)) (m : nat) : list (nat * list backend) :=
  match u with [] => [] | (k, l) :: r => if Nat.eqb k m then uninit_del r m else (k, l) :: uninit_del r m end.

(* register_on_import: the factory's product is [b]; it runs now if the module is imported *)
Definition register_on_import (mods : list nat) (s : rstate) (m : nat) (b : backend) : rstate :=
  if mem_nat m mods then set_backends s b
  else {| seen := seen s; uninit := uninit_add (uninit s) m b; backends := backends s; memo := memo s; names := names s; stack := stack s |}.

(* _check_new_imports: returns (changed, state) *)
Definition check_new_imports (mods : list nat) (s : rstate) : bool * rstate :=
  let new := filter (fun m => negb (mem_nat m (seen s))) mods in
  match new with
  | [] => (false, s)
  | _ =>
    (true, fold_left (fun st m =>
                        let st1 := {| seen := m :: seen st; uninit := uninit st; backends := backends st; memo := memo st;
                                      names := names st; stack := stack st |} in
                        let fs := uninit_find (uninit st1) m in
                        let st2 := register_all st1 fs in
                        {| seen := seen st2; uninit := uninit_del (uninit st2) m; backends := backends st2; memo := memo st2;
                           names := names st2; stack := stack st2 |}) new s)
  end.

Fixpoint names_find (l : list (nat * backend)) (n : nat) : option backend :=
  match l with [] => None | (k, b) :: r => if Nat.eqb k n then Some b else names_find r n end.
Fixpoint memo_find (l : list (list ttype * backend)) (tys : list ttype) : option backend :=
  match l with [] => None | (k, b) :: r => if ttypes_eqb k tys then Some b else memo_find r tys end.

(* _get_by_name with its has_checked latch: (latch, state) -> result *)
Definition get_by_name (mods : list nat) (latch : bool) (s : rstate) (n : nat) : bool * rstate * option backend :=
  match names_find (names s) n with
  | Some b => (latch, s, Some b)
  | None =>
    if latch then (latch, s, None)
    else let '(changed, s1) := check_new_imports mods s in
         (true, s1, if changed then names_find (names s1) n else None)
  end.

Definition supporting (s : rstate) (t : ttype) : list backend := filter (fun b => accepts b t) (backends s).

(* _get_by_tensor: one retry after a check for new imports *)
Definition get_by_tensor (mods : list nat) (latch : bool) (s : rstate) (t : ttype) : bool * rstate * list backend :=
  match supporting s t with
  | (_ :: _) as l => (latch, s, l)
  | [] =>
    if latch then (latch, s, [])
    else let '(changed, s1) := check_new_imports mods s in
         (true, s1, if changed then supporting s1 t else [])
  end.

Definition backend_eqb (a b : backend) : bool := Nat.eqb (bid a) (bid b).
Fixpoint dedup_b (l : list backend) (acc : list backend) : list backend :=
  match l with
  | [] => rev acc
  | b :: r => if existsb (backend_eqb b) acc then dedup_b r acc else dedup_b r (b :: acc)
  end.

Definition max_prio (l : list backend) : Z := fold_right (fun b m => Z.max (bprio b) m) (match l with b :: _ => bprio b | [] => 0%Z end) l.
Definition keep_max (l : list backend) : list backend :=
  match l with
  | _ :: _ :: _ => filter (fun b => Z.eqb (bprio b) (max_prio l)) l
  | _ => l
  end.

(* _get_by_tensors: (state, candidates | ValueError) *)
Definition get_by_tensors (mods : list nat) (latch : bool) (s : rstate) (tys : list ttype) : rstate * option (list backend) :=
  match memo_find (memo s) tys with
  | Some b => (s, Some [b])
  | None =>
    let '(latch1, s1, cands) :=
        fold_left (fun acc t => let '(l, st, cs) := acc in
                                let '(l', st', found) := get_by_tensor mods l st t in (l', st', cs ++ found))
                  tys (latch, s, []) in
    let cands := dedup_b cands [] in
    let res :=
        if forallb is_scalar tys then
          (* scalars only (also the empty list): the backend *named* numpy, looked up with a fresh latch *)
          let '(_, s2, ob) := get_by_name mods false s1 numpy_name in
          match ob with Some b => (s2, Some [b]) | None => (s2, None) end
        else (s1, Some cands) in
    match res with
    | (s2, None) => (s2, None)
    | (s2, Some bs) =>
      let bs := keep_max bs in
      match bs with
      | [b] => ({| seen := seen s2; uninit := uninit s2; backends := backends s2; memo := (tys, b) :: memo s2; names := names s2; stack := stack s2 |}, Some bs)
      | _ => (s2, Some bs)
      end
    end
  end.

(* _get *)
Definition get (mods : list nat) (s : rstate) (a : barg) (tys : list ttype) : rstate * outcome :=
  match a with
  | BObj b => (s, OBackend b)
  | BName n =>
    let '(_, s1, ob) := get_by_name mods false s n in
    (s1, match ob with Some b => OBackend b | None => OValueError end)
  | BBad => (s, OValueError)        (* neither a backend, nor a name, nor None: refused whatever with-block is open *)
  | BNone =>
    match stack s with
    | b :: _ => (s, OBackend b)
    | [] =>
        let '(s1, r) := get_by_tensors mods false s tys in
        (s1, match r with
             | None => OValueError
             | Some [b] => OBackend b
             | Some _ => OResolutionError
             end)
    end
  end.

(* ---------------------------------------------------------------- histories *)
Inductive rop :=
| RRegister (b : backend)                      (* registry.register(b) *)
| RRegisterOnImport (m : nat) (b : backend)    (* registry.register_on_import(module, name, factory) *)
| RImport (m : nat)                            (* the environment imports a module *)
| RLookup (a : barg) (tys : list ttype)
| REnter (b : backend)
| RExit (b : option backend).               (* registry.exit(b); None = whatever is on top *)

Inductive rres := ResNone | ResOutcome (o : outcome) | ResAssert.

Definition step (st : list nat * rstate) (o : rop) : (list nat * rstate) * rres :=
  let '(mods, s) := st in
  match o with
  | RRegister b => ((mods, set_backends s b), ResNone)
  | RRegisterOnImport m b => ((mods, register_on_import mods s m b), ResNone)
  | RImport m => ((if mem_nat m mods then mods else mods ++ [m], s), ResNone)
  | RLookup a tys =>
    (* BackendRegistry.get assigns the new state only when _get returns; an exception discards it *)
    let '(s1, r) := get mods s a tys in
    ((mods, match r with OBackend _ => s1 | _ => s end), ResOutcome r)
  | REnter b => ((mods, {| seen := seen s; uninit := uninit s; backends := backends s; memo := memo s; names := names s; stack := b :: stack s |}), ResNone)
  | RExit ob =>
    (* _exit asserts that the backend on top of the stack is the one being left (IndexError on an empty stack) *)
    match stack s with
    | top :: r =>
      if match ob with Some b => backend_eqb top b | None => true end
      then ((mods, {| seen := seen s; uninit := uninit s; backends := backends s; memo := memo s; names := names s; stack := r |}), ResNone)
      else ((mods, s), ResAssert)
    | [] => ((mods, s), ResAssert)
    end
  end.

Fixpoint run_history (st : list nat * rstate) (h : list rop) : (list nat * rstate) * list rres :=
  match h with
  | [] => (st, [])
  | o :: r => let '(st1, x) := step st o in let '(st2, xs) := run_history st1 r in (st2, x :: xs)
  end.

(* ---------------------------------------------------------------- the specification *)
(* declared backends that exist for the given set of imported modules *)
Definition available (mods : list nat) (eager : list backend) (lazy : list (nat * backend)) : list backend :=
  eager ++ map snd (filter (fun mb => mem_nat (fst mb) mods) lazy).

Definition select (avail : list backend) (with_stack : list backend) (a : barg) (tys : list ttype) : outcome :=
  match a with
  | BObj b => OBackend b
  | BName n => match find (fun b => Nat.eqb (bname b) n) avail with Some b => OBackend b | None => OValueError end
  | BBad => OValueError
  | BNone =>
    match with_stack with
    | b :: _ => OBackend b
    | [] =>
        if forallb is_scalar tys then
          match find (fun b => Nat.eqb (bname b) numpy_name) avail with Some b => OBackend b | None => OValueError end
        else
          let cands := filter (fun b => existsb (accepts b) tys) avail in
          match keep_max cands with
          | [b] => OBackend b
          | _ => OResolutionError
          end
    end
  end.
