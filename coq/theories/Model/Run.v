(* Dispatcher of the extracted model binary: one S-expression in, one out. *)
From Coq Require Import List String.
From EinxV Require Import Base.Sexp Model.ParseIO Model.LoopIO Model.IrIO Model.OptIO Model.RegistryIO Model.SolveIO Model.LowerIO Model.JoinIO Model.TracerKeyIO Model.NamesIO.
Import ListNotations.
Open Scope string_scope.

Definition run (s : sexp) : sexp :=
  match s with
  | L [A cmd; arg] =>
    if String.prefix "parse" cmd then run_parse cmd arg
    else if String.prefix "plan_" cmd then run_loop cmd arg
    else if String.prefix "ir_" cmd then run_ir cmd arg
    else if String.prefix "opt_" cmd then run_opt cmd arg
    else if String.prefix "registry_" cmd then run_registry cmd arg
    else if String.prefix "solve_" cmd then run_solve cmd arg
    else if String.prefix "lower_" cmd then run_lower cmd arg
    else if String.prefix "join_" cmd then run_join cmd arg
    else if String.prefix "tracerkey_" cmd then run_tracerkey cmd arg
    else if String.prefix "names_" cmd then run_names cmd arg
    else bad "unknown command"
  | _ => bad "expected (cmd arg)"
  end.
