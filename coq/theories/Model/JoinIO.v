(* Wire command for the regenerated _join_exprs kernel (glue; no property theorem depends on it). *)
From Coq Require Import List String.
From EinxV Require Import Base.Sexp Gen.GenJoin.
Import ListNotations.
Open Scope string_scope.

Definition run_join (cmd : string) (arg : sexp) : sexp :=
  match dList (dList dStr) arg with
  | Some axes =>
    match gen_join (fold_right Nat.add 0 (map (@List.length string) axes)) axes with
    | Some r => L (map A r)
    | None => A "none"
    end
  | None => bad "join: cannot decode"
  end.
