(* Wire encoding of the parser model's results (glue, no proofs). *)
From Coq Require Import List String NArith ZArith.
From EinxV Require Import Base.Sexp Model.Parse.
Import ListNotations.
Open Scope string_scope.

Definition enc_name (n : aname) : sexp :=
  match n with
  | NName cs => L [A "n"; sListN cs]
  | NAnon => A "anon"
  | NUnnamed i => L [A "u"; sZ i]
  end.

Fixpoint enc_expr (x : expr) : sexp :=
  match x with
  | EAxis n v b e => L [A "axis"; enc_name n; sOpt sN v; sZ b; sZ e]
  | EList cs b e => L [A "list"; L (map enc_expr cs); sZ b; sZ e]
  | EFlat i b e => L [A "flat"; enc_expr i; sZ b; sZ e]
  | ECat cs b e => L [A "cat"; L (map enc_expr cs); sZ b; sZ e]
  | EBr i b e => L [A "br"; enc_expr i; sZ b; sZ e]
  | EEll i b e id => L [A "ell"; enc_expr i; sZ b; sZ e; sZ (fst id); sZ (snd id)]
  | EArgs cs b e => L [A "args"; L (map enc_expr cs); sZ b; sZ e]
  | EOp cs b e => L [A "op"; L (map enc_expr cs); sZ b; sZ e]
  end.

Definition enc_result (r : result expr) : sexp :=
  match r with
  | Ok x => L [A "ok"; enc_expr x; sListN (print x)]
  | Err site pos => L [A "err"; sNat site; sListZ pos]
  | Internal site => L [A "internal"; sNat site]
  end.

Definition run_parse (cmd : string) (arg : sexp) : sexp :=
  match dListN arg with
  | None => bad "parse: expected a list of code points"
  | Some cs =>
    if String.eqb cmd "parse_op" then enc_result (parse_op cs)
    else if String.eqb cmd "parse_args" then enc_result (parse_args cs)
    else if String.eqb cmd "parse_arg" then enc_result (parse_arg cs)
    else bad "parse: unknown command"
  end.
