(* Model of how einx lowers a rearrangement of one tensor whose expressions only nest flattened
   axes (no concatenation, no repeated or new axis): the Decomposer reshapes the tensor to its
   leaf axes, transposes them into the order in which the output lists them, and reshapes to the
   output dimensions (einx/_src/adapter/namedtensor_from_decomposednamedtensor.py; no-op steps are
   removed later by the optimiser, Model/Opt.v).  The model is a term of Model/Opt.v, so that its
   meaning is numpy's row-major meaning of reshape / transpose fixed there, and so that the
   extracted equivalence checker can compare it with the graph einx really builds. *)
From Coq Require Import List NArith Arith Bool String.
From EinxV Require Import Base.Sexp Gen.GenAdapter Spec.LoopSem Model.Opt.
Import ListNotations.
Open Scope N_scope.

Definition lnames (dims : list pex) : list N := map (fun x => fst (fst x)) (leaves dims).
Definition llens (dims : list pex) : list N := map (fun x => snd (fst x)) (leaves dims).

Fixpoint index_of (n : N) (l : list N) : nat :=
  match l with [] => O | x :: r => if x =? n then O else S (index_of n r) end.

(* position, among the input's leaf axes, of every leaf axis of the output *)
Definition perm_of (din dout : list pex) : list nat := map (fun n => index_of n (lnames din)) (lnames dout).

Definition lower_rearrange (k : nat) (din dout : list pex) : tm :=
  MReshape (MTranspose (MReshape (MIn k (map psize din)) (llens din)) (perm_of din dout)) (map psize dout).

(* the expressions this model covers *)
Definition memNb (n : N) (l : list N) : bool := existsb (N.eqb n) l.
Fixpoint nodupb (l : list N) : bool := match l with [] => true | x :: r => negb (memNb x r) && nodupb r end.
Fixpoint plain (p : pex) : bool :=
  match p with PAx _ _ m => negb m | PFl cs => forallb plain cs | POff _ _ _ => false end.
Definition same_axes (din dout : list pex) : bool :=
  forallb (fun x => existsb (fun y => (fst (fst x) =? fst (fst y)) && (snd (fst x) =? snd (fst y))) (leaves din)) (leaves dout).
Definition rearrange_ok (din dout : list pex) : bool :=
  forallb plain din && forallb plain dout && nodupb (lnames din) && same_axes din dout.

(* ---- alignment of one input of an element-wise operation ----
   einx brings every input into the leaf order of the output, with length-1 dimensions where the
   input lacks an output axis (numpy's broadcasting then pairs the elements): reshape to the input's
   leaf axes, transpose them into output order, reshape inserting the unit dimensions. *)
Definition onames (dout : list pex) : list (N * N) := map (fun x => (fst (fst x), snd (fst x))) (leaves dout).
Definition present (din : list pex) (n : N) : bool := memNb n (lnames din).
Definition perm_align (din dout : list pex) : list nat :=
  map (fun nl => index_of (fst nl) (lnames din)) (filter (fun nl => present din (fst nl)) (onames dout)).
Definition bshape (din dout : list pex) : list N :=
  map (fun nl => if present din (fst nl) then snd nl else 1) (onames dout).
Definition lower_align (k : nat) (din dout : list pex) : tm :=
  MReshape (MTranspose (MReshape (MIn k (map psize din)) (llens din)) (perm_align din dout)) (bshape din dout).

(* every input axis is an output axis of the same length *)
Definition sub_axes (din dout : list pex) : bool :=
  forallb (fun x => existsb (fun y => (fst (fst x) =? fst (fst y)) && (snd (fst x) =? snd (fst y))) (leaves dout)) (leaves din).
Definition align_ok (din dout : list pex) : bool :=
  forallb plain din && forallb plain dout && nodupb (lnames din) && nodupb (lnames dout) && sub_axes din dout.

(* the whole element-wise call: aligned inputs, the backend's broadcasting operation, reshape to the output dimensions *)
Definition lower_elementwise (f : String.string) (ins : list (list pex)) (dout : list pex) : tm :=
  MReshape (MOther f (map (fun kd => lower_align (fst kd) (snd kd) dout) (combine (seq 0 (List.length ins)) ins)) ["kw:"%string] (llens dout))
           (map psize dout).
Definition elementwise_ok (ins : list (list pex)) (dout : list pex) : bool :=
  forallb (fun din => align_ok din dout) ins.

(* ---- reductions ----
   reshape the tensor to its leaf axes, hand it to the backend's reduction with axis = the positions of the bracketed
   leaves (the kernel regenerated from _expr_to_axis, Gen/GenAdapter.v), rearrange the remaining leaves into the output *)
Definition lmarks (dims : list pex) : list bool := map (fun x => snd x) (leaves dims).
Definition kept (din : list pex) : list pex :=
  map (fun x => PAx (fst (fst x)) (snd (fst x)) false) (filter (fun x => negb (snd x)) (leaves din)).
Definition join_str (sep : string) (l : list string) : string :=
  match l with [] => EmptyString | x :: r => fold_left (fun acc y => append (append acc sep) y) r x end.
Definition axis_lit (ax : list nat) : string :=
  match ax with
  | [k] => EinxV.Base.Sexp.string_of_nat k
  | _ => append "[" (append (join_str "," (map EinxV.Base.Sexp.string_of_nat ax)) "]")
  end.
Definition lower_reduce (f : string) (din dout : list pex) : tm :=
  let ax := EinxV.Gen.GenAdapter.gen_expr_to_axis (lmarks din) in
  let red := MOther f [MReshape (MIn 0 (map psize din)) (llens din)] [axis_lit ax; "kw:axis"%string] (llens (kept din)) in
  MReshape (MTranspose (MReshape red (llens (kept din))) (perm_of (kept din) dout)) (map psize dout).

Fixpoint unoffset (p : pex) : bool :=
  match p with PAx _ _ _ => true | PFl cs => forallb unoffset cs | POff _ _ _ => false end.
Definition reduce_ok (din dout : list pex) : bool :=
  forallb unoffset din && nodupb (lnames din) && rearrange_ok (kept din) dout.

(* ---- dot on the matmul path (numpy.numpylike; _src/adapter/decomposednamedtensor_from_classical.py: dot) ----
   the axes of the two operands are classified - batch (in both and in the output), contracted (in both, not in the
   output), kept left / right -, both operands are rearranged to (batch) (left) (contracted) and (batch) (contracted) (right),
   the backend's batched matmul is applied, and its (batch) (left) (right) result is rearranged into the output *)
Definition leaf_ax (x : N * N * bool) : pex := PAx (fst (fst x)) (snd (fst x)) false.
Definition dot_batch (d1 d2 dout : list pex) : list pex :=
  map leaf_ax (filter (fun x => memNb (fst (fst x)) (lnames d2) && memNb (fst (fst x)) (lnames dout)) (leaves d1)).
Definition dot_contract (d1 d2 dout : list pex) : list pex :=
  map leaf_ax (filter (fun x => memNb (fst (fst x)) (lnames d2) && negb (memNb (fst (fst x)) (lnames dout))) (leaves d1)).
Definition dot_left (d1 d2 : list pex) : list pex :=
  map leaf_ax (filter (fun x => negb (memNb (fst (fst x)) (lnames d2))) (leaves d1)).
Definition dot_right (d1 d2 : list pex) : list pex :=
  map leaf_ax (filter (fun x => negb (memNb (fst (fst x)) (lnames d1))) (leaves d2)).
Definition dot_lhs (d1 d2 dout : list pex) : list pex := [PFl (dot_batch d1 d2 dout); PFl (dot_left d1 d2); PFl (dot_contract d1 d2 dout)].
Definition dot_rhs (d1 d2 dout : list pex) : list pex := [PFl (dot_batch d1 d2 dout); PFl (dot_contract d1 d2 dout); PFl (dot_right d1 d2)].
Definition dot_mid (d1 d2 dout : list pex) : list pex := [PFl (dot_batch d1 d2 dout); PFl (dot_left d1 d2); PFl (dot_right d1 d2)].
Definition dot_matmul (d1 d2 dout : list pex) : tm :=
  MOther "matmul" [lower_rearrange 0 d1 (dot_lhs d1 d2 dout); lower_rearrange 1 d2 (dot_rhs d1 d2 dout)] ["kw:"%string]
         (map psize (dot_mid d1 d2 dout)).
Definition lower_dot (d1 d2 dout : list pex) : tm :=
  let mid := dot_mid d1 d2 dout in
  MReshape (MTranspose (MReshape (dot_matmul d1 d2 dout) (llens mid)) (perm_of mid dout)) (map psize dout).
Definition dot_ok (d1 d2 dout : list pex) : bool :=
  rearrange_ok d1 (dot_lhs d1 d2 dout) && rearrange_ok d2 (dot_rhs d1 d2 dout) && rearrange_ok (dot_mid d1 d2 dout) dout.

(* ---- un-bracketed reductions ----
   "a b c -> a c" is read as "a [b] c -> a c": the axes that the output does not list get the brackets *)
Fixpoint pmark (g : N -> bool) (p : pex) : pex :=
  match p with
  | PAx n l _ => PAx n l (g n)
  | PFl cs => PFl (map (pmark g) cs)
  | POff o t i => POff o t (pmark g i)
  end.
Definition automark (din dout : list pex) : list pex := map (pmark (fun n => negb (memNb n (lnames dout)))) din.

(* ---- dot on the einsum path (the default numpy backend; _src/adapter/decomposednamedtensor_from_einsum.py) ----
   both operands are reshaped to their leaf axes and handed to einsum with a subscript string in which every axis name gets
   the next free letter at its first occurrence (operands left to right, then the output); the result - one dimension per leaf
   axis of the output - is reshaped to the output dimensions *)
Fixpoint ein_lookup (vars : list (N * nat)) (n : N) : option nat :=
  match vars with [] => None | (k, v) :: r => if k =? n then Some v else ein_lookup r n end.
Fixpoint ein_assign (vars : list (N * nat)) (names : list N) : list nat * list (N * nat) :=
  match names with
  | [] => ([], vars)
  | n :: r =>
    match ein_lookup vars n with
    | Some k => let '(ks, v') := ein_assign vars r in (k :: ks, v')
    | None => let k := List.length vars in let '(ks, v') := ein_assign (vars ++ [(n, k)]) r in (k :: ks, v')
    end
  end.
Definition ein_letter (k : nat) : string := String (Ascii.ascii_of_nat (97 + k)) EmptyString.
Definition ein_word (ks : list nat) : string := fold_right (fun k acc => append (ein_letter k) acc) EmptyString ks.
Definition ein_subscripts (d1 d2 dout : list pex) : string :=
  let '(k1, v1) := ein_assign [] (lnames d1) in
  let '(k2, v2) := ein_assign v1 (lnames d2) in
  let '(ko, _) := ein_assign v2 (lnames dout) in
  append "'" (append (ein_word k1) (append "," (append (ein_word k2) (append "->" (append (ein_word ko) "'"))))).
Definition ein_operand (k : nat) (d : list pex) : tm := MReshape (MIn k (map psize d)) (llens d).
Definition lower_einsum_dot (d1 d2 dout : list pex) : tm :=
  MReshape (MOther "einsum" [ein_operand 0 d1; ein_operand 1 d2] [ein_subscripts d1 d2 dout; "kw:"%string] (llens dout)) (map psize dout).
Definition subset_names (a b : list N) : bool := forallb (fun n => memNb n b) a.
Definition einsum_dot_ok (d1 d2 dout : list pex) : bool :=
  forallb plain d1 && forallb plain d2 && forallb plain dout && nodupb (lnames d1) && nodupb (lnames d2) && nodupb (lnames dout)
  && subset_names (lnames dout) (lnames d1 ++ lnames d2)
  && Nat.leb (List.length (snd (ein_assign (snd (ein_assign [] (lnames d1))) (lnames d2)))) 26.

(* ---- operations that keep the shape and act along the bracketed axes (flip, roll) ----
   reshape to the leaf axes, the backend function with axis = the tuple of bracketed positions (plus its own literal arguments),
   rearrangement of the leaf axes into the output *)
Definition tuple_lit (ax : list nat) : string := append "[" (append (join_str "," (map EinxV.Base.Sexp.string_of_nat ax)) "]").
Definition leaf_dims (d : list pex) : list pex := map leaf_ax (leaves d).
Definition unmark (d : list pex) : list pex := map (pmark (fun _ => false)) d.
Definition preserve_call (f : string) (extra : list string) (kwlit : string) (din : list pex) : tm :=
  MOther f [MReshape (MIn 0 (map psize din)) (llens din)]
         (tuple_lit (EinxV.Gen.GenAdapter.gen_expr_to_axis (lmarks din)) :: extra ++ [kwlit]) (llens din).
Definition lower_preserve (f : string) (extra : list string) (kwlit : string) (din dout : list pex) : tm :=
  MReshape (MTranspose (MReshape (preserve_call f extra kwlit din) (llens din)) (perm_of din dout)) (map psize dout).
Definition preserve_ok (din dout : list pex) : bool :=
  forallb unoffset din && forallb unoffset dout && rearrange_ok (leaf_dims din) (unmark dout).

(* ---- rearrangements with new output axes ("a b -> a c b": output-only axes repeat the value) ----
   the input is aligned with the output's leaf order (length-1 dimensions where it lacks an axis, as for element-wise operands),
   broadcast to the output's leaf lengths with the backend's broadcast_to, and reshaped to the output dimensions *)
Definition lower_broadcast (k : nat) (din dout : list pex) : tm :=
  MReshape (MBroadcast (lower_align k din dout) (llens dout)) (map psize dout).
Definition broadcast_ok (din dout : list pex) : bool := align_ok din dout.
