(* Wire decoding of optimiser terms and the equivalence-check command (glue). *)
From Coq Require Import String List NArith Arith Bool.
From EinxV Require Import Base.Sexp Model.IrIO Model.Opt.
Import ListNotations.
Open Scope string_scope.

Fixpoint dTm (fuel : nat) (s : sexp) : option tm :=
  match fuel with
  | O => None
  | S f =>
    match s with
    | L [A "in"; k; sh] => match dNat k, dListN sh with Some k, Some sh => Some (MIn k sh) | _, _ => None end
    | L [A "reshape"; x; sh] => match dTm f x, dListN sh with Some x, Some sh => Some (MReshape x sh) | _, _ => None end
    | L [A "transpose"; x; p] => match dTm f x, dListNat p with Some x, Some p => Some (MTranspose x p) | _, _ => None end
    | L [A "broadcast"; x; sh] => match dTm f x, dListN sh with Some x, Some sh => Some (MBroadcast x sh) | _, _ => None end
    | L [A "concat"; L xs; ax] => match mapM (dTm f) xs, dNat ax with Some xs, Some ax => Some (MConcat xs ax) | _, _ => None end
    | L [A "other"; fn; L args; L lits; sh] =>
      match dS fn, mapM (dTm f) args, mapM dS lits, dListN sh with
      | Some fn, Some args, Some lits, Some sh => Some (MOther fn args lits sh)
      | _, _, _, _ => None
      end
    | _ => None
    end
  end.

Definition run_opt (cmd : string) (arg : sexp) : sexp :=
  if String.eqb cmd "opt_equiv" then
    match arg with
    | L [a; b] =>
      match dTm 500 a, dTm 500 b with
      | Some a, Some b =>
        L [A "equiv"; sB (equiv a b); sB (wf_tm a); sB (wf_tm b); sNat (tsize a); sNat (tsize b);
           sB (tm_eqb (norm b) b)]
      | _, _ => bad "opt_equiv: cannot decode"
      end
    | _ => bad "opt_equiv: expected (before after)"
    end
  else bad "opt: unknown command".
