(* Tracer graph IR (einx/_src/tracer/graph.py, signature/python.py), the straight-line Python
   subset the code generator emits, and their symbolic semantics:

     seval : graph -> option (events * result)     demand-driven, every application once
     sexec : code  -> option (events * result)     statement by statement over a store

   Both produce the ordered list of effect events (calls, in-place calls, item updates, asserts)
   with symbolic arguments, and a symbolic result.  [agree] compares them; CodeSemProofs.v shows
   that [sexec] is exactly a concrete store-passing execution under every interpretation of the
   primitives (calls may depend on the whole history, which models mutation through references). *)
From Coq Require Import List String ZArith Bool Arith.
Import ListNotations.
Open Scope string_scope.
Open Scope list_scope.

(* ---------------------------------------------------------------- symbolic values *)
Inductive sval :=
| SIn (k : nat)                                   (* k-th parameter of the graph *)
| SEv (k : nat)                                   (* value returned by the k-th event *)
| SInt (z : Z) | SStr (s : string) | SNone | SBool (b : bool) | SFloat (s : string)
| STuple (l : list sval) | SList (l : list sval) | SDict (l : list (sval * sval))
| SSlice (a b c : option sval)
| SAttr (o : sval) (k : string)
| SItem (o k : sval)
| SOp (op : string) (args : list sval)
| SPure (f : string) (args : list sval)           (* isinstance / tuple / list: inlinable builtins *)
| SImport (imp : string) (from : option string)
| SBuiltin (name : string)
| SConst (k : nat).

Inductive event :=
| ECall (f : sval) (args : list sval) (kwargs : list (string * sval))
| EUpdate (o k v : sval) (op : string)
| EAssert (c : sval) (msg : option string).

(* ---------------------------------------------------------------- graphs *)
(* a reference to a tracer: output number [path] of application [id] (path [] = the whole output) *)
Inductive gval :=
| GRef (id : nat) (path : list nat)
| GInt (z : Z) | GStr (s : string) | GNone | GBool (b : bool) | GFloat (s : string)
| GTuple (l : list gval) | GList (l : list gval) | GDict (l : list (gval * gval))
| GSlice (a b c : option gval).

Inductive app :=
| AInput (k : nat)
| ACall (f : gval) (args : list gval) (kwargs : list (string * gval))
| ACallInplace (xs f : gval) (args : list gval) (kwargs : list (string * gval))
| AGetAttr (o : gval) (k : string)
| AGetItem (o k : gval)
| AUpdateItem (o k v : gval) (op : string)
| AImport (imp : string) (from : option string)
| AOp (op : string) (args : list gval)
| ABuiltin (name : string)
| AAssert (xs c : gval) (msg : option string)
| AConstant
| ACast (inp : gval).

Record graph := { g_nodes : list (nat * app); g_output : gval }.

Definition pure_builtins : list string := ["isinstance"; "tuple"; "list"].
Definition is_pure_builtin (s : string) : bool := existsb (String.eqb s) pure_builtins.

Fixpoint find_node (ns : list (nat * app)) (id : nat) : option app :=
  match ns with
  | [] => None
  | (k, a) :: r => if Nat.eqb k id then Some a else find_node r id
  end.

(* evaluation state: memo (application id -> symbolic output), events so far, constants seen *)
Record gstate := { memo : list (nat * sval); evs : list event; nconst : nat }.

Fixpoint memo_find (m : list (nat * sval)) (id : nat) : option sval :=
  match m with
  | [] => None
  | (k, v) :: r => if Nat.eqb k id then Some v else memo_find r id
  end.

(* projection of a pytree-valued output *)
Fixpoint project (v : sval) (path : list nat) : option sval :=
  match path with
  | [] => Some v
  | i :: r =>
    match v with
    | STuple l | SList l => match nth_error l i with Some x => project x r | None => None end
    | _ => Some (fold_left (fun acc j => SItem acc (STuple [SInt (Z.of_nat j)])) path v)   (* unpacking an opaque value: v[i] (keys are compared as tuples) *)
    end
  end.

Section Eval.
  Variable nodes : list (nat * app).

  (* monadic helpers on option (gstate * A) *)
  Definition ret {A} (st : gstate) (a : A) : option (gstate * A) := Some (st, a).

  Fixpoint ev_val (fuel : nat) (st : gstate) (v : gval) {struct fuel} : option (gstate * sval) :=
    match fuel with
    | O => None
    | S f =>
      let ev_list := fix go (st : gstate) (l : list gval) : option (gstate * list sval) :=
                       match l with
                       | [] => Some (st, [])
                       | x :: r => match ev_val f st x with
                                   | Some (st1, sx) => match go st1 r with
                                                       | Some (st2, sr) => Some (st2, sx :: sr)
                                                       | None => None end
                                   | None => None end
                       end in
      let ev_opt := fun (st : gstate) (o : option gval) =>
                      match o with
                      | None => Some (st, None)
                      | Some x => match ev_val f st x with Some (st1, sx) => Some (st1, Some sx) | None => None end
                      end in
      match v with
      | GInt z => ret st (SInt z) | GStr s => ret st (SStr s) | GNone => ret st SNone
      | GBool b => ret st (SBool b) | GFloat s => ret st (SFloat s)
      | GTuple l => match ev_list st l with Some (st1, sl) => ret st1 (STuple sl) | None => None end
      | GList l => match ev_list st l with Some (st1, sl) => ret st1 (SList sl) | None => None end
      | GDict l =>
        match ev_list st (map fst l) with
        | Some (st1, ks) => match ev_list st1 (map snd l) with
                            | Some (st2, vs) => ret st2 (SDict (combine ks vs))
                            | None => None end
        | None => None end
      | GSlice a b c =>
        match ev_opt st a with
        | Some (st1, sa) => match ev_opt st1 b with
                            | Some (st2, sb) => match ev_opt st2 c with
                                                | Some (st3, sc) => ret st3 (SSlice sa sb sc)
                                                | None => None end
                            | None => None end
        | None => None end
      | GRef id path =>
        match memo_find (memo st) id with
        | Some out => match project out path with Some r => ret st r | None => None end
        | None =>
          match find_node nodes id with
          | None => None
          | Some a =>
            let finish (st : gstate) (out : sval) :=
                let st' := {| memo := (id, out) :: memo st; evs := evs st; nconst := nconst st |} in
                match project out path with Some r => ret st' r | None => None end in
            let kw_eval (st : gstate) (kw : list (string * gval)) :=
                match ev_list st (map snd kw) with
                | Some (st1, vs) => Some (st1, combine (map fst kw) vs)
                | None => None end in
            let emit (st : gstate) (e : event) :=
                ({| memo := memo st; evs := evs st ++ [e]; nconst := nconst st |}, List.length (evs st)) in
            match a with
            | AInput k => finish st (SIn k)
            | ACall fn args kw =>
              match ev_val f st fn with
              | Some (st1, sf) =>
                match ev_list st1 args with
                | Some (st2, sa) =>
                  match kw_eval st2 kw with
                  | Some (st3, skw) =>
                    match sf with
                    | SBuiltin name =>
                      if is_pure_builtin name && match skw with [] => true | _ => false end
                      then finish st3 (SPure name sa)
                      else let '(st4, k) := emit st3 (ECall sf sa skw) in finish st4 (SEv k)
                    | _ => let '(st4, k) := emit st3 (ECall sf sa skw) in finish st4 (SEv k)
                    end
                  | None => None end
                | None => None end
              | None => None end
            | ACallInplace xs fn args kw =>
              match ev_val f st xs with
              | Some (st0, sxs) =>
                match ev_val f st0 fn with
                | Some (st1, sf) =>
                  match ev_list st1 args with
                  | Some (st2, sa) =>
                    match kw_eval st2 kw with
                    | Some (st3, skw) => let '(st4, _) := emit st3 (ECall sf sa skw) in finish st4 sxs
                    | None => None end
                  | None => None end
                | None => None end
              | None => None end
            | AGetAttr o k => match ev_val f st o with Some (st1, so) => finish st1 (SAttr so k) | None => None end
            | AGetItem o k =>
              match ev_val f st o with
              | Some (st1, so) => match ev_val f st1 k with
                                  | Some (st2, sk) => finish st2 (SItem so sk)
                                  | None => None end
              | None => None end
            | AUpdateItem o k v op =>
              match ev_val f st o with
              | Some (st1, so) =>
                match ev_val f st1 k with
                | Some (st2, sk) =>
                  match ev_val f st2 v with
                  | Some (st3, sv) => let '(st4, _) := emit st3 (EUpdate so sk sv op) in finish st4 so
                  | None => None end
                | None => None end
              | None => None end
            | AImport imp from => finish st (SImport imp from)
            | AOp op args => match ev_list st args with Some (st1, sa) => finish st1 (SOp op sa) | None => None end
            | ABuiltin name => finish st (SBuiltin name)
            | AAssert xs c msg =>
              match ev_val f st xs with
              | Some (st1, sxs) =>
                match ev_val f st1 c with
                | Some (st2, sc) => let '(st3, _) := emit st2 (EAssert sc msg) in finish st3 sxs
                | None => None end
              | None => None end
            | AConstant =>
              let st1 := {| memo := memo st; evs := evs st; nconst := S (nconst st) |} in
              finish st1 (SConst (S (nconst st)))
            | ACast inp => match ev_val f st inp with Some (st1, si) => finish st1 si | None => None end
            end
          end
        end
      end
    end.
End Eval.

Definition seval (fuel : nat) (g : graph) : option (list event * sval) :=
  match ev_val (g_nodes g) fuel {| memo := []; evs := []; nconst := 0 |} (g_output g) with
  | Some (st, r) => Some (evs st, r)
  | None => None
  end.

(* ---------------------------------------------------------------- generated code *)
Inductive expr :=
| XVar (x : string) | XInt (z : Z) | XStr (s : string) | XNone | XBool (b : bool) | XFloat (s : string)
| XTuple (l : list expr) | XList (l : list expr) | XDict (l : list (expr * expr))
| XSlice (a b c : option expr)
| XAttr (o : expr) (k : string)
| XItem (o k : expr)
| XOp (op : string) (args : list expr)
| XCall (f : expr) (args : list expr) (kwargs : list (string * expr)).

Inductive stmt :=
| StAssign (x : string) (e : expr)
| StExpr (e : expr)
| StAug (o k : expr) (op : string) (v : expr)
| StAssert (c : expr) (msg : option string)
| StImport (imp : string) (from : option string) (as_ : string).

Record code := { c_params : list string; c_body : list stmt; c_ret : expr }.

Definition store := list (string * sval).
Fixpoint slookup (s : store) (x : string) : option sval :=
  match s with [] => None | (k, v) :: r => if String.eqb k x then Some v else slookup r x end.

(* "constN" -> N *)
Definition const_index (x : string) : option nat :=
  if String.prefix "const" x then
    match x with
    | String _ (String _ (String _ (String _ (String _ digits)))) =>
      let fix go (s : string) (acc : nat) : option nat :=
          match s with
          | EmptyString => Some acc
          | String c r => let n := Ascii.nat_of_ascii c in
                          if Nat.leb 48 n && Nat.leb n 57 then go r (acc * 10 + (n - 48)) else None
          end in
      match digits with EmptyString => None | _ => go digits 0 end
    | _ => None
    end
  else None.

(* sequencing helpers: thread a state through a list / an optional element *)
Fixpoint seq_list {S A B} (f : S -> A -> option (S * B)) (st : S) (l : list A) : option (S * list B) :=
  match l with
  | [] => Some (st, [])
  | x :: r => match f st x with
              | Some (st1, v) => match seq_list f st1 r with
                                 | Some (st2, vs) => Some (st2, v :: vs)
                                 | None => None end
              | None => None end
  end.
Definition seq_opt {S A B} (f : S -> A -> option (S * B)) (st : S) (o : option A) : option (S * option B) :=
  match o with
  | None => Some (st, None)
  | Some x => match f st x with Some (st1, v) => Some (st1, Some v) | None => None end
  end.

Definition call_is_pure (sf : sval) (skw : list (string * sval)) : option string :=
  match sf, skw with
  | SBuiltin name, [] => if is_pure_builtin name then Some name else None
  | _, _ => None
  end.

Fixpoint sx (fuel : nat) (s : store) (es : list event) (e : expr) {struct fuel} : option (list event * sval) :=
  match fuel with
  | O => None
  | S f =>
    let go := fun es x => sx f s es x in
    match e with
    | XVar x =>
      match slookup s x with
      | Some v => Some (es, v)
      | None => match const_index x with Some k => Some (es, SConst k) | None => Some (es, SBuiltin x) end
      end
    | XInt z => Some (es, SInt z) | XStr t => Some (es, SStr t) | XNone => Some (es, SNone)
    | XBool b => Some (es, SBool b) | XFloat t => Some (es, SFloat t)
    | XTuple l => match seq_list go es l with Some (es1, vs) => Some (es1, STuple vs) | None => None end
    | XList l => match seq_list go es l with Some (es1, vs) => Some (es1, SList vs) | None => None end
    | XDict l =>
      match seq_list go es (map fst l) with
      | Some (es1, ks) => match seq_list go es1 (map snd l) with
                          | Some (es2, vs) => Some (es2, SDict (combine ks vs))
                          | None => None end
      | None => None end
    | XSlice a b c =>
      match seq_opt go es a with
      | Some (es1, sa) => match seq_opt go es1 b with
                          | Some (es2, sb) => match seq_opt go es2 c with
                                              | Some (es3, sc) => Some (es3, SSlice sa sb sc)
                                              | None => None end
                          | None => None end
      | None => None end
    | XAttr o k => match go es o with Some (es1, so) => Some (es1, SAttr so k) | None => None end
    | XItem o k =>
      match go es o with
      | Some (es1, so) => match go es1 k with Some (es2, sk) => Some (es2, SItem so sk) | None => None end
      | None => None end
    | XOp op args => match seq_list go es args with Some (es1, vs) => Some (es1, SOp op vs) | None => None end
    | XCall fn args kw =>
      match go es fn with
      | Some (es1, sf) =>
        match seq_list go es1 args with
        | Some (es2, sa) =>
          match seq_list go es2 (map snd kw) with
          | Some (es3, skv) =>
            let skw := combine (map fst kw) skv in
            match call_is_pure sf skw with
            | Some name => Some (es3, SPure name sa)
            | None => Some (es3 ++ [ECall sf sa skw], SEv (List.length es3))
            end
          | None => None end
        | None => None end
      | None => None end
    end
  end.

Definition sx_stmt (fuel : nat) (st : store * list event) (c : stmt) : option (store * list event) :=
  let '(s, es) := st in
  match c with
  | StAssign x e => match sx fuel s es e with Some (es1, v) => Some ((x, v) :: s, es1) | None => None end
  | StExpr e => match sx fuel s es e with Some (es1, _) => Some (s, es1) | None => None end
  | StAug o k op v =>
    match sx fuel s es o with
    | Some (es1, so) =>
      match sx fuel s es1 k with
      | Some (es2, sk) => match sx fuel s es2 v with
                          | Some (es3, sv) => Some (s, es3 ++ [EUpdate so sk sv op])
                          | None => None end
      | None => None end
    | None => None end
  | StAssert c msg => match sx fuel s es c with Some (es1, sc) => Some (s, es1 ++ [EAssert sc msg]) | None => None end
  | StImport imp from as_ => Some ((as_, SImport imp from) :: s, es)
  end.

Fixpoint sx_body (fuel : nat) (st : store * list event) (b : list stmt) : option (store * list event) :=
  match b with
  | [] => Some st
  | c :: r => match sx_stmt fuel st c with Some st1 => sx_body fuel st1 r | None => None end
  end.

Definition init_store (params : list string) : store :=
  rev (map (fun kp => (snd kp, SIn (fst kp))) (combine (seq 0 (List.length params)) params)).

Definition sexec (fuel : nat) (pre : list stmt) (c : code) : option (list event * sval) :=
  (* [pre]: module-level statements before the def (imports); parameters shadow them *)
  match sx_body fuel ([], []) pre with
  | Some (s0, es0) =>
    match sx_body fuel (init_store (c_params c) ++ s0, es0) (c_body c) with
    | Some (s, es) => sx fuel s es (c_ret c)
    | None => None
    end
  | None => None
  end.
