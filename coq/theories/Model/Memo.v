(* The memo of compiled functions (util/lru_cache.py: functools' cache behind the argument freezing), as threads see it:
   a call looks its key up; on a miss it computes (traces and compiles - other threads may run meanwhile) and then publishes
   key and result TOGETHER.  [Two] is the variant that remembers the last call in two separately written cells. *)
From Coq Require Import List Arith Bool.
Import ListNotations.

Section Memo.
  Variable f : nat -> nat.                          (* what a fresh trace of a key yields *)

  Record thread := { todo : list nat; pending : option nat; got : list (nat * nat) }.   (* got: (key, returned result) *)

  Fixpoint find (m : list (nat * nat)) (k : nat) : option nat :=
    match m with [] => None | (a, v) :: r => if Nat.eqb a k then Some v else find r k end.

  Fixpoint upd {A} (l : list A) (i : nat) (x : A) : list A :=
    match l, i with [], _ => [] | _ :: r, O => x :: r | y :: r, S j => y :: upd r j x end.

  (* ---- one table, key and result published together ---- *)
  Definition step (st : list (nat * nat) * list thread) (i : nat) : list (nat * nat) * list thread :=
    let '(m, ts) := st in
    match nth_error ts i with
    | None => st
    | Some t =>
      match pending t with
      | Some k => ((k, f k) :: m, upd ts i {| todo := todo t; pending := None; got := got t ++ [(k, f k)] |})
      | None =>
        match todo t with
        | [] => st
        | k :: rest =>
          match find m k with
          | Some v => (m, upd ts i {| todo := rest; pending := None; got := got t ++ [(k, v)] |})
          | None => (m, upd ts i {| todo := rest; pending := Some k; got := got t |})
          end
        end
      end
    end.
  Definition run (st : list (nat * nat) * list thread) (sched : list nat) := fold_left step sched st.

  (* ---- the last call remembered in two cells, written one after the other ---- *)
  Record thread2 := { todo2 : list nat; stage : option (nat * bool); got2 : list (nat * nat) }.   (* (key, key already written?) *)
  Definition step2 (st : (option nat * nat) * list thread2) (i : nat) : (option nat * nat) * list thread2 :=
    let '((lk, lv), ts) := st in
    match nth_error ts i with
    | None => st
    | Some t =>
      match stage t with
      | Some (k, false) => ((Some k, lv), upd ts i {| todo2 := todo2 t; stage := Some (k, true); got2 := got2 t |})
      | Some (k, true) => ((lk, f k), upd ts i {| todo2 := todo2 t; stage := None; got2 := got2 t ++ [(k, f k)] |})
      | None =>
        match todo2 t with
        | [] => st
        | k :: rest =>
          match lk with
          | Some k' => if Nat.eqb k' k then ((lk, lv), upd ts i {| todo2 := rest; stage := None; got2 := got2 t ++ [(k, lv)] |})
                       else ((lk, lv), upd ts i {| todo2 := rest; stage := Some (k, false); got2 := got2 t |})
          | None => ((lk, lv), upd ts i {| todo2 := rest; stage := Some (k, false); got2 := got2 t |})
          end
        end
      end
    end.
  Definition run2 (st : (option nat * nat) * list thread2) (sched : list nat) := fold_left step2 sched st.
End Memo.
