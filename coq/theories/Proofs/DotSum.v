(* dot on the matmul path computes the sum of products over the contracted index - given that the backend's batched matmul
   does (its completeness is the one hypothesis; numpy's matmul is outside the model). *)
From Coq Require Import List NArith ZArith Arith Bool Lia.
From Coq Require Import String.
Close Scope string_scope.
From EinxV Require Import Spec.LoopSem Model.Opt Model.Lower Proofs.LoopSemProofs Proofs.OptProofs Proofs.LowerProofs.
Import ListNotations.
Open Scope N_scope.

(* sum of g over 0 .. n-1 *)
Definition zsum (n : N) (g : N -> Z) : Z := fold_right Z.add 0%Z (map (fun k => g (N.of_nat k)) (seq 0 (N.to_nat n))).

(* an environment in which the axes [names] take the indices [idx] *)
Definition ext (rho : env) (names idx : list N) : env := combine names idx ++ rho.

Lemma lookup_ext_notin rho names idx n : ~ In n names -> lookup (ext rho names idx) n = lookup rho n.
Proof.
  unfold ext. revert idx. induction names as [|a r IH]; intros idx Hn; [reflexivity|].
  destruct idx as [|i idx]; [reflexivity|]. cbn [combine app lookup].
  destruct (N.eqb_spec a n) as [->|Hne]; [exfalso; apply Hn; now left|]. apply IH. intros H. apply Hn. now right.
Qed.

Lemma lookup_ext_names rho names : NoDup names -> forall idx, List.length idx = List.length names ->
  map (lookup (ext rho names idx)) names = idx.
Proof.
  unfold ext. induction 1 as [|a r Ha Hr IH]; intros [|i idx] Hl; try discriminate; [reflexivity|].
  cbn [combine app map lookup]. rewrite N.eqb_refl. f_equal.
  injection Hl as Hl. transitivity (map (lookup (combine r idx ++ rho)) r); [|exact (IH idx Hl)]. apply map_ext_in. intros n Hn.
  cbn [lookup]. destruct (N.eqb_spec a n) as [->|_]; [contradiction|reflexivity].
Qed.

Lemma lookup_ext_lt rho names : NoDup names -> forall idx lens, Forall2 N.lt idx lens -> List.length names = List.length lens ->
  forall n l, In (n, l) (combine names lens) -> lookup (ext rho names idx) n < l.
Proof.
  unfold ext. induction 1 as [|a r Ha Hr IH]; intros idx lens HF Hl n l Hin; [destruct lens; contradiction|].
  destruct HF as [|i l0 idx lens Hi HF]; [discriminate|]. cbn [combine app lookup] in *. injection Hl as Hl.
  destruct Hin as [E|Hin].
  - injection E as -> ->. now rewrite N.eqb_refl.
  - destruct (N.eqb_spec a n) as [->|_]; [exfalso; apply Ha; eapply in_combine_l; exact Hin|]. eapply IH; eassumption.
Qed.

Lemma unravel_length s : forall n, List.length (unravel n s) = List.length s.
Proof. induction s as [|l r IH]; intros n; [reflexivity|]. rewrite unravel_cons. cbn [List.length]. now rewrite IH. Qed.

Lemma NoDup_map_filter {A B} (g : A -> B) (P : A -> bool) l : NoDup (map g l) -> NoDup (map g (filter P l)).
Proof.
  induction l as [|x r IH]; intros H; [constructor|]. cbn [map] in H. inversion H as [|? ? Hx Hr]; subst. cbn [filter].
  destruct (P x); [|now apply IH]. cbn [map]. constructor; [|now apply IH].
  intros Hin. apply Hx. apply in_map_iff in Hin as [y [E Hy]]. apply filter_In in Hy as [Hy _]. apply in_map_iff. eauto.
Qed.

Lemma in_combine_map {A} (g h : A -> N) (l : list A) y : In y l -> In (g y, h y) (combine (map g l) (map h l)).
Proof. induction l as [|x r IH]; intros H; [contradiction|]. cbn [map combine]. destruct H as [->|H]; [now left|right; auto]. Qed.

Lemma rearrange_ok_nodup din dout : rearrange_ok din dout = true -> NoDup (lnames din).
Proof. unfold rearrange_ok. intros H. apply andb_prop in H as [H _]. apply andb_prop in H as [_ H]. now apply nodupb_NoDup. Qed.

Lemma rearrange_ok_same din dout : rearrange_ok din dout = true ->
  forall x, In x (leaves dout) -> exists y, In y (leaves din) /\ fst (fst x) = fst (fst y) /\ snd (fst x) = snd (fst y).
Proof.
  unfold rearrange_ok, same_axes. intros H x Hx. apply andb_prop in H as [_ H]. rewrite forallb_forall in H. specialize (H x Hx).
  apply existsb_exists in H as [y [Hy E]]. apply andb_prop in E as [E1 E2]. apply N.eqb_eq in E1, E2. eauto.
Qed.

Definition nm (x : N * N * bool) : N := fst (fst x).
Definition ln (x : N * N * bool) : N := snd (fst x).

Lemma pidx_group_ext rho names idx (L : list (N * N * bool)) :
  (forall x, In x L -> ~ In (nm x) names) -> pidx (ext rho names idx) (PFl (map leaf_ax L)) = pidx rho (PFl (map leaf_ax L)).
Proof.
  intros H. rewrite !pidx_group. f_equal. apply map_ext_in. intros x Hx. apply lookup_ext_notin. exact (H x Hx).
Qed.

Lemma pidx_group_own rho (L : list (N * N * bool)) idx :
  NoDup (map nm L) -> List.length idx = List.length L ->
  pidx (ext rho (map nm L) idx) (PFl (map leaf_ax L)) = ravel idx (map ln L).
Proof.
  intros Hnd Hl. rewrite pidx_group. f_equal.
  rewrite <- (map_map nm (lookup (ext rho (map nm L) idx))). apply lookup_ext_names; [exact Hnd|now rewrite map_length].
Qed.

Lemma in_bounds_ext rho d (L : list (N * N * bool)) idx :
  in_bounds rho d -> NoDup (map nm L) -> Forall2 N.lt idx (map ln L) ->
  (forall x, In x (leaves d) -> In (nm x) (map nm L) -> In (nm x, ln x) (combine (map nm L) (map ln L))) ->
  in_bounds (ext rho (map nm L) idx) d.
Proof.
  intros B Hnd HF Hco x Hx. destruct (in_dec N.eq_dec (nm x) (map nm L)) as [Hin|Hnin].
  - apply (lookup_ext_lt rho _ Hnd idx (map ln L) HF); [now rewrite !map_length|]. exact (Hco x Hx Hin).
  - unfold nm in Hnin. rewrite lookup_ext_notin by exact Hnin. exact (B x Hx).
Qed.

Section DotSum.
  Variable inp : nat -> entries Z.
  Variable F : String.string -> list (entries Z) -> list String.string -> entries Z.
  Variable BC : list N -> list N -> entries Z -> entries Z.
  Variable CC : nat -> list (list N * entries Z) -> entries Z.
  Variables (d1 d2 dout : list pex).
  Hypothesis Hok : dot_ok d1 d2 dout = true.

  (* the contracted leaf axes, in the left operand's order *)
  Definition cl : list (N * N * bool) :=
    filter (fun x => memNb (fst (fst x)) (lnames d2) && negb (memNb (fst (fst x)) (lnames dout))) (leaves d1).
  Definition cnames : list N := map nm cl.
  Definition clens : list N := map ln cl.
  Definition J : N := nprod clens.
  (* the loop environment [rho] with the contracted axes at the j-th combination of their indices *)
  Definition at_j (rho : env) (j : N) : env := ext rho cnames (unravel j clens).

  Let H1 : rearrange_ok d1 (dot_lhs d1 d2 dout) = true.
  Proof. unfold dot_ok in Hok. apply andb_prop in Hok as [H _]. apply andb_prop in H as [H _]. exact H. Qed.
  Let H2 : rearrange_ok d2 (dot_rhs d1 d2 dout) = true.
  Proof. unfold dot_ok in Hok. apply andb_prop in Hok as [H _]. apply andb_prop in H as [_ H]. exact H. Qed.

  Let Hnd1 : NoDup (map nm (leaves d1)). Proof. exact (rearrange_ok_nodup _ _ H1). Qed.
  Let Hnd2 : NoDup (map nm (leaves d2)). Proof. exact (rearrange_ok_nodup _ _ H2). Qed.
  Let Hndc : NoDup cnames. Proof. unfold cnames, cl. apply NoDup_map_filter. exact Hnd1. Qed.

  Lemma cl_in x : In x cl -> In x (leaves d1) /\ memNb (nm x) (lnames d2) = true /\ memNb (nm x) (lnames dout) = false.
  Proof.
    unfold cl. intros H. apply filter_In in H as [Hx E]. apply andb_prop in E as [E1 E2]. apply negb_true_iff in E2. auto.
  Qed.

  Lemma cname_in n : In n cnames -> exists y, In y cl /\ nm y = n.
  Proof. unfold cnames. intros H. apply in_map_iff in H as [y [E Hy]]. eauto. Qed.

  (* the contracted axes have the same length in both operands *)
  Lemma coherent1 x : In x (leaves d1) -> In (nm x) cnames -> In (nm x, ln x) (combine cnames clens).
  Proof.
    intros Hx Hn. destruct (cname_in _ Hn) as [y [Hy E]]. destruct (cl_in y Hy) as [Hy1 _].
    assert (x = y) as -> by (apply (nodup_leaf_inj (leaves d1)); auto).
    apply in_combine_map. exact Hy.
  Qed.

  Lemma contract_leaf_in_rhs y : In y cl -> In (nm y, ln y, false) (leaves (dot_rhs d1 d2 dout)).
  Proof.
    intros Hy. unfold dot_rhs. rewrite leaves_three. apply in_or_app. right. apply in_or_app. left.
    unfold dot_contract. rewrite leaves_leaf_ax. apply in_map_iff. exists y. split; [reflexivity|exact Hy].
  Qed.

  Lemma coherent2 x : In x (leaves d2) -> In (nm x) cnames -> In (nm x, ln x) (combine cnames clens).
  Proof.
    intros Hx Hn. destruct (cname_in _ Hn) as [y [Hy E]].
    destruct (rearrange_ok_same _ _ H2 _ (contract_leaf_in_rhs y Hy)) as [w [Hw [E1 E2]]]. cbn [fst snd] in E1, E2.
    assert (x = w) as -> by (apply (nodup_leaf_inj (leaves d2)); auto; unfold nm in *; congruence).
    unfold nm, ln in *. rewrite <- E1, <- E2. apply (in_combine_map nm ln). exact Hy.
  Qed.

  Lemma valid_j j : j < J -> Forall2 N.lt (unravel j clens) clens.
  Proof. intros Hj. apply unravel_valid. exact Hj. Qed.

  Lemma at_j_bounds1 rho j : j < J -> in_bounds rho d1 -> in_bounds (at_j rho j) d1.
  Proof. intros Hj B. apply in_bounds_ext; [exact B|exact Hndc|exact (valid_j j Hj)|exact coherent1]. Qed.
  Lemma at_j_bounds2 rho j : j < J -> in_bounds rho d2 -> in_bounds (at_j rho j) d2.
  Proof. intros Hj B. apply in_bounds_ext; [exact B|exact Hndc|exact (valid_j j Hj)|exact coherent2]. Qed.

  (* none of the other three groups names a contracted axis *)
  Lemma batch_not_contracted x :
    In x (filter (fun x => memNb (fst (fst x)) (lnames d2) && memNb (fst (fst x)) (lnames dout)) (leaves d1)) -> ~ In (nm x) cnames.
  Proof.
    intros Hx Hn. apply filter_In in Hx as [_ E]. apply andb_prop in E as [_ E]. destruct (cname_in _ Hn) as [y [Hy Ey]].
    destruct (cl_in y Hy) as [_ [_ Hf]]. unfold nm in *. rewrite Ey in Hf. congruence.
  Qed.
  Lemma left_not_contracted x : In x (filter (fun x => negb (memNb (fst (fst x)) (lnames d2))) (leaves d1)) -> ~ In (nm x) cnames.
  Proof.
    intros Hx Hn. apply filter_In in Hx as [_ E]. apply negb_true_iff in E. destruct (cname_in _ Hn) as [y [Hy Ey]].
    destruct (cl_in y Hy) as [_ [Ht _]]. unfold nm in *. rewrite Ey in Ht. congruence.
  Qed.
  Lemma right_not_contracted x : In x (filter (fun x => negb (memNb (fst (fst x)) (lnames d1))) (leaves d2)) -> ~ In (nm x) cnames.
  Proof.
    intros Hx Hn. apply filter_In in Hx as [_ E]. apply negb_true_iff in E. destruct (cname_in _ Hn) as [y [Hy Ey]].
    destruct (cl_in y Hy) as [Hy1 _]. assert (memNb (nm x) (lnames d1) = true) as Ht.
    { apply memNb_In. rewrite <- Ey. unfold lnames. apply in_map_iff. exists y. split; [reflexivity|exact Hy1]. }
    unfold nm in *. congruence.
  Qed.

  Lemma lhs_at_j rho j : j < J ->
    map (pidx (at_j rho j)) (dot_lhs d1 d2 dout) = [pidx rho (PFl (dot_batch d1 d2 dout)); pidx rho (PFl (dot_left d1 d2)); j].
  Proof.
    intros Hj. unfold dot_lhs, at_j. cbn [map]. unfold dot_batch, dot_left, dot_contract.
    rewrite (pidx_group_ext rho cnames _ _ batch_not_contracted), (pidx_group_ext rho cnames _ _ left_not_contracted).
    fold cl. unfold cnames. rewrite (pidx_group_own rho cl _ Hndc); [|now rewrite unravel_length; unfold clens; rewrite map_length].
    fold clens. now rewrite ravel_unravel.
  Qed.

  Lemma rhs_at_j rho j : j < J ->
    map (pidx (at_j rho j)) (dot_rhs d1 d2 dout) = [pidx rho (PFl (dot_batch d1 d2 dout)); j; pidx rho (PFl (dot_right d1 d2))].
  Proof.
    intros Hj. unfold dot_rhs, at_j. cbn [map]. unfold dot_batch, dot_right, dot_contract.
    rewrite (pidx_group_ext rho cnames _ _ batch_not_contracted), (pidx_group_ext rho cnames _ _ right_not_contracted).
    fold cl. unfold cnames. rewrite (pidx_group_own rho cl _ Hndc); [|now rewrite unravel_length; unfold clens; rewrite map_length].
    fold clens. now rewrite ravel_unravel.
  Qed.

  (* the one assumption about the backend: a batched matmul that is given all the operand entries of a result position
     returns the sum of their products there *)
  Hypothesis matmul_complete : forall (A B : entries Z) (b i k : N) (a c : N -> Z),
    (forall j, j < J -> In ([b; i; j], a j) A /\ In ([b; j; k], c j) B) ->
    In ([b; i; k], zsum J (fun j => (a j * c j)%Z)) (F "matmul"%string [A; B] ["kw:"%string]).

  (* the operands as functions of the loop environment *)
  Variables X Y : env -> Z.
  Hypothesis HX : forall rho, in_bounds rho d1 -> In (map (pidx rho) d1, X rho) (inp 0%nat).
  Hypothesis HY : forall rho, in_bounds rho d2 -> In (map (pidx rho) d2, Y rho) (inp 1%nat).

  Theorem dot_is_the_sum_of_products rho :
    in_bounds rho d1 -> in_bounds rho d2 -> in_bounds rho dout ->
    In (map (pidx rho) dout, zsum J (fun j => (X (at_j rho j) * Y (at_j rho j))%Z)) (meval Z inp F BC CC (lower_dot d1 d2 dout)).
  Proof.
    intros B1 B2 Bo. apply (lower_dot_correct Z inp F BC CC d1 d2 dout Hok rho _ B1 B2 Bo).
    unfold dot_product, dot_operands, dot_mid. cbn [map].
    apply matmul_complete. intros j Hj. split.
    - rewrite <- (lhs_at_j rho j Hj).
      apply (dot_left_operand Z inp F BC CC d1 d2 dout Hok (at_j rho j) _ (at_j_bounds1 rho j Hj B1)). apply HX, at_j_bounds1; assumption.
    - rewrite <- (rhs_at_j rho j Hj).
      apply (dot_right_operand Z inp F BC CC d1 d2 dout Hok (at_j rho j) _ (at_j_bounds1 rho j Hj B1) (at_j_bounds2 rho j Hj B2)).
      apply HY, at_j_bounds2; assumption.
  Qed.
End DotSum.
