(* The rewrite rules of the optimiser model only ever remove reshapes / transposes / broadcasts / one-element concatenations:
   every other node - a backend function call, an in-place update, a run-time check - survives normalisation exactly once and
   in place.  Hence two terms the equivalence checker accepts have the same such nodes in the same order. *)
From Coq Require Import List NArith Arith Bool String.
From EinxV Require Import Model.Opt Proofs.OptProofs.
Import ListNotations.

(* the function applications of a term (function, literal arguments), operands before the application, left to right *)
Fixpoint calls (t : tm) : list (string * list string) :=
  match t with
  | MIn _ _ => []
  | MReshape x _ | MTranspose x _ | MBroadcast x _ => calls x
  | MConcat xs _ => flat_map calls xs
  | MOther f args lits _ => flat_map calls args ++ [(f, lits)]
  end.

Lemma calls_simp_reshape x s : calls (simp_reshape x s) = calls x.
Proof. unfold simp_reshape. destruct x; cbn [calls]; destruct (GenOpt.gen_reshape_nop _ _); reflexivity. Qed.

Lemma calls_simp_transpose x p : calls (simp_transpose x p) = calls x.
Proof.
  unfold simp_transpose. destruct x; cbn [calls]; try (destruct (GenOpt.gen_transpose_nop _ _); reflexivity).
Qed.

Lemma calls_simp_broadcast x s : calls (simp_broadcast x s) = calls x.
Proof. unfold simp_broadcast. destruct (GenOpt.gen_reshape_nop _ _); reflexivity. Qed.

Lemma calls_simp_concat xs ax : calls (simp_concat xs ax) = flat_map calls xs.
Proof. unfold simp_concat. destruct xs as [|x [|y r]]; cbn [calls flat_map]; try reflexivity. now rewrite app_nil_r. Qed.

Lemma flat_map_calls_norm xs : Forall (fun x => calls (norm x) = calls x) xs -> flat_map calls (map norm xs) = flat_map calls xs.
Proof. induction 1 as [|x r Hx _ IH]; cbn [map flat_map]; [reflexivity|]. now rewrite Hx, IH. Qed.

Theorem norm_keeps_every_call t : calls (norm t) = calls t.
Proof.
  induction t as [k s|x s IH|x p IH|x s IH|xs ax IH|f args lits s IH] using tm_ind'; cbn [norm].
  - reflexivity.
  - rewrite calls_simp_reshape. exact IH.
  - rewrite calls_simp_transpose. exact IH.
  - rewrite calls_simp_broadcast. exact IH.
  - rewrite calls_simp_concat. cbn [calls]. apply flat_map_calls_norm, IH.
  - cbn [calls]. now rewrite (flat_map_calls_norm args IH).
Qed.

Theorem equiv_keeps_every_call a b : equiv a b = true -> calls a = calls b.
Proof.
  unfold equiv. intros H. apply tm_eqb_eq in H. rewrite <- (norm_keeps_every_call a), <- (norm_keeps_every_call b). now rewrite H.
Qed.
