(* Tie of the parser model's constants to the tables regenerated from stage1/parse.py. *)
From Coq Require Import List NArith.
From EinxV Require Import Model.Parse Gen.GenParseTables.
Import ListNotations.

(* _nary_ops: same operators in the same (precedence) order as the model's [nary_ops] *)
Lemma nary_ops_gen : map lit_text nary_ops = gen_nary_ops.
Proof. reflexivity. Qed.

Lemma parentheses_gen :
  gen_parentheses = [(lit_text LOpenP, lit_text LCloseP); (lit_text LOpenB, lit_text LCloseB)].
Proof. reflexivity. Qed.

Lemma ellipsis_gen : gen_ellipsis = lit_text LDots.
Proof. reflexivity. Qed.

(* "[a-zA-Z_][a-zA-Z0-9_]*" *)
Lemma axis_name_regex_gen :
  gen_axis_name_regex = [91; 97; 45; 122; 65; 45; 90; 95; 93; 91; 97; 45; 122; 65; 45; 90; 48; 45; 57; 95; 93; 42]%N.
Proof. reflexivity. Qed.
