(* Element-wise operations, end to end: given that the backend's broadcasting function does what numpy's broadcasting
   prescribes (the one hypothesis), the modelled lowering holds at the position the output expression denotes the
   elementary operation applied to the operands' elements of the same loop environment. *)
From Coq Require Import List NArith Arith Bool Lia.
From Coq Require Import String.
Close Scope string_scope.
From EinxV Require Import Spec.LoopSem Model.Opt Model.Lower Proofs.LoopSemProofs Proofs.OptProofs Proofs.LowerProofs.
Import ListNotations.
Open Scope N_scope.

(* numpy's broadcasting rule: an operand whose dimension is 1 is read at 0 there *)
Definition bmask (shape idx : list N) : list N := map (fun li => if fst li =? 1 then 0 else snd li) (combine shape idx).

Lemma bmask_aligned din dout rho :
  in_bounds rho dout ->
  bmask (bshape din dout) (map (lookup rho) (lnames dout)) = aligned_idx din dout rho.
Proof.
  intros Bo. unfold bmask, bshape, aligned_idx, lnames, onames, in_bounds in *.
  induction (leaves dout) as [|x r IH]; [reflexivity|]. cbn [map combine fst snd].
  rewrite IH by (intros y Hy; apply Bo; now right). f_equal.
  destruct (present din (fst (fst x))) eqn:Ep; [|reflexivity].
  destruct (N.eqb_spec (snd (fst x)) 1) as [E|_]; [|reflexivity].
  specialize (Bo x (or_introl eq_refl)). lia.
Qed.

Lemma nonempty_in {A} (l : list A) : l <> [] -> exists x, In x l.
Proof. destruct l as [|x r]; [contradiction|]. intros _. exists x. now left. Qed.

Section Elementwise.
  Variable V : Type.
  Variable inp : nat -> entries V.
  Variable F : String.string -> list (entries V) -> list String.string -> entries V.
  Variable BC : list N -> list N -> entries V -> entries V.
  Variable CC : nat -> list (list N * entries V) -> entries V.
  Variables (f : String.string) (ins : list (list pex)) (dout : list pex).
  Hypothesis Hok : elementwise_ok ins dout = true.
  Hypothesis Hne : ins <> [].

  Definition aligned_from (k0 : nat) (l : list (list pex)) : list (entries V) :=
    map (fun kd => meval V inp F BC CC (lower_align (fst kd) (snd kd) dout)) (combine (seq k0 (List.length l)) l).
  Definition aligned_operands : list (entries V) := aligned_from 0 ins.

  (* the operands as functions of the loop environment, the elementary operation as a function of their values *)
  Variable op : list V -> V.
  Variable Xs : list (env -> V).
  Hypothesis HXs : List.length Xs = List.length ins.
  Hypothesis HX : forall k din X, nth_error ins k = Some din -> nth_error Xs k = Some X ->
    forall rho, in_bounds rho din -> In (map (pidx rho) din, X rho) (inp k).

  (* the one assumption about the backend: at an index tuple for which it finds every operand's element (operands of
     dimension 1 read at 0), the broadcasting function returns the elementary operation applied to them *)
  Hypothesis broadcast_complete : forall (I : list N) (vs : list V),
    Forall2 (fun (dA : list pex * entries V) v => In (bmask (bshape (fst dA) dout) I, v) (snd dA)) (combine ins aligned_operands) vs ->
    In (I, op vs) (F f aligned_operands ["kw:"%string]).

  Lemma ok_in din : In din ins -> align_ok din dout = true.
  Proof. intros H. exact (proj1 (forallb_forall (fun din => align_ok din dout) ins) Hok din H). Qed.

  Lemma out_plain : forallb plain dout = true.
  Proof.
    destruct (nonempty_in ins Hne) as [d Hd]. pose proof (ok_in d Hd) as H. unfold align_ok in H.
    repeat (apply andb_prop in H as [H ?]). assumption.
  Qed.

  Lemma operands_found rho : in_bounds rho dout -> forall (l : list (list pex)) (Xl : list (env -> V)) k0,
    List.length Xl = List.length l ->
    (forall din, In din l -> align_ok din dout = true) ->
    (forall k din X, nth_error l k = Some din -> nth_error Xl k = Some X -> forall rho, in_bounds rho din -> In (map (pidx rho) din, X rho) (inp (k0 + k)%nat)) ->
    (forall din, In din l -> in_bounds rho din) ->
    Forall2 (fun (dA : list pex * entries V) v => In (bmask (bshape (fst dA) dout) (map (lookup rho) (lnames dout)), v) (snd dA))
            (combine l (aligned_from k0 l)) (map (fun X => X rho) Xl).
  Proof.
    intros Bo. induction l as [|d r IH]; intros [|X Xr] k0 Hl Hall Hin Hb; try discriminate; [constructor|].
    unfold aligned_from. cbn [List.length seq combine map]. constructor.
    - cbn [fst snd]. rewrite (bmask_aligned d dout rho Bo).
      apply (lower_align_correct V inp F BC CC d dout (Hall d (or_introl eq_refl)) k0 rho (X rho) (Hb d (or_introl eq_refl))).
      specialize (Hin 0%nat d X eq_refl eq_refl rho (Hb d (or_introl eq_refl))). now rewrite Nat.add_0_r in Hin.
    - apply (IH Xr (S k0)).
      + now injection Hl.
      + intros din Hd. apply Hall. now right.
      + intros k din X' H1 H2 rho' Hb'. specialize (Hin (S k) din X' H1 H2 rho' Hb'). now rewrite Nat.add_succ_r in Hin.
      + intros din Hd. apply Hb. now right.
  Qed.

  Theorem elementwise_is_the_operation_on_the_operands rho :
    (forall din, In din ins -> in_bounds rho din) -> in_bounds rho dout ->
    In (map (pidx rho) dout, op (map (fun X => X rho) Xs)) (meval V inp F BC CC (lower_elementwise f ins dout)).
  Proof.
    intros Bi Bo. unfold lower_elementwise. cbn [meval mshape]. unfold e_reshape. apply in_map_iff.
    exists (map (lookup rho) (lnames dout), op (map (fun X => X rho) Xs)). cbn [fst snd]. split.
    - f_equal. pose proof (plain_dims_offset_free _ out_plain) as Oo.
      rewrite <- lidx_dims, <- llens_dims, <- (pos_leaves rho dout Oo). unfold pos. apply unravel_ravel. now apply dims_valid.
    - rewrite map_map. apply broadcast_complete. unfold aligned_operands.
      apply (operands_found rho Bo ins Xs 0%nat HXs ok_in); [|exact Bi].
      intros k din X H1 H2 rho' Hb. cbn [Nat.add]. exact (HX k din X H1 H2 rho' Hb).
  Qed.
End Elementwise.
