(* Symbolic execution of generated code is faithful to a concrete store-passing execution, for
   every interpretation of the primitives.  Calls are interpreted by a function of the whole
   history of earlier results (this models hidden state / mutation through references); the
   inlinable builtins isinstance / tuple / list are pure in both semantics. *)
From Coq Require Import String List ZArith Bool Arith Lia.
From EinxV Require Import Model.Ir Model.IrEq.
Import ListNotations.
Open Scope list_scope.

(* ---------------------------------------------------------------- induction principle for sval *)
Definition optP (P : sval -> Prop) (o : option sval) : Prop := match o with Some x => P x | None => True end.

Lemma sval_ind' (P : sval -> Prop) :
  (forall k, P (SIn k)) -> (forall k, P (SEv k)) -> (forall z, P (SInt z)) -> (forall s, P (SStr s)) -> P SNone ->
  (forall b, P (SBool b)) -> (forall s, P (SFloat s)) ->
  (forall l, Forall P l -> P (STuple l)) -> (forall l, Forall P l -> P (SList l)) ->
  (forall l, Forall (fun kv => P (fst kv) /\ P (snd kv)) l -> P (SDict l)) ->
  (forall a b c, optP P a -> optP P b -> optP P c -> P (SSlice a b c)) ->
  (forall o k, P o -> P (SAttr o k)) -> (forall o k, P o -> P k -> P (SItem o k)) ->
  (forall op l, Forall P l -> P (SOp op l)) -> (forall f l, Forall P l -> P (SPure f l)) ->
  (forall i f, P (SImport i f)) -> (forall n, P (SBuiltin n)) -> (forall k, P (SConst k)) ->
  forall v, P v.
Proof.
  intros HIn HEv HInt HStr HNone HBool HFloat HTuple HList HDict HSlice HAttr HItem HOp HPure HImport HBuiltin HConst.
  fix IH 1. intros v.
  assert (HL : forall l, Forall P l).
  { intros l. induction l as [|x l IHl]; constructor; [apply IH|exact IHl]. }
  destruct v as [k|k|z|s| |b|s|l|l|l|a b c|o k|o k|op l|f l|i f|n|k].
  - apply HIn. - apply HEv. - apply HInt. - apply HStr. - apply HNone. - apply HBool. - apply HFloat.
  - apply HTuple, HL. - apply HList, HL.
  - apply HDict. induction l as [|[k v] l IHl]; constructor; [split; apply IH|exact IHl].
  - apply HSlice; [destruct a|destruct b|destruct c]; cbn [optP]; try exact I; apply IH.
  - apply HAttr, IH. - apply HItem; apply IH. - apply HOp, HL. - apply HPure, HL.
  - apply HImport. - apply HBuiltin. - apply HConst.
Qed.

Section Concrete.
  Variable V : Type.
  Variable d : V.
  Variable c_in : nat -> V.
  Variable c_int : Z -> V.
  Variable c_str : string -> V.
  Variable c_none : V.
  Variable c_bool : bool -> V.
  Variable c_float : string -> V.
  Variable c_tuple c_list : list V -> V.
  Variable c_dict : list (V * V) -> V.
  Variable c_slice : option V -> option V -> option V -> V.
  Variable c_attr : V -> string -> V.
  Variable c_item : V -> V -> V.
  Variable c_op c_pure : string -> list V -> V.
  Variable c_import : string -> option string -> V.
  Variable c_builtin : string -> V.
  Variable c_const : nat -> V.
  (* effects: the result may depend on everything that happened before *)
  Variable c_call : list V -> V -> list V -> list (string * V) -> V.
  Variable c_update : list V -> V -> V -> V -> string -> V.
  Variable c_assert : list V -> V -> option string -> V.

  Fixpoint interp (h : list V) (v : sval) : V :=
    match v with
    | SIn k => c_in k
    | SEv k => nth k h d
    | SInt z => c_int z | SStr s => c_str s | SNone => c_none | SBool b => c_bool b | SFloat s => c_float s
    | STuple l => c_tuple (map (interp h) l)
    | SList l => c_list (map (interp h) l)
    | SDict l => c_dict (map (fun kv => (interp h (fst kv), interp h (snd kv))) l)
    | SSlice a b c => c_slice (option_map (interp h) a) (option_map (interp h) b) (option_map (interp h) c)
    | SAttr o k => c_attr (interp h o) k
    | SItem o k => c_item (interp h o) (interp h k)
    | SOp op a => c_op op (map (interp h) a)
    | SPure f a => c_pure f (map (interp h) a)
    | SImport i f => c_import i f
    | SBuiltin n => c_builtin n
    | SConst k => c_const k
    end.

  Definition run_event (h : list V) (e : event) : V :=
    match e with
    | ECall f a kw => c_call h (interp h f) (map (interp h) a) (map (fun kv => (fst kv, interp h (snd kv))) kw)
    | EUpdate o k v op => c_update h (interp h o) (interp h k) (interp h v) op
    | EAssert c m => c_assert h (interp h c) m
    end.
  Definition run_events_from (h0 : list V) (es : list event) : list V :=
    fold_left (fun h e => h ++ [run_event h e]) es h0.
  Definition run_events (es : list event) : list V := run_events_from [] es.

  (* the meaning of a symbolic outcome *)
  Definition denote (r : list event * sval) : list V * V := (run_events (fst r), interp (run_events (fst r)) (snd r)).

  (* ---- concrete execution of the generated code ---- *)
  Definition cval := (V * option string)%type.          (* value, and whether it is (an alias of) a builtin *)
  Definition cstore := list (string * cval).
  Fixpoint clookup (s : cstore) (x : string) : option cval :=
    match s with [] => None | (k, v) :: r => if String.eqb k x then Some v else clookup r x end.

  Definition ccall_is_pure (tag : option string) (kw : list (string * V)) : option string :=
    match tag, kw with
    | Some name, [] => if is_pure_builtin name then Some name else None
    | _, _ => None
    end.

  Fixpoint cx (fuel : nat) (s : cstore) (h : list V) (e : expr) {struct fuel} : option (list V * cval) :=
    match fuel with
    | O => None
    | S f =>
      let go := fun h x => cx f s h x in
      match e with
      | XVar x =>
        match clookup s x with
        | Some c => Some (h, c)
        | None => match const_index x with Some k => Some (h, (c_const k, None)) | None => Some (h, (c_builtin x, Some x)) end
        end
      | XInt z => Some (h, (c_int z, None)) | XStr t => Some (h, (c_str t, None)) | XNone => Some (h, (c_none, None))
      | XBool b => Some (h, (c_bool b, None)) | XFloat t => Some (h, (c_float t, None))
      | XTuple l => match seq_list go h l with Some (h1, vs) => Some (h1, (c_tuple (map fst vs), None)) | None => None end
      | XList l => match seq_list go h l with Some (h1, vs) => Some (h1, (c_list (map fst vs), None)) | None => None end
      | XDict l =>
        match seq_list go h (map fst l) with
        | Some (h1, ks) => match seq_list go h1 (map snd l) with
                           | Some (h2, vs) => Some (h2, (c_dict (combine (map fst ks) (map fst vs)), None))
                           | None => None end
        | None => None end
      | XSlice a b c =>
        match seq_opt go h a with
        | Some (h1, sa) => match seq_opt go h1 b with
                           | Some (h2, sb) => match seq_opt go h2 c with
                                              | Some (h3, sc) => Some (h3, (c_slice (option_map fst sa) (option_map fst sb) (option_map fst sc), None))
                                              | None => None end
                           | None => None end
        | None => None end
      | XAttr o k => match go h o with Some (h1, so) => Some (h1, (c_attr (fst so) k, None)) | None => None end
      | XItem o k =>
        match go h o with
        | Some (h1, so) => match go h1 k with Some (h2, sk) => Some (h2, (c_item (fst so) (fst sk), None)) | None => None end
        | None => None end
      | XOp op args => match seq_list go h args with Some (h1, vs) => Some (h1, (c_op op (map fst vs), None)) | None => None end
      | XCall fn args kw =>
        match go h fn with
        | Some (h1, cf) =>
          match seq_list go h1 args with
          | Some (h2, ca) =>
            match seq_list go h2 (map snd kw) with
            | Some (h3, ckv) =>
              let kwv := combine (map fst kw) (map fst ckv) in
              match ccall_is_pure (snd cf) kwv with
              | Some name => Some (h3, (c_pure name (map fst ca), None))
              | None => let r := c_call h3 (fst cf) (map fst ca) kwv in Some (h3 ++ [r], (r, None))
              end
            | None => None end
          | None => None end
        | None => None end
      end
    end.

  Definition cx_stmt (fuel : nat) (st : cstore * list V) (c : stmt) : option (cstore * list V) :=
    let '(s, h) := st in
    match c with
    | StAssign x e => match cx fuel s h e with Some (h1, v) => Some ((x, v) :: s, h1) | None => None end
    | StExpr e => match cx fuel s h e with Some (h1, _) => Some (s, h1) | None => None end
    | StAug o k op v =>
      match cx fuel s h o with
      | Some (h1, so) =>
        match cx fuel s h1 k with
        | Some (h2, sk) => match cx fuel s h2 v with
                           | Some (h3, sv) => Some (s, h3 ++ [c_update h3 (fst so) (fst sk) (fst sv) op])
                           | None => None end
        | None => None end
      | None => None end
    | StAssert c msg => match cx fuel s h c with Some (h1, sc) => Some (s, h1 ++ [c_assert h1 (fst sc) msg]) | None => None end
    | StImport imp from as_ => Some ((as_, (c_import imp from, None)) :: s, h)
    end.

  Fixpoint cx_body (fuel : nat) (st : cstore * list V) (b : list stmt) : option (cstore * list V) :=
    match b with
    | [] => Some st
    | c :: r => match cx_stmt fuel st c with Some st1 => cx_body fuel st1 r | None => None end
    end.

  Definition cinit_store (params : list string) : cstore :=
    rev (map (fun kp => (snd kp, (c_in (fst kp), None))) (combine (seq 0 (List.length params)) params)).

  (* run the module-level statements, then the function body on parameters bound to the inputs *)
  Definition cexec (fuel : nat) (pre : list stmt) (c : code) : option (list V * V) :=
    match cx_body fuel ([], []) pre with
    | Some (s0, h0) =>
      match cx_body fuel (cinit_store (c_params c) ++ s0, h0) (c_body c) with
      | Some (s, h) => match cx fuel s h (c_ret c) with Some (h', v) => Some (h', fst v) | None => None end
      | None => None
      end
    | None => None
    end.

  (* ---------------------------------------------------------------- well-scoped symbolic values *)
  Fixpoint wf_sval (n : nat) (v : sval) : Prop :=
    match v with
    | SEv k => k < n
    | STuple l | SList l | SOp _ l | SPure _ l => (fix all (l : list sval) : Prop := match l with [] => True | x :: r => wf_sval n x /\ all r end) l
    | SDict l => (fix all (l : list (sval * sval)) : Prop := match l with [] => True | kv :: r => wf_sval n (fst kv) /\ wf_sval n (snd kv) /\ all r end) l
    | SSlice a b c => optP (wf_sval n) a /\ optP (wf_sval n) b /\ optP (wf_sval n) c
    | SAttr o _ => wf_sval n o
    | SItem o k => wf_sval n o /\ wf_sval n k
    | _ => True
    end.
  Definition wf_all (n : nat) : list sval -> Prop :=
    fix all (l : list sval) : Prop := match l with [] => True | x :: r => wf_sval n x /\ all r end.
  Lemma wf_all_Forall n l : wf_all n l <-> Forall (wf_sval n) l.
  Proof. induction l as [|x l IH]; cbn; split; intros H; try constructor; try tauto; try (fold (wf_all n l) in *; tauto); inversion H; subst; fold (wf_all n l); tauto. Qed.
  Definition wf_dict (n : nat) : list (sval * sval) -> Prop :=
    fix all (l : list (sval * sval)) : Prop := match l with [] => True | kv :: r => wf_sval n (fst kv) /\ wf_sval n (snd kv) /\ all r end.

  Lemma wf_mono v : forall n1 m1, n1 <= m1 -> wf_sval n1 v -> wf_sval m1 v.
  Proof.
    induction v using sval_ind'; intros n1 m1 Hnm Hw; cbn [wf_sval] in *; auto; try lia.
    - change (wf_all n1 l) in Hw. change (wf_all m1 l). rewrite wf_all_Forall in *. rewrite Forall_forall in *. intros x Hx. eapply H; eauto.
    - change (wf_all n1 l) in Hw. change (wf_all m1 l). rewrite wf_all_Forall in *. rewrite Forall_forall in *. intros x Hx. eapply H; eauto.
    - change (wf_dict n1 l) in Hw. change (wf_dict m1 l). induction H as [|kv l [Hk Hv] _ IH]; cbn [wf_dict] in *; [exact I|].
      destruct Hw as [A [B C]]. repeat split; eauto.
    - destruct Hw as [A [B C]]. repeat split; [destruct a|destruct b|destruct c]; cbn [optP] in *; eauto.
    - eauto.
    - destruct Hw; split; eauto.
    - change (wf_all n1 l) in Hw. change (wf_all m1 l). rewrite wf_all_Forall in *. rewrite Forall_forall in *. intros x Hx. eapply H; eauto.
    - change (wf_all n1 l) in Hw. change (wf_all m1 l). rewrite wf_all_Forall in *. rewrite Forall_forall in *. intros x Hx. eapply H; eauto.
  Qed.

  (* interpretation only looks at the part of the history a value is scoped in *)
  Lemma interp_stable v : forall h h', wf_sval (List.length h) v -> interp (h ++ h') v = interp h v.
  Proof.
    induction v using sval_ind'; intros h h' Hw; cbn [interp wf_sval] in *; auto.
    - now rewrite app_nth1.
    - f_equal. change (wf_all (List.length h) l) in Hw. rewrite wf_all_Forall in Hw. apply map_ext_in. intros x Hx.
      rewrite Forall_forall in *. auto.
    - f_equal. change (wf_all (List.length h) l) in Hw. rewrite wf_all_Forall in Hw. apply map_ext_in. intros x Hx.
      rewrite Forall_forall in *. auto.
    - f_equal. change (wf_dict (List.length h) l) in Hw. induction H as [|kv l [Hk Hv] _ IH]; cbn [map wf_dict] in *; [reflexivity|].
      destruct Hw as [A [B C]]. rewrite Hk, Hv, IH by assumption. reflexivity.
    - destruct Hw as [A [B C]]. f_equal; [destruct a|destruct b|destruct c]; cbn [option_map optP] in *; try reflexivity; f_equal; auto.
    - f_equal. auto.
    - destruct Hw. f_equal; auto.
    - f_equal. change (wf_all (List.length h) l) in Hw. rewrite wf_all_Forall in Hw. apply map_ext_in. intros x Hx.
      rewrite Forall_forall in *. auto.
    - f_equal. change (wf_all (List.length h) l) in Hw. rewrite wf_all_Forall in Hw. apply map_ext_in. intros x Hx.
      rewrite Forall_forall in *. auto.
  Qed.

  (* ---------------------------------------------------------------- histories *)
  Lemma run_events_from_app h0 es1 es2 : run_events_from h0 (es1 ++ es2) = run_events_from (run_events_from h0 es1) es2.
  Proof. unfold run_events_from. apply fold_left_app. Qed.
  Lemma run_events_from_ext h0 es : exists t, run_events_from h0 es = h0 ++ t.
  Proof.
    revert h0; induction es as [|e es IH]; intros h0; [exists []; now rewrite app_nil_r|].
    cbn [run_events_from fold_left]. destruct (IH (h0 ++ [run_event h0 e])) as [t Ht].
    exists ([run_event h0 e] ++ t). unfold run_events_from in Ht. rewrite Ht. now rewrite app_assoc.
  Qed.
  Lemma run_events_from_length h0 es : List.length (run_events_from h0 es) = List.length h0 + List.length es.
  Proof.
    revert h0; induction es as [|e es IH]; intros h0; cbn [run_events_from fold_left List.length]; [lia|].
    unfold run_events_from in IH. rewrite IH, app_length. cbn [List.length]. lia.
  Qed.
  Lemma run_events_length es : List.length (run_events es) = List.length es.
  Proof. unfold run_events. now rewrite run_events_from_length. Qed.
  Lemma run_events_snoc es e : run_events (es ++ [e]) = run_events es ++ [run_event (run_events es) e].
  Proof. unfold run_events. rewrite run_events_from_app. reflexivity. Qed.
  Lemma run_events_prefix es t : exists h', run_events (es ++ t) = run_events es ++ h'.
  Proof. unfold run_events. rewrite run_events_from_app. apply run_events_from_ext. Qed.

  (* ---------------------------------------------------------------- the simulation *)
  Definition tag_of (v : sval) : option string := match v with SBuiltin n => Some n | _ => None end.
  Definition rel (h : list V) (sv : sval) (c : cval) : Prop :=
    fst c = interp h sv /\ snd c = tag_of sv /\ wf_sval (List.length h) sv.
  Definition SR (h : list V) (s : store) (cs : cstore) : Prop :=
    forall x, match slookup s x, clookup cs x with
              | Some sv, Some c => rel h sv c
              | None, None => True
              | _, _ => False
              end.

  Lemma rel_ext h h' sv c : rel h sv c -> rel (h ++ h') sv c.
  Proof.
    intros [A [B C]]. repeat split; auto.
    - rewrite interp_stable; assumption.
    - eapply wf_mono; [|exact C]. rewrite app_length. lia.
  Qed.
  Lemma SR_ext h h' s cs : SR h s cs -> SR (h ++ h') s cs.
  Proof. intros H x. specialize (H x). destruct (slookup s x), (clookup cs x); auto. now apply rel_ext. Qed.

  Definition extends (es es' : list event) : Prop := exists t, es' = es ++ t.
  Lemma extends_refl es : extends es es. Proof. exists []. now rewrite app_nil_r. Qed.
  Lemma extends_trans a b c : extends a b -> extends b c -> extends a c.
  Proof. intros [t1 ->] [t2 ->]. exists (t1 ++ t2). now rewrite app_assoc. Qed.
  Lemma SR_extends es es' s cs : extends es es' -> SR (run_events es) s cs -> SR (run_events es') s cs.
  Proof. intros [t ->] H. destruct (run_events_prefix es t) as [h' ->]. now apply SR_ext. Qed.
  Lemma rel_extends es es' sv c : extends es es' -> rel (run_events es) sv c -> rel (run_events es') sv c.
  Proof. intros [t ->] H. destruct (run_events_prefix es t) as [h' ->]. now apply rel_ext. Qed.

  (* what the induction carries for one expression *)
  Definition sound_at (f : nat) (s : store) (cs : cstore) : Prop :=
    forall es e es' sv, SR (run_events es) s cs -> sx f s es e = Some (es', sv) ->
      exists c, cx f cs (run_events es) e = Some (run_events es', c) /\ rel (run_events es') sv c /\ extends es es'.

  Lemma seq_list_sound f s cs (Hf : sound_at f s cs) :
    forall l es es' svs, SR (run_events es) s cs ->
      seq_list (fun es x => sx f s es x) es l = Some (es', svs) ->
      exists cvs, seq_list (fun h x => cx f cs h x) (run_events es) l = Some (run_events es', cvs)
                  /\ Forall2 (rel (run_events es')) svs cvs /\ extends es es'.
  Proof.
    induction l as [|x l IH]; intros es es' svs HS H; cbn [seq_list] in *.
    - injection H as <- <-. exists []. repeat split; [constructor|apply extends_refl].
    - destruct (sx f s es x) as [[es1 v]|] eqn:E1; [|discriminate].
      destruct (seq_list _ es1 l) as [[es2 vs]|] eqn:E2; [|discriminate]. injection H as <- <-.
      destruct (Hf _ _ _ _ HS E1) as [c [C1 [R1 X1]]].
      destruct (IH _ _ _ (SR_extends _ _ _ _ X1 HS) E2) as [cvs [C2 [R2 X2]]].
      exists (c :: cvs). rewrite C1, C2. repeat split.
      + constructor; [eapply rel_extends; eauto|exact R2].
      + eapply extends_trans; eauto.
  Qed.

  Lemma seq_opt_sound f s cs (Hf : sound_at f s cs) :
    forall o es es' sv, SR (run_events es) s cs ->
      seq_opt (fun es x => sx f s es x) es o = Some (es', sv) ->
      exists cv, seq_opt (fun h x => cx f cs h x) (run_events es) o = Some (run_events es', cv)
                 /\ match sv, cv with Some a, Some b => rel (run_events es') a b | None, None => True | _, _ => False end
                 /\ extends es es'.
  Proof.
    intros [x|] es es' sv HS H; cbn [seq_opt] in *.
    - destruct (sx f s es x) as [[es1 v]|] eqn:E1; [|discriminate]. injection H as <- <-.
      destruct (Hf _ _ _ _ HS E1) as [c [C1 [R1 X1]]]. exists (Some c). rewrite C1. auto.
    - injection H as <- <-. exists None. repeat split; auto. apply extends_refl.
  Qed.

  Lemma rel_map_fst h svs cvs : Forall2 (rel h) svs cvs -> map fst cvs = map (interp h) svs.
  Proof. induction 1 as [|a b l l' [A _] _ IH]; cbn [map]; [reflexivity|]. now rewrite A, IH. Qed.
  Lemma rel_wf_all h svs cvs : Forall2 (rel h) svs cvs -> wf_all (List.length h) svs.
  Proof. induction 1 as [|a b l l' [_ [_ C]] _ IH]; cbn [wf_all]; auto. Qed.

  Lemma slice_rel h (a : option sval) (ca : option cval) :
    match a, ca with Some x, Some y => rel h x y | None, None => True | _, _ => False end ->
    option_map fst ca = option_map (interp h) a /\ optP (wf_sval (List.length h)) a.
  Proof. destruct a, ca; cbn; try tauto. intros [A [_ C]]. split; [now rewrite A|exact C]. Qed.

  Lemma rel_lift3 es1 es2 es3 a ca :
    extends es1 es2 -> extends es2 es3 ->
    match a, ca with Some x, Some y => rel (run_events es1) x y | None, None => True | _, _ => False end ->
    match a, ca with Some x, Some y => rel (run_events es3) x y | None, None => True | _, _ => False end.
  Proof.
    intros X Y. destruct a as [x|], ca as [y|]; auto. intros H.
    apply (rel_extends es2 es3 _ _ Y). apply (rel_extends es1 es2 _ _ X). exact H.
  Qed.

  Lemma combine_rel_dict h ks vs cks cvs :
    Forall2 (rel h) ks cks -> Forall2 (rel h) vs cvs ->
    combine (map fst cks) (map fst cvs) = map (fun kv => (interp h (fst kv), interp h (snd kv))) (combine ks vs)
    /\ wf_dict (List.length h) (combine ks vs).
  Proof.
    intros Hk. revert vs cvs. induction Hk as [|k ck ks cks [A [_ C]] _ IH]; intros vs cvs Hv; cbn [combine map wf_dict]; [auto|].
    destruct Hv as [|v cv vs cvs [A' [_ C']] Hv]; cbn [combine map wf_dict]; [auto|].
    destruct (IH _ _ Hv) as [E W]. rewrite A, A', E. auto.
  Qed.

  Lemma combine_rel_kw h (names : list string) vs cvs :
    Forall2 (rel h) vs cvs ->
    combine names (map fst cvs) = map (fun kv => (fst kv, interp h (snd kv))) (combine names vs).
  Proof.
    intros H. revert names. induction H as [|v cv vs cvs [A _] _ IH]; intros [|n names]; cbn [combine map]; auto.
    now rewrite A, IH.
  Qed.

  Lemma combine_nil_iff {A B} (l1 : list A) (l2 : list B) (l2' : list V) :
    List.length l2 = List.length l2' -> (combine l1 l2 = [] <-> combine l1 l2' = []).
  Proof. destruct l1, l2, l2'; cbn; intros H; try discriminate; split; intros; try reflexivity; discriminate. Qed.

  Lemma Forall2_impl' {A B} (P Q : A -> B -> Prop) l1 l2 : (forall a b, P a b -> Q a b) -> Forall2 P l1 l2 -> Forall2 Q l1 l2.
  Proof. intros H. induction 1; constructor; auto. Qed.
  Lemma Forall2_length' {A B} (P : A -> B -> Prop) l1 l2 : Forall2 P l1 l2 -> List.length l1 = List.length l2.
  Proof. induction 1; cbn [List.length]; congruence. Qed.

  Theorem sx_sound : forall f s cs, sound_at f s cs.
  Proof.
    induction f as [|f IH]; intros s cs es e es' sv HS H; [discriminate|].
    specialize (IH s cs).
    cbn [sx] in H. cbn [cx].
    destruct e as [x|z|t| |b|t|l|l|l|a b c|o k|o k|op args|fn args kw].
    - (* variable *)
      specialize (HS x). destruct (slookup s x) as [v|] eqn:Es.
      + injection H as <- <-. destruct (clookup cs x) as [c|]; [|contradiction]. exists c. repeat split; try apply HS. apply extends_refl.
      + destruct (clookup cs x); [contradiction|].
        destruct (const_index x); injection H as <- <-; eexists; (split; [reflexivity|]); (split; [|apply extends_refl]); repeat split; cbn; auto.
    - injection H as <- <-. eexists; split; [reflexivity|]; split; [|apply extends_refl]; repeat split; cbn; auto.
    - injection H as <- <-. eexists; split; [reflexivity|]; split; [|apply extends_refl]; repeat split; cbn; auto.
    - injection H as <- <-. eexists; split; [reflexivity|]; split; [|apply extends_refl]; repeat split; cbn; auto.
    - injection H as <- <-. eexists; split; [reflexivity|]; split; [|apply extends_refl]; repeat split; cbn; auto.
    - injection H as <- <-. eexists; split; [reflexivity|]; split; [|apply extends_refl]; repeat split; cbn; auto.
    - (* tuple *)
      destruct (seq_list _ es l) as [[es1 vs]|] eqn:E; [|discriminate]. injection H as <- <-.
      destruct (seq_list_sound _ _ _ IH _ _ _ _ HS E) as [cvs [C [R X]]]. rewrite C.
      eexists; split; [reflexivity|]; split; [|exact X]. repeat split; cbn [fst snd interp tag_of wf_sval].
      + now rewrite (rel_map_fst _ _ _ R).
      + exact (rel_wf_all _ _ _ R).
    - (* list *)
      destruct (seq_list _ es l) as [[es1 vs]|] eqn:E; [|discriminate]. injection H as <- <-.
      destruct (seq_list_sound _ _ _ IH _ _ _ _ HS E) as [cvs [C [R X]]]. rewrite C.
      eexists; split; [reflexivity|]; split; [|exact X]. repeat split; cbn [fst snd interp tag_of wf_sval].
      + now rewrite (rel_map_fst _ _ _ R).
      + exact (rel_wf_all _ _ _ R).
    - (* dict *)
      destruct (seq_list _ es (map fst l)) as [[es1 ks]|] eqn:E1; [|discriminate].
      destruct (seq_list _ es1 (map snd l)) as [[es2 vs]|] eqn:E2; [|discriminate]. injection H as <- <-.
      destruct (seq_list_sound _ _ _ IH _ _ _ _ HS E1) as [cks [C1 [R1 X1]]].
      destruct (seq_list_sound _ _ _ IH _ _ _ _ (SR_extends _ _ _ _ X1 HS) E2) as [cvs [C2 [R2 X2]]].
      rewrite C1, C2.
      assert (R1' : Forall2 (rel (run_events es2)) ks cks).
      { eapply Forall2_impl'; [|exact R1]. intros a b0 Hab. eapply rel_extends; eauto. }
      destruct (combine_rel_dict _ _ _ _ _ R1' R2) as [Ed Wd].
      eexists; split; [reflexivity|]; split; [|eapply extends_trans; eauto].
      repeat split; cbn [fst snd interp tag_of wf_sval]; [now rewrite Ed|exact Wd].
    - (* slice *)
      destruct (seq_opt _ es a) as [[es1 sa]|] eqn:E1; [|discriminate].
      destruct (seq_opt _ es1 b) as [[es2 sb]|] eqn:E2; [|discriminate].
      destruct (seq_opt _ es2 c) as [[es3 sc]|] eqn:E3; [|discriminate]. injection H as <- <-.
      destruct (seq_opt_sound _ _ _ IH _ _ _ _ HS E1) as [ca [C1 [R1 X1]]].
      destruct (seq_opt_sound _ _ _ IH _ _ _ _ (SR_extends _ _ _ _ X1 HS) E2) as [cb [C2 [R2 X2]]].
      destruct (seq_opt_sound _ _ _ IH _ _ _ _ (SR_extends _ _ _ _ (extends_trans _ _ _ X1 X2) HS) E3) as [cc [C3 [R3 X3]]].
      rewrite C1, C2, C3.
      pose proof (rel_lift3 _ _ _ _ _ X2 X3 R1) as R1'.
      pose proof (rel_lift3 _ _ _ _ _ X3 (extends_refl _) R2) as R2'.
      destruct (slice_rel _ _ _ R1') as [A1 W1]. destruct (slice_rel _ _ _ R2') as [A2 W2]. destruct (slice_rel _ _ _ R3) as [A3 W3].
      eexists; split; [reflexivity|]; split; [|eapply extends_trans; [eapply extends_trans|]; eauto].
      repeat split; cbn [fst snd interp tag_of wf_sval]; auto. now rewrite A1, A2, A3.
    - (* attribute *)
      destruct (sx f s es o) as [[es1 so]|] eqn:E; [|discriminate]. injection H as <- <-.
      destruct (IH _ _ _ _ HS E) as [c [C [[A [_ W]] X]]]. rewrite C.
      eexists; split; [reflexivity|]; split; [|exact X]. repeat split; cbn [fst snd interp tag_of wf_sval]; auto. now rewrite A.
    - (* item *)
      destruct (sx f s es o) as [[es1 so]|] eqn:E1; [|discriminate].
      destruct (sx f s es1 k) as [[es2 sk]|] eqn:E2; [|discriminate]. injection H as <- <-.
      destruct (IH _ _ _ _ HS E1) as [c1 [C1 [R1 X1]]].
      destruct (IH _ _ _ _ (SR_extends _ _ _ _ X1 HS) E2) as [c2 [C2 [[A2 [_ W2]] X2]]].
      destruct (rel_extends _ _ _ _ X2 R1) as [A1 [_ W1]]. rewrite C1, C2.
      eexists; split; [reflexivity|]; split; [|eapply extends_trans; eauto].
      repeat split; cbn [fst snd interp tag_of wf_sval]; auto. now rewrite A1, A2.
    - (* operator *)
      destruct (seq_list _ es args) as [[es1 vs]|] eqn:E; [|discriminate]. injection H as <- <-.
      destruct (seq_list_sound _ _ _ IH _ _ _ _ HS E) as [cvs [C [R X]]]. rewrite C.
      eexists; split; [reflexivity|]; split; [|exact X]. repeat split; cbn [fst snd interp tag_of wf_sval].
      + now rewrite (rel_map_fst _ _ _ R).
      + exact (rel_wf_all _ _ _ R).
    - (* call *)
      destruct (sx f s es fn) as [[es1 sf]|] eqn:E1; [|discriminate].
      destruct (seq_list _ es1 args) as [[es2 sa]|] eqn:E2; [|discriminate].
      destruct (seq_list _ es2 (map snd kw)) as [[es3 skv]|] eqn:E3; [|discriminate].
      destruct (IH _ _ _ _ HS E1) as [cf [C1 [R1 X1]]].
      destruct (seq_list_sound _ _ _ IH _ _ _ _ (SR_extends _ _ _ _ X1 HS) E2) as [ca [C2 [R2 X2]]].
      destruct (seq_list_sound _ _ _ IH _ _ _ _ (SR_extends _ _ _ _ (extends_trans _ _ _ X1 X2) HS) E3) as [ckv [C3 [R3 X3]]].
      rewrite C1, C2, C3.
      pose proof (rel_extends _ _ _ _ (extends_trans _ _ _ X2 X3) R1) as [Af [Tf Wf]].
      assert (R2' : Forall2 (rel (run_events es3)) sa ca).
      { eapply Forall2_impl'; [|exact R2]. intros a0 b0 Hab. eapply rel_extends; eauto. }
      pose proof (combine_rel_kw _ (map fst kw) _ _ R3) as Ekw.
      assert (Hpure : ccall_is_pure (snd cf) (combine (map fst kw) (map fst ckv)) = call_is_pure sf (combine (map fst kw) skv)).
      { unfold ccall_is_pure, call_is_pure. rewrite Tf. destruct sf; cbn [tag_of]; try reflexivity.
        assert (Hl : List.length skv = List.length (map fst ckv)) by (rewrite map_length; eapply Forall2_length'; eauto).
        destruct (combine (map fst kw) skv) eqn:Ec.
        - apply (combine_nil_iff (map fst kw) skv (map fst ckv) Hl) in Ec. now rewrite Ec.
        - destruct (combine (map fst kw) (map fst ckv)) eqn:Ec'; [|reflexivity].
          apply (combine_nil_iff (map fst kw) skv (map fst ckv) Hl) in Ec'. congruence. }
      rewrite Hpure.
      destruct (call_is_pure sf (combine (map fst kw) skv)) as [name|] eqn:Ep.
      + injection H as <- <-. eexists; split; [reflexivity|]; split; [|eapply extends_trans; [eapply extends_trans|]; eauto].
        repeat split; cbn [fst snd interp tag_of wf_sval].
        * now rewrite (rel_map_fst _ _ _ R2').
        * exact (rel_wf_all _ _ _ R2').
      + injection H as <- <-. rewrite run_events_snoc. cbn [run_event].
        rewrite <- Af, <- (rel_map_fst _ _ _ R2'), <- Ekw.
        eexists; split; [reflexivity|]; split.
        * repeat split; cbn [fst snd interp tag_of wf_sval].
          -- rewrite app_nth2, run_events_length, Nat.sub_diag by (rewrite run_events_length; lia). reflexivity.
          -- rewrite app_length, run_events_length. cbn [List.length]. lia.
        * eapply extends_trans; [eapply extends_trans; [eapply extends_trans|]|]; eauto. exists [ECall sf sa (combine (map fst kw) skv)]. reflexivity.
  Qed.

  (* ---- statements, bodies, whole programs ---- *)
  Lemma SR_cons h s cs x sv c : SR h s cs -> rel h sv c -> SR h ((x, sv) :: s) ((x, c) :: cs).
  Proof. intros H R y. cbn [slookup clookup]. destruct (String.eqb x y); [exact R|apply H]. Qed.

  Lemma sx_stmt_sound fuel s cs es st s' es' :
    SR (run_events es) s cs -> sx_stmt fuel (s, es) st = Some (s', es') ->
    exists cs', cx_stmt fuel (cs, run_events es) st = Some (cs', run_events es') /\ SR (run_events es') s' cs' /\ extends es es'.
  Proof.
    intros HS H. destruct st as [x e|e|o k op v|c msg|imp from as_]; cbn [sx_stmt cx_stmt] in *.
    - destruct (sx fuel s es e) as [[es1 sv]|] eqn:E; [|discriminate]. injection H as <- <-.
      destruct (sx_sound _ _ _ _ _ _ _ HS E) as [c [C [R X]]]. rewrite C.
      eexists; split; [reflexivity|]; split; [|exact X]. apply SR_cons; [eapply SR_extends; eauto|exact R].
    - destruct (sx fuel s es e) as [[es1 sv]|] eqn:E; [|discriminate]. injection H as <- <-.
      destruct (sx_sound _ _ _ _ _ _ _ HS E) as [c [C [R X]]]. rewrite C.
      eexists; split; [reflexivity|]; split; [eapply SR_extends; eauto|exact X].
    - destruct (sx fuel s es o) as [[es1 so]|] eqn:E1; [|discriminate].
      destruct (sx fuel s es1 k) as [[es2 sk]|] eqn:E2; [|discriminate].
      destruct (sx fuel s es2 v) as [[es3 sv]|] eqn:E3; [|discriminate]. injection H as <- <-.
      destruct (sx_sound _ _ _ _ _ _ _ HS E1) as [c1 [C1 [R1 X1]]].
      destruct (sx_sound _ _ _ _ _ _ _ (SR_extends _ _ _ _ X1 HS) E2) as [c2 [C2 [R2 X2]]].
      destruct (sx_sound _ _ _ _ _ _ _ (SR_extends _ _ _ _ (extends_trans _ _ _ X1 X2) HS) E3) as [c3 [C3 [[A3 _] X3]]].
      destruct (rel_extends _ _ _ _ (extends_trans _ _ _ X2 X3) R1) as [A1 _].
      destruct (rel_extends _ _ _ _ X3 R2) as [A2 _].
      rewrite C1, C2, C3.
      assert (Hh : run_events (es3 ++ [EUpdate so sk sv op]) = run_events es3 ++ [c_update (run_events es3) (fst c1) (fst c2) (fst c3) op])
        by (rewrite run_events_snoc; cbn [run_event]; now rewrite A1, A2, A3).
      assert (X : extends es (es3 ++ [EUpdate so sk sv op])).
      { eapply extends_trans; [eapply extends_trans; [eapply extends_trans|]|]; eauto. eexists; reflexivity. }
      eexists; split; [rewrite Hh; reflexivity|]; split; [|exact X]. eapply SR_extends; [exact X|exact HS].
    - destruct (sx fuel s es c) as [[es1 sc]|] eqn:E; [|discriminate]. injection H as <- <-.
      destruct (sx_sound _ _ _ _ _ _ _ HS E) as [c1 [C [[A _] X]]]. rewrite C.
      assert (Hh : run_events (es1 ++ [EAssert sc msg]) = run_events es1 ++ [c_assert (run_events es1) (fst c1) msg])
        by (rewrite run_events_snoc; cbn [run_event]; now rewrite A).
      assert (X' : extends es (es1 ++ [EAssert sc msg])) by (eapply extends_trans; eauto; eexists; reflexivity).
      eexists; split; [rewrite Hh; reflexivity|]; split; [|exact X']. eapply SR_extends; [exact X'|exact HS].
    - injection H as <- <-. eexists; split; [reflexivity|]; split; [|apply extends_refl].
      apply SR_cons; [exact HS|]. repeat split; cbn; auto.
  Qed.

  Lemma sx_body_sound fuel : forall b s cs es s' es',
    SR (run_events es) s cs -> sx_body fuel (s, es) b = Some (s', es') ->
    exists cs', cx_body fuel (cs, run_events es) b = Some (cs', run_events es') /\ SR (run_events es') s' cs'.
  Proof.
    induction b as [|st b IH]; intros s cs es s' es' HS H; cbn [sx_body cx_body] in *.
    - injection H as <- <-. eauto.
    - destruct (sx_stmt fuel (s, es) st) as [[s1 es1]|] eqn:E; [|discriminate].
      destruct (sx_stmt_sound _ _ _ _ _ _ _ HS E) as [cs1 [C [S1 _]]]. rewrite C. eapply IH; eauto.
  Qed.

  Lemma SR_init h params s cs : SR h s cs -> SR h (init_store params ++ s) (cinit_store params ++ cs).
  Proof.
    unfold init_store, cinit_store.
    generalize (combine (seq 0 (List.length params)) params) as l. intros l. revert s cs.
    induction l as [|[k p] l IH]; intros s cs HS; cbn [map rev]; [exact HS|].
    rewrite <- !app_assoc. cbn [List.app]. apply IH. apply SR_cons; [exact HS|]. repeat split; cbn; auto.
  Qed.

  (* symbolic execution = concrete execution, for every interpretation *)
  Theorem sexec_sound fuel pre c r :
    sexec fuel pre c = Some r -> cexec fuel pre c = Some (denote r).
  Proof.
    unfold sexec, cexec, denote. intros H.
    destruct (sx_body fuel ([], []) pre) as [[s0 es0]|] eqn:E0; [|discriminate].
    assert (S0 : SR (run_events []) [] []) by (intros x; exact I).
    destruct (sx_body_sound _ _ _ _ _ _ _ S0 E0) as [cs0 [C0 S1]].
    assert (Hnil : run_events [] = []) by reflexivity. rewrite Hnil in C0.
    match goal with |- match ?t with _ => _ end = _ => replace t with (Some (cs0, run_events es0)) by (symmetry; exact C0) end.
    destruct (sx_body fuel (init_store (c_params c) ++ s0, es0) (c_body c)) as [[s es]|] eqn:E1; [|discriminate].
    destruct (sx_body_sound _ _ _ _ _ _ _ (SR_init _ (c_params c) _ _ S1) E1) as [cs [C1 S2]].
    match goal with |- match ?t with _ => _ end = _ => replace t with (Some (cs, run_events es)) by (symmetry; exact C1) end.
    destruct r as [es' sv]. destruct (sx_sound _ _ _ _ _ _ _ S2 H) as [cv [C2 [[A _] _]]].
    match goal with |- match ?t with _ => _ end = _ => replace t with (Some (run_events es', cv)) by (symmetry; exact C2) end.
    cbn [fst snd]. now rewrite A.
  Qed.
End Concrete.

(* ---------------------------------------------------------------- the validator *)
Lemma slist_eqb_eq l1 : Forall (fun a => forall b, sval_eqb a b = true -> a = b) l1 -> forall l2, slist_eqb l1 l2 = true -> l1 = l2.
Proof.
  induction 1 as [|a l1 Ha _ IH]; intros [|b l2] H; cbn [slist_eqb] in H; try discriminate; [reflexivity|].
  apply andb_prop in H as [H1 H2]. f_equal; auto.
Qed.

Lemma opt_string_eqb_eq (a b : option string) : opt_eqb String.eqb a b = true -> a = b.
Proof. destruct a, b; cbn; intros H; try discriminate; [apply String.eqb_eq in H; congruence|reflexivity]. Qed.

Lemma sval_eqb_eq v : forall w, sval_eqb v w = true -> v = w.
Proof.
  induction v using sval_ind'; intros w0 Hb; destruct w0 as [k2|k2|z2|s2| |b2|s2|l2|l2|l2|a2 b2 c2|o2 k2|o2 k2|op2 l2|f2 l2|i2 f2|n2|k2]; cbn [sval_eqb] in Hb; try discriminate.
  - apply Nat.eqb_eq in Hb. congruence.
  - apply Nat.eqb_eq in Hb. congruence.
  - apply Z.eqb_eq in Hb. congruence.
  - apply String.eqb_eq in Hb. congruence.
  - reflexivity.
  - apply Bool.eqb_prop in Hb. congruence.
  - apply String.eqb_eq in Hb. congruence.
  - change (slist_eqb l l2 = true) in Hb. f_equal. now apply slist_eqb_eq.
  - change (slist_eqb l l2 = true) in Hb. f_equal. now apply slist_eqb_eq.
  - f_equal. revert l2 Hb. induction H as [|[k v] l [Hk Hv] _ IH]; intros [|[k3 v3] l3] Hb; try discriminate; [reflexivity|].
    cbn [fst snd] in *. apply andb_prop in Hb as [Hb E3]. apply andb_prop in Hb as [E1 E2].
    f_equal; [f_equal; auto|apply IH; exact E3].
  - apply andb_prop in Hb as [Hb E3]. apply andb_prop in Hb as [E1 E2].
    f_equal; [destruct a, a2|destruct b, b2|destruct c, c2]; cbn [optP] in *; try discriminate; try reflexivity; f_equal; auto.
  - apply andb_prop in Hb as [E1 E2]. apply String.eqb_eq in E2. f_equal; auto.
  - apply andb_prop in Hb as [E1 E2]. f_equal; auto.
  - apply andb_prop in Hb as [E1 E2]. apply String.eqb_eq in E1. change (slist_eqb l l2 = true) in E2. f_equal; [exact E1|now apply slist_eqb_eq].
  - apply andb_prop in Hb as [E1 E2]. apply String.eqb_eq in E1. change (slist_eqb l l2 = true) in E2. f_equal; [exact E1|now apply slist_eqb_eq].
  - apply andb_prop in Hb as [E1 E2]. apply String.eqb_eq in E1. apply opt_string_eqb_eq in E2. congruence.
  - apply String.eqb_eq in Hb. congruence.
  - apply Nat.eqb_eq in Hb. congruence.
Qed.

Lemma slist_eqb_eq' l1 l2 : slist_eqb l1 l2 = true -> l1 = l2.
Proof. apply slist_eqb_eq. apply Forall_forall. intros a _. apply sval_eqb_eq. Qed.

Lemma kw_eqb_eq l1 : forall l2, kw_eqb l1 l2 = true -> l1 = l2.
Proof.
  induction l1 as [|[k v] l1 IH]; intros [|[k2 v2] l2] H; cbn [kw_eqb] in H; try discriminate; [reflexivity|].
  apply andb_prop in H as [H H3]. apply andb_prop in H as [H1 H2]. apply String.eqb_eq in H1. apply sval_eqb_eq in H2.
  f_equal; [congruence|auto].
Qed.

Lemma event_eqb_eq a b : event_eqb a b = true -> a = b.
Proof.
  destruct a, b; cbn [event_eqb]; intros H; try discriminate.
  - apply andb_prop in H as [H H3]. apply andb_prop in H as [H1 H2].
    apply sval_eqb_eq in H1. apply slist_eqb_eq' in H2. apply kw_eqb_eq in H3. congruence.
  - apply andb_prop in H as [H H4]. apply andb_prop in H as [H H3]. apply andb_prop in H as [H1 H2].
    apply sval_eqb_eq in H1, H2, H3. apply String.eqb_eq in H4. congruence.
  - apply andb_prop in H as [H1 H2]. apply sval_eqb_eq in H1. apply opt_string_eqb_eq in H2. congruence.
Qed.

Lemma events_eqb_eq l1 : forall l2, events_eqb l1 l2 = true -> l1 = l2.
Proof.
  induction l1 as [|a l1 IH]; intros [|b l2] H; cbn [events_eqb] in H; try discriminate; [reflexivity|].
  apply andb_prop in H as [H1 H2]. apply event_eqb_eq in H1. f_equal; auto.
Qed.

(* If the validator accepts, then for every value domain and every interpretation of the
   primitives - calls may depend on the whole history, which covers in-place mutation - running
   the generated text on a store of values yields exactly the result and the effect history that
   evaluating the graph node by node denotes. *)
Theorem agree_sound fuel g pre c :
  agree fuel g pre c = true ->
  exists rg, seval fuel g = Some rg /\
    forall (V : Type) (d : V) c_in c_int c_str c_none c_bool c_float c_tuple c_list c_dict c_slice c_attr c_item c_op c_pure
           c_import c_builtin c_const c_call c_update c_assert,
      cexec V c_in c_int c_str c_none c_bool c_float c_tuple c_list c_dict c_slice c_attr c_item c_op c_pure c_import c_builtin c_const
            c_call c_update c_assert fuel pre c
      = Some (denote V d c_in c_int c_str c_none c_bool c_float c_tuple c_list c_dict c_slice c_attr c_item c_op c_pure c_import
                     c_builtin c_const c_call c_update c_assert rg).
Proof.
  unfold agree. intros H.
  destruct (seval fuel g) as [[e1 r1]|] eqn:Eg; [|discriminate].
  destruct (sexec fuel pre c) as [[e2 r2]|] eqn:Ec; [|discriminate].
  apply andb_prop in H as [H1 H2]. apply events_eqb_eq in H1. apply sval_eqb_eq in H2. subst e2 r2.
  exists (e1, r1). split; [reflexivity|]. intros. erewrite sexec_sound; [reflexivity|exact Ec].
Qed.
