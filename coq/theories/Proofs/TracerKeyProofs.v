(* proofs for C06 (placeholders of tensor arguments in the cache key): placeholders that compare equal are identical,
   hence the cache over keys of frozen values and placeholders is transparent for every history *)
From Coq Require Import String List ZArith Bool Arith.
From EinxV Require Import Model.PyVal Gen.GenTracerKey Model.TracerKey Proofs.PyValProofs.
Import ListNotations.
Open Scope string_scope.

Lemma listZ_eqb_eq a : forall b, listZ_eqb a b = true -> a = b.
Proof.
  induction a as [|x r IH]; intros [|y s] H; try discriminate; [reflexivity|].
  cbn [listZ_eqb] in H. apply andb_prop in H as [H1 H2]. apply Z.eqb_eq in H1. f_equal; [exact H1|now apply IH].
Qed.
Lemma liststr_eqb_eq a : forall b, liststr_eqb a b = true -> a = b.
Proof.
  induction a as [|x r IH]; intros [|y s] H; try discriminate; [reflexivity|].
  cbn [liststr_eqb] in H. apply andb_prop in H as [H1 H2]. apply String.eqb_eq in H1. f_equal; [exact H1|now apply IH].
Qed.
Lemma shape_eqb_eq a b : shape_eqb a b = true -> a = b.
Proof. destruct a as [x|], b as [y|]; cbn; intros H; try discriminate; [f_equal; now apply listZ_eqb_eq|reflexivity]. Qed.
Lemma cval_eqb_eq a b : cval_eqb a b = true -> a = b.
Proof.
  destruct a as [x|x], b as [y|y]; cbn; intros H; try discriminate.
  - apply Nat.eqb_eq in H. congruence.
  - f_equal. now apply liststr_eqb_eq.
Qed.
Lemma concrete_eqb_eq a : forall b, concrete_eqb a b = true -> a = b.
Proof.
  induction a as [|[k1 v1] r IH]; intros [|[k2 v2] s] H; try discriminate; [reflexivity|].
  cbn [concrete_eqb] in H. apply andb_prop in H as [H H3]. apply andb_prop in H as [H1 H2].
  apply String.eqb_eq in H1. apply cval_eqb_eq in H2. f_equal; [congruence|now apply IH].
Qed.

(* what _to_tracer builds is well-formed, whatever its rows are *)
Lemma build_wf r a p : build r a = Some p -> wf_ph p.
Proof.
  destruct r as [t [cls [she cfs]]]. unfold build.
  destruct (shape_of_expr she a) as [sh|]; [|discriminate]. destruct (cfields a cfs) as [cs|]; [|discriminate].
  destruct (String.eqb cls "Tensor").
  - destruct cs; [|discriminate]. intros H. injection H as <-. split; reflexivity.
  - destruct (String.eqb cls "ConvertibleTensor"); [|discriminate]. intros H. injection H as <-. split; [reflexivity|discriminate].
Qed.
Lemma to_ph_rows_wf rows a p : to_ph_rows rows a = Some p -> wf_ph p.
Proof.
  induction rows as [|r rest IH]; [discriminate|]. cbn [to_ph_rows]. destruct (kind_of_test (fst r)) as [k|]; [|discriminate].
  destruct (akind_eqb k (a_kind a)); [apply build_wf|exact IH].
Qed.
Theorem to_ph_wf a p : to_ph a = Some p -> wf_ph p.
Proof. apply to_ph_rows_wf. Qed.

(* equal placeholders are identical as soon as __eq__ looks at the shape, and - for a ConvertibleTensor - at `concrete` *)
Lemma field_shape fs p q : In "shape" fs -> forallb (fun f => field_eqb f p q) fs = true -> p_shape p = p_shape q.
Proof. intros Hin H. rewrite forallb_forall in H. specialize (H _ Hin). cbn in H. now apply shape_eqb_eq. Qed.
Lemma field_concrete fs p q : In "concrete" fs -> forallb (fun f => field_eqb f p q) fs = true -> p_concrete p = p_concrete q.
Proof. intros Hin H. rewrite forallb_forall in H. specialize (H _ Hin). cbn in H. now apply concrete_eqb_eq. Qed.

Theorem ph_eqb_with_eq tf cf p q :
  In "shape" tf -> In "shape" cf -> In "concrete" cf ->
  wf_ph p -> wf_ph q -> ph_eqb_with tf cf p q = true -> p = q.
Proof.
  intros Ht Hc1 Hc2 [Hop Hcp] [Hoq Hcq] H. unfold ph_eqb_with in H. apply andb_prop in H as [Hk H]. apply Bool.eqb_prop in Hk.
  destruct p as [pc po ps pcs], q as [qc qo qs qcs]. cbn [p_conv p_origin p_shape p_concrete] in *. subst qc po qo.
  destruct pc.
  - pose proof (field_shape _ _ _ Hc1 H) as Hs. pose proof (field_concrete _ _ _ Hc2 H) as Hcc. cbn [p_shape p_concrete] in Hs, Hcc. congruence.
  - pose proof (field_shape _ _ _ Ht H) as Hs. cbn [p_shape] in Hs. rewrite (Hcp eq_refl), (Hcq eq_refl). congruence.
Qed.

Lemma gen_fields_suffice : In "shape" gen_tensor_eq_fields /\ In "shape" gen_convertible_eq_fields /\ In "concrete" gen_convertible_eq_fields.
Proof. cbn. repeat split; tauto. Qed.

Theorem ph_eqb_eq p q : wf_ph p -> wf_ph q -> ph_eqb p q = true -> p = q.
Proof. destruct gen_fields_suffice as [H1 [H2 H3]]. now apply ph_eqb_with_eq. Qed.

Theorem placeholders_of_arguments_separate a b pa pb :
  to_ph a = Some pa -> to_ph b = Some pb -> ph_eqb pa pb = true -> pa = pb.
Proof. intros Ha Hb. apply ph_eqb_eq; eapply to_ph_wf; eassumption. Qed.

Lemma item_eqb_eq x y : wf_item x -> wf_item y -> item_eqb x y = true -> x = y.
Proof.
  destruct x as [v|p], y as [w|q]; cbn [item_eqb wf_item]; intros Hx Hy H; try discriminate.
  - f_equal. now apply typed_keys_separate.
  - f_equal. now apply ph_eqb_eq.
Qed.
Theorem ckey_eqb_eq a : forall b, Forall wf_item a -> Forall wf_item b -> ckey_eqb a b = true -> a = b.
Proof.
  induction a as [|x r IH]; intros [|y s] Ha Hb H; try discriminate; [reflexivity|].
  cbn [ckey_eqb] in H. apply andb_prop in H as [H1 H2]. inversion Ha as [|? ? Hx Hr]; subst. inversion Hb as [|? ? Hy Hs]; subst.
  f_equal; [now apply item_eqb_eq|now apply IH].
Qed.

Section History.
  Variable O : Type.
  Variable trace : list item -> O.
  Definition ksound (c : kcache O) : Prop := forall k o, In (k, o) c -> o = trace k /\ Forall wf_item k.

  Lemma klookup_sound c a o : ksound c -> Forall wf_item a -> klookup O ckey_eqb c a = Some o -> o = trace a.
  Proof.
    induction c as [|[k o1] r IH]; intros Hs Ha H; [discriminate|]. cbn [klookup] in H. destruct (ckey_eqb k a) eqn:E.
    - injection H as <-. destruct (Hs k o1 (or_introl eq_refl)) as [Ho Hk]. apply ckey_eqb_eq in E; [|exact Hk|exact Ha]. now subst a.
    - apply IH; [|exact Ha|exact H]. intros k2 o2 Hin. apply Hs. now right.
  Qed.

  Theorem kcache_transparent_for_every_history : forall h c, ksound c -> Forall (Forall wf_item) h ->
    krun O trace ckey_eqb c h = map trace h.
  Proof.
    induction h as [|a r IH]; intros c Hs Hh; [reflexivity|]. inversion Hh as [|? ? Ha Hr]; subst. cbn [krun map]. unfold kcall.
    destruct (klookup O ckey_eqb c a) as [o|] eqn:E.
    - rewrite (klookup_sound c a o Hs Ha E). f_equal. now apply IH.
    - f_equal. apply IH; [|exact Hr]. intros k o [H|H]; [injection H as <- <-; split; [reflexivity|exact Ha]|now apply Hs].
  Qed.
End History.

(* a comparison that does not look at `concrete` lets two factories of different signature share a placeholder *)
Definition fac (params : list string) : arg := {| a_kind := KCallable; a_shape := []; a_type := 7; a_params := params |}.
Lemma without_concrete_refuted : exists a b pa pb, to_ph a = Some pa /\ to_ph b = Some pb /\
  ph_eqb_with ["origin"; "shape"] ["origin"; "shape"] pa pb = true /\ pa <> pb.
Proof.
  exists (fac ["shape"]), (fac ["shape"; "name"]). eexists. eexists.
  split; [vm_compute; reflexivity|]. split; [vm_compute; reflexivity|]. split; [vm_compute; reflexivity|]. discriminate.
Qed.
