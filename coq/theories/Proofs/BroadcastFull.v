(* Rearrangements with new output axes, end to end: given that the backend's broadcast_to does what numpy's prescribes (the one
   hypothesis: at every in-range index of the target shape it returns the element the operand holds at that index with 0 in
   place of every dimension of length 1), the modelled lowering holds, at the position the output expression denotes, the
   element the input holds at the position of the same loop environment - whatever the values of the output-only axes. *)
From Coq Require Import List NArith Arith Bool Lia.
From Coq Require Import String.
Close Scope string_scope.
From EinxV Require Import Spec.LoopSem Model.Opt Model.Lower Proofs.LoopSemProofs Proofs.OptProofs Proofs.LowerProofs Proofs.ElementwiseFull.
Import ListNotations.
Open Scope N_scope.

Section Broadcast.
  Variable V : Type.
  Variable inp : nat -> entries V.
  Variable F : String.string -> list (entries V) -> list String.string -> entries V.
  Variable BC : list N -> list N -> entries V -> entries V.
  Variable CC : nat -> list (list N * entries V) -> entries V.
  Variables din dout : list pex.
  Hypothesis Hok : broadcast_ok din dout = true.

  (* numpy.broadcast_to *)
  Hypothesis broadcast_to_complete : forall (s0 s1 : list N) (e : entries V) (I : list N) (v : V),
    valid_idx I s1 -> In (bmask s0 I, v) e -> In (I, v) (BC s0 s1 e).

  Lemma bc_out_plain : forallb plain dout = true.
  Proof. unfold broadcast_ok, align_ok in Hok. repeat (apply andb_prop in Hok as [Hok ?]). assumption. Qed.

  Lemma mshape_align k : mshape (lower_align k din dout) = bshape din dout.
  Proof. reflexivity. Qed.

  Theorem broadcast_repeats_the_value k rho v :
    in_bounds rho din -> in_bounds rho dout -> In (map (pidx rho) din, v) (inp k) ->
    In (map (pidx rho) dout, v) (meval V inp F BC CC (lower_broadcast k din dout)).
  Proof.
    intros Bi Bo Hin. unfold lower_broadcast. cbn [meval mshape]. unfold e_reshape. apply in_map_iff.
    exists (map (lookup rho) (lnames dout), v). cbn [fst snd]. split.
    - f_equal. pose proof (plain_dims_offset_free _ bc_out_plain) as Oo.
      rewrite <- lidx_dims, <- llens_dims, <- (pos_leaves rho dout Oo). unfold pos. apply unravel_ravel. now apply dims_valid.
    - apply broadcast_to_complete; [now apply leaf_valid|].
      rewrite mshape_align, (bmask_aligned din dout rho Bo). now apply (lower_align_correct V inp F BC CC din dout Hok k rho v Bi).
  Qed.
End Broadcast.
