(* Under every interleaving, a memo that publishes key and result together hands every call the result of its own key. *)
From Coq Require Import List Arith Bool.
From EinxV Require Import Model.Memo.
Import ListNotations.

Section P.
  Variable f : nat -> nat.

  Definition good (st : list (nat * nat) * list thread) : Prop :=
    (forall k v, In (k, v) (fst st) -> v = f k) /\
    Forall (fun t => forall k v, In (k, v) (got t) -> v = f k) (snd st).

  Lemma find_in m k v : find m k = Some v -> In (k, v) m.
  Proof.
    induction m as [|[a w] r IH]; cbn [find]; [discriminate|].
    destruct (Nat.eqb_spec a k) as [->|_]; [intros [= ->]; now left|right; auto].
  Qed.

  Lemma Forall_upd {A} (P : A -> Prop) l i x : Forall P l -> P x -> Forall P (upd l i x).
  Proof.
    intros H Hx. revert i. induction H as [|y r Hy Hr IH]; intros i; destruct i; cbn [upd]; constructor; auto.
  Qed.

  Lemma nth_error_Forall {A} (P : A -> Prop) l i x : Forall P l -> nth_error l i = Some x -> P x.
  Proof. intros H E. rewrite Forall_forall in H. apply H. eapply nth_error_In. exact E. Qed.

  Lemma step_good st i : good st -> good (step f st i).
  Proof.
    destruct st as [m ts]. intros [Hm Ht]. unfold step. destruct (nth_error ts i) as [t|] eqn:E; [|split; assumption].
    pose proof (nth_error_Forall _ _ _ _ Ht E) as Hgt. cbn beta in Hgt.
    destruct (pending t) as [k|].
    - split; cbn [fst snd].
      + intros a v [[= <- <-]|H]; [reflexivity|auto].
      + apply Forall_upd; [exact Ht|]. cbn [got]. intros a v H. apply in_app_or in H as [H|[[= <- <-]|[]]]; [auto|reflexivity].
    - destruct (todo t) as [|k rest]; [split; assumption|].
      destruct (find m k) as [v|] eqn:Ef; split; cbn [fst snd]; try exact Hm.
      + apply Forall_upd; [exact Ht|]. cbn [got]. intros a w H. apply in_app_or in H as [H|[[= <- <-]|[]]]; [auto|].
        apply Hm. now apply find_in.
      + apply Forall_upd; [exact Ht|]. cbn [got]. exact Hgt.
  Qed.

  Theorem atomic_memo_is_transparent sched : forall st, good st -> good (run f st sched).
  Proof. induction sched as [|i r IH]; intros st H; cbn [run fold_left]; [exact H|]. apply IH, step_good, H. Qed.
End P.
