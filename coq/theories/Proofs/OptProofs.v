(* Soundness of the optimiser's rewrite rules (numpy row-major semantics of reshape/transpose on
   index/value entries) and of the normaliser built from them. *)
From Coq Require Import String List NArith Arith Bool Lia.
From EinxV Require Import Spec.LoopSem Proofs.LoopSemProofs Gen.GenOpt Model.Opt.
Import ListNotations.
Open Scope N_scope.

Definition valid_idx (i s : list N) : Prop := Forall2 N.lt i s.

Lemma nprod_pos_of_lt n s : n < nprod s -> 0 < nprod s. Proof. lia. Qed.

(* ---------------------------------------------------------------- ravel / unravel *)
Lemma unravel_cons n l r : unravel n (l :: r) = (n / nprod r) mod l :: unravel (n mod nprod r) r.
Proof. reflexivity. Qed.

Lemma unravel_ravel i s : valid_idx i s -> unravel (ravel i s) s = i.
Proof.
  induction 1 as [|x l i s Hx H IH]; [reflexivity|].
  rewrite ravel_cons, unravel_cons.
  assert (Hr : ravel i s < nprod s \/ (s = [] /\ ravel i s = 0)) by (apply ravel_le; exact H).
  assert (Hp : 0 < nprod s).
  { destruct Hr as [Hr|[-> _]]; [lia|rewrite nprod_nil; lia]. }
  assert (Hlt : ravel i s < nprod s).
  { destruct Hr as [Hr|[-> Hz]]; [exact Hr|rewrite nprod_nil; cbn [ravel] in *; destruct i; cbn [ravel]; lia]. }
  f_equal.
  - rewrite N.div_add_l by lia. rewrite (N.div_small (ravel i s)) by exact Hlt.
    rewrite N.add_0_r. apply N.mod_small. exact Hx.
  - rewrite N.add_comm, N.mod_add by lia. rewrite N.mod_small by exact Hlt. exact IH.
Qed.

Lemma ravel_unravel s : forall n, n < nprod s -> ravel (unravel n s) s = n.
Proof.
  induction s as [|l r IH]; intros n Hn.
  - rewrite nprod_nil in Hn. cbn [unravel ravel]. lia.
  - rewrite nprod_cons in Hn. rewrite unravel_cons, ravel_cons.
    assert (Hp : 0 < nprod r) by nia.
    rewrite IH by (apply N.mod_lt; lia).
    assert (Hq : n / nprod r < l).
    { apply N.div_lt_upper_bound; [lia|]. lia. }
    rewrite (N.mod_small _ _ Hq).
    rewrite (N.div_mod n (nprod r)) at 3 by lia. lia.
Qed.

Lemma unravel_valid s : forall n, n < nprod s -> valid_idx (unravel n s) s.
Proof.
  induction s as [|l r IH]; intros n Hn; [constructor|].
  rewrite nprod_cons in Hn. rewrite unravel_cons.
  assert (Hp : 0 < nprod r) by nia.
  constructor.
  - apply N.mod_lt. nia.
  - apply IH. apply N.mod_lt. lia.
Qed.

Lemma ravel_valid_lt i s : valid_idx i s -> ravel i s < nprod s.
Proof.
  intros H. destruct (ravel_le _ _ H) as [Hr|[-> Hz]]; [exact Hr|]. rewrite nprod_nil. lia.
Qed.

(* ---------------------------------------------------------------- gather *)
Lemma gather_gather {A} (d : A) (l : list A) (p1 p2 : list nat) :
  Forall (fun k => (k < length p1)%nat) p2 ->
  gather d (gather d l p1) p2 = gather d l (gen_merge_perm p1 p2).
Proof.
  unfold gather, gen_merge_perm. intros H. rewrite map_map. apply map_ext_in.
  intros k Hk. rewrite Forall_forall in H. specialize (H _ Hk).
  set (f := fun k0 : nat => nth k0 l d).
  rewrite (nth_indep (map f p1) d (f 0%nat)) by (rewrite map_length; exact H).
  rewrite map_nth. reflexivity.
Qed.

Lemma gather_seq {A} (d : A) (l : list A) : gather d l (seq 0 (length l)) = l.
Proof.
  unfold gather. apply nth_ext with (d := d) (d' := d).
  - now rewrite map_length, seq_length.
  - intros n Hn. rewrite map_length, seq_length in Hn.
    set (f := fun k : nat => nth k l d).
    rewrite (nth_indep (map f (seq 0 (length l))) d (f 0%nat)) by (rewrite map_length, seq_length; exact Hn).
    rewrite map_nth, seq_nth by exact Hn. reflexivity.
Qed.

Lemma gather_valid i s p :
  valid_idx i s -> Forall (fun k => (k < length s)%nat) p -> valid_idx (gather 0 i p) (gather 0 s p).
Proof.
  intros H Hp. unfold gather. induction Hp as [|k p Hk _ IH]; cbn [map]; constructor; [|exact IH].
  clear - H Hk. revert k Hk. induction H as [|x l i s Hx H IH]; intros k Hk; cbn [length] in Hk; [lia|].
  destruct k as [|k]; cbn [nth]; [exact Hx|]. apply IH. lia.
Qed.

Lemma valid_idx_length i s : valid_idx i s -> length i = length s.
Proof. induction 1; cbn [length]; congruence. Qed.

(* ---------------------------------------------------------------- induction principle *)
Lemma tm_ind' (P : tm -> Prop) :
  (forall k s, P (MIn k s)) ->
  (forall x s, P x -> P (MReshape x s)) ->
  (forall x p, P x -> P (MTranspose x p)) ->
  (forall x s, P x -> P (MBroadcast x s)) ->
  (forall xs ax, Forall P xs -> P (MConcat xs ax)) ->
  (forall f args lits s, Forall P args -> P (MOther f args lits s)) ->
  forall t, P t.
Proof.
  intros H1 H2 H3 H4 H5 H6. fix IH 1. intros [k s|x s|x p|x s|xs ax|f args lits s].
  - apply H1. - apply H2, IH. - apply H3, IH. - apply H4, IH.
  - apply H5. induction xs as [|c cs IHc]; constructor; [apply IH|exact IHc].
  - apply H6. induction args as [|c cs IHc]; constructor; [apply IH|exact IHc].
Qed.

Lemma concat_shape_ext (f : tm -> tm) xs ax :
  (forall x, In x xs -> mshape (f x) = mshape x) -> mshape (MConcat (map f xs) ax) = mshape (MConcat xs ax).
Proof.
  intros H. destruct xs as [|x0 xs0]; [reflexivity|].
  change (map f (x0 :: xs0)) with (f x0 :: map f xs0). cbn [mshape].
  rewrite (H x0) by (now left). f_equal. f_equal.
  change (f x0 :: map f xs0) with (map f (x0 :: xs0)). rewrite map_map. apply map_ext_in.
  intros y Hy. now rewrite H.
Qed.

Section Sound.
  Variable V : Type.
  Variable inp : nat -> entries V.
  Variable F : string -> list (entries V) -> list string -> entries V.
  Variable BC : list N -> list N -> entries V -> entries V.
  Variable CC : nat -> list (list N * entries V) -> entries V.
  (* what is assumed of numpy's broadcast_to / concatenate (modelled, not verified) *)
  Hypothesis BC_same : forall s e, BC s s e = e.
  Hypothesis CC_single : forall ax s e, CC ax [(s, e)] = e.

  Notation ev := (meval V inp F BC CC).
  Definition valid_entries (s : list N) (e : entries V) : Prop := Forall (fun iv => valid_idx (fst iv) s) e.

  (* the opaque parts return entries inside their declared shapes *)
  Fixpoint sem_ok (t : tm) : Prop :=
    match t with
    | MIn k s => valid_entries s (inp k)
    | MReshape x _ | MTranspose x _ => sem_ok x
    | MBroadcast x s => sem_ok x /\ valid_entries s (ev t)
    | MConcat xs _ => (fix all (l : list tm) : Prop := match l with [] => True | y :: r => sem_ok y /\ all r end) xs
                      /\ valid_entries (mshape t) (ev t)
    | MOther _ args _ s => (fix all (l : list tm) : Prop := match l with [] => True | y :: r => sem_ok y /\ all r end) args
                           /\ valid_entries s (ev t)
    end.

  Fixpoint all_ok (l : list tm) : Prop := match l with [] => True | y :: r => sem_ok y /\ all_ok r end.
  Lemma sem_ok_concat xs ax : sem_ok (MConcat xs ax) = (all_ok xs /\ valid_entries (mshape (MConcat xs ax)) (ev (MConcat xs ax))).
  Proof. reflexivity. Qed.
  Lemma sem_ok_other f args lits s :
    sem_ok (MOther f args lits s) = (all_ok args /\ valid_entries s (ev (MOther f args lits s))).
  Proof. reflexivity. Qed.
  Lemma all_ok_Forall l : all_ok l <-> Forall sem_ok l.
  Proof. induction l as [|y r IH]; cbn [all_ok]; split; intros H; try constructor; try tauto; inversion H; subst; tauto. Qed.

  Theorem meval_valid t : wf_tm t = true -> sem_ok t -> valid_entries (mshape t) (ev t).
  Proof.
    induction t as [k s|x s IH|x p IH|x s IH|xs ax IH|f args lits s IH] using tm_ind'; intros Hwf Hok.
    - exact Hok.
    - cbn [wf_tm] in Hwf. apply andb_prop in Hwf as [Hwx Hprod]. apply N.eqb_eq in Hprod.
      specialize (IH Hwx Hok). cbn [mshape meval]. unfold e_reshape, valid_entries in *.
      rewrite Forall_map. eapply Forall_impl; [|exact IH]. intros [i v] Hi. cbn [fst snd] in *.
      apply unravel_valid. rewrite <- Hprod. apply ravel_valid_lt. exact Hi.
    - cbn [wf_tm] in Hwf. apply andb_prop in Hwf as [Hwx Hp].
      specialize (IH Hwx Hok). cbn [mshape meval]. unfold e_transpose, valid_entries in *.
      rewrite Forall_map. eapply Forall_impl; [|exact IH]. intros [i v] Hi. cbn [fst snd] in *.
      apply gather_valid; [exact Hi|]. rewrite forallb_forall in Hp. apply Forall_forall. intros k Hk.
      apply Nat.ltb_lt, Hp, Hk.
    - destruct Hok as [_ Hv]. exact Hv.
    - rewrite sem_ok_concat in Hok. tauto.
    - rewrite sem_ok_other in Hok. cbn [mshape]. tauto.
  Qed.

  (* ---- the individual rules ---- *)
  Lemma reshape_nop s e : valid_entries s e -> e_reshape V s s e = e.
  Proof.
    unfold e_reshape, valid_entries. induction 1 as [|[i v] e Hi _ IH]; cbn [map]; [reflexivity|].
    cbn [fst snd] in *. now rewrite (unravel_ravel _ _ Hi), IH.
  Qed.

  Lemma reshape_merge s0 s1 s2 e :
    valid_entries s0 e -> nprod s0 = nprod s1 ->
    e_reshape V s1 s2 (e_reshape V s0 s1 e) = e_reshape V s0 s2 e.
  Proof.
    unfold e_reshape, valid_entries. intros H Hp. rewrite map_map. apply map_ext_in.
    intros [i v] Hin. cbn [fst snd]. rewrite Forall_forall in H. specialize (H _ Hin). cbn [fst] in H.
    rewrite ravel_unravel; [reflexivity|]. rewrite <- Hp. apply ravel_valid_lt, H.
  Qed.

  Lemma transpose_nop s e : valid_entries s e -> e_transpose V (seq 0 (length s)) e = e.
  Proof.
    unfold e_transpose, valid_entries. intros H. rewrite <- (map_id e) at 2. apply map_ext_in.
    intros [i v] Hin. rewrite Forall_forall in H. specialize (H _ Hin). cbn [fst snd] in *.
    rewrite <- (valid_idx_length _ _ H), gather_seq. reflexivity.
  Qed.

  Lemma transpose_merge p1 p2 e :
    Forall (fun k => (k < length p1)%nat) p2 ->
    e_transpose V p2 (e_transpose V p1 e) = e_transpose V (gen_merge_perm p1 p2) e.
  Proof.
    unfold e_transpose. intros H. rewrite map_map. apply map_ext. intros [i v]. cbn [fst snd].
    now rewrite gather_gather.
  Qed.

  Lemma gen_reshape_nop_true a b : gen_reshape_nop a b = true -> a = b.
  Proof. unfold gen_reshape_nop. destruct (list_eq_dec N.eq_dec a b); [auto|discriminate]. Qed.
  Lemma gen_transpose_nop_true p n : gen_transpose_nop p n = true -> p = seq 0 n.
  Proof. unfold gen_transpose_nop. destruct (list_eq_dec Nat.eq_dec p (seq 0 n)); [auto|discriminate]. Qed.

  Lemma gather_length {A} (d : A) l p : length (gather d l p) = length p.
  Proof. unfold gather. apply map_length. Qed.

  Lemma mshape_gather_seq (s : list N) : gather 0 s (seq 0 (length s)) = s.
  Proof. apply gather_seq. Qed.

  (* one step at the root *)
  Lemma reshape_or_skip x' s :
    wf_tm x' = true -> nprod (mshape x') = nprod s -> sem_ok x' ->
    let r := if gen_reshape_nop s (mshape x') then x' else MReshape x' s in
    ev r = e_reshape V (mshape x') s (ev x') /\ mshape r = s /\ wf_tm r = true /\ sem_ok r.
  Proof.
    intros Hw Hp Hok. cbn zeta. destruct (gen_reshape_nop s (mshape x')) eqn:E.
    - apply gen_reshape_nop_true in E. subst s. rewrite reshape_nop by (apply (meval_valid _ Hw Hok)). auto.
    - cbn [meval mshape wf_tm sem_ok]. rewrite Hw. repeat split; auto. apply N.eqb_eq. exact Hp.
  Qed.

  Lemma simp_reshape_sound x s :
    wf_tm (MReshape x s) = true -> sem_ok x ->
    ev (simp_reshape x s) = ev (MReshape x s) /\ mshape (simp_reshape x s) = s
    /\ wf_tm (simp_reshape x s) = true /\ sem_ok (simp_reshape x s).
  Proof.
    intros Hwf Hok. cbn [wf_tm] in Hwf. apply andb_prop in Hwf as [Hwx Hprod]. apply N.eqb_eq in Hprod.
    unfold simp_reshape, gen_merge_shape.
    destruct x as [k s0|y s0|y p|y s0|ys ax|f args lits s0];
      try (exact (reshape_or_skip _ s Hwx Hprod Hok)).
    (* x = MReshape y s0: merge *)
    cbn [wf_tm] in Hwx. apply andb_prop in Hwx as [Hwy Hp0]. apply N.eqb_eq in Hp0.
    cbn [sem_ok] in Hok. cbn [mshape] in Hprod.
    assert (Hvy := meval_valid _ Hwy Hok).
    destruct (reshape_or_skip y s Hwy (eq_trans Hp0 Hprod) Hok) as [H1 H2].
    split; [|exact H2]. rewrite H1. cbn [meval]. symmetry. apply reshape_merge; assumption.
  Qed.

  Lemma transpose_or_skip x' q :
    wf_tm x' = true -> forallb (fun k => Nat.ltb k (length (mshape x'))) q = true -> sem_ok x' ->
    let r := if gen_transpose_nop q (length (mshape x')) then x' else MTranspose x' q in
    ev r = e_transpose V q (ev x') /\ mshape r = gather 0 (mshape x') q /\ wf_tm r = true /\ sem_ok r.
  Proof.
    intros Hw Hq Hok. cbn zeta. destruct (gen_transpose_nop q (length (mshape x'))) eqn:E.
    - apply gen_transpose_nop_true in E. subst q.
      rewrite transpose_nop by (apply (meval_valid _ Hw Hok)). rewrite gather_seq. auto.
    - cbn [meval mshape wf_tm sem_ok]. rewrite Hw, Hq. auto.
  Qed.

  Lemma simp_transpose_sound x p :
    wf_tm (MTranspose x p) = true -> sem_ok x ->
    ev (simp_transpose x p) = ev (MTranspose x p) /\ mshape (simp_transpose x p) = mshape (MTranspose x p)
    /\ wf_tm (simp_transpose x p) = true /\ sem_ok (simp_transpose x p).
  Proof.
    intros Hwf Hok. cbn [wf_tm] in Hwf. apply andb_prop in Hwf as [Hwx Hp].
    unfold simp_transpose.
    destruct x as [k s0|y s0|y p1|y s0|ys ax|f args lits s0];
      try (exact (transpose_or_skip _ p Hwx Hp Hok)).
    (* x = MTranspose y p1: merge *)
    assert (HpF : Forall (fun k => (k < length p1)%nat) p).
    { rewrite forallb_forall in Hp. apply Forall_forall. intros k Hk. specialize (Hp _ Hk).
      apply Nat.ltb_lt in Hp. cbn [mshape] in Hp. now rewrite gather_length in Hp. }
    cbn [wf_tm] in Hwx. apply andb_prop in Hwx as [Hwy Hp1]. cbn [sem_ok] in Hok.
    assert (Hq : forallb (fun k => Nat.ltb k (length (mshape y))) (gen_merge_perm p1 p) = true).
    { unfold gen_merge_perm. rewrite forallb_forall. intros k Hk. apply in_map_iff in Hk as [j [<- Hj]].
      rewrite Forall_forall in HpF. specialize (HpF _ Hj). rewrite forallb_forall in Hp1.
      apply Hp1. apply nth_In. exact HpF. }
    destruct (transpose_or_skip y _ Hwy Hq Hok) as [H1 [H2 H3]].
    split; [|split; [|exact H3]].
    - rewrite H1. cbn [meval]. symmetry. apply transpose_merge. exact HpF.
    - rewrite H2. cbn [mshape]. symmetry. apply gather_gather. exact HpF.
  Qed.

  Lemma simp_broadcast_sound x s :
    wf_tm x = true -> sem_ok (MBroadcast x s) ->
    ev (simp_broadcast x s) = ev (MBroadcast x s) /\ mshape (simp_broadcast x s) = s
    /\ wf_tm (simp_broadcast x s) = true /\ sem_ok (simp_broadcast x s).
  Proof.
    intros Hw Hok. unfold simp_broadcast. destruct (gen_reshape_nop s (mshape x)) eqn:E.
    - apply gen_reshape_nop_true in E. subst s. cbn [meval]. rewrite BC_same. destruct Hok as [Hx _]. auto.
    - cbn [wf_tm mshape]. auto.
  Qed.

  (* ---- the normaliser preserves the meaning (and shapes, well-formedness) ---- *)
  Theorem norm_sound t :
    wf_tm t = true -> sem_ok t ->
    ev (norm t) = ev t /\ mshape (norm t) = mshape t /\ wf_tm (norm t) = true /\ sem_ok (norm t).
  Proof.
    induction t as [k s|x s IH|x p IH|x s IH|xs ax IH|f args lits s IH] using tm_ind'; intros Hwf Hok.
    - cbn [norm]. auto.
    - cbn [wf_tm] in Hwf. apply andb_prop in Hwf as [Hwx Hprod]. cbn [sem_ok] in Hok.
      destruct (IH Hwx Hok) as [E1 [E2 [E3 E4]]]. cbn [norm].
      assert (Hw' : wf_tm (MReshape (norm x) s) = true) by (cbn [wf_tm]; rewrite E3, E2; exact Hprod).
      destruct (simp_reshape_sound (norm x) s Hw' E4) as [R1 [R2 [R3 R4]]].
      rewrite R1. cbn [meval mshape]. rewrite E1, E2. auto.
    - cbn [wf_tm] in Hwf. apply andb_prop in Hwf as [Hwx Hp]. cbn [sem_ok] in Hok.
      destruct (IH Hwx Hok) as [E1 [E2 [E3 E4]]]. cbn [norm].
      assert (Hw' : wf_tm (MTranspose (norm x) p) = true) by (cbn [wf_tm]; rewrite E3, E2; exact Hp).
      destruct (simp_transpose_sound (norm x) p Hw' E4) as [R1 [R2 [R3 R4]]].
      rewrite R1, R2. cbn [meval mshape]. rewrite E1, E2. auto.
    - cbn [wf_tm] in Hwf. destruct Hok as [Hx Hv].
      destruct (IH Hwf Hx) as [E1 [E2 [E3 E4]]]. cbn [norm].
      assert (Hok' : sem_ok (MBroadcast (norm x) s)).
      { split; [exact E4|]. cbn [meval]. rewrite E1, E2. exact Hv. }
      destruct (simp_broadcast_sound (norm x) s E3 Hok') as [R1 [R2 [R3 R4]]].
      rewrite R1, R2. cbn [meval mshape]. rewrite E1, E2. auto.
    - (* concatenate *)
      cbn [wf_tm] in Hwf. rewrite sem_ok_concat in Hok. destruct Hok as [Hall Hv].
      rewrite all_ok_Forall in Hall.
      assert (HN : Forall (fun x => ev (norm x) = ev x /\ mshape (norm x) = mshape x /\ wf_tm (norm x) = true /\ sem_ok (norm x)) xs).
      { rewrite forallb_forall in Hwf. rewrite Forall_forall in *. intros x Hx. apply IH; auto. }
      assert (Hmap : map (fun x => (mshape x, ev x)) (map norm xs) = map (fun x => (mshape x, ev x)) xs).
      { rewrite map_map. apply map_ext_in. intros x Hx. rewrite Forall_forall in HN. destruct (HN x Hx) as [A [B _]]. now rewrite A, B. }
      assert (Hshape : mshape (MConcat (map norm xs) ax) = mshape (MConcat xs ax)).
      { apply concat_shape_ext. intros x Hx. rewrite Forall_forall in HN. destruct (HN x Hx) as [_ [B _]]. exact B. }
      assert (Hev : ev (MConcat (map norm xs) ax) = ev (MConcat xs ax)) by (cbn [meval]; now rewrite Hmap).
      assert (Hwf' : wf_tm (MConcat (map norm xs) ax) = true).
      { cbn [wf_tm]. rewrite forallb_forall. intros y Hy. apply in_map_iff in Hy as [x [<- Hx]].
        rewrite Forall_forall in HN. destruct (HN x Hx) as [_ [_ [C _]]]. exact C. }
      assert (Hok' : sem_ok (MConcat (map norm xs) ax)).
      { rewrite sem_ok_concat. split.
        - rewrite all_ok_Forall. rewrite Forall_forall. intros y Hy. apply in_map_iff in Hy as [x [<- Hx]].
          rewrite Forall_forall in HN. destruct (HN x Hx) as [_ [_ [_ D]]]. exact D.
        - rewrite Hshape, Hev. exact Hv. }
      cbn [norm]. unfold simp_concat.
      destruct (map norm xs) as [|y [|z r]] eqn:Em.
      + rewrite ?Em in *. exact (conj Hev (conj Hshape (conj Hwf' Hok'))).
      + (* a single tensor: concatenate is dropped *)
        destruct xs as [|x0 [|x1 xs1]]; cbn [map] in Em; try discriminate. injection Em as Ey.
        inversion HN as [|? ? [A0 [B0 [C0 D0]]] _]; subst y.
        cbn [meval map]. rewrite CC_single. cbn [mshape map nsum fold_right].
        repeat split; auto.
        rewrite B0. clear. generalize (mshape x0) as s0. intros s0. revert ax.
        induction s0 as [|a s0 IHs]; intros [|ax]; cbn [replace_nth nth]; try reflexivity.
        * f_equal. lia.
        * f_equal. apply IHs.
      + rewrite ?Em in *. exact (conj Hev (conj Hshape (conj Hwf' Hok'))).
    - (* opaque primitive *)
      cbn [wf_tm] in Hwf. rewrite sem_ok_other in Hok. destruct Hok as [Hall Hv].
      rewrite all_ok_Forall in Hall.
      assert (HN : Forall (fun x => ev (norm x) = ev x /\ mshape (norm x) = mshape x /\ wf_tm (norm x) = true /\ sem_ok (norm x)) args).
      { rewrite forallb_forall in Hwf. rewrite Forall_forall in *. intros x Hx. apply IH; auto. }
      assert (Hmap : map ev (map norm args) = map ev args).
      { rewrite map_map. apply map_ext_in. intros x Hx. rewrite Forall_forall in HN. destruct (HN x Hx) as [A _]. exact A. }
      cbn [norm].
      assert (Hev : ev (MOther f (map norm args) lits s) = ev (MOther f args lits s)) by (cbn [meval]; now rewrite Hmap).
      split; [exact Hev|]. split; [reflexivity|]. split.
      + cbn [wf_tm]. rewrite forallb_forall. intros y Hy. apply in_map_iff in Hy as [x [<- Hx]].
        rewrite Forall_forall in HN. destruct (HN x Hx) as [_ [_ [C _]]]. exact C.
      + rewrite sem_ok_other. split.
        * rewrite all_ok_Forall. rewrite Forall_forall. intros y Hy. apply in_map_iff in Hy as [x [<- Hx]].
          rewrite Forall_forall in HN. destruct (HN x Hx) as [_ [_ [_ D]]]. exact D.
        * rewrite Hev. exact Hv.
  Qed.
End Sound.

(* ---------------------------------------------------------------- equality test, equivalence checker *)
Lemma listN_eqb_eq a b : listN_eqb a b = true -> a = b.
Proof. unfold listN_eqb. destruct (list_eq_dec N.eq_dec a b); [auto|discriminate]. Qed.
Lemma listnat_eqb_eq a b : listnat_eqb a b = true -> a = b.
Proof. unfold listnat_eqb. destruct (list_eq_dec Nat.eq_dec a b); [auto|discriminate]. Qed.
Lemma liststr_eqb_eq a b : liststr_eqb a b = true -> a = b.
Proof. unfold liststr_eqb. destruct (list_eq_dec string_dec a b); [auto|discriminate]. Qed.

Fixpoint tml_eqb (l1 l2 : list tm) : bool :=
  match l1, l2 with
  | [], [] => true
  | x :: r1, y :: r2 => tm_eqb x y && tml_eqb r1 r2
  | _, _ => false
  end.

Lemma tml_eqb_eq l1 : Forall (fun a => forall b, tm_eqb a b = true -> a = b) l1 ->
  forall l2, tml_eqb l1 l2 = true -> l1 = l2.
Proof.
  induction 1 as [|a l1 Ha _ IH]; intros [|b l2] H; cbn [tml_eqb] in H; try discriminate; [reflexivity|].
  apply andb_prop in H as [H1 H2]. f_equal; auto.
Qed.

Lemma tm_eqb_eq a : forall b, tm_eqb a b = true -> a = b.
Proof.
  induction a as [k s|x s IH|x p IH|x s IH|xs ax IH|f args lits s IH] using tm_ind'; intros [k2 s2|x2 s2|x2 p2|x2 s2|xs2 ax2|f2 args2 lits2 s2] H;
    cbn [tm_eqb] in H; try discriminate.
  - apply andb_prop in H as [H1 H2]. apply Nat.eqb_eq in H1. apply listN_eqb_eq in H2. congruence.
  - apply andb_prop in H as [H1 H2]. apply IH in H1. apply listN_eqb_eq in H2. congruence.
  - apply andb_prop in H as [H1 H2]. apply IH in H1. apply listnat_eqb_eq in H2. congruence.
  - apply andb_prop in H as [H1 H2]. apply IH in H1. apply listN_eqb_eq in H2. congruence.
  - apply andb_prop in H as [H1 H2]. apply Nat.eqb_eq in H2. change (tml_eqb xs xs2 = true) in H1.
    apply (tml_eqb_eq _ IH) in H1. congruence.
  - apply andb_prop in H as [H H4]. apply andb_prop in H as [H H3]. apply andb_prop in H as [H1 H2].
    apply String.eqb_eq in H1. change (tml_eqb args args2 = true) in H2. apply (tml_eqb_eq _ IH) in H2.
    apply liststr_eqb_eq in H3. apply listN_eqb_eq in H4. congruence.
Qed.

Section Equiv.
  Variable V : Type.
  Variable inp : nat -> entries V.
  Variable F : string -> list (entries V) -> list string -> entries V.
  Variable BC : list N -> list N -> entries V -> entries V.
  Variable CC : nat -> list (list N * entries V) -> entries V.
  Hypothesis BC_same : forall s e, BC s s e = e.
  Hypothesis CC_single : forall ax s e, CC ax [(s, e)] = e.

  (* the checker run by the C05 correspondence: graphs whose normal forms coincide compute the
     same entries for every input and every interpretation of the opaque primitives *)
  Theorem equiv_sound a b :
    equiv a b = true -> wf_tm a = true -> wf_tm b = true ->
    sem_ok V inp F BC CC a -> sem_ok V inp F BC CC b ->
    meval V inp F BC CC a = meval V inp F BC CC b.
  Proof.
    unfold equiv. intros H Wa Wb Sa Sb. apply tm_eqb_eq in H.
    destruct (norm_sound V inp F BC CC BC_same CC_single a Wa Sa) as [Ea _].
    destruct (norm_sound V inp F BC CC BC_same CC_single b Wb Sb) as [Eb _].
    rewrite <- Ea, <- Eb, H. reflexivity.
  Qed.
End Equiv.

(* ---------------------------------------------------------------- termination measure *)
Definition lsize (l : list tm) : nat := fold_right (fun x acc => (tsize x + acc)%nat) 0%nat l.

Lemma simp_reshape_size x s : simp_reshape x s = MReshape x s \/ (tsize (simp_reshape x s) < tsize (MReshape x s))%nat.
Proof.
  unfold simp_reshape, gen_merge_shape.
  destruct x as [k s0|y s0|y p|y s0|ys ax|f args lits s0];
    try (match goal with |- context [gen_reshape_nop s ?sh] => destruct (gen_reshape_nop s sh) end; [right; cbn [tsize]; lia|left; reflexivity]).
  destruct (gen_reshape_nop s (mshape y)); right; cbn [tsize]; lia.
Qed.

Lemma simp_transpose_size x p : simp_transpose x p = MTranspose x p \/ (tsize (simp_transpose x p) < tsize (MTranspose x p))%nat.
Proof.
  unfold simp_transpose.
  destruct x as [k s0|y s0|y p1|y s0|ys ax|f args lits s0];
    try (match goal with |- context [gen_transpose_nop p ?n] => destruct (gen_transpose_nop p n) end; [right; cbn [tsize]; lia|left; reflexivity]).
  destruct (gen_transpose_nop (gen_merge_perm p1 p) (length (mshape y))); right; cbn [tsize]; lia.
Qed.

Lemma lsize_map_norm l :
  Forall (fun t => norm t = t \/ (tsize (norm t) < tsize t)%nat) l ->
  map norm l = l \/ (lsize (map norm l) < lsize l)%nat.
Proof.
  induction 1 as [|x l Hx _ IH]; [left; reflexivity|]. cbn [map lsize fold_right].
  fold (lsize (map norm l)). fold (lsize l).
  destruct Hx as [Hx|Hx], IH as [IH|IH].
  - left. now rewrite Hx, IH.
  - right. rewrite Hx. lia.
  - right. rewrite IH. lia.
  - right. lia.
Qed.

(* every change made by the normaliser strictly decreases the term size: iterating passes until
   nothing changes stops after at most [tsize t] passes *)
Theorem norm_fixed_or_smaller t : norm t = t \/ (tsize (norm t) < tsize t)%nat.
Proof.
  induction t as [k s|x s IH|x p IH|x s IH|xs ax IH|f args lits s IH] using tm_ind'; cbn [norm].
  - left; reflexivity.
  - destruct (simp_reshape_size (norm x) s) as [E|E], IH as [I|I].
    + left. now rewrite E, I.
    + right. rewrite E. cbn [tsize]. lia.
    + right. rewrite I in E. rewrite I. exact E.
    + right. cbn [tsize] in *. lia.
  - destruct (simp_transpose_size (norm x) p) as [E|E], IH as [I|I].
    + left. now rewrite E, I.
    + right. rewrite E. cbn [tsize]. lia.
    + right. rewrite I in E. rewrite I. exact E.
    + right. cbn [tsize] in *. lia.
  - unfold simp_broadcast. destruct (gen_reshape_nop s (mshape (norm x))), IH as [I|I].
    + right. rewrite I. cbn [tsize]. lia.
    + right. cbn [tsize]. lia.
    + left. now rewrite I.
    + right. cbn [tsize]. lia.
  - destruct (lsize_map_norm xs IH) as [E|E].
    + rewrite E. unfold simp_concat. destruct xs as [|x [|y r]]; try (left; reflexivity).
      right. cbn [tsize fold_right]. lia.
    + right. assert (Hs : (tsize (simp_concat (map norm xs) ax) <= S (lsize (map norm xs)))%nat).
      { unfold simp_concat. destruct (map norm xs) as [|x [|y r]]; cbn [tsize lsize fold_right]; lia. }
      cbn [tsize]. fold (lsize xs). lia.
  - destruct (lsize_map_norm args IH) as [E|E]; [left; now rewrite E|right; cbn [tsize]; fold (lsize args); fold (lsize (map norm args)); lia].
Qed.
