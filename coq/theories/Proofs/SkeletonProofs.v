(* The operation skeleton of the modelled lowerings (Model/Lower.v) - the tree of operations with every shape literal erased,
   keeping transpositions, the backend function and its literal arguments (axis=) - is a function of the axis NAMES and
   brackets only: no axis length enters it. *)
From Coq Require Import List NArith Arith Bool.
From Coq Require Import String.
Close Scope string_scope.
From EinxV Require Import Spec.LoopSem Model.Opt Model.Lower Proofs.LowerProofs.
Import ListNotations.

Inductive sk :=
| SkIn (k : nat)
| SkReshape (x : sk)
| SkTranspose (x : sk) (p : list nat)
| SkBroadcast (x : sk)
| SkConcat (xs : list sk) (ax : nat)
| SkOther (f : string) (xs : list sk) (lits : list string).

Fixpoint skel (t : tm) : sk :=
  match t with
  | MIn k _ => SkIn k
  | MReshape x _ => SkReshape (skel x)
  | MTranspose x p => SkTranspose (skel x) p
  | MBroadcast x _ => SkBroadcast (skel x)
  | MConcat xs ax => SkConcat (map skel xs) ax
  | MOther f xs lits _ => SkOther f (map skel xs) lits
  end.

Lemma perm_of_names din dout : perm_of din dout = map (fun n => index_of n (lnames din)) (lnames dout).
Proof. unfold perm_of, lnames. now rewrite !map_map. Qed.

Lemma filter_map_fst {A B} (P : A -> bool) (l : list (A * B)) : map fst (filter (fun x => P (fst x)) l) = filter P (map fst l).
Proof. induction l as [|x r IH]; cbn [filter map]; [reflexivity|]. destruct (P (fst x)); cbn [map]; now rewrite IH. Qed.

Lemma onames_fst dout : map fst (onames dout) = lnames dout.
Proof. unfold onames, lnames. rewrite map_map. reflexivity. Qed.

Lemma perm_align_names din dout :
  perm_align din dout = map (fun n => index_of n (lnames din)) (filter (fun n => memNb n (lnames din)) (lnames dout)).
Proof.
  unfold perm_align, present. rewrite <- (onames_fst dout), <- (filter_map_fst (fun n => memNb n (lnames din)) (onames dout)), map_map. reflexivity.
Qed.

Lemma skel_align k din dout din' dout' :
  lnames din = lnames din' -> lnames dout = lnames dout' -> skel (lower_align k din dout) = skel (lower_align k din' dout').
Proof. intros H1 H2. unfold lower_align. cbn [skel]. now rewrite !perm_align_names, H1, H2. Qed.

Theorem skel_rearrange k din dout din' dout' :
  lnames din = lnames din' -> lnames dout = lnames dout' -> skel (lower_rearrange k din dout) = skel (lower_rearrange k din' dout').
Proof. intros H1 H2. unfold lower_rearrange. cbn [skel]. now rewrite !perm_of_names, H1, H2. Qed.

Lemma skel_aligns dout dout' : lnames dout = lnames dout' -> forall ins ins' k,
  Forall2 (fun d d' => lnames d = lnames d') ins ins' ->
  map skel (map (fun kd => lower_align (fst kd) (snd kd) dout) (combine (seq k (List.length ins)) ins)) =
  map skel (map (fun kd => lower_align (fst kd) (snd kd) dout') (combine (seq k (List.length ins')) ins')).
Proof.
  intros Ho ins ins' k H. revert k. induction H as [|d d' r r' Hd Hr IH]; intros k; cbn [List.length seq combine map]; [reflexivity|].
  cbn [fst snd]. rewrite (skel_align k d dout d' dout' Hd Ho). f_equal. apply IH.
Qed.

Theorem skel_elementwise f ins ins' dout dout' :
  Forall2 (fun d d' => lnames d = lnames d') ins ins' -> lnames dout = lnames dout' ->
  skel (lower_elementwise f ins dout) = skel (lower_elementwise f ins' dout').
Proof. intros H Ho. unfold lower_elementwise. cbn [skel]. now rewrite (skel_aligns dout dout' Ho ins ins' 0 H). Qed.

Lemma kept_names_by_marks (L L' : list (N * N * bool)) :
  map (fun x => fst (fst x)) L = map (fun x => fst (fst x)) L' -> map snd L = map snd L' ->
  map (fun x => fst (fst x)) (filter (fun x => negb (snd x)) L) = map (fun x => fst (fst x)) (filter (fun x => negb (snd x)) L').
Proof.
  revert L'. induction L as [|x r IH]; intros [|x' r'] Hn Hm; try discriminate; [reflexivity|].
  cbn [map] in Hn, Hm. injection Hn as Hx Hr. injection Hm as Hmx Hmr. cbn [filter]. rewrite Hmx.
  destruct (snd x'); cbn [negb map]; [now apply IH|]. rewrite Hx. f_equal. now apply IH.
Qed.

Theorem skel_reduce f din dout din' dout' :
  lnames din = lnames din' -> lmarks din = lmarks din' -> lnames dout = lnames dout' ->
  skel (lower_reduce f din dout) = skel (lower_reduce f din' dout').
Proof.
  intros H1 Hm H2. unfold lower_reduce. cbn [skel map]. rewrite !perm_of_names, !kept_lnames, H2, Hm.
  now rewrite (kept_names_by_marks (leaves din) (leaves din') H1 Hm).
Qed.

(* dot on the matmul path *)
Lemma lnames_group (P : N -> bool) d :
  lnames (map leaf_ax (filter (fun x => P (fst (fst x))) (leaves d))) = filter P (lnames d).
Proof.
  unfold lnames at 1. rewrite leaves_leaf_ax, map_map. unfold lnames. cbn [fst snd].
  induction (leaves d) as [|x r IH]; cbn [filter map]; [reflexivity|]. destruct (P (fst (fst x))); cbn [map]; [f_equal|]; exact IH.
Qed.

Lemma lnames_three a b c : lnames [PFl a; PFl b; PFl c] = lnames a ++ lnames b ++ lnames c.
Proof. unfold lnames. rewrite leaves_three, !map_app. reflexivity. Qed.

Lemma dot_groups_names d1 d2 dout d1' d2' dout' :
  lnames d1 = lnames d1' -> lnames d2 = lnames d2' -> lnames dout = lnames dout' ->
  lnames (dot_lhs d1 d2 dout) = lnames (dot_lhs d1' d2' dout') /\ lnames (dot_rhs d1 d2 dout) = lnames (dot_rhs d1' d2' dout') /\
  lnames (dot_mid d1 d2 dout) = lnames (dot_mid d1' d2' dout').
Proof.
  intros H1 H2 H3. unfold dot_lhs, dot_rhs, dot_mid, dot_batch, dot_contract, dot_left, dot_right. rewrite !lnames_three.
  rewrite !(lnames_group (fun n => memNb n (lnames d2) && memNb n (lnames dout))),
          !(lnames_group (fun n => memNb n (lnames d2) && negb (memNb n (lnames dout)))),
          !(lnames_group (fun n => negb (memNb n (lnames d2)))), !(lnames_group (fun n => negb (memNb n (lnames d1)))),
          !(lnames_group (fun n => memNb n (lnames d2') && memNb n (lnames dout'))),
          !(lnames_group (fun n => memNb n (lnames d2') && negb (memNb n (lnames dout')))),
          !(lnames_group (fun n => negb (memNb n (lnames d2')))), !(lnames_group (fun n => negb (memNb n (lnames d1')))).
  now rewrite H1, H2, H3.
Qed.

Theorem skel_dot d1 d2 dout d1' d2' dout' :
  lnames d1 = lnames d1' -> lnames d2 = lnames d2' -> lnames dout = lnames dout' ->
  skel (lower_dot d1 d2 dout) = skel (lower_dot d1' d2' dout').
Proof.
  intros H1 H2 H3. destruct (dot_groups_names d1 d2 dout d1' d2' dout' H1 H2 H3) as [Hl [Hr Hm]].
  unfold lower_dot, dot_matmul. cbn [skel map].
  rewrite (skel_rearrange 0 d1 (dot_lhs d1 d2 dout) d1' (dot_lhs d1' d2' dout') H1 Hl),
          (skel_rearrange 1 d2 (dot_rhs d1 d2 dout) d2' (dot_rhs d1' d2' dout') H2 Hr).
  now rewrite !perm_of_names, Hm, H3.
Qed.

Theorem skel_broadcast k din dout din' dout' :
  lnames din = lnames din' -> lnames dout = lnames dout' -> skel (lower_broadcast k din dout) = skel (lower_broadcast k din' dout').
Proof. intros H1 H2. unfold lower_broadcast. cbn [skel]. now rewrite (skel_align k din dout din' dout' H1 H2). Qed.
