(* The lowering models (Model/Lower.v) do not depend on the axis names themselves: under an injective renaming of the axes -
   such as a different draw of the random identifiers einx gives to unnamed axes and ellipsis repetitions - every modelled
   lowering yields the identical term (same operations, same permutations, same axis= literal, same shapes). *)
From Coq Require Import List NArith Arith Bool.
From Coq Require Import String.
Close Scope string_scope.
From EinxV Require Import Spec.LoopSem Model.Opt Model.Lower Proofs.LoopSemProofs Proofs.LowerProofs.
Import ListNotations.
Open Scope N_scope.

Section Rename.
  Variable f : N -> N.
  Hypothesis Hinj : forall a b, f a = f b -> a = b.

  Definition lrename (x : N * N * bool) : N * N * bool := (f (fst (fst x)), snd (fst x), snd x).

  Lemma pleaves_rename p : pleaves (prename f p) = map lrename (pleaves p).
  Proof.
    induction p as [n l m|cs IH|o t i IH] using pex_ind'; cbn [prename pleaves map]; [reflexivity| |exact IH].
    induction IH as [|c r Hc _ IHr]; cbn [map flat_map]; [reflexivity|]. now rewrite map_app, Hc, IHr.
  Qed.

  Lemma leaves_rename dims : leaves (map (prename f) dims) = map lrename (leaves dims).
  Proof.
    unfold leaves. induction dims as [|d r IH]; cbn [map flat_map]; [reflexivity|]. now rewrite map_app, pleaves_rename, IH.
  Qed.

  Lemma lnames_rename dims : lnames (map (prename f) dims) = map f (lnames dims).
  Proof. unfold lnames. rewrite leaves_rename, !map_map. reflexivity. Qed.
  Lemma llens_rename dims : llens (map (prename f) dims) = llens dims.
  Proof. unfold llens. rewrite leaves_rename, !map_map. reflexivity. Qed.
  Lemma lmarks_rename dims : lmarks (map (prename f) dims) = lmarks dims.
  Proof. unfold lmarks. rewrite leaves_rename, !map_map. reflexivity. Qed.
  Lemma psizes_rename dims : map psize (map (prename f) dims) = map psize dims.
  Proof. rewrite map_map. apply map_ext. intros p. apply psize_rename. Qed.

  Lemma eqb_rename a b : (f a =? f b) = (a =? b).
  Proof.
    destruct (N.eqb_spec a b) as [->|Hne]; [apply N.eqb_refl|]. apply N.eqb_neq. intros E. apply Hne, Hinj, E.
  Qed.

  Lemma index_of_rename n names : index_of (f n) (map f names) = index_of n names.
  Proof. induction names as [|x r IH]; cbn [map index_of]; [reflexivity|]. rewrite eqb_rename, IH. reflexivity. Qed.

  Lemma memNb_rename n names : memNb (f n) (map f names) = memNb n names.
  Proof. unfold memNb. induction names as [|x r IH]; cbn [map existsb]; [reflexivity|]. now rewrite eqb_rename, IH. Qed.

  Lemma perm_of_rename din dout : perm_of (map (prename f) din) (map (prename f) dout) = perm_of din dout.
  Proof.
    unfold perm_of. rewrite !lnames_rename, map_map. apply map_ext. intros n. apply index_of_rename.
  Qed.

  Theorem lower_rearrange_rename k din dout :
    lower_rearrange k (map (prename f) din) (map (prename f) dout) = lower_rearrange k din dout.
  Proof. unfold lower_rearrange. now rewrite perm_of_rename, !psizes_rename, llens_rename. Qed.

  (* reductions *)
  Lemma kept_rename din : kept (map (prename f) din) = map (prename f) (kept din).
  Proof.
    unfold kept. rewrite leaves_rename, map_map.
    induction (leaves din) as [|x r IH]; cbn [map filter]; [reflexivity|].
    unfold lrename at 1. cbn [snd]. destruct (negb (snd x)); cbn [map]; [|exact IH]. f_equal. exact IH.
  Qed.

  Theorem lower_reduce_rename fn din dout :
    lower_reduce fn (map (prename f) din) (map (prename f) dout) = lower_reduce fn din dout.
  Proof.
    unfold lower_reduce. rewrite lmarks_rename, kept_rename, perm_of_rename, !psizes_rename, !llens_rename. reflexivity.
  Qed.

  (* alignment of element-wise inputs *)
  Lemma onames_rename dout : onames (map (prename f) dout) = map (fun nl => (f (fst nl), snd nl)) (onames dout).
  Proof. unfold onames. rewrite leaves_rename, !map_map. reflexivity. Qed.

  Lemma perm_align_rename din dout : perm_align (map (prename f) din) (map (prename f) dout) = perm_align din dout.
  Proof.
    unfold perm_align, present. rewrite onames_rename, lnames_rename.
    induction (onames dout) as [|x r IH]; cbn [map filter fst]; [reflexivity|].
    rewrite memNb_rename. destruct (memNb (fst x) (lnames din)); cbn [map fst]; [|exact IH].
    rewrite index_of_rename. f_equal. exact IH.
  Qed.

  Lemma bshape_rename din dout : bshape (map (prename f) din) (map (prename f) dout) = bshape din dout.
  Proof.
    unfold bshape, present. rewrite onames_rename, lnames_rename, map_map. apply map_ext. intros x. cbn [fst snd]. now rewrite memNb_rename.
  Qed.

  Lemma lower_align_rename k din dout : lower_align k (map (prename f) din) (map (prename f) dout) = lower_align k din dout.
  Proof. unfold lower_align. now rewrite perm_align_rename, bshape_rename, psizes_rename, llens_rename. Qed.

  Theorem lower_broadcast_rename k din dout :
    lower_broadcast k (map (prename f) din) (map (prename f) dout) = lower_broadcast k din dout.
  Proof. unfold lower_broadcast. now rewrite lower_align_rename, psizes_rename, llens_rename. Qed.

  Theorem lower_elementwise_rename fn ins dout :
    lower_elementwise fn (map (map (prename f)) ins) (map (prename f) dout) = lower_elementwise fn ins dout.
  Proof.
    unfold lower_elementwise. rewrite map_length, psizes_rename, llens_rename. f_equal. f_equal.
    generalize 0%nat. induction ins as [|d r IH]; intros k; cbn [map List.length seq combine]; [reflexivity|].
    cbn [fst snd]. rewrite lower_align_rename. f_equal. apply IH.
  Qed.

  (* dot on the matmul path *)
  Lemma group_rename (P P' : N * N * bool -> bool) d :
    (forall x, P' (lrename x) = P x) ->
    map leaf_ax (filter P' (leaves (map (prename f) d))) = map (prename f) (map leaf_ax (filter P (leaves d))).
  Proof.
    intros HP. rewrite leaves_rename. induction (leaves d) as [|x r IH]; cbn [map filter]; [reflexivity|].
    rewrite HP. destruct (P x); cbn [map]; [|exact IH]. f_equal. exact IH.
  Qed.

  Lemma dot_batch_rename d1 d2 dout :
    dot_batch (map (prename f) d1) (map (prename f) d2) (map (prename f) dout) = map (prename f) (dot_batch d1 d2 dout).
  Proof. unfold dot_batch. apply group_rename. intros x. unfold lrename. cbn [fst snd]. now rewrite !lnames_rename, !memNb_rename. Qed.
  Lemma dot_contract_rename d1 d2 dout :
    dot_contract (map (prename f) d1) (map (prename f) d2) (map (prename f) dout) = map (prename f) (dot_contract d1 d2 dout).
  Proof. unfold dot_contract. apply group_rename. intros x. unfold lrename. cbn [fst snd]. now rewrite !lnames_rename, !memNb_rename. Qed.
  Lemma dot_left_rename d1 d2 : dot_left (map (prename f) d1) (map (prename f) d2) = map (prename f) (dot_left d1 d2).
  Proof. unfold dot_left. apply group_rename. intros x. unfold lrename. cbn [fst snd]. now rewrite !lnames_rename, !memNb_rename. Qed.
  Lemma dot_right_rename d1 d2 : dot_right (map (prename f) d1) (map (prename f) d2) = map (prename f) (dot_right d1 d2).
  Proof. unfold dot_right. apply group_rename. intros x. unfold lrename. cbn [fst snd]. now rewrite !lnames_rename, !memNb_rename. Qed.

  Lemma three_rename a b c : [PFl (map (prename f) a); PFl (map (prename f) b); PFl (map (prename f) c)] = map (prename f) [PFl a; PFl b; PFl c].
  Proof. reflexivity. Qed.

  Theorem lower_dot_rename d1 d2 dout :
    lower_dot (map (prename f) d1) (map (prename f) d2) (map (prename f) dout) = lower_dot d1 d2 dout.
  Proof.
    unfold lower_dot, dot_matmul, dot_mid, dot_lhs, dot_rhs.
    rewrite dot_batch_rename, dot_contract_rename, dot_left_rename, dot_right_rename, !three_rename.
    now rewrite !lower_rearrange_rename, perm_of_rename, !psizes_rename, llens_rename.
  Qed.
End Rename.
