(* Soundness of the reference solver: a forced value is the value in every solution, a reported
   contradiction means there is no solution, and a determined assignment is a solution. *)
From Coq Require Import List NArith Bool Arith Lia.
From EinxV Require Import Spec.Solve.
Import ListNotations.
Open Scope N_scope.

Lemma cexp_ind' (P : cexp -> Prop) :
  (forall x, P (CV x)) -> (forall n, P (CN n)) ->
  (forall l, Forall P l -> P (CProd l)) -> (forall l, Forall P l -> P (CSum l)) -> forall e, P e.
Proof.
  intros HV HN HP HS. fix IH 1. intros [x|n|l|l].
  - apply HV. - apply HN.
  - apply HP. induction l as [|c l IHl]; constructor; [apply IH|exact IHl].
  - apply HS. induction l as [|c l IHl]; constructor; [apply IH|exact IHl].
Qed.

(* well-formed expressions: positive literals, no empty concatenation *)
Fixpoint wfe (e : cexp) : Prop :=
  match e with
  | CV _ => True
  | CN n => 1 <= n
  | CProd l => (fix all (l : list cexp) : Prop := match l with [] => True | x :: r => wfe x /\ all r end) l
  | CSum l => l <> [] /\ (fix all (l : list cexp) : Prop := match l with [] => True | x :: r => wfe x /\ all r end) l
  end.
Definition wfl : list cexp -> Prop :=
  fix all (l : list cexp) : Prop := match l with [] => True | x :: r => wfe x /\ all r end.
Lemma wfl_Forall l : wfl l <-> Forall wfe l.
Proof. induction l as [|x l IH]; cbn; split; intros H; try constructor; try tauto; try (fold (wfl l) in *; tauto); inversion H; subst; fold (wfl l); tauto. Qed.

Lemma nprod_cons a l : nprod (a :: l) = a * nprod l. Proof. reflexivity. Qed.
Lemma nsum_cons a l : nsum (a :: l) = a + nsum l. Proof. reflexivity. Qed.
Arguments N.mul : simpl never.
Arguments N.add : simpl never.

Lemma nprod_pos l : Forall (fun v => 1 <= v) l -> 1 <= nprod l.
Proof. induction 1 as [|v l Hv _ IH]; [cbn; lia|]. rewrite nprod_cons. nia. Qed.

Lemma eval_pos tau e : pos tau -> wfe e -> 1 <= eval tau e.
Proof.
  intros Hp. induction e as [x|n|l IH|l IH] using cexp_ind'; intros Hw; cbn [eval wfe] in *.
  - apply Hp. - exact Hw.
  - apply nprod_pos. change (wfl l) in Hw. rewrite wfl_Forall in Hw. rewrite Forall_map.
    rewrite Forall_forall in *. intros x Hx. apply IH; auto.
  - destruct Hw as [Hne Hw]. change (wfl l) in Hw. rewrite wfl_Forall in Hw.
    destruct l as [|c l]; [congruence|]. cbn [map]. rewrite nsum_cons.
    inversion IH; subst. inversion Hw; subst. assert (1 <= eval tau c) by auto. lia.
Qed.

(* ---- partial evaluation agrees with every extension ---- *)
Lemma omap_all_sound {A B} (f : A -> option B) (g : A -> B) l :
  Forall (fun x => forall v, f x = Some v -> g x = v) l -> forall vs, omap_all f l = Some vs -> map g l = vs.
Proof.
  induction 1 as [|c l Hc _ IH]; intros vs H; cbn in H; [injection H as <-; reflexivity|].
  destruct (f c) as [a|] eqn:Ea; [|discriminate].
  change ((fix go (l : list A) : option (list B) := match l with [] => Some [] | x :: r => match f x, go r with Some a, Some b => Some (a :: b) | _, _ => None end end) l) with (omap_all f l) in H.
  destruct (omap_all f l) as [b|] eqn:Eb; [|discriminate]. injection H as <-. cbn [map]. now rewrite (Hc _ eq_refl), (IH _ eq_refl).
Qed.

Lemma peval_sound tau s e v : agree tau s -> peval s e = Some v -> eval tau e = v.
Proof.
  intros Ha. revert v. induction e as [x|n|l IH|l IH] using cexp_ind'; intros v H; cbn [peval eval] in *.
  - apply Ha, H. - congruence.
  - destruct (omap_all (peval s) l) as [vs|] eqn:E; [|discriminate]. cbn in H. injection H as <-.
    now rewrite (omap_all_sound (peval s) (eval tau) l IH vs E).
  - destruct (omap_all (peval s) l) as [vs|] eqn:E; [|discriminate]. cbn in H. injection H as <-.
    now rewrite (omap_all_sound (peval s) (eval tau) l IH vs E).
Qed.

Lemma kval_known tau s e : agree tau s -> is_known s e = true -> eval tau e = kval s e.
Proof.
  unfold is_known, kval. intros Ha H. destruct (peval s e) as [v|] eqn:E; [|discriminate]. eapply peval_sound; eauto.
Qed.

(* split a product / sum into its known and unknown factors *)
Lemma nprod_partition (f : cexp -> N) (p : cexp -> bool) l :
  nprod (map f l) = nprod (map f (filter p l)) * nprod (map f (filter (fun x => negb (p x)) l)).
Proof.
  induction l as [|x l IH]; [reflexivity|]. cbn [map filter]. destruct (p x); cbn [negb map]; rewrite !nprod_cons, IH; lia.
Qed.
Lemma nsum_partition (f : cexp -> N) (p : cexp -> bool) l :
  nsum (map f l) = nsum (map f (filter p l)) + nsum (map f (filter (fun x => negb (p x)) l)).
Proof.
  induction l as [|x l IH]; [reflexivity|]. cbn [map filter]. destruct (p x); cbn [negb map]; rewrite !nsum_cons, IH; lia.
Qed.

Lemma known_part tau s l : agree tau s ->
  map (eval tau) (filter (is_known s) l) = map (kval s) (filter (is_known s) l).
Proof.
  intros Ha. apply map_ext_in. intros x Hx. apply filter_In in Hx as [_ Hk]. now apply kval_known.
Qed.

Definition sound_res (s : passign) (e : cexp) (v : N) (r : inv_res) : Prop :=
  match r with
  | IAssign x val => plookup s x = None /\ forall tau, agree tau s -> pos tau -> eval tau e = v -> tau x = val
  | IContra => forall tau, agree tau s -> pos tau -> eval tau e <> v
  | IOk => forall tau, agree tau s -> eval tau e = v
  | IStuck => True
  end.

Lemma filter_sub_wf l p : wfl l -> wfl (filter p l).
Proof. rewrite !wfl_Forall. intros H. rewrite Forall_forall in *. intros x Hx. apply filter_In in Hx as [Hx _]. auto. Qed.

Theorem invert_sound : forall fuel s e v, wfe e -> sound_res s e v (invert fuel s e v).
Proof.
  induction fuel as [|f IH]; intros s e v Hw; [exact I|].
  destruct e as [x|n|l|l]; cbn [invert].
  - destruct (plookup s x) as [k|] eqn:El.
    + destruct (N.eqb_spec k v) as [->|Hne]; cbn [sound_res]; intros tau Ha; cbn [eval]; rewrite (Ha _ _ El); auto.
    + destruct (N.leb_spec 1 v) as [Hv|Hv]; cbn [sound_res].
      * split; [exact El|]. intros tau _ _ H. exact H.
      * intros tau _ Hp. cbn [eval]. specialize (Hp x). lia.
  - destruct (N.eqb_spec n v) as [->|Hne]; cbn [sound_res eval]; auto.
  - (* product *)
    cbn [wfe] in Hw. change (wfl l) in Hw.
    set (kn := filter (is_known s) l). set (un := filter (fun x => negb (is_known s x)) l).
    set (k := nprod (map (kval s) kn)).
    assert (Hsplit : forall tau, agree tau s -> eval tau (CProd l) = k * nprod (map (eval tau) un)).
    { intros tau Ha. cbn [eval]. rewrite (nprod_partition (eval tau) (is_known s) l). fold kn un. unfold k, kn. now rewrite known_part. }
    assert (Hun : forall tau, pos tau -> 1 <= nprod (map (eval tau) un)).
    { intros tau Hp. apply nprod_pos. rewrite Forall_map. apply Forall_forall. intros x Hx. apply eval_pos; auto.
      pose proof (filter_sub_wf l (fun x => negb (is_known s x)) Hw) as Hwu. fold un in Hwu. rewrite wfl_Forall, Forall_forall in Hwu. auto. }
    destruct un as [|u [|u2 rest]] eqn:Eun.
    + assert (Hnil : forall tau, agree tau s -> eval tau (CProd l) = k).
      { intros tau Ha. rewrite (Hsplit tau Ha). cbn [map]. change (nprod []) with 1. lia. }
      destruct (N.eqb_spec k v) as [<-|Hne]; cbn [sound_res].
      * intros tau Ha. apply Hnil, Ha.
      * intros tau Ha _. rewrite (Hnil tau Ha). exact Hne.
    + destruct (N.eqb_spec k 0) as [Hk0|Hk0]; [exact I|].
      destruct (N.eqb_spec (v mod k) 0) as [Hm|Hm].
      * assert (Hwu : wfe u).
        { pose proof (filter_sub_wf l (fun x => negb (is_known s x)) Hw) as Hwu. fold un in Hwu. rewrite Eun in Hwu. cbn in Hwu. tauto. }
        specialize (IH s u (v / k) Hwu). destruct (invert f s u (v / k)) as [x val| | |]; cbn [sound_res] in *; auto.
        -- destruct IH as [Hx IH]. split; [exact Hx|]. intros tau Ha Hp He. apply IH; auto.
           rewrite (Hsplit tau Ha) in He. cbn [map] in He. rewrite nprod_cons in He. change (nprod []) with 1 in He.
           rewrite <- He. rewrite N.mul_1_r, N.mul_comm, N.div_mul by exact Hk0. reflexivity.
        -- intros tau Ha. rewrite (Hsplit tau Ha). cbn [map]. rewrite nprod_cons. change (nprod []) with 1.
           rewrite (IH tau Ha), N.mul_1_r. apply N.mod_divide in Hm; [|exact Hk0]. destruct Hm as [q ->]. rewrite N.div_mul by exact Hk0. lia.
        -- intros tau Ha Hp He. apply (IH tau Ha Hp).
           rewrite (Hsplit tau Ha) in He. cbn [map] in He. rewrite nprod_cons in He. change (nprod []) with 1 in He.
           rewrite <- He. rewrite N.mul_1_r, N.mul_comm, N.div_mul by exact Hk0. reflexivity.
      * cbn [sound_res]. intros tau Ha Hp He. apply Hm. rewrite <- He, (Hsplit tau Ha). rewrite N.mul_comm. apply N.mod_mul. exact Hk0.
    + destruct (N.eqb_spec k 0) as [Hk0|Hk0]; [exact I|].
      destruct (N.eqb_spec (v mod k) 0) as [Hm|Hm].
      * destruct (N.leb_spec 1 (v / k)) as [Hq|Hq]; [exact I|].
        cbn [sound_res]. intros tau Ha Hp He. rewrite (Hsplit tau Ha) in He. specialize (Hun tau Hp).
        rewrite <- He in Hq. rewrite N.mul_comm, N.div_mul in Hq by exact Hk0. lia.
      * cbn [sound_res]. intros tau Ha Hp He. apply Hm. rewrite <- He, (Hsplit tau Ha). rewrite N.mul_comm. apply N.mod_mul. exact Hk0.
  - (* sum *)
    cbn [wfe] in Hw. destruct Hw as [_ Hw]. change (wfl l) in Hw.
    set (kn := filter (is_known s) l). set (un := filter (fun x => negb (is_known s x)) l).
    set (k := nsum (map (kval s) kn)).
    assert (Hsplit : forall tau, agree tau s -> eval tau (CSum l) = k + nsum (map (eval tau) un)).
    { intros tau Ha. cbn [eval]. rewrite (nsum_partition (eval tau) (is_known s) l). fold kn un. unfold k, kn. now rewrite known_part. }
    destruct un as [|u [|u2 rest]] eqn:Eun.
    + assert (Hnil : forall tau, agree tau s -> eval tau (CSum l) = k).
      { intros tau Ha. rewrite (Hsplit tau Ha). cbn [map]. change (nsum []) with 0. lia. }
      destruct (N.eqb_spec k v) as [<-|Hne]; cbn [sound_res].
      * intros tau Ha. apply Hnil, Ha.
      * intros tau Ha _. rewrite (Hnil tau Ha). exact Hne.
    + destruct (N.leb_spec k v) as [Hkv|Hkv].
      * assert (Hwu : wfe u).
        { pose proof (filter_sub_wf l (fun x => negb (is_known s x)) Hw) as Hwu. fold un in Hwu. rewrite Eun in Hwu. cbn in Hwu. tauto. }
        specialize (IH s u (v - k) Hwu). destruct (invert f s u (v - k)) as [x val| | |]; cbn [sound_res] in *; auto.
        -- destruct IH as [Hx IH]. split; [exact Hx|]. intros tau Ha Hp He. apply IH; auto.
           rewrite (Hsplit tau Ha) in He. cbn [map] in He. rewrite nsum_cons in He. change (nsum []) with 0 in He. lia.
        -- intros tau Ha. rewrite (Hsplit tau Ha). cbn [map]. rewrite nsum_cons. change (nsum []) with 0. rewrite (IH tau Ha). lia.
        -- intros tau Ha Hp He. apply (IH tau Ha Hp).
           rewrite (Hsplit tau Ha) in He. cbn [map] in He. rewrite nsum_cons in He. change (nsum []) with 0 in He. lia.
      * cbn [sound_res]. intros tau Ha Hp He. rewrite (Hsplit tau Ha) in He. lia.
    + destruct (N.leb_spec (k + N.of_nat (List.length (u :: u2 :: rest))) v) as [Hkv|Hkv]; [exact I|].
      cbn [sound_res]. intros tau Ha Hp He. rewrite (Hsplit tau Ha) in He.
      assert (Hge : N.of_nat (List.length (u :: u2 :: rest)) <= nsum (map (eval tau) (u :: u2 :: rest))).
      { pose proof (filter_sub_wf l (fun x => negb (is_known s x)) Hw) as Hwu. fold un in Hwu. rewrite Eun in Hwu.
        rewrite wfl_Forall in Hwu. clear - Hwu Hp. induction Hwu as [|x r Hx _ IHr]; [cbn; lia|].
        cbn [map List.length]. rewrite nsum_cons, Nat2N.inj_succ. pose proof (eval_pos tau x Hp Hx). lia. }
      lia.
Qed.

(* ---- the propagation loop ---- *)
Definition wfsys (sys : list equation) : Prop := Forall (fun ev => wfe (fst ev)) sys.

Lemma agree_cons tau s x v : agree tau s -> plookup s x = None -> tau x = v -> agree tau ((x, v) :: s).
Proof.
  intros Ha Hn Hx y w H. cbn [plookup] in H. destruct (Nat.eqb_spec x y) as [<-|Hne]; [congruence|auto].
Qed.

Lemma scan_sound fuel s sys : wfsys sys ->
  match scan fuel s sys with
  | IAssign x val => plookup s x = None /\ forall tau, agree tau s -> pos tau -> sat tau sys -> tau x = val
  | IContra => forall tau, agree tau s -> pos tau -> ~ sat tau sys
  | _ => True
  end.
Proof.
  induction 1 as [|[e v] sys Hw _ IH]; cbn [scan]; [exact I|]. cbn [fst] in Hw.
  pose proof (invert_sound fuel s e v Hw) as Hi.
  destruct (invert fuel s e v) as [x val| | |]; cbn [sound_res] in Hi.
  - destruct Hi as [Hx Hi]. split; [exact Hx|]. intros tau Ha Hp Hs. inversion Hs; subst. apply Hi; auto.
  - destruct (scan fuel s sys) as [x val| | |]; auto.
    + destruct IH as [Hx IH]. split; [exact Hx|]. intros tau Ha Hp Hs. inversion Hs; subst. auto.
    + intros tau Ha Hp Hs. inversion Hs; subst. eapply IH; eauto.
  - intros tau Ha Hp Hs. inversion Hs; subst. cbn [fst snd] in *. eapply Hi; eauto.
  - destruct (scan fuel s sys) as [x val| | |]; auto.
    + destruct IH as [Hx IH]. split; [exact Hx|]. intros tau Ha Hp Hs. inversion Hs; subst. auto.
    + intros tau Ha Hp Hs. inversion Hs; subst. eapply IH; eauto.
Qed.

Lemma all_ok_sat fuel s sys tau : wfsys sys -> all_ok fuel s sys = true -> agree tau s -> sat tau sys.
Proof.
  unfold all_ok, sat, wfsys. intros Hw H Ha. rewrite forallb_forall in H. rewrite Forall_forall in Hw. apply Forall_forall. intros [e v] Hin.
  specialize (H _ Hin). specialize (Hw _ Hin). cbn [fst snd] in *.
  pose proof (invert_sound fuel s e v Hw) as Hi. destruct (invert fuel s e v); try discriminate. cbn [sound_res] in Hi. auto.
Qed.

Lemma agree_total s : agree (total s) s.
Proof. intros x v H. unfold total. now rewrite H. Qed.

(* Every value the solver fixes is the value in every positive solution (uniqueness); a reported
   contradiction means no positive solution exists; a determined outcome is a solution. *)
Theorem propagate_sound : forall rounds fuel s sys, wfsys sys ->
  match propagate rounds fuel s sys with
  | Det s' => (forall tau, agree tau s -> pos tau -> sat tau sys -> agree tau s')
              /\ (forall tau, agree tau s' -> sat tau sys)
  | Contra => forall tau, agree tau s -> pos tau -> ~ sat tau sys
  | Unknown s' => forall tau, agree tau s -> pos tau -> sat tau sys -> agree tau s'
  end.
Proof.
  induction rounds as [|r IH]; intros fuel s sys Hw; cbn [propagate]; [auto|].
  pose proof (scan_sound fuel s sys Hw) as Hs.
  destruct (scan fuel s sys) as [x val| | |] eqn:Es.
  - destruct Hs as [Hx Hs]. specialize (IH fuel ((x, val) :: s) sys Hw).
    destruct (propagate r fuel ((x, val) :: s) sys) as [s'| |s'].
    + destruct IH as [A B]. split; [|exact B]. intros tau Ha Hp Hsat. apply A; auto. apply agree_cons; auto.
    + intros tau Ha Hp Hsat. eapply IH; eauto. apply agree_cons; auto.
    + intros tau Ha Hp Hsat. apply IH; auto. apply agree_cons; auto.
  - destruct (all_ok fuel s sys) eqn:Eo; [|auto]. split; [auto|]. intros tau Ha. eapply all_ok_sat; eauto.
  - exact Hs.
  - destruct (all_ok fuel s sys) eqn:Eo; [|auto]. split; [auto|]. intros tau Ha. eapply all_ok_sat; eauto.
Qed.

(* the corollary used by the envelope check: a determined system has exactly one positive
   solution on its variables, and it is the one reported *)
Corollary propagate_unique rounds fuel sys s' :
  wfsys sys -> propagate rounds fuel [] sys = Det s' ->
  sat (total s') sys /\ forall tau, pos tau -> sat tau sys -> forall x v, plookup s' x = Some v -> tau x = v.
Proof.
  intros Hw H. pose proof (propagate_sound rounds fuel [] sys Hw) as P. rewrite H in P. destruct P as [A B].
  split; [apply B, agree_total|]. intros tau Hp Hs. apply (A tau); auto. intros x v Hx; discriminate.
Qed.
