(* The generated-code language has no loops: the number of effect events an execution produces
   is bounded by the number of call sites written in the text, whatever the values are. *)
From Coq Require Import String List ZArith Bool Arith Lia.
From EinxV Require Import Model.Ir.
Import ListNotations.
Open Scope list_scope.

Fixpoint sites (e : expr) : nat :=
  let ls := fix go (l : list expr) : nat := match l with [] => 0 | x :: r => sites x + go r end in
  let os := fun (o : option expr) => match o with Some x => sites x | None => 0 end in
  match e with
  | XTuple l | XList l | XOp _ l => ls l
  | XDict l => (fix go (l : list (expr * expr)) : nat := match l with [] => 0 | kv :: r => sites (fst kv) + sites (snd kv) + go r end) l
  | XSlice a b c => os a + os b + os c
  | XAttr o _ => sites o
  | XItem o k => sites o + sites k
  | XCall f a kw => S (sites f + ls a + (fix go (l : list (string * expr)) : nat := match l with [] => 0 | kv :: r => sites (snd kv) + go r end) kw)
  | _ => 0
  end.
Definition lsites (l : list expr) : nat := fold_right (fun x acc => sites x + acc) 0 l.
Lemma sites_list l : (fix go (l : list expr) : nat := match l with [] => 0 | x :: r => sites x + go r end) l = lsites l.
Proof. induction l as [|x l IH]; cbn [lsites fold_right]; [reflexivity|]. now rewrite IH. Qed.
Lemma sites_dict l :
  (fix go (l : list (expr * expr)) : nat := match l with [] => 0 | kv :: r => sites (fst kv) + sites (snd kv) + go r end) l
  = lsites (map fst l) + lsites (map snd l).
Proof. induction l as [|kv l IH]; cbn [lsites fold_right map]; [reflexivity|]. fold (lsites (map fst l)) (lsites (map snd l)). rewrite IH. lia. Qed.
Lemma sites_kw l :
  (fix go (l : list (string * expr)) : nat := match l with [] => 0 | kv :: r => sites (snd kv) + go r end) l = lsites (map snd l).
Proof. induction l as [|kv l IH]; cbn [lsites fold_right map]; [reflexivity|]. fold (lsites (map snd l)). now rewrite IH. Qed.

Definition stmt_sites (c : stmt) : nat :=
  match c with
  | StAssign _ e | StExpr e => sites e
  | StAug o k _ v => S (sites o + sites k + sites v)
  | StAssert c _ => S (sites c)
  | StImport _ _ _ => 0
  end.
Definition body_sites (b : list stmt) : nat := fold_right (fun c acc => stmt_sites c + acc) 0 b.

Definition bounded_at (f : nat) (s : store) : Prop :=
  forall es e es' sv, sx f s es e = Some (es', sv) -> List.length es' <= List.length es + sites e.

Lemma seq_list_bound f s (Hf : bounded_at f s) :
  forall l es es' svs, seq_list (fun es x => sx f s es x) es l = Some (es', svs) -> List.length es' <= List.length es + lsites l.
Proof.
  induction l as [|x l IH]; intros es es' svs H; cbn [seq_list lsites fold_right] in *.
  - injection H as <- _. lia.
  - destruct (sx f s es x) as [[es1 v]|] eqn:E1; [|discriminate].
    destruct (seq_list _ es1 l) as [[es2 vs]|] eqn:E2; [|discriminate]. injection H as <- _.
    specialize (Hf _ _ _ _ E1). specialize (IH _ _ _ E2). fold (lsites l). lia.
Qed.

Lemma seq_opt_bound f s (Hf : bounded_at f s) o es es' sv :
  seq_opt (fun es x => sx f s es x) es o = Some (es', sv) ->
  List.length es' <= List.length es + match o with Some x => sites x | None => 0 end.
Proof.
  destruct o as [x|]; cbn [seq_opt]; intros H.
  - destruct (sx f s es x) as [[es1 v]|] eqn:E1; [|discriminate]. injection H as <- _. exact (Hf _ _ _ _ E1).
  - injection H as <- _. lia.
Qed.

Theorem sx_bound : forall f s, bounded_at f s.
Proof.
  induction f as [|f IH]; intros s es e es' sv H; [discriminate|]. specialize (IH s).
  cbn [sx] in H.
  destruct e as [x|z|t| |b|t|l|l|l|a b c|o k|o k|op args|fn args kw]; cbn [sites]; rewrite ?sites_list, ?sites_dict, ?sites_kw.
  - destruct (slookup s x); [|destruct (const_index x)]; injection H as <- _; lia.
  - injection H as <- _; lia. - injection H as <- _; lia. - injection H as <- _; lia. - injection H as <- _; lia. - injection H as <- _; lia.
  - destruct (seq_list _ es l) as [[es1 vs]|] eqn:E; [|discriminate]. injection H as <- _. exact (seq_list_bound _ _ IH _ _ _ _ E).
  - destruct (seq_list _ es l) as [[es1 vs]|] eqn:E; [|discriminate]. injection H as <- _. exact (seq_list_bound _ _ IH _ _ _ _ E).
  - destruct (seq_list _ es (map fst l)) as [[es1 ks]|] eqn:E1; [|discriminate].
    destruct (seq_list _ es1 (map snd l)) as [[es2 vs]|] eqn:E2; [|discriminate]. injection H as <- _.
    pose proof (seq_list_bound _ _ IH _ _ _ _ E1). pose proof (seq_list_bound _ _ IH _ _ _ _ E2). lia.
  - destruct (seq_opt _ es a) as [[es1 sa]|] eqn:E1; [|discriminate].
    destruct (seq_opt _ es1 b) as [[es2 sb]|] eqn:E2; [|discriminate].
    destruct (seq_opt _ es2 c) as [[es3 sc]|] eqn:E3; [|discriminate]. injection H as <- _.
    pose proof (seq_opt_bound _ _ IH _ _ _ _ E1). pose proof (seq_opt_bound _ _ IH _ _ _ _ E2). pose proof (seq_opt_bound _ _ IH _ _ _ _ E3). lia.
  - destruct (sx f s es o) as [[es1 so]|] eqn:E; [|discriminate]. injection H as <- _. exact (IH _ _ _ _ E).
  - destruct (sx f s es o) as [[es1 so]|] eqn:E1; [|discriminate].
    destruct (sx f s es1 k) as [[es2 sk]|] eqn:E2; [|discriminate]. injection H as <- _.
    pose proof (IH _ _ _ _ E1). pose proof (IH _ _ _ _ E2). lia.
  - destruct (seq_list _ es args) as [[es1 vs]|] eqn:E; [|discriminate]. injection H as <- _. exact (seq_list_bound _ _ IH _ _ _ _ E).
  - destruct (sx f s es fn) as [[es1 sf]|] eqn:E1; [|discriminate].
    destruct (seq_list _ es1 args) as [[es2 sa]|] eqn:E2; [|discriminate].
    destruct (seq_list _ es2 (map snd kw)) as [[es3 skv]|] eqn:E3; [|discriminate].
    pose proof (IH _ _ _ _ E1). pose proof (seq_list_bound _ _ IH _ _ _ _ E2). pose proof (seq_list_bound _ _ IH _ _ _ _ E3).
    destruct (call_is_pure sf (combine (map fst kw) skv)); injection H as <- _; rewrite ?app_length; cbn [List.length]; lia.
Qed.

Lemma stmt_bound fuel s es c s' es' :
  sx_stmt fuel (s, es) c = Some (s', es') -> List.length es' <= List.length es + stmt_sites c.
Proof.
  destruct c as [x e|e|o k op v|c msg|imp from as_]; cbn [sx_stmt stmt_sites]; intros H.
  - destruct (sx fuel s es e) as [[es1 sv]|] eqn:E; [|discriminate]. injection H as _ <-. exact (sx_bound _ _ _ _ _ _ E).
  - destruct (sx fuel s es e) as [[es1 sv]|] eqn:E; [|discriminate]. injection H as _ <-. exact (sx_bound _ _ _ _ _ _ E).
  - destruct (sx fuel s es o) as [[es1 so]|] eqn:E1; [|discriminate].
    destruct (sx fuel s es1 k) as [[es2 sk]|] eqn:E2; [|discriminate].
    destruct (sx fuel s es2 v) as [[es3 sv]|] eqn:E3; [|discriminate]. injection H as _ <-.
    pose proof (sx_bound _ _ _ _ _ _ E1). pose proof (sx_bound _ _ _ _ _ _ E2). pose proof (sx_bound _ _ _ _ _ _ E3).
    rewrite app_length. cbn [List.length]. lia.
  - destruct (sx fuel s es c) as [[es1 sc]|] eqn:E; [|discriminate]. injection H as _ <-.
    pose proof (sx_bound _ _ _ _ _ _ E). rewrite app_length. cbn [List.length]. lia.
  - injection H as _ <-. lia.
Qed.

Lemma body_bound fuel : forall b s es s' es',
  sx_body fuel (s, es) b = Some (s', es') -> List.length es' <= List.length es + body_sites b.
Proof.
  induction b as [|c b IH]; intros s es s' es' H; cbn [sx_body body_sites fold_right] in *.
  - injection H as _ <-. lia.
  - destruct (sx_stmt fuel (s, es) c) as [[s1 es1]|] eqn:E; [|discriminate].
    pose proof (stmt_bound _ _ _ _ _ _ E). specialize (IH _ _ _ _ H). fold (body_sites b). lia.
Qed.

(* every execution of a generated function performs at most as many backend calls / updates /
   assertions as there are call sites in its text - for all inputs of all sizes *)
Theorem events_bounded_by_text fuel pre c es r :
  sexec fuel pre c = Some (es, r) -> List.length es <= body_sites pre + body_sites (c_body c) + sites (c_ret c).
Proof.
  unfold sexec. intros H.
  destruct (sx_body fuel ([], []) pre) as [[s0 es0]|] eqn:E0; [|discriminate].
  destruct (sx_body fuel (init_store (c_params c) ++ s0, es0) (c_body c)) as [[s es1]|] eqn:E1; [|discriminate].
  pose proof (body_bound _ _ _ _ _ _ E0). pose proof (body_bound _ _ _ _ _ _ E1). pose proof (sx_bound _ _ _ _ _ _ H).
  cbn [List.length] in *. lia.
Qed.
