(* proofs for C06: equal typed cache keys are identical frozen values *)
From Coq Require Import String List ZArith Bool Arith.
From EinxV Require Import Model.PyVal.
Import ListNotations.

Lemma fv_ind' (P : fv -> Prop) :
  (forall n, P (FNum n)) -> (forall s, P (FStr s)) -> P FNone ->
  (forall l, Forall P l -> P (FTuple l)) -> (forall l, Forall (fun kv => P (snd kv)) l -> P (FDict l)) ->
  (forall i, P (FOther i)) -> forall v, P v.
Proof.
  intros H1 H2 H3 H4 H5 H6. fix IH 1. intros [n|s| |l|l|i].
  - apply H1. - apply H2. - apply H3.
  - apply H4. induction l as [|x l IHl]; constructor; [apply IH|exact IHl].
  - apply H5. induction l as [|[k x] l IHl]; constructor; [apply IH|exact IHl].
  - apply H6.
Qed.

Lemma nty_eqb_eq a b : nty_eqb a b = true -> a = b.
Proof. destruct a, b; cbn; congruence. Qed.

Lemma num_typed_eq x y : nty_eqb (nt x) (nt y) && num_eq x y && Bool.eqb (negz x) (negz y) = true -> x = y.
Proof.
  destruct x as [t1 i1 c1 z1], y as [t2 i2 c2 z2]. unfold num_eq. cbn [nt integral code negz]. intros H.
  apply andb_prop in H as [H H4]. apply andb_prop in H as [H1 H2]. apply andb_prop in H2 as [H2 H3].
  apply nty_eqb_eq in H1. apply Bool.eqb_prop in H2. apply Z.eqb_eq in H3. apply Bool.eqb_prop in H4. congruence.
Qed.

(* equal keys are identical frozen values: a cache hit was compiled for exactly these arguments *)
Theorem typed_keys_separate : forall a b, key_eq ByTypeAndRepr a b = true -> a = b.
Proof.
  induction a as [n|s| |l IH|l IH|i] using fv_ind'; intros [n2|s2| |l2|l2|i2] H; cbn [key_eq] in H; try discriminate.
  - f_equal. now apply num_typed_eq.
  - apply String.eqb_eq in H. congruence.
  - reflexivity.
  - f_equal. revert l2 H. induction IH as [|x l Hx _ IHl]; intros [|y l2] H; try discriminate; [reflexivity|].
    apply andb_prop in H as [H1 H2]. f_equal; [now apply Hx|now apply IHl].
  - f_equal. revert l2 H. induction IH as [|[k x] l Hx _ IHl]; intros [|[k2 y] l2] H; try discriminate; [reflexivity|].
    apply andb_prop in H as [H H3]. apply andb_prop in H as [H1 H2]. apply String.eqb_eq in H1. cbn [snd] in Hx.
    f_equal; [f_equal; [exact H1|now apply Hx]|now apply IHl].
  - apply Nat.eqb_eq in H. congruence.
Qed.

(* ---- the cache as a state machine: for EVERY history of calls, a lookup that compares keys with
   their types returns what tracing the arguments afresh would return ---- *)
Section CacheMachine.
  Variable O : Type.
  Variable trace : fv -> O.                      (* what tracing + compilation makes of the frozen arguments *)

  Definition cache := list (fv * O).
  Fixpoint lookup (typed : kmode) (c : cache) (a : fv) : option O :=
    match c with [] => None | (k, o) :: r => if key_eq typed k a then Some o else lookup typed r a end.
  Definition call (typed : kmode) (c : cache) (a : fv) : cache * O :=
    match lookup typed c a with Some o => (c, o) | None => ((a, trace a) :: c, trace a) end.
  Fixpoint run (typed : kmode) (c : cache) (h : list fv) : list O :=
    match h with [] => [] | a :: r => let '(c1, o) := call typed c a in o :: run typed c1 r end.

  Definition sound (c : cache) : Prop := forall k o, In (k, o) c -> o = trace k.

  Lemma lookup_sound c a o : sound c -> lookup ByTypeAndRepr c a = Some o -> o = trace a.
  Proof.
    induction c as [|[k o1] r IH]; intros Hs H; [discriminate|]. cbn [lookup] in H. destruct (key_eq ByTypeAndRepr k a) eqn:E.
    - injection H as <-. apply typed_keys_separate in E. subst a. apply Hs. now left.
    - apply IH; [|exact H]. intros k2 o2 Hin. apply Hs. now right.
  Qed.

  Theorem cache_transparent_for_every_history : forall h c, sound c -> run ByTypeAndRepr c h = map trace h.
  Proof.
    induction h as [|a r IH]; intros c Hs; [reflexivity|]. cbn [run map]. unfold call.
    destruct (lookup ByTypeAndRepr c a) as [o|] eqn:E.
    - rewrite (lookup_sound c a o Hs E). f_equal. now apply IH.
    - f_equal. apply IH. intros k o [H|H]; [injection H as <- <-; reflexivity|now apply Hs].
  Qed.
End CacheMachine.
