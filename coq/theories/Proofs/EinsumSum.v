(* dot on the einsum path, end to end: given that einsum does what its subscripts say (the one hypothesis, stated on axis
   names - the letters identify the names faithfully, EinsumProofs.ein_letters_faithful), the modelled lowering holds at the
   position the output expression denotes the sum, over all index combinations of the axes that the output does not list,
   of the product of the operands' elements. *)
From Coq Require Import List NArith ZArith Arith Bool Lia.
From Coq Require Import String.
Close Scope string_scope.
From EinxV Require Import Spec.LoopSem Model.Opt Model.Lower Proofs.LoopSemProofs Proofs.OptProofs Proofs.LowerProofs Proofs.DotSum
                          Proofs.EinsumProofs.
Import ListNotations.
Open Scope N_scope.

Lemma NoDup_app_disjoint {A} (l1 l2 : list A) : NoDup l1 -> NoDup l2 -> (forall x, In x l1 -> ~ In x l2) -> NoDup (l1 ++ l2).
Proof.
  induction 1 as [|a r Ha Hr IH]; intros H2 Hd; [exact H2|]. cbn [app]. constructor.
  - intros Hin. apply in_app_or in Hin as [Hin|Hin]; [auto|]. apply (Hd a); [now left|exact Hin].
  - apply IH; [exact H2|]. intros x Hx. apply Hd. now right.
Qed.

Section EinsumSum.
  Variable inp : nat -> entries Z.
  Variable F : String.string -> list (entries Z) -> list String.string -> entries Z.
  Variable BC : list N -> list N -> entries Z -> entries Z.
  Variable CC : nat -> list (list N * entries Z) -> entries Z.
  Variables (d1 d2 dout : list pex).
  Hypothesis Hp1 : forallb plain d1 = true.
  Hypothesis Hp2 : forallb plain d2 = true.
  Hypothesis Hpo : forallb plain dout = true.
  Hypothesis Hn1 : NoDup (map nm (leaves d1)).
  Hypothesis Hn2 : NoDup (map nm (leaves d2)).
  (* an axis name has one length *)
  Hypothesis Hcoh : forall x y, In x (leaves d1) -> In y (leaves d2) -> nm x = nm y -> ln x = ln y.

  (* the summed leaf axes: those the output does not list, first the left operand's, then the right operand's own *)
  Definition sl : list (N * N * bool) :=
    filter (fun x => negb (memNb (fst (fst x)) (lnames dout))) (leaves d1) ++
    filter (fun x => negb (memNb (fst (fst x)) (lnames dout)) && negb (memNb (fst (fst x)) (lnames d1))) (leaves d2).
  Definition snames : list N := map nm sl.
  Definition slens : list N := map ln sl.
  Definition JS : N := nprod slens.
  Definition at_s (rho : env) (j : N) : env := ext rho snames (unravel j slens).

  Lemma snames_nodup : NoDup snames.
  Proof.
    unfold snames, sl. rewrite map_app. apply NoDup_app_disjoint.
    - apply NoDup_map_filter, Hn1.
    - apply NoDup_map_filter, Hn2.
    - intros n H1 H2. apply in_map_iff in H1 as [x [E1 Hx]], H2 as [y [E2 Hy]]. apply filter_In in Hx as [Hx _], Hy as [_ Hy].
      apply andb_prop in Hy as [_ Hy]. apply negb_true_iff in Hy.
      assert (memNb (nm y) (lnames d1) = true) as Ht.
      { apply memNb_In. rewrite E2, <- E1. unfold lnames. apply in_map_iff. exists x. split; [reflexivity|exact Hx]. }
      unfold nm in *. congruence.
  Qed.

  Lemma sname_in n : In n snames -> exists y, In y sl /\ nm y = n.
  Proof. unfold snames. intros H. apply in_map_iff in H as [y [E Hy]]. eauto. Qed.

  Lemma sl_cases y : In y sl ->
    (In y (leaves d1)) \/ (In y (leaves d2) /\ memNb (nm y) (lnames d1) = false).
  Proof.
    unfold sl. intros H. apply in_app_or in H as [H|H]; apply filter_In in H as [Hy E]; [now left|right].
    apply andb_prop in E as [_ E]. apply negb_true_iff in E. auto.
  Qed.

  Lemma coherent_s1 x : In x (leaves d1) -> In (nm x) snames -> In (nm x, ln x) (combine snames slens).
  Proof.
    intros Hx Hn. destruct (sname_in _ Hn) as [y [Hy E]]. destruct (sl_cases y Hy) as [Hy1|[_ Hf]].
    - assert (x = y) as -> by (apply (nodup_leaf_inj (leaves d1)); auto). apply in_combine_map. exact Hy.
    - exfalso. assert (memNb (nm y) (lnames d1) = true) as Ht.
      { apply memNb_In. rewrite E. unfold lnames. apply in_map_iff. exists x. split; [reflexivity|exact Hx]. }
      congruence.
  Qed.

  Lemma coherent_s2 x : In x (leaves d2) -> In (nm x) snames -> In (nm x, ln x) (combine snames slens).
  Proof.
    intros Hx Hn. destruct (sname_in _ Hn) as [y [Hy E]]. destruct (sl_cases y Hy) as [Hy1|[Hy2 _]].
    - rewrite <- E, <- (Hcoh y x Hy1 Hx E). apply (in_combine_map nm ln). exact Hy.
    - assert (x = y) as -> by (apply (nodup_leaf_inj (leaves d2)); auto). apply in_combine_map. exact Hy.
  Qed.

  Lemma at_s_bounds1 rho j : j < JS -> in_bounds rho d1 -> in_bounds (at_s rho j) d1.
  Proof. intros Hj B. apply in_bounds_ext; [exact B|exact snames_nodup|apply unravel_valid; exact Hj|exact coherent_s1]. Qed.
  Lemma at_s_bounds2 rho j : j < JS -> in_bounds rho d2 -> in_bounds (at_s rho j) d2.
  Proof. intros Hj B. apply in_bounds_ext; [exact B|exact snames_nodup|apply unravel_valid; exact Hj|exact coherent_s2]. Qed.

  (* the output's axes are not summed: their indices are rho's *)
  Lemma out_at_s rho j : map (lookup (at_s rho j)) (lnames dout) = map (lookup rho) (lnames dout).
  Proof.
    apply map_ext_in. intros n Hn. apply lookup_ext_notin. intros Hs. destruct (sname_in _ Hs) as [y [Hy E]].
    assert (memNb (nm y) (lnames dout) = false) as Hf.
    { unfold sl in Hy. apply in_app_or in Hy as [Hy|Hy]; apply filter_In in Hy as [_ Ey]; [|apply andb_prop in Ey as [Ey _]]; now apply negb_true_iff in Ey. }
    apply memNb_In in Hn. rewrite E in Hf. congruence.
  Qed.

  (* the one assumption about the backend, on axis names: for output coordinates given by rho, if einsum finds the operands'
     elements for every index combination j of the summed axes, it returns the sum of their products *)
  Hypothesis einsum_complete : forall (A B : entries Z) (rho : env) (a c : N -> Z),
    (forall j, j < JS -> In (map (lookup (at_s rho j)) (lnames d1), a j) A /\ In (map (lookup (at_s rho j)) (lnames d2), c j) B) ->
    In (map (lookup rho) (lnames dout), zsum JS (fun j => (a j * c j)%Z)) (F "einsum"%string [A; B] [ein_subscripts d1 d2 dout; "kw:"%string]).

  Variables X Y : env -> Z.
  Hypothesis HX : forall rho, in_bounds rho d1 -> In (map (pidx rho) d1, X rho) (inp 0%nat).
  Hypothesis HY : forall rho, in_bounds rho d2 -> In (map (pidx rho) d2, Y rho) (inp 1%nat).

  Theorem einsum_dot_is_the_sum_of_products rho :
    in_bounds rho d1 -> in_bounds rho d2 -> in_bounds rho dout ->
    In (map (pidx rho) dout, zsum JS (fun j => (X (at_s rho j) * Y (at_s rho j))%Z)) (meval Z inp F BC CC (lower_einsum_dot d1 d2 dout)).
  Proof.
    intros B1 B2 Bo. apply (lower_einsum_dot_correct Z inp F BC CC d1 d2 dout rho _ Hpo Bo).
    unfold einsum_result. apply einsum_complete. intros j Hj. split.
    - apply (ein_operand_is_the_leaf_view Z inp F BC CC 0%nat d1 (at_s rho j) _ Hp1 (at_s_bounds1 rho j Hj B1)). apply HX, at_s_bounds1; assumption.
    - apply (ein_operand_is_the_leaf_view Z inp F BC CC 1%nat d2 (at_s rho j) _ Hp2 (at_s_bounds2 rho j Hj B2)). apply HY, at_s_bounds2; assumption.
  Qed.
End EinsumSum.
