From Coq Require Import List NArith Arith String Bool Lia.
From EinxV Require Import Gen.GenJoin.
Import ListNotations.
Close Scope string_scope.

Definition total (axes : list (list string)) : nat := fold_right Nat.add 0 (map (@List.length string) axes).
Definition all_empty (axes : list (list string)) : bool := forallb (fun l => match l with [] => true | _ => false end) axes.

Lemma dedup_sub seen l x : In x (gen_join_dedup seen l) -> In x l.
Proof.
  revert seen. induction l as [|y r IH]; intros seen H; cbn [gen_join_dedup] in H; [contradiction|].
  destruct (existsb (String.eqb y) seen).
  - right. eapply IH. exact H.
  - destruct H as [H|H]; [now left|right; eapply IH; exact H].
Qed.

Lemma dedup_nonempty l : l <> [] -> gen_join_dedup [] l <> [].
Proof. destruct l as [|x r]; [congruence|]. intros _. cbn [gen_join_dedup existsb]. discriminate. Qed.

Lemma fold_best_in (f : string -> nat) xs : forall b, In (fst (fold_left (fun best n => if Nat.ltb (snd best) (f n) then (n, f n) else best) xs b)) (fst b :: xs).
Proof.
  induction xs as [|y r IH]; intros b; cbn [fold_left]; [now left|].
  specialize (IH (if Nat.ltb (snd b) (f y) then (y, f y) else b)).
  destruct (Nat.ltb (snd b) (f y)); cbn [fst] in IH; destruct IH as [H|H]; cbn [In]; auto.
Qed.

Lemma take_one_in axes n : gen_join_take_one axes = Some n -> In n (gen_join_heads axes).
Proof.
  unfold gen_join_take_one. destruct (gen_join_dedup [] (gen_join_heads axes)) as [|x xs] eqn:E; [discriminate|].
  intros H. injection H as H. subst n.
  apply (dedup_sub []). rewrite E.
  apply (fold_best_in (fun n => gen_join_count n axes) xs (x, gen_join_count x axes)).
Qed.

Lemma heads_nonempty axes : all_empty axes = false -> gen_join_heads axes <> [].
Proof.
  induction axes as [|l r IH]; cbn [all_empty forallb gen_join_heads flat_map]; [discriminate|].
  destruct l as [|x l']; cbn [andb app]; [exact IH|discriminate].
Qed.

Lemma take_one_some axes : all_empty axes = false -> exists n, gen_join_take_one axes = Some n.
Proof.
  intros H. unfold gen_join_take_one.
  destruct (gen_join_dedup [] (gen_join_heads axes)) eqn:E; [|eexists; reflexivity].
  exfalso. exact (dedup_nonempty _ (heads_nonempty _ H) E).
Qed.

Lemma heads_in axes n : In n (gen_join_heads axes) -> exists l, In l axes /\ In n l.
Proof.
  unfold gen_join_heads. rewrite in_flat_map. intros [l [Hl Hn]]. exists l. split; [exact Hl|].
  destruct l as [|x l']; [contradiction|]. destruct Hn as [Hn|[]]. now left.
Qed.

Lemma remove_length n l : List.length (gen_join_remove n l) <= List.length l.
Proof. unfold gen_join_remove. induction l as [|x r IH]; cbn [filter List.length]; [lia|]. destruct (negb (String.eqb x n)); cbn [List.length]; lia. Qed.

Lemma remove_length_in n l : In n l -> List.length (gen_join_remove n l) < List.length l.
Proof.
  unfold gen_join_remove. induction l as [|x r IH]; intros H; [contradiction|]. cbn [filter List.length].
  destruct (String.eqb_spec x n) as [e|ne]; cbn [negb].
  - pose proof (remove_length n r) as Hr. unfold gen_join_remove in Hr. lia.
  - destruct H as [H|H]; [congruence|]. cbn [List.length]. specialize (IH H). lia.
Qed.

Lemma total_remove_le n axes : total (map (gen_join_remove n) axes) <= total axes.
Proof. unfold total. induction axes as [|l r IH]; cbn [map fold_right]; [lia|]. pose proof (remove_length n l). lia. Qed.

Lemma total_remove_lt n axes : (exists l, In l axes /\ In n l) -> total (map (gen_join_remove n) axes) < total axes.
Proof.
  intros [l [Hl Hn]]. induction axes as [|l0 r IH]; [contradiction|]. unfold total in *. cbn [map fold_right].
  destruct Hl as [Hl|Hl].
  - subst l0. pose proof (remove_length_in n l Hn). pose proof (total_remove_le n r) as Hr. unfold total in Hr. lia.
  - specialize (IH Hl). pose proof (remove_length n l0). lia.
Qed.

(* the while loop ends: the fuel "number of axis occurrences" is never exhausted *)
Theorem join_terminates : forall fuel axes, total axes <= fuel -> exists r, gen_join fuel axes = Some r.
Proof.
  induction fuel as [|f IH]; intros axes Hf.
  - cbn [gen_join]. fold (all_empty axes). destruct (all_empty axes) eqn:E; [eexists; reflexivity|].
    exfalso. destruct (take_one_some _ E) as [n Hn]. apply take_one_in, heads_in in Hn.
    pose proof (total_remove_lt n axes Hn). lia.
  - cbn [gen_join]. fold (all_empty axes). destruct (all_empty axes) eqn:E; [eexists; reflexivity|].
    destruct (take_one_some _ E) as [n Hn]. rewrite Hn.
    pose proof (total_remove_lt n axes (heads_in _ _ (take_one_in _ _ Hn))) as Hlt.
    destruct (IH (map (gen_join_remove n) axes)) as [r Hr]; [lia|]. rewrite Hr. eexists; reflexivity.
Qed.

Lemma remove_in n l m : In m (gen_join_remove n l) <-> In m l /\ m <> n.
Proof.
  unfold gen_join_remove. rewrite filter_In. split; intros [A B]; split; auto.
  - intros ->. now rewrite String.eqb_refl in B.
  - destruct (String.eqb_spec m n); [contradiction|reflexivity].
Qed.

(* nothing is invented: every joined axis occurs in one of the expressions *)
Theorem join_sound : forall fuel axes r, gen_join fuel axes = Some r -> forall m, In m r -> exists l, In l axes /\ In m l.
Proof.
  induction fuel as [|f IH]; intros axes r H m Hm; cbn [gen_join] in H; fold (all_empty axes) in H; destruct (all_empty axes) eqn:E.
  - injection H as <-. contradiction.
  - discriminate.
  - injection H as <-. contradiction.
  - destruct (gen_join_take_one axes) as [n|] eqn:Hn; [|discriminate].
    destruct (gen_join f (map (gen_join_remove n) axes)) as [r'|] eqn:Hr; [|discriminate]. injection H as <-.
    destruct Hm as [<-|Hm]; [exact (heads_in _ _ (take_one_in _ _ Hn))|].
    destruct (IH _ _ Hr m Hm) as [l [Hl Hml]]. rewrite in_map_iff in Hl. destruct Hl as [l0 [<- Hl0]].
    exists l0. split; [exact Hl0|]. now apply remove_in in Hml.
Qed.

(* nothing is lost: every axis of every expression is in the joined expression *)
Theorem join_complete : forall fuel axes r, gen_join fuel axes = Some r -> forall l m, In l axes -> In m l -> In m r.
Proof.
  induction fuel as [|f IH]; intros axes r H l m Hl Hm; cbn [gen_join] in H; fold (all_empty axes) in H; destruct (all_empty axes) eqn:E.
  - exfalso. unfold all_empty in E. rewrite forallb_forall in E. specialize (E l Hl). destruct l; [contradiction|discriminate].
  - discriminate.
  - exfalso. unfold all_empty in E. rewrite forallb_forall in E. specialize (E l Hl). destruct l; [contradiction|discriminate].
  - destruct (gen_join_take_one axes) as [n|] eqn:Hn; [|discriminate].
    destruct (gen_join f (map (gen_join_remove n) axes)) as [r'|] eqn:Hr; [|discriminate]. injection H as <-.
    destruct (string_dec m n) as [->|ne]; [now left|right].
    apply (IH _ _ Hr (gen_join_remove n l) m); [now apply in_map|]. apply remove_in. now split.
Qed.

(* and only once *)
Theorem join_nodup : forall fuel axes r, gen_join fuel axes = Some r -> NoDup r.
Proof.
  induction fuel as [|f IH]; intros axes r H; cbn [gen_join] in H; fold (all_empty axes) in H; destruct (all_empty axes) eqn:E.
  - injection H as <-. constructor.
  - discriminate.
  - injection H as <-. constructor.
  - destruct (gen_join_take_one axes) as [n|] eqn:Hn; [|discriminate].
    destruct (gen_join f (map (gen_join_remove n) axes)) as [r'|] eqn:Hr; [|discriminate]. injection H as <-.
    constructor; [|exact (IH _ _ Hr)].
    intros Hin. destruct (join_sound _ _ _ Hr n Hin) as [l [Hl Hnl]].
    rewrite in_map_iff in Hl. destruct Hl as [l0 [<- _]]. apply remove_in in Hnl. now destruct Hnl.
Qed.
