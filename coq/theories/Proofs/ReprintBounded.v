(* Re-printing, bounded: for EVERY sequence of at most [n] tokens over the token alphabet, if the parser model accepts it then
   either its printed form contains '{' or six dots (the two shapes of known finding F5) or the printed form is accepted again
   with the same tree up to positions, anonymous-axis identifiers and a parenthesised concatenation inside parentheses.
   Decided by evaluating the model on the finite domain inside Coq. *)
From Coq Require Import List NArith ZArith Bool.
From EinxV Require Import Model.Parse.
Import ListNotations.
Open Scope N_scope.

(* the token alphabet of the exhaustive tier of the correspondence check: a b 1 0 ( ) [ ] ... -> , + space | *)
Definition alphabet : list (list N) :=
  [[97]; [98]; [49]; [48]; [40]; [41]; [91]; [93]; [46; 46; 46]; [45; 62]; [44]; [43]; [32]; [124]].

Fixpoint strings (n : nat) : list (list N) :=
  match n with
  | O => [[]]
  | S k => [] :: flat_map (fun s => map (fun t => t ++ s) alphabet) (strings k)
  end.

Fixpoint has_sub (pat text : list N) (fuel : nat) : bool :=
  match fuel with
  | O => false
  | S f =>
    (fix pre (p t : list N) : bool := match p, t with [], _ => true | a :: p', b :: t' => (a =? b) && pre p' t' | _, [] => false end) pat text
    || match text with [] => false | _ :: r => has_sub pat r f end
  end.
Definition contains (pat text : list N) : bool := has_sub pat text (S (List.length text)).

(* Flat(Cat) and Cat denote the same one-dimensional axis and print alike up to a doubled parenthesis *)
Fixpoint norm_fc (x : expr) : expr :=
  match x with
  | EFlat i b e => match norm_fc i with ECat cs b' e' => ECat cs b' e' | i' => EFlat i' b e end
  | EList cs b e => EList (map norm_fc cs) b e
  | ECat cs b e => ECat (map norm_fc cs) b e
  | EBr i b e => EBr (norm_fc i) b e
  | EEll i b e id => EEll (norm_fc i) b e id
  | EArgs cs b e => EArgs (map norm_fc cs) b e
  | EOp cs b e => EOp (map norm_fc cs) b e
  | EAxis _ _ _ _ => x
  end.

Fixpoint expr_eqb (x y : expr) {struct x} : bool :=
  let list_eqb := fix go (l1 l2 : list expr) : bool :=
                    match l1, l2 with [], [] => true | a :: r1, b :: r2 => expr_eqb a b && go r1 r2 | _, _ => false end in
  match x, y with
  | EAxis n1 v1 _ _, EAxis n2 v2 _ _ =>
    (match n1, n2 with
     | NName a, NName b => if list_eq_dec N.eq_dec a b then true else false
     | NAnon, NAnon => true
     | NUnnamed _, NUnnamed _ => true
     | _, _ => false
     end) && (match v1, v2 with None, None => true | Some a, Some b => a =? b | _, _ => false end)
  | EList a _ _, EList b _ _ => list_eqb a b
  | ECat a _ _, ECat b _ _ => list_eqb a b
  | EArgs a _ _, EArgs b _ _ => list_eqb a b
  | EOp a _ _, EOp b _ _ => list_eqb a b
  | EFlat a _ _, EFlat b _ _ => expr_eqb a b
  | EBr a _ _, EBr b _ _ => expr_eqb a b
  | EEll a _ _ _, EEll b _ _ _ => expr_eqb a b
  | _, _ => false
  end.

Definition reprint_ok (s : list N) : bool :=
  match parse_op s with
  | Ok t =>
    let p := print t in
    contains [123] p || contains [46; 46; 46; 46; 46; 46] p ||
    match parse_op p with Ok t' => expr_eqb (norm_fc t') (norm_fc t) | _ => false end
  | _ => true
  end.

Definition all_reprint_ok (n : nat) : bool := forallb reprint_ok (strings n).

(* the same enumeration without materialising the list of strings *)
Fixpoint chk (n : nat) (s : list N) : bool :=
  reprint_ok s && match n with O => true | S k => forallb (fun t => chk k (t ++ s)) alphabet end.

Lemma chk_spec n : forall s, chk n s = true ->
  forall toks : list (list N), (List.length toks <= n)%nat -> Forall (fun t => In t alphabet) toks ->
  reprint_ok (concat toks ++ s) = true.
Proof.
  induction n as [|k IH]; intros s H toks Hl Hin; cbn [chk] in H; apply andb_prop in H as [H0 Hr].
  - destruct toks; [exact H0|cbn in Hl; inversion Hl].
  - destruct (rev toks) as [|t r] eqn:Er.
    + assert (toks = []) as -> by (apply (f_equal (@rev _)) in Er; now rewrite rev_involutive in Er). exact H0.
    + assert (Et : toks = rev r ++ [t]) by (apply (f_equal (@rev _)) in Er; rewrite rev_involutive in Er; exact Er).
      subst toks. rewrite concat_app. cbn [concat]. rewrite app_nil_r, <- app_assoc.
      rewrite forallb_forall in Hr. apply Forall_app in Hin as [Hin1 Hin2]. inversion Hin2 as [|? ? Ht _]; subst.
      apply (IH (t ++ s) (Hr t Ht) (rev r)); [|exact Hin1].
      rewrite app_length in Hl. cbn in Hl. rewrite Nat.add_1_r in Hl. now apply le_S_n.
Qed.

Theorem reprint_bounded (n : nat) : chk n [] = true ->
  forall toks : list (list N), (List.length toks <= n)%nat -> Forall (fun t => In t alphabet) toks ->
  reprint_ok (concat toks) = true.
Proof. intros H toks Hl Hin. rewrite <- (app_nil_r (concat toks)). exact (chk_spec n [] H toks Hl Hin). Qed.
