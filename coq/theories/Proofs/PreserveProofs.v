(* flip / roll: the operation sees the tensor at its leaf coordinates, axis= is the tuple of bracketed positions, and the
   result - of the same shape - is placed by the output expression. *)
From Coq Require Import List NArith Arith Bool Lia.
From Coq Require Import String.
Close Scope string_scope.
From EinxV Require Import Spec.LoopSem Model.Opt Model.Lower Proofs.LoopSemProofs Proofs.OptProofs Proofs.LowerProofs Proofs.AdapterProofs.
Import ListNotations.
Open Scope N_scope.

Lemma leaf_dims_leaves d : leaves (leaf_dims d) = map (fun x => (fst (fst x), snd (fst x), false)) (leaves d).
Proof. unfold leaf_dims. apply leaves_leaf_ax. Qed.
Lemma leaf_dims_lnames d : lnames (leaf_dims d) = lnames d.
Proof. unfold lnames. rewrite leaf_dims_leaves, map_map. reflexivity. Qed.
Lemma leaf_dims_llens d : llens (leaf_dims d) = llens d.
Proof. unfold llens. rewrite leaf_dims_leaves, map_map. reflexivity. Qed.
Lemma leaf_dims_psize d : map psize (leaf_dims d) = llens d.
Proof. unfold leaf_dims, llens. rewrite map_map. reflexivity. Qed.
Lemma leaf_dims_pidx rho d : map (pidx rho) (leaf_dims d) = map (lookup rho) (lnames d).
Proof. unfold leaf_dims, lnames. rewrite !map_map. reflexivity. Qed.
Lemma leaf_dims_bounds rho d : in_bounds rho d -> in_bounds rho (leaf_dims d).
Proof. intros B x Hx. rewrite leaf_dims_leaves in Hx. apply in_map_iff in Hx as [y [<- Hy]]. cbn [fst snd]. exact (B y Hy). Qed.

Lemma unmark_lnames d : lnames (unmark d) = lnames d.
Proof. unfold unmark, lnames. rewrite leaves_pmark, map_map. reflexivity. Qed.
Lemma unmark_bounds rho d : in_bounds rho d -> in_bounds rho (unmark d).
Proof.
  intros B x Hx. unfold unmark in Hx. rewrite leaves_pmark in Hx. apply in_map_iff in Hx as [y [<- Hy]]. cbn [fst snd]. exact (B y Hy).
Qed.
Lemma unmark_pidx rho d : map (pidx rho) (unmark d) = map (pidx rho) d.
Proof. unfold unmark. rewrite map_map. apply map_ext. intros p. apply pidx_pmark. Qed.
Lemma unmark_psize d : map psize (unmark d) = map psize d.
Proof. unfold unmark. rewrite map_map. apply map_ext. intros p. apply psize_pmark. Qed.
Lemma perm_of_unmarked din dout : perm_of (leaf_dims din) (unmark dout) = perm_of din dout.
Proof. unfold perm_of. now rewrite leaf_dims_lnames, unmark_lnames. Qed.

Section Preserve.
  Variable V : Type.
  Variable inp : nat -> entries V.
  Variable F : String.string -> list (entries V) -> list String.string -> entries V.
  Variable BC : list N -> list N -> entries V -> entries V.
  Variable CC : nat -> list (list N * entries V) -> entries V.
  Variables (f : String.string) (extra : list String.string) (kwlit : String.string) (din dout : list pex).
  Hypothesis Hok : preserve_ok din dout = true.

  Let Hun : forallb offset_free din = true.
  Proof.
    unfold preserve_ok in Hok. apply andb_prop in Hok as [H _]. apply andb_prop in H as [H _].
    apply forallb_forall. intros c Hc. rewrite forallb_forall in H. apply unoffset_offset_free; auto.
  Qed.
  Let Hre : rearrange_ok (leaf_dims din) (unmark dout) = true.
  Proof. unfold preserve_ok in Hok. apply andb_prop in Hok as [_ H]. exact H. Qed.

  Definition preserve_result : entries V := meval V inp F BC CC (preserve_call f extra kwlit din).

  (* 1. the operation sees every element at the coordinates of its leaf axes *)
  Theorem preserve_sees_the_leaf_view rho v :
    in_bounds rho din -> In (map (pidx rho) din, v) (inp 0%nat) ->
    In (map (lookup rho) (lnames din), v) (meval V inp F BC CC (MReshape (MIn 0 (map psize din)) (llens din))).
  Proof.
    intros Bin Hin. cbn [meval mshape]. unfold e_reshape. apply in_map_iff. exists (map (pidx rho) din, v). split; [|exact Hin].
    cbn [fst snd]. f_equal. change (ravel (map (pidx rho) din) (map psize din)) with (pos rho din).
    rewrite (pos_leaves rho din Hun), llens_dims, lidx_dims. apply unravel_ravel, leaf_valid, Bin.
  Qed.

  (* 2. axis= names exactly the bracketed leaf positions *)
  Theorem preserve_axes_are_the_brackets k :
    In k (EinxV.Gen.GenAdapter.gen_expr_to_axis (lmarks din)) <-> nth k (lmarks din) false = true.
  Proof. apply axis_is_bracket_positions. Qed.

  (* 3. what the operation returns at the leaf coordinates is found where the output expression puts it *)
  Lemma meval_preserve :
    meval V inp F BC CC (lower_preserve f extra kwlit din dout)
    = meval V (fun _ => preserve_result) F BC CC (lower_rearrange 0 (leaf_dims din) (unmark dout)).
  Proof.
    unfold lower_preserve, lower_rearrange, preserve_result, preserve_call. cbn [meval mshape map].
    now rewrite leaf_dims_psize, leaf_dims_llens, perm_of_unmarked, unmark_psize.
  Qed.

  Theorem lower_preserve_correct rho v :
    in_bounds rho din -> in_bounds rho dout ->
    In (map (lookup rho) (lnames din), v) preserve_result ->
    In (map (pidx rho) dout, v) (meval V inp F BC CC (lower_preserve f extra kwlit din dout)).
  Proof.
    intros Bi Bo Hin. rewrite meval_preserve, <- (unmark_pidx rho dout).
    apply (lower_rearrange_correct V (fun _ => preserve_result) F BC CC _ _ Hre 0%nat rho v (leaf_dims_bounds rho din Bi) (unmark_bounds rho dout Bo)).
    rewrite leaf_dims_pidx. exact Hin.
  Qed.
End Preserve.
