(* A space next to '->', ',' or '+', or at the beginning / end of an expression or of the inside of
   a parenthesis / bracket, does not change how a description parses (second spacing clause of C12),
   stated on the delimiter trees that grouping produces. *)
From Coq Require Import List NArith ZArith Bool Lia.
From EinxV Require Import Model.Parse Proofs.ParseProofs Proofs.ParseSim.
Import ListNotations.
Open Scope Z_scope.

(* ---------------------------------------------------------------- chunks: split_at without positions *)
Fixpoint chunks (l : lit) (is_ : list item) : list (list item) :=
  match is_ with
  | [] => [[]]
  | i :: r => if item_is l i then [] :: chunks l r
              else match chunks l r with c :: cs => (i :: c) :: cs | [] => [[i]] end
  end.

Lemma chunks_nonempty l is_ : chunks l is_ <> [].
Proof. induction is_ as [|i r IH]; cbn [chunks]; [discriminate|]. destruct (item_is l i); [discriminate|]. destruct (chunks l r); discriminate. Qed.

Lemma split_at_chunks l : forall is_ cur e,
  map fst (split_at l is_ cur e) = match chunks l is_ with c :: cs => (rev cur ++ c) :: cs | [] => [] end.
Proof.
  induction is_ as [|i r IH]; intros cur e; cbn [split_at chunks].
  - cbn [map fst]. now rewrite app_nil_r.
  - destruct (item_is l i).
    + cbn [map fst]. rewrite app_nil_r. f_equal. rewrite IH. cbn [rev List.app]. destruct (chunks l r) eqn:E; [now apply chunks_nonempty in E|reflexivity].
    + rewrite IH. destruct (chunks l r) as [|c cs] eqn:E; [now apply chunks_nonempty in E|]. cbn [rev]. now rewrite <- app_assoc.
Qed.

(* chunks of a concatenation: the last chunk of the left part continues with the first chunk of the right part *)
Lemma chunks_app l x : forall y,
  chunks l (x ++ y) = removelast (chunks l x) ++ (last (chunks l x) [] ++ hd [] (chunks l y)) :: tl (chunks l y).
Proof.
  induction x as [|i r IH]; intros y; cbn [List.app chunks].
  - cbn. destruct (chunks l y) eqn:E; [now apply chunks_nonempty in E|reflexivity].
  - rewrite IH. destruct (item_is l i).
    + destruct (chunks l r) as [|c cs] eqn:E; [now apply chunks_nonempty in E|]. reflexivity.
    + destruct (chunks l r) as [|c cs] eqn:E; [now apply chunks_nonempty in E|].
      destruct cs as [|c2 cs2]; cbn [removelast last List.app]; reflexivity.
Qed.

Definition spi (i : item) : bool := item_is LSpace i.
Definition strongb (i : item) : bool := item_is LArrow i || item_is LComma i || item_is LPlus i.
(* what may stand next to the inserted space: nothing (an end of the list) or one of the three operators *)
Definition adj (A B : list item) : Prop :=
  A = [] \/ B = [] \/ (exists A0 a, A = A0 ++ [a] /\ strongb a = true) \/ (exists b B0, B = b :: B0 /\ strongb b = true).

Lemma last_app_cons {A} (x : list A) y ys d : last (x ++ y :: ys) d = last (y :: ys) d.
Proof. induction x as [|a r IH]; [reflexivity|]. cbn [List.app]. destruct (r ++ y :: ys) as [|z zs] eqn:E; [destruct r; discriminate|]. change (last (a :: z :: zs) d) with (last (z :: zs) d). exact IH. Qed.

Lemma chunks_snoc l A0 a :
  last (chunks l (A0 ++ [a])) [] = if item_is l a then [] else last (chunks l A0) [] ++ [a].
Proof.
  rewrite chunks_app, last_app_cons. cbn [chunks]. destruct (item_is l a); cbn [hd tl last]; reflexivity.
Qed.

Lemma adj_chunks l A B : adj A B -> adj (last (chunks l A) []) (hd [] (chunks l B)).
Proof.
  intros [->|[->|[[A0 [a [-> Ha]]]|[b [B0 [-> Hb]]]]]].
  - left. reflexivity.
  - right. left. reflexivity.
  - rewrite chunks_snoc. destruct (item_is l a); [now left|]. right. right. left. exists (last (chunks l A0) []), a. auto.
  - cbn [chunks]. destruct (item_is l b); [right; left; reflexivity|].
    destruct (chunks l B0) as [|c cs]; cbn [hd]; right; right; right; [exists b, []|exists b, c]; auto.
Qed.

Section Space.
  Variable g : Z -> Z.
  Hypothesis g_inj : forall a b, g a = g b -> a = b.

  Notation isim := (isim g).
  Notation esim := (esim g).

  Lemma spi_sim i' i : isim i' i -> spi i' = spi i. Proof. apply item_is_sim. Qed.
  Lemma strongb_sim i' i : isim i' i -> strongb i' = strongb i.
  Proof. intros H. unfold strongb. now rewrite !(item_is_sim g _ _ _ H). Qed.

  (* the two item lists: equal up to positions, or the first has one more space at an admissible place *)
  Inductive J : list item -> list item -> Prop :=
  | J_same is' is_ : Forall2 isim is' is_ -> J is' is_
  | J_ins A' A s B' B : Forall2 isim A' A -> Forall2 isim B' B -> spi s = true -> adj A B -> J (A' ++ s :: B') (A ++ B).

  Lemma F2_app_inv_r {X} (R : X -> X -> Prop) l' a b : Forall2 R l' (a ++ b) -> exists a' b', l' = a' ++ b' /\ Forall2 R a' a /\ Forall2 R b' b.
  Proof. intros H. apply Forall2_app_inv_r in H as [a' [b' [H1 [H2 ->]]]]. eauto. Qed.

  Lemma adj_rev A B : adj A B -> adj (rev B) (rev A).
  Proof.
    intros [->|[->|[[A0 [a [-> Ha]]]|[b [B0 [-> Hb]]]]]].
    - right. left. reflexivity.
    - left. reflexivity.
    - right. right. right. rewrite rev_app_distr. cbn [rev List.app]. eauto.
    - right. right. left. cbn [rev]. eauto.
  Qed.

  Lemma J_rev is' is_ : J is' is_ -> J (rev is') (rev is_).
  Proof.
    intros [x' x H|A' A s B' B HA HB Hs Hadj].
    - apply J_same. now apply F2_rev.
    - rewrite !rev_app_distr. cbn [rev]. rewrite <- app_assoc. cbn [List.app]. apply J_ins; [now apply F2_rev|now apply F2_rev|exact Hs|now apply adj_rev].
  Qed.

  Lemma strip_front_all_space l : forallb spi l = true -> strip_front l = [].
  Proof. induction l as [|i r IH]; [reflexivity|]. cbn [forallb strip_front]. unfold spi at 1. intros H. apply andb_prop in H as [H1 H2]. rewrite H1. auto. Qed.
  Lemma strip_front_app l x : forallb spi l = true -> strip_front (l ++ x) = strip_front x.
  Proof. induction l as [|i r IH]; [reflexivity|]. cbn [forallb strip_front List.app]. unfold spi at 1. intros H. apply andb_prop in H as [H1 H2]. rewrite H1. auto. Qed.
  Lemma strip_front_keep l x : forallb spi l = false -> strip_front (l ++ x) = strip_front l ++ x.
  Proof.
    induction l as [|i r IH]; [discriminate|]. cbn [forallb strip_front List.app]. unfold spi at 1. destruct (item_is LSpace i); cbn [andb]; [auto|reflexivity].
  Qed.
  Lemma forallb_spi_sim l' l : Forall2 isim l' l -> forallb spi l' = forallb spi l.
  Proof. induction 1 as [|i' i r' r Hi _ IH]; [reflexivity|]. cbn [forallb]. now rewrite (spi_sim _ _ Hi), IH. Qed.

  Lemma strip_front_nonspace_last l a : forallb spi (l ++ [a]) = false -> exists l0, strip_front (l ++ [a]) = l0 ++ [a].
  Proof.
    induction l as [|i r IH]; cbn [List.app forallb strip_front]; unfold spi at 1.
    - destruct (item_is LSpace a); [discriminate|]. intros _. exists []. reflexivity.
    - destruct (item_is LSpace i); cbn [andb]; [exact IH|]. intros _. exists (i :: r). reflexivity.
  Qed.

  Lemma strip_front_J is' is_ : J is' is_ -> J (strip_front is') (strip_front is_).
  Proof.
    intros [x' x H|A' A s B' B HA HB Hs Hadj].
    - apply J_same. now apply strip_front_sim.
    - destruct (forallb spi A) eqn:EA.
      + (* everything before the inserted space is stripped, and so is the space *)
        rewrite (strip_front_app A' (s :: B')) by (now rewrite (forallb_spi_sim _ _ HA)). rewrite (strip_front_app A B EA).
        cbn [strip_front]. unfold spi in Hs. rewrite Hs. apply J_same. now apply strip_front_sim.
      + rewrite (strip_front_keep A' (s :: B')) by (now rewrite (forallb_spi_sim _ _ HA)). rewrite (strip_front_keep A B EA).
        apply J_ins; [now apply strip_front_sim|exact HB|exact Hs|].
        destruct Hadj as [->|[->|[[A0 [a [-> Ha]]]|Hb]]]; [discriminate EA|right; now left| |right; right; now right].
        destruct (strip_front_nonspace_last A0 a EA) as [l0 ->]. right. right. left. eauto.
  Qed.

  Lemma strip_J is' is_ : J is' is_ -> J (strip is') (strip is_).
  Proof. intros H. unfold strip. apply J_rev, strip_front_J, J_rev, strip_front_J, H. Qed.

  (* a stripped list neither begins nor ends with a space *)
  Lemma strip_front_head l : match strip_front l with i :: _ => spi i = false | [] => True end.
  Proof. induction l as [|i r IH]; cbn [strip_front]; [exact I|]. destruct (item_is LSpace i) eqn:E; [exact IH|exact E]. Qed.
  Lemma strip_front_suffix l : exists p, l = p ++ strip_front l.
  Proof. induction l as [|i r [p IH]]; cbn [strip_front]; [exists []; reflexivity|]. destruct (item_is LSpace i); [exists (i :: p); cbn; now rewrite <- IH|exists []; reflexivity]. Qed.
  Lemma strip_head l : match strip l with i :: _ => spi i = false | [] => True end.
  Proof.
    unfold strip. destruct (strip_front_suffix (rev (strip_front l))) as [p Hp]. set (m2 := strip_front (rev (strip_front l))) in *.
    apply (f_equal (@rev item)) in Hp. rewrite rev_involutive, rev_app_distr in Hp.
    pose proof (strip_front_head l) as H0. rewrite Hp in H0. destruct (rev m2) as [|y ys]; [exact I|]. exact H0.
  Qed.
  Lemma strip_last l l0 a : strip l = l0 ++ [a] -> spi a = false.
  Proof.
    unfold strip. intros H. apply (f_equal (@rev item)) in H. rewrite rev_involutive, rev_app_distr in H. cbn [rev List.app] in H.
    pose proof (strip_front_head (rev (strip_front l))) as H0. rewrite H in H0. exact H0.
  Qed.

  Lemma stripped_ins A' s B' l : spi s = true -> strip l = A' ++ s :: B' -> A' <> [] /\ B' <> [].
  Proof.
    intros Hs H. split; intros ->.
    - pose proof (strip_head l) as H0. rewrite H in H0. cbn [List.app] in H0. congruence.
    - pose proof (strip_last l A' s H). congruence.
  Qed.

  (* ---- chunks of related lists ---- *)
  Lemma chunks_sim l x' x : Forall2 isim x' x -> Forall2 (Forall2 isim) (chunks l x') (chunks l x).
  Proof.
    induction 1 as [|i' i r' r Hi _ IH]; cbn [chunks]; [constructor; constructor|]. rewrite (item_is_sim g l _ _ Hi).
    destruct (item_is l i); [constructor; [constructor|exact IH]|].
    destruct IH as [|c' c cs' cs Hc Hcs]; constructor; try constructor; auto.
  Qed.

  Lemma F2_removelast {X} (R : X -> X -> Prop) l' l : Forall2 R l' l -> Forall2 R (removelast l') (removelast l).
  Proof. induction 1 as [|a' a r' r Ha Hr IH]; [constructor|]. cbn [removelast]. destruct Hr; [constructor|]. constructor; [exact Ha|exact IH]. Qed.
  Lemma F2_last {X} (R : X -> X -> Prop) l' l d' d : Forall2 R l' l -> R d' d -> R (last l' d') (last l d).
  Proof. induction 1 as [|a' a r' r Ha Hr IH]; intros Hd; [exact Hd|]. cbn [last]. destruct Hr; [exact Ha|]. now apply IH. Qed.
  Lemma F2_hd {X} (R : X -> X -> Prop) l' l d' d : Forall2 R l' l -> R d' d -> R (hd d' l') (hd d l).
  Proof. intros [|]; auto. Qed.
  Lemma F2_tl {X} (R : X -> X -> Prop) l' l : Forall2 R l' l -> Forall2 R (tl l') (tl l).
  Proof. intros [|a' a r' r Ha Hr]; cbn [tl]; [constructor|exact Hr]. Qed.

  Lemma space_not_op l s : spi s = true -> l <> LSpace -> item_is l s = false.
  Proof.
    unfold spi, item_is. destruct s as [t|]; [|discriminate]. destruct (tk t) as [l'| | |]; try discriminate.
    destruct l'; try discriminate. intros _ H. destruct l; try reflexivity. congruence.
  Qed.

  Lemma Forall2_impl {X} (R S : X -> X -> Prop) l' l : (forall a b, R a b -> S a b) -> Forall2 R l' l -> Forall2 S l' l.
  Proof. intros H. induction 1; constructor; auto. Qed.

  Lemma chunks_J l is' is_ : l <> LSpace -> J is' is_ -> Forall2 J (chunks l is') (chunks l is_).
  Proof.
    intros Hl [x' x H|A' A s B' B HA HB Hs Hadj].
    - eapply Forall2_impl; [|apply chunks_sim, H]. intros a b. apply J_same.
    - rewrite !chunks_app. cbn [chunks]. rewrite (space_not_op l s Hs Hl).
      pose proof (chunks_sim l _ _ HA) as CA. pose proof (chunks_sim l _ _ HB) as CB.
      assert (E : forall cb, hd [] (match cb with c :: cs => (s :: c) :: cs | [] => [[s]] end) = s :: hd [] cb /\
                             tl (match cb with c :: cs => (s :: c) :: cs | [] => [[s]] end) = tl cb) by (intros [|c cs]; split; reflexivity).
      destruct (E (chunks l B')) as [E1 E2]. rewrite E1, E2.
      apply Forall2_app.
      + eapply Forall2_impl; [|apply F2_removelast, CA]. intros a b. apply J_same.
      + constructor.
        * apply J_ins; [apply F2_last; [exact CA|constructor]|apply F2_hd; [exact CB|constructor]|exact Hs|now apply adj_chunks].
        * eapply Forall2_impl; [|apply F2_tl, CB]. intros a b. apply J_same.
  Qed.

  Lemma chunks_sub l : forall is_ c i, In c (chunks l is_) -> In i c -> In i is_.
  Proof.
    induction is_ as [|a r IH]; intros c i Hc Hi; cbn [chunks] in Hc.
    - destruct Hc as [<-|[]]. destruct Hi.
    - destruct (item_is l a).
      + destruct Hc as [<-|Hc]; [destruct Hi|]. right. eapply IH; eauto.
      + destruct (chunks l r) as [|c0 cs] eqn:E.
        * destruct Hc as [<-|[]]. destruct Hi as [<-|[]]. now left.
        * destruct Hc as [<-|Hc].
          -- destruct Hi as [<-|Hi]; [now left|]. right. apply (IH c0 i); [now left|exact Hi].
          -- right. apply (IH c i); [now right|exact Hi].
  Qed.
  Lemma chunks_no_op l : forall is_ c, In c (chunks l is_) -> existsb (item_is l) c = false.
  Proof.
    induction is_ as [|a r IH]; intros c Hc; cbn [chunks] in Hc.
    - destruct Hc as [<-|[]]. reflexivity.
    - destruct (item_is l a) eqn:Ea.
      + destruct Hc as [<-|Hc]; [reflexivity|now apply IH].
      + destruct (chunks l r) as [|c0 cs] eqn:E.
        * destruct Hc as [<-|[]]. cbn [existsb]. now rewrite Ea.
        * destruct Hc as [<-|Hc]; [cbn [existsb]; rewrite Ea; apply IH; now left|apply IH; now right].
  Qed.


  (* ---- the operator parse ---- *)
  Lemma split_fst l is_ : map fst (split_at l is_ [] 0) = chunks l is_.
  Proof. rewrite split_at_chunks. cbn [rev List.app]. destruct (chunks l is_); reflexivity. Qed.

  Lemma F2_of_map {X Y} (f : X -> Y) (R : Y -> Y -> Prop) l' l : Forall2 R (map f l') (map f l) -> Forall2 (fun a b => R (f a) (f b)) l' l.
  Proof. revert l. induction l' as [|a r IH]; intros [|b s] H; cbn [map] in H; inversion H; subst; constructor; auto. Qed.

  (* operators that have already been split away do not occur *)
  Definition clean (ops : list lit) (is_ : list item) : Prop :=
    forall l, In l nary_ops -> ~ In l ops -> existsb (item_is l) is_ = false.

  Lemma strong_in i : strongb i = true -> exists l, In l [LArrow; LComma; LPlus] /\ item_is l i = true.
  Proof. unfold strongb. intros H. apply orb_prop in H as [H|H]; [apply orb_prop in H as [H|H]|]; eauto 6 using in_eq, in_cons. Qed.

  Lemma existsb_in l is_ i : In i is_ -> item_is l i = true -> existsb (item_is l) is_ = true.
  Proof. intros Hin Hi. apply existsb_exists. eauto. Qed.

  Lemma parse_ops_unfold2 op rest comp b e is0 i j r : strip is0 = i :: j :: r ->
    parse_ops (op :: rest) comp b e is0 =
    let is_ := i :: j :: r in
    let bp := ibeg i in
    let ep := tl_end is_ bp in
    if existsb (item_is op) is_ then
      let operands := split_at op is_ [] 0 in
      let operands := match op with
                      | LSpace => filter (fun o => match fst o with [] => false | _ => true end) operands
                      | _ => operands end in
      do xs <- sequence (map (fun o => parse_ops rest false (snd o) (tl_end (fst o) (snd o)) (fst o)) operands);
      match op with
      | LSpace => Ok (list_create xs bp ep)
      | LArrow => op_create xs bp ep
      | LComma => args_create xs bp ep
      | LPlus =>
        let invalid := filter (fun x => negb (is_axis_or_flat x)) xs in
        match invalid with
        | _ :: _ =>
          Err 210 (flat_map (fun x => range (ebeg x) (eend x)) invalid
                   ++ flat_map (fun i => if item_is LPlus i then range (ibeg i) (iend i) else []) is_)
        | [] => if comp then cat_create xs bp ep else Err 216 (range bp ep)
        end
      | _ => Internal 219
      end
    else parse_ops rest comp b e is_.
  Proof. intros H. cbn [parse_ops]. rewrite H. destruct i; reflexivity. Qed.

  Lemma parse_ops_J : forall ops pre comp b' e' b e is' is_,
    nary_ops = pre ++ ops -> J is' is_ -> clean ops is_ ->
    rsimG esim (parse_ops ops comp b' e' is') (parse_ops ops comp b e is_).
  Proof.
    induction ops as [|op rest IH]; intros pre comp b' e' b e is0' is0 Hsuf HJ0 Hclean;
      pose proof (strip_J _ _ HJ0) as HJ.
    - (* no operator left: an admissible insertion cannot be there any more *)
      inversion HJ as [x' x Hsame E1 E2|A' A s B' B HA HB Hs Hadj E1 E2].
      + now apply parse_ops_sim_strip.
      + exfalso. destruct (stripped_ins _ _ _ _ Hs (eq_sym E1)) as [HA' HB']. 
        assert (Hin : forall i, In i (A ++ B) -> In i is0) by (intros i Hi; apply strip_sub; now rewrite <- E2).
        destruct Hadj as [->|[->|[[A0 [a [-> Ha]]]|[b0 [B0 [-> Hb]]]]]].
        * inversion HA; subst; congruence.
        * inversion HB; subst; congruence.
        * destruct (strong_in a Ha) as [l [Hl Hi]]. assert (Hc := Hclean l ltac:(unfold nary_ops; cbn in *; tauto) ltac:(intros [])).
          rewrite (existsb_in l is0 a) in Hc; [discriminate|apply Hin; apply in_or_app; left; apply in_or_app; right; now left|exact Hi].
        * destruct (strong_in b0 Hb) as [l [Hl Hi]]. assert (Hc := Hclean l ltac:(unfold nary_ops; cbn in *; tauto) ltac:(intros [])).
          rewrite (existsb_in l is0 b0) in Hc; [discriminate|apply Hin; apply in_or_app; right; now left|exact Hi].
    - inversion HJ as [x' x Hsame E1 E2|A' A s B' B HA HB Hs Hadj E1 E2]; [now apply parse_ops_sim_strip|].
      destruct (stripped_ins _ _ _ _ Hs (eq_sym E1)) as [HA' HB'].
      assert (HAne : A <> []) by (intros ->; inversion HA; subst; congruence).
      assert (HBne : B <> []) by (intros ->; inversion HB; subst; congruence).
      assert (Hin : forall i, In i (A ++ B) -> In i is0) by (intros i Hi; apply strip_sub; now rewrite <- E2).
      assert (Hstrong : exists l i, In l [LArrow; LComma; LPlus] /\ In i is0 /\ item_is l i = true).
      { destruct Hadj as [->|[->|[[A0 [a [-> Ha]]]|[b0 [B0 [-> Hb]]]]]]; try congruence.
        - destruct (strong_in a Ha) as [l [Hl Hi]]. exists l, a. split; [exact Hl|split; [apply Hin; apply in_or_app; left; apply in_or_app; right; now left|exact Hi]].
        - destruct (strong_in b0 Hb) as [l [Hl Hi]]. exists l, b0. split; [exact Hl|split; [apply Hin; apply in_or_app; right; now left|exact Hi]]. }
      destruct Hstrong as [ls [it [Hls [Hit Hiti]]]].
      assert (Hop : op <> LSpace).
      { intros ->. (* at the level of the space operator the three others have been split away *)
        assert (Hnot : ~ In ls (LSpace :: rest)).
        { unfold nary_ops in Hsuf. destruct pre as [|p1 [|p2 [|p3 [|p4 pre']]]]; cbn [List.app] in Hsuf; try discriminate Hsuf.
          - injection Hsuf as _ _ _ E. subst rest.
            intros [E0|[]]. subst ls. cbn in Hls. intuition discriminate.
          - injection Hsuf as _ _ _ _ E. destruct pre'; discriminate. }
        assert (Hc := Hclean ls ltac:(unfold nary_ops; cbn in *; tauto) Hnot). rewrite (existsb_in ls is0 it Hit Hiti) in Hc. discriminate. }
      (* neither list is a single group *)
      assert (Hlen' : exists i' j' r', A' ++ s :: B' = i' :: j' :: r').
      { destruct A' as [|a1 A1]; [congruence|]. cbn [List.app]. destruct A1; cbn [List.app]; eauto. }
      assert (Hlen : exists i j r, A ++ B = i :: j :: r).
      { destruct A as [|a1 A1]; [congruence|]. destruct B as [|b1 B1]; [congruence|]. cbn [List.app]. destruct A1; cbn [List.app]; eauto. }
      destruct Hlen' as [i' [j' [r' El']]]. destruct Hlen as [i [j [r El]]].
      rewrite (parse_ops_unfold2 op rest comp b' e' is0' i' j' r') by congruence.
      rewrite (parse_ops_unfold2 op rest comp b e is0 i j r) by congruence. cbv zeta.
      assert (HJs : J (i' :: j' :: r') (i :: j :: r)) by (rewrite <- El', <- El; now apply J_ins).
      assert (Hex : existsb (item_is op) (i' :: j' :: r') = existsb (item_is op) (i :: j :: r)).
      { rewrite <- El', <- El, !existsb_app. cbn [existsb]. rewrite (space_not_op op s Hs Hop). cbn [orb].
        f_equal; [clear - HA|clear - HB]; [induction HA as [|x' x l' l Hx _ IHl]|induction HB as [|x' x l' l Hx _ IHl]]; try reflexivity;
          cbn [existsb]; now rewrite (item_is_sim g op _ _ Hx), IHl. }
      assert (Hcl : clean (op :: rest) (i :: j :: r)).
      { intros l Hl Hn. specialize (Hclean l Hl Hn). destruct (existsb (item_is l) (i :: j :: r)) eqn:Ee; [|reflexivity].
        apply existsb_exists in Ee as [x [Hx Hxi]]. rewrite (existsb_in l is0 x) in Hclean; [discriminate| |exact Hxi]. apply Hin. now rewrite El. }
      rewrite Hex. destruct (existsb (item_is op) (i :: j :: r)) eqn:Eop.
      + (* the operator occurs: operand by operand *)
        pose proof (chunks_J op _ _ Hop HJs) as HC. rewrite <- !split_fst in HC. apply F2_of_map in HC.
        set (operands' := match op with LSpace => filter _ (split_at op (i' :: j' :: r') [] 0) | _ => split_at op (i' :: j' :: r') [] 0 end).
        set (operands := match op with LSpace => filter _ (split_at op (i :: j :: r) [] 0) | _ => split_at op (i :: j :: r) [] 0 end).
        assert (Hops : Forall2 (fun o' o => J (fst o') (fst o)) operands' operands) by (subst operands' operands; destruct op; try exact HC; congruence).
        assert (Hopsub : forall o, In o operands -> In (fst o) (chunks op (i :: j :: r))).
        { intros o Ho. rewrite <- split_fst. apply in_map. subst operands. destruct op; try exact Ho; congruence. }
        apply (bind_sim (Forall2 esim)).
        * apply sequence_sim. clear - IH Hops Hopsub Hcl Hsuf. induction Hops as [|o' o l' l Ho _ IHl]; cbn [map]; constructor.
          -- apply (IH (pre ++ [op])); [rewrite <- app_assoc; exact Hsuf|exact Ho|].
             intros lx Hlx Hnx. assert (Hc := Hopsub o ltac:(now left)).
             destruct (lit_eqb lx op) eqn:Elx.
             ++ assert (lx = op) by (destruct lx, op; try discriminate; reflexivity). subst lx. now apply (chunks_no_op op _ _ Hc).
             ++ assert (Hnot : ~ In lx (op :: rest)) by (intros [<-|H]; [destruct op; discriminate|contradiction]).
                specialize (Hcl lx Hlx Hnot). destruct (existsb (item_is lx) (fst o)) eqn:Ee; [|reflexivity].
                apply existsb_exists in Ee as [x [Hx Hxi]]. rewrite (existsb_in lx (i :: j :: r) x) in Hcl; [discriminate| |exact Hxi].
                eapply chunks_sub; eauto.
          -- apply IHl. intros o2 Ho2. apply Hopsub. now right.
        * intros xs' xs Hxs. destruct op; cbn [rsimG]; auto; try congruence.
          -- apply rsim_G, sim_op_create. now apply lsim_of.
          -- apply rsim_G, sim_args_create. now apply lsim_of.
          -- pose proof (filter_sim g (fun x => negb (is_axis_or_flat x)) _ _ (fun x' x Hx => f_equal negb (is_aof_sim g _ _ Hx)) Hxs) as Hf.
             destruct Hf as [|? ? ? ? _ _]; [|reflexivity]. destruct comp; [|reflexivity]. apply rsim_G, sim_cat_create. now apply lsim_of.
      + (* the operator does not occur: next level *)
        apply (IH (pre ++ [op])); [rewrite <- app_assoc; exact Hsuf|exact HJs|].
        intros l Hl Hn. destruct (lit_eqb l op) eqn:El2.
        * assert (l = op) by (destruct l, op; try discriminate; reflexivity). subst l. exact Eop.
        * apply Hcl; [exact Hl|]. intros [<-|H]; [destruct op; discriminate|contradiction].
  Qed.


  (* ---- delimiter trees ---- *)
  Definition strongt (t : token) : bool :=
    match tk t with TLit LArrow | TLit LComma | TLit LPlus => true | _ => false end.
  Definition adjT (A B : list ttree) : Prop :=
    A = [] \/ B = [] \/ (exists A0 t, A = A0 ++ [TT t] /\ strongt t = true) \/ (exists t B0, B = TT t :: B0 /\ strongt t = true).

  (* one more space token in the first forest: directly in the list, next to an operator or at an end; or inside a group *)
  Inductive tJ : list ttree -> list ttree -> Prop :=
  | tJ_same l' l : Forall2 (ttsim g) l' l -> tJ l' l
  | tJ_ins A' A s B' B : Forall2 (ttsim g) A' A -> Forall2 (ttsim g) B' B -> is_space s = true -> adjT A B -> tJ (A' ++ TT s :: B') (A ++ B)
  | tJ_in A' A p o' c' o c in' in_ B' B :
      Forall2 (ttsim g) A' A -> Forall2 (ttsim g) B' B -> tJ in' in_ -> tJ (A' ++ TG p o' c' in' :: B') (A ++ TG p o c in_ :: B).

  Lemma clean_all is_ : clean nary_ops is_.
  Proof. intros l Hl Hn. contradiction. Qed.

  Lemma group_result_J paren o' c' o c in' in_ :
    J in' in_ -> rsimG esim (group_result paren o' c' in') (group_result paren o c in_).
  Proof.
    intros H. unfold group_result. apply (bind_sim esim); [apply (parse_ops_J nary_ops []); [reflexivity|exact H|apply clean_all]|].
    intros x' x Hx. destruct paren; [|cbn [rsimG]; now apply sim_br_create].
    pose proof (ctor_sim g _ _ Hx) as Hc. destruct x; destruct x'; cbn [ctor] in Hc; try discriminate Hc; cbn [rsimG]; try exact Hx; now apply sim_flat_create.
  Qed.

  Lemma map_pre_sim l' l : Forall2 (ttsim g) l' l -> Forall2 isim (map pre l') (map pre l).
  Proof. intros H. eapply Forall2_map2; [exact H|]. intros. now apply pre_sim. Qed.

  Lemma strongt_strongb t : strongt t = strongb (ITok t).
  Proof. unfold strongt, strongb, item_is. destruct (tk t) as [[]| | |]; reflexivity. Qed.

  Lemma pre_J ts' ts : tJ ts' ts -> J (map pre ts') (map pre ts).
  Proof.
    induction 1 as [l' l H|A' A s B' B HA HB Hs Hadj|A' A p o' c' o c in' in_ B' B HA HB Hin IH].
    - apply J_same. now apply map_pre_sim.
    - rewrite !map_app. cbn [map pre]. apply J_ins; [now apply map_pre_sim|now apply map_pre_sim|exact Hs|].
      destruct Hadj as [->|[->|[[A0 [t [-> Ht]]]|[t [B0 [-> Ht]]]]]].
      + now left.
      + right. now left.
      + right. right. left. rewrite map_app. cbn [map pre]. exists (map pre A0), (ITok t). split; [reflexivity|now rewrite <- strongt_strongb].
      + right. right. right. cbn [map pre]. exists (ITok t), (map pre B0). split; [reflexivity|now rewrite <- strongt_strongb].
    - rewrite !map_app. cbn [map pre]. apply J_same. apply Forall2_app; [now apply map_pre_sim|].
      constructor; [|now apply map_pre_sim]. constructor. now apply group_result_J.
  Qed.

  Theorem parse_trees_J ap' ap ts' ts : tJ ts' ts ->
    rsimG esim (do x <- parse_top ts'; stage2 ap' x) (do x <- parse_top ts; stage2 ap x).
  Proof.
    intros H. apply (bind_sim esim).
    - unfold parse_top. apply (parse_ops_J nary_ops []); [reflexivity|now apply pre_J|apply clean_all].
    - intros x' x Hx. now apply stage2_sim.
  Qed.
End Space.

(* With the identity renumbering: the forests differ by the space only. *)
Corollary space_next_to_operator ap' ap ts' ts :
  tJ (fun z => z) ts' ts ->
  match (do x <- parse_top ts'; stage2 ap' x), (do x <- parse_top ts; stage2 ap x) with
  | Ok t', Ok t => erase t' = erase t
  | Err s' _, Err s _ => s' = s
  | Internal s', Internal s => s' = s
  | _, _ => False
  end.
Proof.
  intros H. pose proof (parse_trees_J (fun z => z) (fun a b E => E) ap' ap ts' ts H) as R.
  destruct (do x <- parse_top ts'; stage2 ap' x), (do x <- parse_top ts; stage2 ap x); cbn [rsimG] in R; auto.
  eapply esim_erase; eauto.
Qed.
Print Assumptions space_next_to_operator.
