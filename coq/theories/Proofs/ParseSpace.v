(* A space next to '->', ',' or '+', or at the beginning / end of an expression or of the inside of
   a parenthesis / bracket, does not change how a description parses (second spacing clause of C12),
   stated on the delimiter trees that grouping produces. *)
From Coq Require Import List NArith ZArith Bool Lia.
From EinxV Require Import Model.Parse Proofs.ParseProofs Proofs.ParseSim.
Import ListNotations.
Open Scope Z_scope.

(* ---------------------------------------------------------------- chunks: split_at without positions *)
Fixpoint chunks (l : lit) (is_ : list item) : list (list item) :=
  match is_ with
  | [] => [[]]
  | i :: r => if item_is l i then [] :: chunks l r
              else match chunks l r with c :: cs => (i :: c) :: cs | [] => [[i]] end
  end.

Lemma chunks_nonempty l is_ : chunks l is_ <> [].
Proof. induction is_ as [|i r IH]; cbn [chunks]; [discriminate|]. destruct (item_is l i); [discriminate|]. destruct (chunks l r); discriminate. Qed.

Lemma split_at_chunks l : forall is_ cur e,
  map fst (split_at l is_ cur e) = match chunks l is_ with c :: cs => (rev cur ++ c) :: cs | [] => [] end.
Proof.
  induction is_ as [|i r IH]; intros cur e; cbn [split_at chunks].
  - cbn [map fst]. now rewrite app_nil_r.
  - destruct (item_is l i).
    + cbn [map fst]. rewrite app_nil_r. f_equal. rewrite IH. cbn [rev List.app]. destruct (chunks l r) eqn:E; [now apply chunks_nonempty in E|reflexivity].
    + rewrite IH. destruct (chunks l r) as [|c cs] eqn:E; [now apply chunks_nonempty in E|]. cbn [rev]. now rewrite <- app_assoc.
Qed.

(* chunks of a concatenation: the last chunk of the left part continues with the first chunk of the right part *)
Lemma chunks_app l x : forall y,
  chunks l (x ++ y) = removelast (chunks l x) ++ (last (chunks l x) [] ++ hd [] (chunks l y)) :: tl (chunks l y).
Proof.
  induction x as [|i r IH]; intros y; cbn [List.app chunks].
  - cbn. destruct (chunks l y) eqn:E; [now apply chunks_nonempty in E|reflexivity].
  - rewrite IH. destruct (item_is l i).
    + destruct (chunks l r) as [|c cs] eqn:E; [now apply chunks_nonempty in E|]. reflexivity.
    + destruct (chunks l r) as [|c cs] eqn:E; [now apply chunks_nonempty in E|].
      destruct cs as [|c2 cs2]; cbn [removelast last List.app]; reflexivity.
Qed.

Definition spi (i : item) : bool := item_is LSpace i.
Definition strongb (i : item) : bool := item_is LArrow i || item_is LComma i || item_is LPlus i.
(* what may stand next to the inserted space: nothing (an end of the list) or one of the three operators *)
Definition adj (A B : list item) : Prop :=
  A = [] \/ B = [] \/ (exists A0 a, A = A0 ++ [a] /\ strongb a = true) \/ (exists b B0, B = b :: B0 /\ strongb b = true).

Lemma last_app_cons {A} (x : list A) y ys d : last (x ++ y :: ys) d = last (y :: ys) d.
Proof. induction x as [|a r IH]; [reflexivity|]. cbn [List.app]. destruct (r ++ y :: ys) as [|z zs] eqn:E; [destruct r; discriminate|]. change (last (a :: z :: zs) d) with (last (z :: zs) d). exact IH. Qed.

Lemma chunks_snoc l A0 a :
  last (chunks l (A0 ++ [a])) [] = if item_is l a then [] else last (chunks l A0) [] ++ [a].
Proof.
  rewrite chunks_app, last_app_cons. cbn [chunks]. destruct (item_is l a); cbn [hd tl last]; reflexivity.
Qed.

Lemma adj_chunks l A B : adj A B -> adj (last (chunks l A) []) (hd [] (chunks l B)).
Proof.
  intros [->|[->|[[A0 [a [-> Ha]]]|[b [B0 [-> Hb]]]]]].
  - left. reflexivity.
  - right. left. reflexivity.
  - rewrite chunks_snoc. destruct (item_is l a); [now left|]. right. right. left. exists (last (chunks l A0) []), a. auto.
  - cbn [chunks]. destruct (item_is l b); [right; left; reflexivity|].
    destruct (chunks l B0) as [|c cs]; cbn [hd]; right; right; right; [exists b, []|exists b, c]; auto.
Qed.

Section Space.
  Variable g : Z -> Z.
  Hypothesis g_inj : forall a b, g a = g b -> a = b.

  Notation isim := (isim g).
  Notation esim := (esim g).

  Lemma spi_sim i' i : isim i' i -> spi i' = spi i. Proof. apply item_is_sim. Qed.
  Lemma strongb_sim i' i : isim i' i -> strongb i' = strongb i.
  Proof. intros H. unfold strongb. now rewrite !(item_is_sim g _ _ _ H). Qed.

  (* the two item lists: equal up to positions, or the first has one more space at an admissible place *)
  Inductive J : list item -> list item -> Prop :=
  | J_same is' is_ : Forall2 isim is' is_ -> J is' is_
  | J_ins A' A s B' B : Forall2 isim A' A -> Forall2 isim B' B -> spi s = true -> adj A B -> J (A' ++ s :: B') (A ++ B).

  Lemma F2_app_inv_r {X} (R : X -> X -> Prop) l' a b : Forall2 R l' (a ++ b) -> exists a' b', l' = a' ++ b' /\ Forall2 R a' a /\ Forall2 R b' b.
  Proof. intros H. apply Forall2_app_inv_r in H as [a' [b' [H1 [H2 ->]]]]. eauto. Qed.

  Lemma adj_rev A B : adj A B -> adj (rev B) (rev A).
  Proof.
    intros [->|[->|[[A0 [a [-> Ha]]]|[b [B0 [-> Hb]]]]]].
    - right. left. reflexivity.
    - left. reflexivity.
    - right. right. right. rewrite rev_app_distr. cbn [rev List.app]. eauto.
    - right. right. left. cbn [rev]. eauto.
  Qed.

  Lemma J_rev is' is_ : J is' is_ -> J (rev is') (rev is_).
  Proof.
    intros [x' x H|A' A s B' B HA HB Hs Hadj].
    - apply J_same. now apply F2_rev.
    - rewrite !rev_app_distr. cbn [rev]. rewrite <- app_assoc. cbn [List.app]. apply J_ins; [now apply F2_rev|now apply F2_rev|exact Hs|now apply adj_rev].
  Qed.

  Lemma strip_front_all_space l : forallb spi l = true -> strip_front l = [].
  Proof. induction l as [|i r IH]; [reflexivity|]. cbn [forallb strip_front]. unfold spi at 1. intros H. apply andb_prop in H as [H1 H2]. rewrite H1. auto. Qed.
  Lemma strip_front_app l x : forallb spi l = true -> strip_front (l ++ x) = strip_front x.
  Proof. induction l as [|i r IH]; [reflexivity|]. cbn [forallb strip_front List.app]. unfold spi at 1. intros H. apply andb_prop in H as [H1 H2]. rewrite H1. auto. Qed.
  Lemma strip_front_keep l x : forallb spi l = false -> strip_front (l ++ x) = strip_front l ++ x.
  Proof.
    induction l as [|i r IH]; [discriminate|]. cbn [forallb strip_front List.app]. unfold spi at 1. destruct (item_is LSpace i); cbn [andb]; [auto|reflexivity].
  Qed.
  Lemma forallb_spi_sim l' l : Forall2 isim l' l -> forallb spi l' = forallb spi l.
  Proof. induction 1 as [|i' i r' r Hi _ IH]; [reflexivity|]. cbn [forallb]. now rewrite (spi_sim _ _ Hi), IH. Qed.

  Lemma strip_front_nonspace_last l a : forallb spi (l ++ [a]) = false -> exists l0, strip_front (l ++ [a]) = l0 ++ [a].
  Proof.
    induction l as [|i r IH]; cbn [List.app forallb strip_front]; unfold spi at 1.
    - destruct (item_is LSpace a); [discriminate|]. intros _. exists []. reflexivity.
    - destruct (item_is LSpace i); cbn [andb]; [exact IH|]. intros _. exists (i :: r). reflexivity.
  Qed.

  Lemma strip_front_J is' is_ : J is' is_ -> J (strip_front is') (strip_front is_).
  Proof.
    intros [x' x H|A' A s B' B HA HB Hs Hadj].
    - apply J_same. now apply strip_front_sim.
    - destruct (forallb spi A) eqn:EA.
      + (* everything before the inserted space is stripped, and so is the space *)
        rewrite (strip_front_app A' (s :: B')) by (now rewrite (forallb_spi_sim _ _ HA)). rewrite (strip_front_app A B EA).
        cbn [strip_front]. unfold spi in Hs. rewrite Hs. apply J_same. now apply strip_front_sim.
      + rewrite (strip_front_keep A' (s :: B')) by (now rewrite (forallb_spi_sim _ _ HA)). rewrite (strip_front_keep A B EA).
        apply J_ins; [now apply strip_front_sim|exact HB|exact Hs|].
        destruct Hadj as [->|[->|[[A0 [a [-> Ha]]]|Hb]]]; [discriminate EA|right; now left| |right; right; now right].
        destruct (strip_front_nonspace_last A0 a EA) as [l0 ->]. right. right. left. eauto.
  Qed.

  Lemma strip_J is' is_ : J is' is_ -> J (strip is') (strip is_).
  Proof. intros H. unfold strip. apply J_rev, strip_front_J, J_rev, strip_front_J, H. Qed.

  (* a stripped list neither begins nor ends with a space *)
  Lemma strip_front_head l : match strip_front l with i :: _ => spi i = false | [] => True end.
  Proof. induction l as [|i r IH]; cbn [strip_front]; [exact I|]. destruct (item_is LSpace i) eqn:E; [exact IH|exact E]. Qed.
  Lemma strip_front_suffix l : exists p, l = p ++ strip_front l.
  Proof. induction l as [|i r [p IH]]; cbn [strip_front]; [exists []; reflexivity|]. destruct (item_is LSpace i); [exists (i :: p); cbn; now rewrite <- IH|exists []; reflexivity]. Qed.
  Lemma strip_head l : match strip l with i :: _ => spi i = false | [] => True end.
  Proof.
    unfold strip. destruct (strip_front_suffix (rev (strip_front l))) as [p Hp]. set (m2 := strip_front (rev (strip_front l))) in *.
    apply (f_equal (@rev item)) in Hp. rewrite rev_involutive, rev_app_distr in Hp.
    pose proof (strip_front_head l) as H0. rewrite Hp in H0. destruct (rev m2) as [|y ys]; [exact I|]. exact H0.
  Qed.
  Lemma strip_last l l0 a : strip l = l0 ++ [a] -> spi a = false.
  Proof.
    unfold strip. intros H. apply (f_equal (@rev item)) in H. rewrite rev_involutive, rev_app_distr in H. cbn [rev List.app] in H.
    pose proof (strip_front_head (rev (strip_front l))) as H0. rewrite H in H0. exact H0.
  Qed.

  Lemma stripped_ins A' s B' l : spi s = true -> strip l = A' ++ s :: B' -> A' <> [] /\ B' <> [].
  Proof.
    intros Hs H. split; intros ->.
    - pose proof (strip_head l) as H0. rewrite H in H0. cbn [List.app] in H0. congruence.
    - pose proof (strip_last l A' s H). congruence.
  Qed.

  (* ---- chunks of related lists ---- *)
  Lemma chunks_sim l x' x : Forall2 isim x' x -> Forall2 (Forall2 isim) (chunks l x') (chunks l x).
  Proof.
    induction 1 as [|i' i r' r Hi _ IH]; cbn [chunks]; [constructor; constructor|]. rewrite (item_is_sim g l _ _ Hi).
    destruct (item_is l i); [constructor; [constructor|exact IH]|].
    destruct IH as [|c' c cs' cs Hc Hcs]; constructor; try constructor; auto.
  Qed.

  Lemma F2_removelast {X} (R : X -> X -> Prop) l' l : Forall2 R l' l -> Forall2 R (removelast l') (removelast l).
  Proof. induction 1 as [|a' a r' r Ha Hr IH]; [constructor|]. cbn [removelast]. destruct Hr; [constructor|]. constructor; [exact Ha|exact IH]. Qed.
  Lemma F2_last {X} (R : X -> X -> Prop) l' l d' d : Forall2 R l' l -> R d' d -> R (last l' d') (last l d).
  Proof. induction 1 as [|a' a r' r Ha Hr IH]; intros Hd; [exact Hd|]. cbn [last]. destruct Hr; [exact Ha|]. now apply IH. Qed.
  Lemma F2_hd {X} (R : X -> X -> Prop) l' l d' d : Forall2 R l' l -> R d' d -> R (hd d' l') (hd d l).
  Proof. intros [|]; auto. Qed.
  Lemma F2_tl {X} (R : X -> X -> Prop) l' l : Forall2 R l' l -> Forall2 R (tl l') (tl l).
  Proof. intros [|a' a r' r Ha Hr]; cbn [tl]; [constructor|exact Hr]. Qed.

  Lemma space_not_op l s : spi s = true -> l <> LSpace -> item_is l s = false.
  Proof.
    unfold spi, item_is. destruct s as [t|]; [|discriminate]. destruct (tk t) as [l'| | |]; try discriminate.
    destruct l'; try discriminate. intros _ H. destruct l; try reflexivity. congruence.
  Qed.

  Lemma Forall2_impl {X} (R S : X -> X -> Prop) l' l : (forall a b, R a b -> S a b) -> Forall2 R l' l -> Forall2 S l' l.
  Proof. intros H. induction 1; constructor; auto. Qed.

  Lemma chunks_J l is' is_ : l <> LSpace -> J is' is_ -> Forall2 J (chunks l is') (chunks l is_).
  Proof.
    intros Hl [x' x H|A' A s B' B HA HB Hs Hadj].
    - eapply Forall2_impl; [|apply chunks_sim, H]. intros a b. apply J_same.
    - rewrite !chunks_app. cbn [chunks]. rewrite (space_not_op l s Hs Hl).
      pose proof (chunks_sim l _ _ HA) as CA. pose proof (chunks_sim l _ _ HB) as CB.
      assert (E : forall cb, hd [] (match cb with c :: cs => (s :: c) :: cs | [] => [[s]] end) = s :: hd [] cb /\
                             tl (match cb with c :: cs => (s :: c) :: cs | [] => [[s]] end) = tl cb) by (intros [|c cs]; split; reflexivity).
      destruct (E (chunks l B')) as [E1 E2]. rewrite E1, E2.
      apply Forall2_app.
      + eapply Forall2_impl; [|apply F2_removelast, CA]. intros a b. apply J_same.
      + constructor.
        * apply J_ins; [apply F2_last; [exact CA|constructor]|apply F2_hd; [exact CB|constructor]|exact Hs|now apply adj_chunks].
        * eapply Forall2_impl; [|apply F2_tl, CB]. intros a b. apply J_same.
  Qed.

  Lemma chunks_sub l : forall is_ c i, In c (chunks l is_) -> In i c -> In i is_.
  Proof.
    induction is_ as [|a r IH]; intros c i Hc Hi; cbn [chunks] in Hc.
    - destruct Hc as [<-|[]]. destruct Hi.
    - destruct (item_is l a).
      + destruct Hc as [<-|Hc]; [destruct Hi|]. right. eapply IH; eauto.
      + destruct (chunks l r) as [|c0 cs] eqn:E.
        * destruct Hc as [<-|[]]. destruct Hi as [<-|[]]. now left.
        * destruct Hc as [<-|Hc].
          -- destruct Hi as [<-|Hi]; [now left|]. right. apply (IH c0 i); [now left|exact Hi].
          -- right. apply (IH c i); [now right|exact Hi].
  Qed.
  Lemma chunks_no_op l : forall is_ c, In c (chunks l is_) -> existsb (item_is l) c = false.
  Proof.
    induction is_ as [|a r IH]; intros c Hc; cbn [chunks] in Hc.
    - destruct Hc as [<-|[]]. reflexivity.
    - destruct (item_is l a) eqn:Ea.
      + destruct Hc as [<-|Hc]; [reflexivity|now apply IH].
      + destruct (chunks l r) as [|c0 cs] eqn:E.
        * destruct Hc as [<-|[]]. cbn [existsb]. now rewrite Ea.
        * destruct Hc as [<-|Hc]; [cbn [existsb]; rewrite Ea; apply IH; now left|apply IH; now right].
  Qed.


  (* ---- the operator parse ---- *)
  Lemma split_fst l is_ : map fst (split_at l is_ [] 0) = chunks l is_.
  Proof. rewrite split_at_chunks. cbn [rev List.app]. destruct (chunks l is_); reflexivity. Qed.

  Lemma F2_of_map {X Y} (f : X -> Y) (R : Y -> Y -> Prop) l' l : Forall2 R (map f l') (map f l) -> Forall2 (fun a b => R (f a) (f b)) l' l.
  Proof. revert l. induction l' as [|a r IH]; intros [|b s] H; cbn [map] in H; inversion H; subst; constructor; auto. Qed.

  (* operators that have already been split away do not occur *)
  Definition clean (ops : list lit) (is_ : list item) : Prop :=
    forall l, In l nary_ops -> ~ In l ops -> existsb (item_is l) is_ = false.

  Lemma strong_in i : strongb i = true -> exists l, In l [LArrow; LComma; LPlus] /\ item_is l i = true.
  Proof. unfold strongb. intros H. apply orb_prop in H as [H|H]; [apply orb_prop in H as [H|H]|]; eauto 6 using in_eq, in_cons. Qed.

  Lemma existsb_in l is_ i : In i is_ -> item_is l i = true -> existsb (item_is l) is_ = true.
  Proof. intros Hin Hi. apply existsb_exists. eauto. Qed.

  Lemma parse_ops_unfold2 op rest comp b e is0 i j r : strip is0 = i :: j :: r ->
    parse_ops (op :: rest) comp b e is0 =
    let is_ := i :: j :: r in
    let bp := ibeg i in
    let ep := tl_end is_ bp in
    if existsb (item_is op) is_ then
      let operands := split_at op is_ [] 0 in
      let operands := match op with
                      | LSpace => filter (fun o => match fst o with [] => false | _ => true end) operands
                      | _ => operands end in
      do xs <- sequence (map (fun o => parse_ops rest false (snd o) (tl_end (fst o) (snd o)) (fst o)) operands);
      match op with
      | LSpace => Ok (list_create xs bp ep)
      | LArrow => op_create xs bp ep
      | LComma => args_create xs bp ep
      | LPlus =>
        let invalid := filter (fun x => negb (is_axis_or_flat x)) xs in
        match invalid with
        | _ :: _ =>
          Err 210 (flat_map (fun x => range (ebeg x) (eend x)) invalid
                   ++ flat_map (fun i => if item_is LPlus i then range (ibeg i) (iend i) else []) is_)
        | [] => if comp then cat_create xs bp ep else Err 216 (range bp ep)
        end
      | _ => Internal 219
      end
    else parse_ops rest comp b e is_.
  Proof. intros H. cbn [parse_ops]. rewrite H. destruct i; reflexivity. Qed.

  Lemma parse_ops_J : forall ops pre comp b' e' b e is' is_,
    nary_ops = pre ++ ops -> J is' is_ -> clean ops is_ ->
    rsimG esim (parse_ops ops comp b' e' is') (parse_ops ops comp b e is_).
  Proof.
    induction ops as [|op rest IH]; intros pre comp b' e' b e is0' is0 Hsuf HJ0 Hclean;
      pose proof (strip_J _ _ HJ0) as HJ.
    - (* no operator left: an admissible insertion cannot be there any more *)
      inversion HJ as [x' x Hsame E1 E2|A' A s B' B HA HB Hs Hadj E1 E2].
      + now apply parse_ops_sim_strip.
      + exfalso. destruct (stripped_ins _ _ _ _ Hs (eq_sym E1)) as [HA' HB']. 
        assert (Hin : forall i, In i (A ++ B) -> In i is0) by (intros i Hi; apply strip_sub; now rewrite <- E2).
        destruct Hadj as [->|[->|[[A0 [a [-> Ha]]]|[b0 [B0 [-> Hb]]]]]].
        * inversion HA; subst; congruence.
        * inversion HB; subst; congruence.
        * destruct (strong_in a Ha) as [l [Hl Hi]]. assert (Hc := Hclean l ltac:(unfold nary_ops; cbn in *; tauto) ltac:(intros [])).
          rewrite (existsb_in l is0 a) in Hc; [discriminate|apply Hin; apply in_or_app; left; apply in_or_app; right; now left|exact Hi].
        * destruct (strong_in b0 Hb) as [l [Hl Hi]]. assert (Hc := Hclean l ltac:(unfold nary_ops; cbn in *; tauto) ltac:(intros [])).
          rewrite (existsb_in l is0 b0) in Hc; [discriminate|apply Hin; apply in_or_app; right; now left|exact Hi].
    - inversion HJ as [x' x Hsame E1 E2|A' A s B' B HA HB Hs Hadj E1 E2]; [now apply parse_ops_sim_strip|].
      destruct (stripped_ins _ _ _ _ Hs (eq_sym E1)) as [HA' HB'].
      assert (HAne : A <> []) by (intros ->; inversion HA; subst; congruence).
      assert (HBne : B <> []) by (intros ->; inversion HB; subst; congruence).
      assert (Hin : forall i, In i (A ++ B) -> In i is0) by (intros i Hi; apply strip_sub; now rewrite <- E2).
      assert (Hstrong : exists l i, In l [LArrow; LComma; LPlus] /\ In i is0 /\ item_is l i = true).
      { destruct Hadj as [->|[->|[[A0 [a [-> Ha]]]|[b0 [B0 [-> Hb]]]]]]; try congruence.
        - destruct (strong_in a Ha) as [l [Hl Hi]]. exists l, a. split; [exact Hl|split; [apply Hin; apply in_or_app; left; apply in_or_app; right; now left|exact Hi]].
        - destruct (strong_in b0 Hb) as [l [Hl Hi]]. exists l, b0. split; [exact Hl|split; [apply Hin; apply in_or_app; right; now left|exact Hi]]. }
      destruct Hstrong as [ls [it [Hls [Hit Hiti]]]].
      assert (Hop : op <> LSpace).
      { intros ->. (* at the level of the space operator the three others have been split away *)
        assert (Hnot : ~ In ls (LSpace :: rest)).
        { unfold nary_ops in Hsuf. destruct pre as [|p1 [|p2 [|p3 [|p4 pre']]]]; cbn [List.app] in Hsuf; try discriminate Hsuf.
          - injection Hsuf as _ _ _ E. subst rest.
            intros [E0|[]]. subst ls. cbn in Hls. intuition discriminate.
          - injection Hsuf as _ _ _ _ E. destruct pre'; discriminate. }
        assert (Hc := Hclean ls ltac:(unfold nary_ops; cbn in *; tauto) Hnot). rewrite (existsb_in ls is0 it Hit Hiti) in Hc. discriminate. }
      (* neither list is a single group *)
      assert (Hlen' : exists i' j' r', A' ++ s :: B' = i' :: j' :: r').
      { destruct A' as [|a1 A1]; [congruence|]. cbn [List.app]. destruct A1; cbn [List.app]; eauto. }
      assert (Hlen : exists i j r, A ++ B = i :: j :: r).
      { destruct A as [|a1 A1]; [congruence|]. destruct B as [|b1 B1]; [congruence|]. cbn [List.app]. destruct A1; cbn [List.app]; eauto. }
      destruct Hlen' as [i' [j' [r' El']]]. destruct Hlen as [i [j [r El]]].
      rewrite (parse_ops_unfold2 op rest comp b' e' is0' i' j' r') by congruence.
      rewrite (parse_ops_unfold2 op rest comp b e is0 i j r) by congruence. cbv zeta.
      assert (HJs : J (i' :: j' :: r') (i :: j :: r)) by (rewrite <- El', <- El; now apply J_ins).
      assert (Hex : existsb (item_is op) (i' :: j' :: r') = existsb (item_is op) (i :: j :: r)).
      { rewrite <- El', <- El, !existsb_app. cbn [existsb]. rewrite (space_not_op op s Hs Hop). cbn [orb].
        f_equal; [clear - HA|clear - HB]; [induction HA as [|x' x l' l Hx _ IHl]|induction HB as [|x' x l' l Hx _ IHl]]; try reflexivity;
          cbn [existsb]; now rewrite (item_is_sim g op _ _ Hx), IHl. }
      assert (Hcl : clean (op :: rest) (i :: j :: r)).
      { intros l Hl Hn. specialize (Hclean l Hl Hn). destruct (existsb (item_is l) (i :: j :: r)) eqn:Ee; [|reflexivity].
        apply existsb_exists in Ee as [x [Hx Hxi]]. rewrite (existsb_in l is0 x) in Hclean; [discriminate| |exact Hxi]. apply Hin. now rewrite El. }
      rewrite Hex. destruct (existsb (item_is op) (i :: j :: r)) eqn:Eop.
      + (* the operator occurs: operand by operand *)
        pose proof (chunks_J op _ _ Hop HJs) as HC. rewrite <- !split_fst in HC. apply F2_of_map in HC.
        set (operands' := match op with LSpace => filter _ (split_at op (i' :: j' :: r') [] 0) | _ => split_at op (i' :: j' :: r') [] 0 end).
        set (operands := match op with LSpace => filter _ (split_at op (i :: j :: r) [] 0) | _ => split_at op (i :: j :: r) [] 0 end).
        assert (Hops : Forall2 (fun o' o => J (fst o') (fst o)) operands' operands) by (subst operands' operands; destruct op; try exact HC; congruence).
        assert (Hopsub : forall o, In o operands -> In (fst o) (chunks op (i :: j :: r))).
        { intros o Ho. rewrite <- split_fst. apply in_map. subst operands. destruct op; try exact Ho; congruence. }
        apply (bind_sim (Forall2 esim)).
        * apply sequence_sim. clear - IH Hops Hopsub Hcl Hsuf. induction Hops as [|o' o l' l Ho _ IHl]; cbn [map]; constructor.
          -- apply (IH (pre ++ [op])); [rewrite <- app_assoc; exact Hsuf|exact Ho|].
             intros lx Hlx Hnx. assert (Hc := Hopsub o ltac:(now left)).
             destruct (lit_eqb lx op) eqn:Elx.
             ++ assert (lx = op) by (destruct lx, op; try discriminate; reflexivity). subst lx. now apply (chunks_no_op op _ _ Hc).
             ++ assert (Hnot : ~ In lx (op :: rest)) by (intros [<-|H]; [destruct op; discriminate|contradiction]).
                specialize (Hcl lx Hlx Hnot). destruct (existsb (item_is lx) (fst o)) eqn:Ee; [|reflexivity].
                apply existsb_exists in Ee as [x [Hx Hxi]]. rewrite (existsb_in lx (i :: j :: r) x) in Hcl; [discriminate| |exact Hxi].
                eapply chunks_sub; eauto.
          -- apply IHl. intros o2 Ho2. apply Hopsub. now right.
        * intros xs' xs Hxs. destruct op; cbn [rsimG]; auto; try congruence.
          -- apply rsim_G, sim_op_create. now apply lsim_of.
          -- apply rsim_G, sim_args_create. now apply lsim_of.
          -- pose proof (filter_sim g (fun x => negb (is_axis_or_flat x)) _ _ (fun x' x Hx => f_equal negb (is_aof_sim g _ _ Hx)) Hxs) as Hf.
             destruct Hf as [|? ? ? ? _ _]; [|reflexivity]. destruct comp; [|reflexivity]. apply rsim_G, sim_cat_create. now apply lsim_of.
      + (* the operator does not occur: next level *)
        apply (IH (pre ++ [op])); [rewrite <- app_assoc; exact Hsuf|exact HJs|].
        intros l Hl Hn. destruct (lit_eqb l op) eqn:El2.
        * assert (l = op) by (destruct l, op; try discriminate; reflexivity). subst l. exact Eop.
        * apply Hcl; [exact Hl|]. intros [<-|H]; [destruct op; discriminate|contradiction].
  Qed.


  (* ---- delimiter trees ---- *)
  Definition strongt (t : token) : bool :=
    match tk t with TLit LArrow | TLit LComma | TLit LPlus => true | _ => false end.
  Definition adjT (A B : list ttree) : Prop :=
    A = [] \/ B = [] \/ (exists A0 t, A = A0 ++ [TT t] /\ strongt t = true) \/ (exists t B0, B = TT t :: B0 /\ strongt t = true).

  (* one more space token in the first forest: directly in the list, next to an operator or at an end; or inside a group *)
  Inductive tJ : list ttree -> list ttree -> Prop :=
  | tJ_same l' l : Forall2 (ttsim g) l' l -> tJ l' l
  | tJ_ins A' A s B' B : Forall2 (ttsim g) A' A -> Forall2 (ttsim g) B' B -> is_space s = true -> adjT A B -> tJ (A' ++ TT s :: B') (A ++ B)
  | tJ_in A' A p o' c' o c in' in_ B' B :
      Forall2 (ttsim g) A' A -> Forall2 (ttsim g) B' B -> tJ in' in_ -> tJ (A' ++ TG p o' c' in' :: B') (A ++ TG p o c in_ :: B).

  Lemma clean_all is_ : clean nary_ops is_.
  Proof. intros l Hl Hn. contradiction. Qed.

  Lemma group_result_J paren o' c' o c in' in_ :
    J in' in_ -> rsimG esim (group_result paren o' c' in') (group_result paren o c in_).
  Proof.
    intros H. unfold group_result. apply (bind_sim esim); [apply (parse_ops_J nary_ops []); [reflexivity|exact H|apply clean_all]|].
    intros x' x Hx. destruct paren; [|cbn [rsimG]; now apply sim_br_create].
    pose proof (ctor_sim g _ _ Hx) as Hc. destruct x; destruct x'; cbn [ctor] in Hc; try discriminate Hc; cbn [rsimG]; try exact Hx; now apply sim_flat_create.
  Qed.

  Lemma map_pre_sim l' l : Forall2 (ttsim g) l' l -> Forall2 isim (map pre l') (map pre l).
  Proof. intros H. eapply Forall2_map2; [exact H|]. intros. now apply pre_sim. Qed.

  Lemma strongt_strongb t : strongt t = strongb (ITok t).
  Proof. unfold strongt, strongb, item_is. destruct (tk t) as [[]| | |]; reflexivity. Qed.

  Lemma pre_J ts' ts : tJ ts' ts -> J (map pre ts') (map pre ts).
  Proof.
    induction 1 as [l' l H|A' A s B' B HA HB Hs Hadj|A' A p o' c' o c in' in_ B' B HA HB Hin IH].
    - apply J_same. now apply map_pre_sim.
    - rewrite !map_app. cbn [map pre]. apply J_ins; [now apply map_pre_sim|now apply map_pre_sim|exact Hs|].
      destruct Hadj as [->|[->|[[A0 [t [-> Ht]]]|[t [B0 [-> Ht]]]]]].
      + now left.
      + right. now left.
      + right. right. left. rewrite map_app. cbn [map pre]. exists (map pre A0), (ITok t). split; [reflexivity|now rewrite <- strongt_strongb].
      + right. right. right. cbn [map pre]. exists (ITok t), (map pre B0). split; [reflexivity|now rewrite <- strongt_strongb].
    - rewrite !map_app. cbn [map pre]. apply J_same. apply Forall2_app; [now apply map_pre_sim|].
      constructor; [|now apply map_pre_sim]. constructor. now apply group_result_J.
  Qed.

  Theorem parse_trees_J ap' ap ts' ts : tJ ts' ts ->
    rsimG esim (do x <- parse_top ts'; stage2 ap' x) (do x <- parse_top ts; stage2 ap x).
  Proof.
    intros H. apply (bind_sim esim).
    - unfold parse_top. apply (parse_ops_J nary_ops []); [reflexivity|now apply pre_J|apply clean_all].
    - intros x' x Hx. now apply stage2_sim.
  Qed.
End Space.

(* With the identity renumbering: the forests differ by the space only. *)
Corollary space_next_to_operator ap' ap ts' ts :
  tJ (fun z => z) ts' ts ->
  match (do x <- parse_top ts'; stage2 ap' x), (do x <- parse_top ts; stage2 ap x) with
  | Ok t', Ok t => erase t' = erase t
  | Err s' _, Err s _ => s' = s
  | Internal s', Internal s => s' = s
  | _, _ => False
  end.
Proof.
  intros H. pose proof (parse_trees_J (fun z => z) (fun a b E => E) ap' ap ts' ts H) as R.
  destruct (do x <- parse_top ts'; stage2 ap' x), (do x <- parse_top ts; stage2 ap x); cbn [rsimG] in R; auto.
  eapply esim_erase; eauto.
Qed.
Print Assumptions space_next_to_operator.

(* ---------------------------------------------------------------- grouping: from tokens to forests *)
Definition is_openk (t : token) : bool := match tk t with TLit LOpenP | TLit LOpenB => true | _ => false end.
Definition is_closek (t : token) : bool := match tk t with TLit LCloseP | TLit LCloseB => true | _ => false end.
Definition is_delim (t : token) : bool := is_openk t || is_closek t.
Definition opens (p : bool) (t : token) : bool := match tk t with TLit LOpenP => p | TLit LOpenB => negb p | _ => false end.
Definition closes (p : bool) (t : token) : bool := match tk t with TLit LCloseP => p | TLit LCloseB => negb p | _ => false end.

Fixpoint flat1 (t : ttree) : list token :=
  match t with
  | TT a => [a]
  | TG _ o c inner => o :: flat_map flat1 inner ++ [c]
  end.
Definition flat (ts : list ttree) : list token := flat_map flat1 ts.

Fixpoint proper1 (t : ttree) : bool :=
  match t with
  | TT a => negb (is_delim a)
  | TG p o c inner => opens p o && closes p c && forallb proper1 inner
  end.
Definition proper (ts : list ttree) : bool := forallb proper1 ts.

Lemma ttree_ind' (P : ttree -> Prop) :
  (forall a, P (TT a)) -> (forall p o c inner, Forall P inner -> P (TG p o c inner)) -> forall t, P t.
Proof.
  intros HT HG. fix IH 1. intros [a|p o c inner]; [apply HT|apply HG].
  induction inner as [|x l IHl]; constructor; [apply IH|exact IHl].
Qed.

(* processing the tokens of a proper forest pushes exactly its trees *)
Lemma group_complete : forall ts, proper ts = true -> forall rest st cur,
  group (flat ts ++ rest) st cur = group rest st (rev ts ++ cur).
Proof.
  assert (H1 : forall t, proper1 t = true -> forall rest st cur, group (flat1 t ++ rest) st cur = group rest st (t :: cur)).
  { induction t as [a|p o c inner IH] using ttree_ind'; intros Hp rest st cur; cbn [flat1 proper1] in *.
    - cbn [List.app group]. unfold is_delim, is_openk, is_closek in Hp. destruct (tk a) as [[]| | |]; try reflexivity; discriminate Hp.
    - apply andb_prop in Hp as [Hp Hin]. apply andb_prop in Hp as [Ho Hc].
      cbn [List.app group]. unfold opens in Ho.
      assert (Hinner : forall l, Forall (fun t => proper1 t = true -> forall rest st cur, group (flat1 t ++ rest) st cur = group rest st (t :: cur)) l ->
                forallb proper1 l = true -> forall rest st cur, group (flat_map flat1 l ++ rest) st cur = group rest st (rev l ++ cur)).
      { induction l as [|x l IHl]; intros HF Hpl rest0 st0 cur0; [reflexivity|]. inversion HF; subst. cbn [forallb] in Hpl. apply andb_prop in Hpl as [Hx Hl].
        cbn [flat_map rev]. rewrite <- !app_assoc. rewrite (H1 Hx). rewrite (IHl H2 Hl). cbn [List.app]. reflexivity. }
      rewrite <- app_assoc. cbn [List.app].
      destruct (tk o) as [[]| | |] eqn:Eo; try discriminate Ho.
      + (* "(" *) destruct p; [|discriminate Ho]. rewrite (Hinner inner IH Hin). cbn [group]. unfold closes in Hc.
        destruct (tk c) as [[]| | |]; try discriminate Hc. rewrite app_nil_r, rev_involutive. reflexivity.
      + (* "[" *) destruct p; [discriminate Ho|]. rewrite (Hinner inner IH Hin). cbn [group]. unfold closes in Hc.
        destruct (tk c) as [[]| | |]; try discriminate Hc. rewrite app_nil_r, rev_involutive. reflexivity. }
  induction ts as [|t r IH]; intros Hp rest st cur; [reflexivity|]. cbn [proper forallb] in Hp. apply andb_prop in Hp as [Ht Hr].
  unfold flat in *. cbn [flat_map rev]. rewrite <- !app_assoc. rewrite (H1 t Ht). rewrite (IH Hr). cbn [List.app]. reflexivity.
Qed.

(* ---- what grouping returns is a proper forest whose tokens are the input ---- *)
Fixpoint consumed (st : list (bool * token * list ttree)) (cur : list ttree) : list token :=
  match st with
  | [] => flat (rev cur)
  | (p, o, outer) :: st' => consumed st' outer ++ o :: flat (rev cur)
  end.
Fixpoint wfst (st : list (bool * token * list ttree)) : bool :=
  match st with [] => true | (p, o, outer) :: st' => opens p o && proper (rev outer) && wfst st' end.

Lemma flat_app a b : flat (a ++ b) = flat a ++ flat b. Proof. unfold flat. apply flat_map_app. Qed.
Lemma proper_app a b : proper (a ++ b) = proper a && proper b. Proof. unfold proper. apply forallb_app. Qed.

Ltac lst := repeat (rewrite <- app_assoc || rewrite <- app_comm_cons); cbn [List.app]; try reflexivity.

Lemma group_sound_gen : forall toks st cur ts,
  wfst st = true -> proper (rev cur) = true -> group toks st cur = Ok ts ->
  proper ts = true /\ flat ts = consumed st cur ++ toks.
Proof.
  induction toks as [|t r IH]; intros st cur ts Hst Hcur H; cbn [group] in H.
  - destruct st as [|[[p o] outer] st']; [|discriminate H]. injection H as <-. split; [exact Hcur|]. cbn [consumed]. now rewrite app_nil_r.
  - assert (Hplain : negb (is_delim t) = true -> group r st (TT t :: cur) = Ok ts ->
                     proper ts = true /\ flat ts = consumed st cur ++ t :: r).
    { intros Hnd H'. destruct (IH st (TT t :: cur) ts Hst) as [P E2]; [cbn [rev]; rewrite proper_app, Hcur; cbn [proper forallb proper1]; now rewrite Hnd|exact H'|].
      split; [exact P|]. rewrite E2. clear.
      destruct st as [|[[p o] outer] st']; cbn [consumed rev]; rewrite flat_app; cbn [flat flat_map flat1 List.app]; lst. }
    unfold is_delim, is_openk, is_closek in Hplain.
    destruct (tk t) as [[]| | |] eqn:Et; try (apply Hplain; [reflexivity|exact H]).
    + (* "(" *) destruct (IH ((true, t, cur) :: st) [] ts) as [P E2]; [cbn [wfst]; unfold opens; rewrite Et, Hcur, Hst; reflexivity|reflexivity|exact H|].
      split; [exact P|]. rewrite E2. cbn [consumed rev flat flat_map]. lst.
    + (* "[" *) destruct (IH ((false, t, cur) :: st) [] ts) as [P E2]; [cbn [wfst]; unfold opens; rewrite Et, Hcur, Hst; reflexivity|reflexivity|exact H|].
      split; [exact P|]. rewrite E2. cbn [consumed rev flat flat_map]. lst.
    + (* ")" *) destruct st as [|[[p o] outer] st']; [discriminate H|]. destruct p; [|discriminate H].
      cbn [wfst] in Hst. apply andb_prop in Hst as [Hst Hst']. apply andb_prop in Hst as [Ho Houter].
      destruct (IH st' (TG true o t (rev cur) :: outer) ts Hst') as [P E2]; [|exact H|].
      * cbn [rev]. rewrite proper_app, Houter. cbn [proper forallb proper1]. rewrite Ho. unfold closes. rewrite Et. fold (proper (rev cur)). now rewrite Hcur.
      * split; [exact P|]. rewrite E2. clear.
        destruct st' as [|[[p2 o2] outer2] st2]; cbn [consumed rev]; rewrite !flat_app; cbn [flat flat_map flat1 List.app]; rewrite ?app_nil_r; lst.
    + (* "]" *) destruct st as [|[[p o] outer] st']; [discriminate H|]. destruct p; [discriminate H|].
      cbn [wfst] in Hst. apply andb_prop in Hst as [Hst Hst']. apply andb_prop in Hst as [Ho Houter].
      destruct (IH st' (TG false o t (rev cur) :: outer) ts Hst') as [P E2]; [|exact H|].
      * cbn [rev]. rewrite proper_app, Houter. cbn [proper forallb proper1]. rewrite Ho. unfold closes. rewrite Et. fold (proper (rev cur)). now rewrite Hcur.
      * split; [exact P|]. rewrite E2. clear.
        destruct st' as [|[[p2 o2] outer2] st2]; cbn [consumed rev]; rewrite !flat_app; cbn [flat flat_map flat1 List.app]; rewrite ?app_nil_r; lst.
Qed.

(* ---- whether and where grouping fails depends on the delimiters only ---- *)
Fixpoint bal (toks : list token) (stk : list bool) : option nat :=
  match toks with
  | [] => match stk with [] => None | _ => Some 128%nat end
  | t :: r =>
    match tk t with
    | TLit LOpenP => bal r (true :: stk)
    | TLit LOpenB => bal r (false :: stk)
    | TLit LCloseP => match stk with true :: s => bal r s | _ => Some 118%nat end
    | TLit LCloseB => match stk with false :: s => bal r s | _ => Some 118%nat end
    | _ => bal r stk
    end
  end.

Lemma group_bal : forall toks st cur,
  match group toks st cur with
  | Ok _ => bal toks (map (fun e => fst (fst e)) st) = None
  | Err s _ => bal toks (map (fun e => fst (fst e)) st) = Some s
  | Internal _ => False
  end.
Proof.
  induction toks as [|t r IH]; intros st cur; cbn [group bal].
  - destruct st as [|[[p o] outer] st']; reflexivity.
  - destruct (tk t) as [l| | |]; [destruct l| | |]; try apply IH.
    + destruct st as [|[[p o] outer] st']; [reflexivity|]. cbn [map fst]. destruct p; [apply IH|reflexivity].
    + destruct st as [|[[p o] outer] st']; [reflexivity|]. cbn [map fst]. destruct p; [reflexivity|apply IH].
Qed.

Lemma bal_insert s : is_delim s = false -> forall L R stk, bal (L ++ s :: R) stk = bal (L ++ R) stk.
Proof.
  intros Hs. induction L as [|t r IH]; intros R stk; cbn [List.app bal].
  - unfold is_delim, is_openk, is_closek in Hs. destruct (tk s) as [[]| | |]; try reflexivity; discriminate Hs.
  - destruct (tk t) as [[]| | |]; try apply IH; destruct stk as [|[] stk']; try reflexivity; apply IH.
Qed.

(* ---- where a position of the token list lies in the forest ---- *)
Lemma flat1_nonempty t : flat1 t <> []. Proof. destruct t; cbn; discriminate. Qed.

Lemma locate : forall ts L R, flat ts = L ++ R ->
  (exists A B, ts = A ++ B /\ flat A = L /\ flat B = R) \/
  (exists A t B L1 R1, ts = A ++ t :: B /\ L = flat A ++ L1 /\ R = R1 ++ flat B /\ flat1 t = L1 ++ R1 /\ L1 <> [] /\ R1 <> []).
Proof.
  induction ts as [|t r IH]; intros L R H.
  - unfold flat in H. cbn in H. destruct L; [|discriminate]. destruct R; [|discriminate]. left. exists [], []. auto.
  - unfold flat in H. cbn [flat_map] in H. fold (flat r) in H.
    (* compare L with flat1 t *)
    assert (Hc : (exists X, flat1 t = L ++ X /\ R = X ++ flat r) \/ (exists L2, L = flat1 t ++ L2 /\ flat r = L2 ++ R)).
    { clear IH. revert L H. generalize (flat1 t). induction l as [|a l IHl]; intros L H.
      - right. exists L. auto.
      - destruct L as [|b L'].
        + left. exists (a :: l). cbn in *. auto.
        + cbn [List.app] in H. injection H as <- H. destruct (IHl L' H) as [[X [E1 E2]]|[L2 [E1 E2]]].
          * left. exists X. cbn [List.app]. split; [now rewrite E1|exact E2].
          * right. exists L2. cbn [List.app]. split; [now rewrite E1|exact E2]. }
    destruct Hc as [[X [E1 E2]]|[L2 [E1 E2]]].
    + destruct L as [|b L'].
      * left. exists [], (t :: r). cbn [List.app flat flat_map] in *. split; [reflexivity|split; [reflexivity|]]. subst. reflexivity.
      * destruct X as [|x X'].
        -- (* L is exactly flat1 t *) left. exists [t], r. cbn [List.app flat flat_map]. rewrite app_nil_r in *. subst. rewrite E1. auto.
        -- right. exists [], t, r, (b :: L'), (x :: X'). cbn [List.app flat flat_map]. repeat split; auto; discriminate.
    + destruct (IH L2 R E2) as [[A [B [Ea [Eb Ec]]]]|[A [t2 [B [L1 [R1 [Ea [Eb [Ec [Ed [Ee Ef]]]]]]]]]]].
      * left. exists (t :: A), B. cbn [List.app flat flat_map]. subst. auto.
      * right. exists (t :: A), t2, B, L1, R1. cbn [List.app flat flat_map]. subst. rewrite <- app_assoc. repeat split; auto.
Qed.

(* ---- inserting the space into the forest ---- *)
Definition idz := fun z : Z => z.
Lemma ttsim_refl : forall t, ttsim idz t t.
Proof.
  induction t as [a|p o c inner IH] using ttree_ind'; [constructor; split; reflexivity|]. constructor.
  induction IH; constructor; auto.
Qed.
Lemma ttsim_refl_list l : Forall2 (ttsim idz) l l.
Proof. induction l; constructor; [apply ttsim_refl|assumption]. Qed.

Definition okL (t : token) : bool := strongt t || is_openk t.
Definition okR (t : token) : bool := strongt t || is_closek t.
(* the tokens next to the place where the space goes *)
Definition cond (L R : list token) : Prop :=
  L = [] \/ R = [] \/ (exists L0 a, L = L0 ++ [a] /\ okL a = true) \/ (exists b R0, R = b :: R0 /\ okR b = true).

Lemma flat_nil A : flat A = [] -> A = [].
Proof. destruct A as [|t r]; [reflexivity|]. unfold flat. cbn [flat_map]. intros H. apply app_eq_nil in H as [H _]. now apply flat1_nonempty in H. Qed.

Lemma snoc_cases {X} (l : list X) : l = [] \/ exists l0 x, l = l0 ++ [x].
Proof. induction l as [|a r IH] using rev_ind; [now left|right; eauto]. Qed.

Lemma last_flat1 t p a : proper1 t = true -> flat1 t = p ++ [a] -> (t = TT a) \/ (is_closek a = true /\ strongt a = false /\ is_openk a = false).
Proof.
  destruct t as [b|pp o c inner]; cbn [flat1 proper1]; intros Hp H.
  - left. destruct p as [|x p']; [injection H as <-; reflexivity|]. destruct p'; discriminate.
  - right. apply andb_prop in Hp as [Hp _]. apply andb_prop in Hp as [_ Hc].
    change (o :: flat_map flat1 inner ++ [c]) with ((o :: flat_map flat1 inner) ++ [c]) in H. apply app_inj_tail in H as [_ <-].
    unfold closes in Hc. unfold is_closek, strongt, is_openk. destruct (tk c) as [[]| | |]; try discriminate Hc; auto.
Qed.
Lemma hd_flat1 t b q : proper1 t = true -> flat1 t = b :: q -> (t = TT b) \/ (is_openk b = true /\ strongt b = false /\ is_closek b = false).
Proof.
  destruct t as [a|pp o c inner]; cbn [flat1 proper1]; intros Hp H.
  - left. injection H as <- _. reflexivity.
  - right. injection H as <- _. apply andb_prop in Hp as [Hp _]. apply andb_prop in Hp as [Ho _].
    unfold opens in Ho. unfold is_closek, strongt, is_openk. destruct (tk o) as [[]| | |]; try discriminate Ho; auto.
Qed.

Section Insert.
  Variable s : token.
  Hypothesis Hs : is_space s = true.

  Lemma space_proper : proper1 (TT s) = true.
  Proof. cbn [proper1]. unfold is_space in Hs. unfold is_delim, is_openk, is_closek. destruct (tk s) as [[]| | |]; try discriminate Hs; reflexivity. Qed.

  Definition P (t : ttree) : Prop :=
    proper1 t = true -> forall L1 R1, flat1 t = L1 ++ R1 -> L1 <> [] -> R1 <> [] -> cond L1 R1 ->
    exists t', flat1 t' = L1 ++ s :: R1 /\ proper1 t' = true /\
               exists p o c in' in_, t' = TG p o c in' /\ t = TG p o c in_ /\ tJ idz in' in_.

  Lemma insert_forest ts : Forall P ts -> proper ts = true -> forall L R, flat ts = L ++ R -> cond L R ->
    exists ts', flat ts' = L ++ s :: R /\ proper ts' = true /\ tJ idz ts' ts.
  Proof.
    intros HP Hpr L R Hf Hc. destruct (locate ts L R Hf) as [[A [B [-> [EA EB]]]]|[A [t [B [L1 [R1 [-> [EL [ER [Et [HL1 HR1]]]]]]]]]]].
    - (* between two trees of this list, or at one of its ends *)
      exists (A ++ TT s :: B). rewrite proper_app in Hpr. apply andb_prop in Hpr as [PA PB].
      split; [rewrite flat_app; unfold flat at 2; cbn [flat_map flat1]; fold (flat B); now rewrite EA, EB|].
      split; [rewrite proper_app, PA; unfold proper; cbn [forallb]; rewrite space_proper; exact PB|].
      apply tJ_ins; [apply ttsim_refl_list|apply ttsim_refl_list|exact Hs|].
      destruct (snoc_cases A) as [->|[A0 [x ->]]]; [now left|]. destruct B as [|y B0]; [right; now left|].
      right. right. rewrite proper_app in PA. apply andb_prop in PA as [_ Px]. cbn [proper forallb] in Px, PB. apply andb_prop in Px as [Px _]. apply andb_prop in PB as [Py _].
      destruct Hc as [->|[->|[[L0 [a [-> Ha]]]|[b [R0 [-> Hb]]]]]].
      + rewrite flat_app in EA. apply app_eq_nil in EA as [_ EA]. unfold flat in EA. cbn in EA. rewrite app_nil_r in EA. now apply flat1_nonempty in EA.
      + unfold flat in EB. cbn [flat_map] in EB. apply app_eq_nil in EB as [EB _]. now apply flat1_nonempty in EB.
      + rewrite flat_app in EA. unfold flat at 2 in EA. cbn [flat_map] in EA. rewrite app_nil_r in EA.
        destruct (snoc_cases (flat1 x)) as [E|[q [z Ez]]]; [now apply flat1_nonempty in E|]. rewrite Ez, app_assoc in EA. apply app_inj_tail in EA as [_ <-].
        destruct (last_flat1 x q z Px Ez) as [->|[H1 [H2 H3]]]; [|unfold okL in Ha; rewrite H2, H3 in Ha; discriminate].
        left. exists A0, z. split; [reflexivity|]. unfold okL in Ha. cbn [proper1] in Px. unfold is_delim in Px. destruct (strongt z); [reflexivity|]. cbn [orb] in Ha. rewrite Ha in Px. discriminate.
      + unfold flat in EB. cbn [flat_map] in EB. destruct (flat1 y) as [|z q] eqn:Ey; [now apply flat1_nonempty in Ey|]. cbn [List.app] in EB. injection EB as <- _.
        destruct (hd_flat1 y z q Py Ey) as [->|[H1 [H2 H3]]]; [|unfold okR in Hb; rewrite H2, H3 in Hb; discriminate].
        right. exists z, B0. split; [reflexivity|]. unfold okR in Hb. cbn [proper1] in Py. unfold is_delim in Py. destruct (strongt z); [reflexivity|]. cbn [orb] in Hb. rewrite Hb, orb_true_r in Py. discriminate.
    - (* strictly inside the tree t *)
      rewrite proper_app in Hpr. apply andb_prop in Hpr as [PA PtB]. cbn [proper forallb] in PtB. apply andb_prop in PtB as [Pt PB].
      assert (HPt : P t) by (rewrite Forall_forall in HP; apply HP; apply in_or_app; right; now left).
      assert (Hc1 : cond L1 R1).
      { destruct Hc as [->|[->|[[L0 [a [E Ha]]]|[b [R0 [E Hb]]]]]].
        - symmetry in EL. apply app_eq_nil in EL as [_ EL]. congruence.
        - symmetry in ER. apply app_eq_nil in ER as [ER _]. congruence.
        - right. right. left. destruct (snoc_cases L1) as [E1|[q [z ->]]]; [congruence|]. rewrite EL, app_assoc in E. apply app_inj_tail in E as [_ ->]. eauto.
        - right. right. right. destruct R1 as [|z q]; [congruence|]. rewrite ER in E. cbn [List.app] in E. injection E as -> _. eauto. }
      destruct (HPt Pt L1 R1 Et HL1 HR1 Hc1) as [t' [Ft [Pt' [p [o [c [in' [in_ [-> [-> HJ]]]]]]]]]].
      exists (A ++ TG p o c in' :: B).
      split; [rewrite flat_app; unfold flat at 2; cbn [flat_map]; fold (flat B); rewrite Ft, EL, ER; lst|].
      split; [rewrite proper_app, PA; cbn [proper forallb]; rewrite Pt'; exact PB|].
      apply tJ_in; [apply ttsim_refl_list|apply ttsim_refl_list|exact HJ].
  Qed.

  Lemma insert_tree : forall t, P t.
  Proof.
    induction t as [a|p o c inner IH] using ttree_ind'; intros Hp L1 R1 Hf HL HR Hc.
    - cbn [flat1] in Hf. destruct L1 as [|x [|y q]]; try congruence; cbn [List.app] in Hf; [|discriminate].
      injection Hf as _ Hf. destruct R1; [congruence|discriminate].
    - cbn [flat1 proper1] in *. apply andb_prop in Hp as [Hoc Hin].
      destruct L1 as [|x L2]; [congruence|]. cbn [List.app] in Hf. injection Hf as <- Hf.
      destruct (snoc_cases R1) as [->|[R2 [z ->]]]; [congruence|]. rewrite app_assoc in Hf. apply app_inj_tail in Hf as [Hf <-].
      assert (Hc2 : cond L2 R2).
      { destruct Hc as [E|[E|[[L0 [a [E Ha]]]|[b [R0 [E Hb]]]]]]; try discriminate E.
        - destruct R2; discriminate E.
        - destruct (snoc_cases L2) as [->|[q [w ->]]]; [now left|]. right. right. left.
          change (o :: q ++ [w]) with ((o :: q) ++ [w]) in E. apply app_inj_tail in E as [_ ->]. eauto.
        - destruct R2 as [|w q]; [right; now left|]. right. right. right. cbn [List.app] in E. injection E as -> _. eauto. }
      destruct (insert_forest inner IH Hin L2 R2 Hf Hc2) as [in' [Fi [Pi HJ]]].
      exists (TG p o c in'). split; [cbn [flat1]; fold (flat in'); rewrite Fi; lst|]. split; [cbn [proper1]; rewrite Hoc; exact Pi|]. eauto 10.
  Qed.

  Theorem insert_space ts L R : proper ts = true -> flat ts = L ++ R -> cond L R ->
    exists ts', flat ts' = L ++ s :: R /\ proper ts' = true /\ tJ idz ts' ts.
  Proof. intros. apply insert_forest; auto. apply Forall_forall. intros t _. apply insert_tree. Qed.
End Insert.

(* ---- the token-level statement ---- *)
Theorem group_space s L R : is_space s = true -> cond L R ->
  match group (L ++ s :: R) [] [], group (L ++ R) [] [] with
  | Ok ts', Ok ts => tJ idz ts' ts
  | Err a _, Err b _ => a = b
  | _, _ => False
  end.
Proof.
  intros Hs Hc.
  assert (Hnd : is_delim s = false).
  { unfold is_space in Hs. unfold is_delim, is_openk, is_closek. destruct (tk s) as [[]| | |]; try discriminate Hs; reflexivity. }
  pose proof (group_bal (L ++ s :: R) [] []) as B'. pose proof (group_bal (L ++ R) [] []) as B. cbn [map] in B', B.
  rewrite (bal_insert s Hnd L R []) in B'.
  destruct (group (L ++ R) [] []) as [ts|a pa|a] eqn:E; [|destruct (group (L ++ s :: R) [] []); [congruence|congruence|contradiction]|contradiction].
  destruct (group_sound_gen (L ++ R) [] [] ts eq_refl eq_refl E) as [Pts Fts]. cbn [consumed rev flat flat_map List.app] in Fts.
  destruct (insert_space s Hs ts L R Pts Fts Hc) as [ts' [F' [P' HJ]]].
  pose proof (group_complete ts' P' [] [] []) as G. rewrite !app_nil_r, F' in G. cbn [group] in G. rewrite rev_involutive in G. rewrite G. exact HJ.
Qed.

(* the parser after de-duplication of spaces *)
Definition parse_deduped (ap : list Z) (toks : list token) : result expr :=
  do tts <- group toks [] []; do x <- parse_top tts; stage2 ap x.

Lemma parse_tokens_deduped ap toks :
  parse_tokens ap toks = match first_bad toks with Some t => Err 73 (range (tbeg t) (tend t)) | None => parse_deduped ap (dedupe toks false) end.
Proof. reflexivity. Qed.

Theorem space_token_next_to_operator ap' ap s L R : is_space s = true -> cond L R ->
  match parse_deduped ap' (L ++ s :: R), parse_deduped ap (L ++ R) with
  | Ok t', Ok t => erase t' = erase t
  | Err a _, Err b _ => a = b
  | Internal a, Internal b => a = b
  | _, _ => False
  end.
Proof.
  intros Hs Hc. unfold parse_deduped. pose proof (group_space s L R Hs Hc) as G.
  destruct (group (L ++ s :: R) [] []) as [ts'|a pa|a], (group (L ++ R) [] []) as [ts|b pb|b]; cbn [bind]; try contradiction; [|exact G].
  apply (space_next_to_operator ap' ap ts' ts G).
Qed.
Print Assumptions space_token_next_to_operator.
