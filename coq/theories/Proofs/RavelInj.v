(* The flat index the update lowering computes (coordinates times the regenerated multipliers) addresses each element of
   the target by exactly one in-bounds coordinate vector, and stays inside the flattened target. *)
From Coq Require Import List NArith Lia.
From EinxV Require Import Spec.LoopSem Spec.UpdateSem Proofs.LoopSemProofs Proofs.UpdateProofs Model.Opt Proofs.OptProofs Gen.GenRavel.
Import ListNotations.
Open Scope N_scope.

Lemma valid_idx_length i s : valid_idx i s -> length i = length s.
Proof. induction 1; cbn [length]; congruence. Qed.

Theorem flat_index_is_injective idx idx' lens :
  valid_idx idx lens -> valid_idx idx' lens ->
  dotN idx (gen_ravel_multipliers lens) = dotN idx' (gen_ravel_multipliers lens) -> idx = idx'.
Proof.
  intros V V' E.
  rewrite (ravel_is_rowmajor _ _ (valid_idx_length _ _ V)), (ravel_is_rowmajor _ _ (valid_idx_length _ _ V')) in E.
  rewrite <- (unravel_ravel _ _ V), <- (unravel_ravel _ _ V'). now rewrite E.
Qed.

Theorem flat_index_in_bounds idx lens :
  valid_idx idx lens -> dotN idx (gen_ravel_multipliers lens) < nprod lens.
Proof.
  intros V. rewrite (ravel_is_rowmajor _ _ (valid_idx_length _ _ V)).
  destruct (ravel_le idx lens V) as [H|[H1 H2]]; [exact H|]. subst lens. rewrite H2, nprod_nil. lia.
Qed.

(* every element of the flattened target is addressed by some in-bounds coordinate vector *)
Theorem flat_index_is_surjective lens n :
  n < nprod lens -> exists idx, valid_idx idx lens /\ dotN idx (gen_ravel_multipliers lens) = n.
Proof.
  intros Hn. exists (unravel n lens). split; [now apply unravel_valid|].
  rewrite (ravel_is_rowmajor _ _ (valid_idx_length _ _ (unravel_valid _ _ Hn))). now apply ravel_unravel.
Qed.

(* ---- the index tensor of the update lowering (_ravel, steps 2 and 3): per target axis the coordinate argument when the
   axis is bracketed, arange - i.e. the loop index of that axis - when it is not ---- *)
Fixpoint interleave (marks : list bool) (loop coord : list N) : list N :=
  match marks with
  | [] => []
  | true :: m => match coord with c :: cs => c :: interleave m loop cs | [] => [] end
  | false :: m => match loop with l :: ls => l :: interleave m ls coord | [] => [] end
  end.

Definition count (b : bool) (marks : list bool) : nat := length (filter (Bool.eqb b) marks).

Lemma interleave_length marks : forall loop coord,
  length loop = count false marks -> length coord = count true marks -> length (interleave marks loop coord) = length marks.
Proof.
  unfold count. induction marks as [|[|] m IH]; intros loop coord Hl Hc; cbn [interleave filter Bool.eqb length] in *; [reflexivity| |].
  - destruct coord as [|c cs]; [discriminate|]. cbn [length] in *. f_equal. apply IH; [exact Hl|congruence].
  - destruct loop as [|l ls]; [discriminate|]. cbn [length] in *. f_equal. apply IH; [congruence|exact Hc].
Qed.

Lemma interleave_injective marks : forall loop coord loop' coord',
  length loop = count false marks -> length coord = count true marks ->
  length loop' = count false marks -> length coord' = count true marks ->
  interleave marks loop coord = interleave marks loop' coord' -> loop = loop' /\ coord = coord'.
Proof.
  unfold count. induction marks as [|[|] m IH]; intros loop coord loop' coord' Hl Hc Hl' Hc' E; cbn [interleave filter Bool.eqb length] in *.
  - destruct loop, coord, loop', coord'; try discriminate. now split.
  - destruct coord as [|c cs]; [discriminate|]. destruct coord' as [|c' cs']; [discriminate|]. cbn [length] in *.
    injection E as E1 E2. destruct (IH loop cs loop' cs') as [A B]; try congruence. subst. now split.
  - destruct loop as [|l ls]; [discriminate|]. destruct loop' as [|l' ls']; [discriminate|]. cbn [length] in *.
    injection E as E1 E2. destruct (IH ls coord ls' coord') as [A B]; try congruence. subst. now split.
Qed.

(* the flat index addresses, in the un-flattened target, exactly the element whose un-bracketed positions are the loop
   indices (the matching slice) and whose bracketed positions are the coordinate values *)
Theorem flat_index_addresses_the_slice_element marks loop coord lens :
  valid_idx (interleave marks loop coord) lens ->
  unravel (dotN (interleave marks loop coord) (gen_ravel_multipliers lens)) lens = interleave marks loop coord.
Proof.
  intros V. rewrite (ravel_is_rowmajor _ _ (valid_idx_length _ _ V)). now apply unravel_ravel.
Qed.

(* two iterations address the same element only if they are in the same slice and have the same coordinates *)
Theorem same_element_same_slice_same_coordinates marks loop coord loop' coord' lens :
  length loop = count false marks -> length coord = count true marks ->
  length loop' = count false marks -> length coord' = count true marks ->
  valid_idx (interleave marks loop coord) lens -> valid_idx (interleave marks loop' coord') lens ->
  dotN (interleave marks loop coord) (gen_ravel_multipliers lens) = dotN (interleave marks loop' coord') (gen_ravel_multipliers lens) ->
  loop = loop' /\ coord = coord'.
Proof.
  intros Hl Hc Hl' Hc' V V' E. apply (interleave_injective marks); try assumption.
  exact (flat_index_is_injective _ _ _ V V' E).
Qed.

(* the loop of the source (regenerated) is that interleaving *)
Lemma gen_interleave_ok marks : forall loop coord, gen_ravel_interleave marks loop coord = interleave marks loop coord.
Proof.
  induction marks as [|[|] m IH]; intros loop coord; cbn [gen_ravel_interleave interleave]; [reflexivity| |].
  - destruct coord; [reflexivity|]. now rewrite IH.
  - destruct loop; [reflexivity|]. now rewrite IH.
Qed.

Theorem gen_flat_index_addresses_the_slice_element marks loop coord lens :
  valid_idx (gen_ravel_interleave marks loop coord) lens ->
  unravel (dotN (gen_ravel_interleave marks loop coord) (gen_ravel_multipliers lens)) lens = gen_ravel_interleave marks loop coord.
Proof. rewrite gen_interleave_ok. apply flat_index_addresses_the_slice_element. Qed.

Theorem gen_same_element_same_slice_same_coordinates marks loop coord loop' coord' lens :
  length loop = count false marks -> length coord = count true marks ->
  length loop' = count false marks -> length coord' = count true marks ->
  valid_idx (gen_ravel_interleave marks loop coord) lens -> valid_idx (gen_ravel_interleave marks loop' coord') lens ->
  dotN (gen_ravel_interleave marks loop coord) (gen_ravel_multipliers lens)
  = dotN (gen_ravel_interleave marks loop' coord') (gen_ravel_multipliers lens) ->
  loop = loop' /\ coord = coord'.
Proof. rewrite !gen_interleave_ok. apply same_element_same_slice_same_coordinates. Qed.
