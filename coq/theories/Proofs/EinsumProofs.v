(* dot on the einsum path (default numpy backend): operands are seen at their leaf coordinates, the subscript letters identify
   the axes faithfully (one letter per name, different names - different letters, the same letter wherever the name occurs),
   and the result is placed by the output expression. *)
From Coq Require Import List NArith Arith Bool Lia.
From Coq Require Import String.
Close Scope string_scope.
From EinxV Require Import Spec.LoopSem Model.Opt Model.Lower Proofs.LoopSemProofs Proofs.OptProofs Proofs.LowerProofs.
Import ListNotations.
Open Scope N_scope.

(* ---- letters ---- *)
Definition wfv (vars : list (N * nat)) : Prop := map snd vars = seq 0 (List.length vars) /\ NoDup (map fst vars).

Lemma ein_lookup_app vars more n k : ein_lookup vars n = Some k -> ein_lookup (vars ++ more) n = Some k.
Proof.
  induction vars as [|[a v] r IH]; cbn [ein_lookup app]; [discriminate|]. destruct (a =? n); [auto|apply IH].
Qed.

Lemma ein_lookup_none vars n : ein_lookup vars n = None <-> ~ In n (map fst vars).
Proof.
  induction vars as [|[a v] r IH]; cbn [ein_lookup map fst In]; [tauto|].
  destruct (N.eqb_spec a n) as [->|Hne]; [split; [discriminate|intros H; exfalso; apply H; now left]|].
  rewrite IH. split; [intros H [E|Hin]; [congruence|auto]|intros H Hin; apply H; now right].
Qed.

Lemma ein_lookup_snoc vars n : ein_lookup vars n = None -> ein_lookup (vars ++ [(n, List.length vars)]) n = Some (List.length vars).
Proof.
  intros H. generalize (List.length vars) as k. induction vars as [|[a v] r IH]; intros k; cbn [ein_lookup app].
  - now rewrite N.eqb_refl.
  - cbn [ein_lookup] in H. destruct (a =? n); [discriminate|]. apply IH, H.
Qed.

Lemma NoDup_snoc {A} (l : list A) (x : A) : NoDup l -> ~ In x l -> NoDup (l ++ [x]).
Proof.
  induction 1 as [|a r Ha Hr IH]; intros Hx; cbn [app]; [constructor; [intros []|constructor]|].
  constructor.
  - intros Hin. apply in_app_or in Hin as [Hin|[E|[]]]; [auto|]. apply Hx. now left.
  - apply IH. intros Hin. apply Hx. now right.
Qed.

Lemma wfv_snoc vars n : wfv vars -> ein_lookup vars n = None -> wfv (vars ++ [(n, List.length vars)]).
Proof.
  intros [Hs Hn] Hl. split.
  - rewrite map_app, app_length, Hs. cbn [map snd List.length]. rewrite Nat.add_1_r, seq_S. reflexivity.
  - rewrite map_app. cbn [map fst]. apply NoDup_snoc; [exact Hn|]. now apply ein_lookup_none.
Qed.

(* what one pass over a list of names yields: the letters of these names in the final table, which extends the old one *)
Lemma ein_assign_spec names : forall vars ks vars',
  ein_assign vars names = (ks, vars') -> wfv vars ->
  wfv vars' /\ (exists more, vars' = vars ++ more) /\
  ks = map (fun n => match ein_lookup vars' n with Some k => k | None => O end) names /\
  (forall n, In n names -> In n (map fst vars')).
Proof.
  induction names as [|n r IH]; intros vars ks vars' H Hw; cbn [ein_assign] in H.
  - injection H as <- <-. split; [exact Hw|]. split; [exists []; now rewrite app_nil_r|]. split; [reflexivity|intros n []].
  - destruct (ein_lookup vars n) as [k|] eqn:El.
    + destruct (ein_assign vars r) as [ks0 v0] eqn:Er. injection H as <- <-.
      destruct (IH _ _ _ Er Hw) as [Hw' [[more Hm] [Hk Hin]]]. split; [exact Hw'|]. split; [eauto|]. split.
      * cbn [map]. rewrite Hm at 1. rewrite (ein_lookup_app vars more n k El). now rewrite Hk.
      * intros x [<-|Hx]; [|auto]. rewrite Hm, map_app. apply in_or_app. left.
        destruct (in_dec N.eq_dec n (map fst vars)) as [Hi|Hni]; [exact Hi|]. apply ein_lookup_none in Hni. congruence.
    + destruct (ein_assign (vars ++ [(n, List.length vars)]) r) as [ks0 v0] eqn:Er. injection H as <- <-.
      destruct (IH _ _ _ Er (wfv_snoc vars n Hw El)) as [Hw' [[more Hm] [Hk Hin]]]. split; [exact Hw'|].
      split; [exists ([(n, List.length vars)] ++ more); now rewrite app_assoc|]. split.
      * cbn [map]. rewrite Hm at 1. rewrite (ein_lookup_app _ more n _ (ein_lookup_snoc vars n El)). now rewrite Hk.
      * intros x [<-|Hx]; [|auto]. rewrite Hm, !map_app. apply in_or_app. left. apply in_or_app. right. now left.
Qed.

Lemma ein_lookup_in vars n k : ein_lookup vars n = Some k -> In (n, k) vars.
Proof.
  induction vars as [|[a v] r IH]; cbn [ein_lookup]; [discriminate|]. destruct (N.eqb_spec a n) as [->|_]; [intros [= ->]; now left|right; auto].
Qed.

Lemma wfv_injective vars a b ka kb :
  wfv vars -> ein_lookup vars a = Some ka -> ein_lookup vars b = Some kb -> ka = kb -> a = b.
Proof.
  intros [Hs _] Ha Hb <-. apply ein_lookup_in in Ha, Hb.
  assert (Hnd : NoDup (map snd vars)) by (rewrite Hs; apply seq_NoDup).
  clear Hs. induction vars as [|[x v] r IH]; [contradiction|]. cbn [map snd] in Hnd. inversion Hnd as [|? ? Hx Hr]; subst.
  destruct Ha as [Ea|Ha], Hb as [Eb|Hb].
  - congruence.
  - injection Ea as -> ->. exfalso. apply Hx. apply in_map_iff. exists (b, ka). auto.
  - injection Eb as -> ->. exfalso. apply Hx. apply in_map_iff. exists (a, ka). auto.
  - auto.
Qed.

(* the letters of the three expressions come from one table that gives different names different letters *)
Theorem ein_letters_faithful n1 n2 no :
  exists (letter : N -> nat),
    let '(k1, v1) := ein_assign [] n1 in
    let '(k2, v2) := ein_assign v1 n2 in
    let '(ko, _) := ein_assign v2 no in
    k1 = map letter n1 /\ k2 = map letter n2 /\ ko = map letter no /\
    forall a b, In a (n1 ++ n2 ++ no) -> In b (n1 ++ n2 ++ no) -> letter a = letter b -> a = b.
Proof.
  destruct (ein_assign [] n1) as [k1 v1] eqn:E1. destruct (ein_assign v1 n2) as [k2 v2] eqn:E2. destruct (ein_assign v2 no) as [ko vo] eqn:Eo.
  assert (W0 : wfv []) by (split; [reflexivity|constructor]).
  destruct (ein_assign_spec _ _ _ _ E1 W0) as [W1 [_ [K1 I1]]].
  destruct (ein_assign_spec _ _ _ _ E2 W1) as [W2 [[m2 M2] [K2 I2]]].
  destruct (ein_assign_spec _ _ _ _ Eo W2) as [Wo [[mo Mo] [Ko Io]]].
  exists (fun n => match ein_lookup vo n with Some k => k | None => O end).
  assert (Hext : forall vars more n, In n (map fst vars) -> ein_lookup (vars ++ more) n = ein_lookup vars n).
  { intros vars more n Hin. destruct (ein_lookup vars n) as [k|] eqn:El; [now apply ein_lookup_app|]. apply ein_lookup_none in El. contradiction. }
  split; [|split; [|split]].
  - rewrite K1. apply map_ext_in. intros n Hn. rewrite Mo, M2, <- app_assoc. now rewrite (Hext v1 (m2 ++ mo) n (I1 n Hn)).
  - rewrite K2. apply map_ext_in. intros n Hn. rewrite Mo. now rewrite (Hext v2 mo n (I2 n Hn)).
  - exact Ko.
  - intros a b Ha Hb E.
    assert (Hin : forall x, In x (n1 ++ n2 ++ no) -> In x (map fst vo)).
    { intros x Hx. apply in_app_or in Hx as [Hx|Hx]; [rewrite Mo, M2, !map_app; apply in_or_app; left; apply in_or_app; left; auto|].
      apply in_app_or in Hx as [Hx|Hx]; [rewrite Mo, map_app; apply in_or_app; left; auto|auto]. }
    destruct (ein_lookup vo a) as [ka|] eqn:La; [|apply ein_lookup_none in La; exfalso; auto].
    destruct (ein_lookup vo b) as [kb|] eqn:Lb; [|apply ein_lookup_none in Lb; exfalso; auto].
    exact (wfv_injective vo a b ka kb Wo La Lb E).
Qed.

(* ---- operands and result ---- *)
Section Einsum.
  Variable V : Type.
  Variable inp : nat -> entries V.
  Variable F : String.string -> list (entries V) -> list String.string -> entries V.
  Variable BC : list N -> list N -> entries V -> entries V.
  Variable CC : nat -> list (list N * entries V) -> entries V.

  Theorem ein_operand_is_the_leaf_view k d rho v :
    forallb plain d = true -> in_bounds rho d -> In (map (pidx rho) d, v) (inp k) ->
    In (map (lookup rho) (lnames d), v) (meval V inp F BC CC (ein_operand k d)).
  Proof.
    intros Hp Bin Hin. unfold ein_operand. cbn [meval mshape]. unfold e_reshape. apply in_map_iff. exists (map (pidx rho) d, v). split; [|exact Hin].
    cbn [fst snd]. f_equal. change (ravel (map (pidx rho) d) (map psize d)) with (pos rho d).
    rewrite (pos_leaves rho d (plain_dims_offset_free _ Hp)), llens_dims, lidx_dims. apply unravel_ravel, leaf_valid, Bin.
  Qed.

  Variables d1 d2 dout : list pex.
  Definition einsum_result : entries V :=
    F "einsum"%string [meval V inp F BC CC (ein_operand 0 d1); meval V inp F BC CC (ein_operand 1 d2)] [ein_subscripts d1 d2 dout; "kw:"%string].

  Theorem lower_einsum_dot_correct rho v :
    forallb plain dout = true -> in_bounds rho dout ->
    In (map (lookup rho) (lnames dout), v) einsum_result ->
    In (map (pidx rho) dout, v) (meval V inp F BC CC (lower_einsum_dot d1 d2 dout)).
  Proof.
    intros Hp Bo Hin. unfold lower_einsum_dot. cbn [meval mshape map]. unfold e_reshape. apply in_map_iff.
    exists (map (lookup rho) (lnames dout), v). split; [|exact Hin]. cbn [fst snd]. f_equal.
    pose proof (plain_dims_offset_free _ Hp) as Oo.
    rewrite <- lidx_dims, <- llens_dims, <- (pos_leaves rho dout Oo). unfold pos. apply unravel_ravel. now apply dims_valid.
  Qed.
End Einsum.
