From Coq Require Import List NArith ZArith Lia Permutation Bool.
From EinxV Require Import Spec.LoopSem Spec.UpdateSem.
Import ListNotations.
Open Scope Z_scope.

Lemma upd_at_length l i f : length (upd_at l i f) = length l.
Proof. revert i; induction l as [|x r IH]; intros [|j]; simpl; auto. Qed.

Lemma nth_upd_at_same l i f d : (i < length l)%nat -> nth i (upd_at l i f) d = f (nth i l d).
Proof. revert i; induction l as [|x r IH]; intros [|j] H; simpl in *; try lia; auto. apply IH; lia. Qed.

Lemma nth_upd_at_other l i j f d : i <> j -> nth j (upd_at l i f) d = nth j l d.
Proof.
  revert i j; induction l as [|x r IH]; intros [|i] [|j] H; simpl; auto; try congruence.
Qed.

Lemma upd_at_comm l i j f g :
  (i <> j \/ forall x, f (g x) = g (f x)) -> upd_at (upd_at l i f) j g = upd_at (upd_at l j g) i f.
Proof.
  revert i j; induction l as [|x r IH]; intros [|i] [|j] H; simpl; auto.
  - destruct H as [H|H]; [congruence|]. now rewrite H.
  - f_equal. apply IH. destruct H as [H|H]; [left; congruence|right; exact H].
Qed.

(* ---- add_at / subtract_at ---- *)
Definition step (sgn : Z) (u : list Z) (t : list Z) (pq : N * N) : list Z :=
  upd_at t (N.to_nat (fst pq)) (fun x => x + sgn * getZ u (snd pq)).

Lemma apply_acc_fold sgn t plan u : apply_acc sgn t plan u = fold_left (step sgn u) plan t.
Proof. reflexivity. Qed.

Lemma step_comm sgn u t a b : step sgn u (step sgn u t a) b = step sgn u (step sgn u t b) a.
Proof. unfold step. apply upd_at_comm. right. intros x. lia. Qed.

(* order independence: any permutation of the loop iterations gives the same tensor *)
Theorem apply_acc_perm sgn t u plan plan' :
  Permutation plan plan' -> apply_acc sgn t plan u = apply_acc sgn t plan' u.
Proof.
  rewrite !apply_acc_fold. intros HP. revert t.
  induction HP as [|a l l' _ IH|a b l|l l' l'' _ IH1 _ IH2]; intros t; simpl.
  - reflexivity.
  - apply IH.
  - now rewrite step_comm.
  - now rewrite IH1, IH2.
Qed.

Lemma fold_step_length sgn u plan t : length (fold_left (step sgn u) plan t) = length t.
Proof. revert t; induction plan as [|a l IH]; intros t; simpl; [reflexivity|]. rewrite IH. apply upd_at_length. Qed.

(* every contribution is applied exactly once; everything else is untouched *)
Theorem apply_acc_value sgn t u plan p :
  (forall pq, In pq plan -> (N.to_nat (fst pq) < length t)%nat) ->
  nth p (apply_acc sgn t plan u) 0 = nth p t 0 + sgn * contributions plan u p.
Proof.
  rewrite apply_acc_fold. revert t. induction plan as [|a l IH]; intros t Hb.
  - simpl. unfold contributions; simpl. lia.
  - cbn [fold_left]. rewrite IH.
    + unfold contributions, candidates. cbn [filter]. unfold step at 1.
      destruct (Nat.eqb (N.to_nat (fst a)) p) eqn:E.
      * apply Nat.eqb_eq in E. subst p. rewrite nth_upd_at_same by (apply Hb; now left).
        cbn [map fold_right]. lia.
      * apply Nat.eqb_neq in E. rewrite nth_upd_at_other by exact E. lia.
    + intros pq Hin. unfold step. rewrite upd_at_length. apply Hb. now right.
Qed.

Corollary apply_acc_untouched sgn t u plan p :
  (forall pq, In pq plan -> (N.to_nat (fst pq) < length t)%nat) ->
  (forall pq, In pq plan -> N.to_nat (fst pq) <> p) ->
  nth p (apply_acc sgn t plan u) 0 = nth p t 0.
Proof.
  intros Hb Hn. rewrite apply_acc_value by exact Hb.
  unfold contributions, candidates.
  replace (filter _ plan) with (@nil (N * N)); [simpl; lia|].
  symmetry. induction plan as [|a l IH]; [reflexivity|]. cbn [filter].
  destruct (Nat.eqb (N.to_nat (fst a)) p) eqn:E.
  - apply Nat.eqb_eq in E. exfalso. apply (Hn a); [now left|exact E].
  - apply IH; intros pq Hin; [apply Hb|apply Hn]; now right.
Qed.

(* ---- set_at: the result holds one of the competing values, untouched elsewhere ---- *)
Lemma candidates_cons a l u p :
  candidates (a :: l) u p =
  if Nat.eqb (N.to_nat (fst a)) p then getZ u (snd a) :: candidates l u p else candidates l u p.
Proof. unfold candidates. cbn [filter]. destruct (Nat.eqb (N.to_nat (fst a)) p); reflexivity. Qed.

Theorem apply_set_member t u plan p :
  (forall pq, In pq plan -> (N.to_nat (fst pq) < length t)%nat) ->
  (candidates plan u p = [] /\ nth p (apply_set t plan u) 0 = nth p t 0)
  \/ In (nth p (apply_set t plan u) 0) (candidates plan u p).
Proof.
  unfold apply_set. revert t. induction plan as [|a l IH]; intros t Hb.
  - left. split; reflexivity.
  - cbn [fold_left]. rewrite candidates_cons.
    assert (Hb' : forall pq, In pq l -> (N.to_nat (fst pq) < length (upd_at t (N.to_nat (fst a)) (fun _ => getZ u (snd a))))%nat).
    { intros pq Hin. rewrite upd_at_length. apply Hb. now right. }
    destruct (IH _ Hb') as [[Hnil Heq]|Hin].
    + rewrite Hnil, Heq.
      destruct (Nat.eqb (N.to_nat (fst a)) p) eqn:E.
      * apply Nat.eqb_eq in E. subst p. right. rewrite nth_upd_at_same by (apply Hb; now left). now left.
      * apply Nat.eqb_neq in E. left. split; [reflexivity|]. now rewrite nth_upd_at_other.
    + right. destruct (Nat.eqb (N.to_nat (fst a)) p); [now right|exact Hin].
Qed.

(* ---- the _ravel multipliers give the row-major flat index ---- *)
Lemma dot_multipliers idx lens :
  length idx = length lens -> dotN idx (multipliers lens) = ravel idx lens.
Proof.
  revert lens; induction idx as [|i idx IH]; intros [|l lens] H; simpl in *; try discriminate; [reflexivity|].
  injection H as H. unfold dotN in *. simpl. now rewrite IH.
Qed.

(* ---- tie: the multiplier loop regenerated from the source computes [multipliers] ---- *)
From EinxV Require Import Gen.GenRavel.
Lemma gen_ravel_fold lens :
  fold_right gen_ravel_step (1%N, []) lens = (nprod lens, multipliers lens).
Proof.
  induction lens as [|l lens IH]; [reflexivity|].
  cbn [fold_right]. rewrite IH. unfold gen_ravel_step. cbn [multipliers nprod fold_right]. f_equal. apply N.mul_comm.
Qed.
Lemma gen_ravel_multipliers_ok lens : gen_ravel_multipliers lens = multipliers lens.
Proof. unfold gen_ravel_multipliers. now rewrite gen_ravel_fold. Qed.

Theorem ravel_is_rowmajor idx lens :
  length idx = length lens -> dotN idx (gen_ravel_multipliers lens) = ravel idx lens.
Proof. intros H. rewrite gen_ravel_multipliers_ok. now apply dot_multipliers. Qed.

(* ---- get_at reads back what set_at wrote ---- *)
(* get_at with the same plan: the update position [snd pq] receives the target element [fst pq] *)
Definition read_back (t : list Z) (plan : list (N * N)) : list (N * Z) :=
  map (fun pq => (snd pq, nth (N.to_nat (fst pq)) t 0)) plan.

Lemma candidates_unique plan u pq :
  NoDup (map (fun pq => N.to_nat (fst pq)) plan) -> In pq plan ->
  candidates plan u (N.to_nat (fst pq)) = [getZ u (snd pq)].
Proof.
  induction plan as [|a l IH]; intros Hnd Hin; [contradiction|]. cbn [map] in Hnd. inversion Hnd as [|? ? Ha Hl]; subst.
  rewrite candidates_cons. destruct Hin as [->|Hin].
  - rewrite Nat.eqb_refl. f_equal. unfold candidates.
    assert (E : filter (fun pq0 => Nat.eqb (N.to_nat (fst pq0)) (N.to_nat (fst pq))) l = []).
    { clear IH Hl Hnd. revert Ha. induction l as [|b r IHr]; intros Ha; [reflexivity|]. cbn [filter].
      destruct (Nat.eqb (N.to_nat (fst b)) (N.to_nat (fst pq))) eqn:E.
      - exfalso. apply Ha. apply Nat.eqb_eq in E. rewrite <- E. cbn [map]. now left.
      - apply IHr. intros H. apply Ha. cbn [map]. now right. }
    now rewrite E.
  - destruct (Nat.eqb (N.to_nat (fst a)) (N.to_nat (fst pq))) eqn:E; [|now apply IH].
    exfalso. apply Ha. apply Nat.eqb_eq in E. rewrite E. apply in_map_iff. exists pq. split; [reflexivity|exact Hin].
Qed.

Theorem set_then_get_reads_back t u plan :
  (forall pq, In pq plan -> (N.to_nat (fst pq) < length t)%nat) ->
  NoDup (map (fun pq => N.to_nat (fst pq)) plan) ->
  read_back (apply_set t plan u) plan = map (fun pq => (snd pq, getZ u (snd pq))) plan.
Proof.
  intros Hb Hnd. unfold read_back. apply map_ext_in. intros pq Hin. f_equal.
  destruct (apply_set_member t u plan (N.to_nat (fst pq)) Hb) as [[Hnil _]|Hmem].
  - rewrite (candidates_unique plan u pq Hnd Hin) in Hnil. discriminate.
  - rewrite (candidates_unique plan u pq Hnd Hin) in Hmem. destruct Hmem as [E|[]]. now symmetry.
Qed.
