(* Reductions, end to end: given that the backend's reduction over axis= reduces what it is given over those positions (the
   one hypothesis), the modelled lowering holds at the position the output expression denotes the reduction of the operand's
   elements over all index combinations of the bracketed axes. *)
From Coq Require Import List NArith Arith Bool Lia.
From Coq Require Import String.
Close Scope string_scope.
From EinxV Require Import Spec.LoopSem Model.Opt Model.Lower Proofs.LoopSemProofs Proofs.OptProofs Proofs.LowerProofs Proofs.DotSum.
Import ListNotations.
Open Scope N_scope.

(* the coordinates at the positions [ax] *)
Fixpoint take_from {A} (i : nat) (ax : list nat) (l : list A) : list A :=
  match l with
  | [] => []
  | x :: r => if existsb (Nat.eqb i) ax then x :: take_from (S i) ax r else take_from (S i) ax r
  end.
Definition take_axes {A} (ax : list nat) (l : list A) : list A := take_from 0 ax l.

Lemma take_from_marks {B} (f : N * N * bool -> B) (L : list (N * N * bool)) : forall i ax,
  (forall k, (i <= k)%nat -> In k ax <-> nth (k - i) (map snd L) false = true) ->
  take_from i ax (map f L) = map f (filter (fun x => snd x) L).
Proof.
  induction L as [|x r IH]; intros i ax H; cbn [map take_from filter]; [reflexivity|].
  assert (E : existsb (Nat.eqb i) ax = snd x).
  { pose proof (H i (le_n i)) as Hi. rewrite Nat.sub_diag in Hi. cbn [map nth] in Hi.
    destruct (snd x) eqn:Sx.
    - apply existsb_exists. exists i. split; [now apply Hi|apply Nat.eqb_refl].
    - destruct (existsb (Nat.eqb i) ax) eqn:Ex; [|reflexivity]. apply existsb_exists in Ex as [k [Hk Ek]].
      apply Nat.eqb_eq in Ek. subst k. apply Hi in Hk. discriminate. }
  rewrite E.
  assert (Hr : forall k, (S i <= k)%nat -> In k ax <-> nth (k - S i) (map snd r) false = true).
  { intros k Hk. rewrite (H k) by lia. replace (k - i)%nat with (S (k - S i)) by lia. reflexivity. }
  destruct (snd x); [cbn [map]; f_equal|]; apply IH, Hr.
Qed.

(* the values a 0 .. a (n-1) *)
Definition tabulate {V} (n : N) (a : N -> V) : list V := map (fun k => a (N.of_nat k)) (seq 0 (N.to_nat n)).

Section ReduceFull.
  Variable V : Type.
  Variable inp : nat -> entries V.
  Variable F : String.string -> list (entries V) -> list String.string -> entries V.
  Variable BC : list N -> list N -> entries V -> entries V.
  Variable CC : nat -> list (list N * entries V) -> entries V.
  Variables (f : String.string) (din dout : list pex).
  Hypothesis Hok : reduce_ok din dout = true.

  (* the bracketed leaf axes *)
  Definition rl : list (N * N * bool) := filter (fun x => snd x) (leaves din).
  Definition rnames : list N := map nm rl.
  Definition rlens : list N := map ln rl.
  Definition JR : N := nprod rlens.
  Definition at_r (rho : env) (j : N) : env := ext rho rnames (unravel j rlens).

  Let Hnd : NoDup (map nm (leaves din)).
  Proof. unfold reduce_ok in Hok. apply andb_prop in Hok as [H _]. apply andb_prop in H as [_ H]. now apply nodupb_NoDup. Qed.
  Let Hndr : NoDup rnames. Proof. unfold rnames, rl. apply NoDup_map_filter. exact Hnd. Qed.

  Lemma rname_in n : In n rnames -> exists y, In y rl /\ nm y = n.
  Proof. unfold rnames. intros H. apply in_map_iff in H as [y [E Hy]]. eauto. Qed.

  Lemma coherent_r x : In x (leaves din) -> In (nm x) rnames -> In (nm x, ln x) (combine rnames rlens).
  Proof.
    intros Hx Hn. destruct (rname_in _ Hn) as [y [Hy E]]. assert (Hy1 : In y (leaves din)) by (unfold rl in Hy; apply filter_In in Hy; tauto).
    assert (x = y) as -> by (apply (nodup_leaf_inj (leaves din)); auto). apply in_combine_map. exact Hy.
  Qed.

  Lemma at_r_bounds rho j : j < JR -> in_bounds rho din -> in_bounds (at_r rho j) din.
  Proof. intros Hj B. apply in_bounds_ext; [exact B|exact Hndr|apply unravel_valid; exact Hj|exact coherent_r]. Qed.

  Lemma kept_not_reduced x : In x (filter (fun x => negb (snd x)) (leaves din)) -> ~ In (nm x) rnames.
  Proof.
    intros Hx Hn. apply filter_In in Hx as [Hx E]. destruct (rname_in _ Hn) as [y [Hy Ey]].
    unfold rl in Hy. apply filter_In in Hy as [Hy1 Hy2].
    assert (x = y) as -> by (apply (nodup_leaf_inj (leaves din)); auto). rewrite Hy2 in E. discriminate.
  Qed.

  (* the leaf coordinates of [at_r rho j]: the bracketed positions hold the j-th index combination, the others hold rho's *)
  Lemma take_at_r rho j : take_axes (reduce_axes din) (map (lookup (at_r rho j)) (lnames din)) = unravel j rlens.
  Proof.
    unfold take_axes, lnames. rewrite map_map, (take_from_marks _ (leaves din) 0 (reduce_axes din)).
    - fold rl. unfold at_r, rnames. rewrite <- (map_map nm (lookup (ext rho (map nm rl) (unravel j rlens)))).
      apply lookup_ext_names; [exact Hndr|]. rewrite unravel_length. unfold rlens. now rewrite !map_length.
    - intros k _. rewrite Nat.sub_0_r. apply reduce_axes_are_the_brackets.
  Qed.

  Lemma drop_at_r rho j : drop_axes (reduce_axes din) (map (lookup (at_r rho j)) (lnames din)) = map (lookup rho) (lnames (kept din)).
  Proof.
    rewrite (proj1 (reduce_drops_to_kept_coordinates din (at_r rho j))), kept_lnames, !map_map.
    apply map_ext_in. intros x Hx. apply lookup_ext_notin. exact (kept_not_reduced x Hx).
  Qed.

  (* the one assumption about the backend: a reduction over axis= that finds, for a tuple K of the remaining coordinates, an
     element for every index combination of the reduced positions returns the reduction of those elements at K *)
  Variable R : list V -> V.
  Hypothesis reduction_complete : forall (A : entries V) (K : list N) (T : N -> list N) (a : N -> V),
    (forall j, j < JR -> In (T j, a j) A /\ drop_axes (reduce_axes din) (T j) = K /\ take_axes (reduce_axes din) (T j) = unravel j rlens) ->
    In (K, R (tabulate JR a)) (F f [A] [axis_lit (reduce_axes din); "kw:axis"%string]).

  Variable X : env -> V.
  Hypothesis HX : forall rho, in_bounds rho din -> In (map (pidx rho) din, X rho) (inp 0%nat).

  Lemma kept_bounds rho : in_bounds rho din -> in_bounds rho (kept din).
  Proof.
    intros B x Hx. rewrite kept_leaves in Hx. apply in_map_iff in Hx as [y [<- Hy]]. apply filter_In in Hy as [Hy _]. cbn [fst snd]. exact (B y Hy).
  Qed.

  Theorem reduce_is_the_reduction_over_the_brackets rho :
    in_bounds rho din -> in_bounds rho dout ->
    In (map (pidx rho) dout, R (tabulate JR (fun j => X (at_r rho j)))) (meval V inp F BC CC (lower_reduce f din dout)).
  Proof.
    intros Bi Bo. apply (lower_reduce_correct V inp F BC CC f din dout Hok rho _ (kept_bounds rho Bi) Bo).
    unfold reduced. apply (reduction_complete _ _ (fun j => map (lookup (at_r rho j)) (lnames din))).
    intros j Hj. split; [|split; [apply drop_at_r|apply take_at_r]].
    apply (reduce_arg_is_the_leaf_view V inp F BC CC din dout Hok (at_r rho j) _ (at_r_bounds rho j Hj Bi)).
    apply HX, at_r_bounds; assumption.
  Qed.
End ReduceFull.
