(* Lemmas about the reference semantics: mixed-radix arithmetic and the fact that parentheses
   never change the flat position an environment denotes (C08 regrouping, C01 unflatten view). *)
From Coq Require Import List NArith ZArith Bool Lia.
From EinxV Require Import Spec.LoopSem.
Import ListNotations.
Open Scope N_scope.

Lemma nprod_nil : nprod [] = 1. Proof. reflexivity. Qed.
Lemma nprod_cons a l : nprod (a :: l) = a * nprod l. Proof. reflexivity. Qed.
Lemma ravel_cons i ir l lr : ravel (i :: ir) (l :: lr) = i * nprod lr + ravel ir lr. Proof. reflexivity. Qed.
Arguments N.mul : simpl never.
Arguments N.add : simpl never.

Lemma nprod_app l1 l2 : nprod (l1 ++ l2) = nprod l1 * nprod l2.
Proof. induction l1 as [|a l1 IH]; cbn [app]; [rewrite nprod_nil; lia|]. rewrite !nprod_cons, IH. lia. Qed.

(* mixed-radix associativity: the heart of "(a b) c" = "a (b c)" = "a b c" *)
Lemma ravel_app i1 l1 i2 l2 :
  length i1 = length l1 ->
  ravel (i1 ++ i2) (l1 ++ l2) = ravel i1 l1 * nprod l2 + ravel i2 l2.
Proof.
  revert l1; induction i1 as [|i i1 IH]; intros [|l l1] H; cbn [length app] in *; try discriminate.
  - cbn [ravel]. lia.
  - injection H as H. rewrite !ravel_cons, (IH _ H), nprod_app. lia.
Qed.

Lemma ravel_lt idx lens :
  Forall2 (fun i l => i < l) idx lens -> lens <> [] -> ravel idx lens < nprod lens.
Proof.
  intros H. induction H as [|i l idx lens Hil H IH]; intros Hne; [congruence|].
  rewrite ravel_cons, nprod_cons. destruct lens as [|l2 lens'].
  - inversion H; subst. cbn [ravel]. rewrite nprod_nil. lia.
  - assert (IH' := IH ltac:(congruence)). nia.
Qed.

Lemma ravel_le idx lens :
  Forall2 (fun i l => i < l) idx lens -> ravel idx lens < nprod lens \/ (lens = [] /\ ravel idx lens = 0).
Proof.
  intros H. destruct lens as [|l lens']; [right; inversion H; auto|left; apply ravel_lt; [exact H|congruence]].
Qed.

(* ---- offset-free pieces: the position is the ravel of the leaf indices ---- *)
Fixpoint offset_free (p : pex) : bool :=
  match p with
  | PAx _ _ _ => true
  | PFl cs => forallb offset_free cs
  | POff _ _ _ => false
  end.

Definition leaf_idx (rho : env) (p : pex) : list N := map (fun x => lookup rho (fst (fst x))) (pleaves p).
Definition leaf_len (p : pex) : list N := map (fun x => snd (fst x)) (pleaves p).

Lemma pex_ind' (P : pex -> Prop) :
  (forall n l m, P (PAx n l m)) ->
  (forall cs, Forall P cs -> P (PFl cs)) ->
  (forall o t i, P i -> P (POff o t i)) ->
  forall p, P p.
Proof.
  intros HA HF HO. fix IH 1. intros [n l m|cs|o t i].
  - apply HA.
  - apply HF. induction cs as [|c cs IHcs]; constructor; [apply IH|exact IHcs].
  - apply HO, IH.
Qed.

Lemma leaf_len_fl cs : leaf_len (PFl cs) = flat_map leaf_len cs.
Proof.
  unfold leaf_len. cbn [pleaves]. induction cs as [|c cs IH]; cbn [flat_map map]; [reflexivity|].
  now rewrite map_app, IH.
Qed.
Lemma leaf_idx_fl rho cs : leaf_idx rho (PFl cs) = flat_map (leaf_idx rho) cs.
Proof.
  unfold leaf_idx. cbn [pleaves]. induction cs as [|c cs IH]; cbn [flat_map map]; [reflexivity|].
  now rewrite map_app, IH.
Qed.

Lemma nprod_sizes cs :
  Forall (fun c => psize c = nprod (leaf_len c)) cs ->
  nprod (map psize cs) = nprod (flat_map leaf_len cs).
Proof.
  induction 1 as [|c cs Hc _ IH]; cbn [map flat_map]; [reflexivity|].
  now rewrite nprod_cons, nprod_app, Hc, IH.
Qed.

Lemma Forall_forallb_impl {A} (P : A -> Prop) (f : A -> bool) l :
  Forall (fun a => f a = true -> P a) l -> forallb f l = true -> Forall P l.
Proof.
  induction 1 as [|a l Ha _ IH]; cbn [forallb]; intros H; constructor;
    apply andb_prop in H as [H1 H2]; auto.
Qed.

Lemma psize_leaves p : offset_free p = true -> psize p = nprod (leaf_len p).
Proof.
  induction p as [n l m|cs IH|o t i IH] using pex_ind'; intros Hof; cbn [offset_free psize] in *; try discriminate.
  - unfold leaf_len; cbn [pleaves map fst snd]. rewrite nprod_cons, nprod_nil. lia.
  - rewrite leaf_len_fl. apply nprod_sizes. eapply Forall_forallb_impl; eassumption.
Qed.

Lemma leaf_idx_len rho p : length (leaf_idx rho p) = length (leaf_len p).
Proof. unfold leaf_idx, leaf_len. now rewrite !map_length. Qed.

Lemma ravel_children rho cs :
  Forall (fun c => pidx rho c = ravel (leaf_idx rho c) (leaf_len c)) cs ->
  Forall (fun c => psize c = nprod (leaf_len c)) cs ->
  ravel (map (pidx rho) cs) (map psize cs) = ravel (flat_map (leaf_idx rho) cs) (flat_map leaf_len cs).
Proof.
  induction 1 as [|c cs Hc _ IH]; intros Hs; cbn [map flat_map]; [reflexivity|].
  inversion Hs as [|? ? Hsc Hscs]; subst.
  rewrite ravel_cons, (ravel_app _ _ _ _ (leaf_idx_len rho c)), <- Hc, (IH Hscs), (nprod_sizes _ Hscs).
  reflexivity.
Qed.

(* parentheses are irrelevant for the flat position (any nesting depth) *)
Theorem pidx_leaves rho p :
  offset_free p = true -> pidx rho p = ravel (leaf_idx rho p) (leaf_len p).
Proof.
  induction p as [n l m|cs IH|o t i IH] using pex_ind'; intros Hof; cbn [offset_free pidx] in *; try discriminate.
  - unfold leaf_idx, leaf_len; cbn [pleaves map fst snd]. rewrite ravel_cons. cbn [ravel]. rewrite nprod_nil. lia.
  - rewrite leaf_idx_fl, leaf_len_fl. apply ravel_children.
    + eapply Forall_forallb_impl; eassumption.
    + rewrite forallb_forall in Hof. apply Forall_forall. intros c Hc. apply psize_leaves, Hof, Hc.
Qed.

Definition dims_leaf_idx (rho : env) (dims : list pex) : list N := flat_map (leaf_idx rho) dims.
Definition dims_leaf_len (dims : list pex) : list N := flat_map leaf_len dims.

Theorem pos_leaves rho dims :
  forallb offset_free dims = true ->
  pos rho dims = ravel (dims_leaf_idx rho dims) (dims_leaf_len dims).
Proof.
  intros Hof. rewrite forallb_forall in Hof. unfold pos, dims_leaf_idx, dims_leaf_len. apply ravel_children.
  - apply Forall_forall. intros c Hc. apply pidx_leaves, Hof, Hc.
  - apply Forall_forall. intros c Hc. apply psize_leaves, Hof, Hc.
Qed.

Lemma flat_map_map_pleaves {B} (f : N * N * bool -> B) dims :
  flat_map (fun p => map f (pleaves p)) dims = map f (flat_map pleaves dims).
Proof. induction dims as [|d dims IH]; cbn [flat_map map]; [reflexivity|]. now rewrite map_app, IH. Qed.

(* Corollary (C08, regrouping): two offset-free expressions with the same leaves denote the
   same position under every environment, however their axes are parenthesised. *)
Corollary regroup_invariant rho d1 d2 :
  forallb offset_free d1 = true -> forallb offset_free d2 = true ->
  flat_map pleaves d1 = flat_map pleaves d2 ->
  pos rho d1 = pos rho d2.
Proof.
  intros H1 H2 Hl. rewrite (pos_leaves rho d1 H1), (pos_leaves rho d2 H2).
  unfold dims_leaf_idx, dims_leaf_len, leaf_idx, leaf_len.
  now rewrite !flat_map_map_pleaves, Hl.
Qed.

(* ---- renaming axes consistently never moves an element (C08 renaming, C07 "a number is a fresh axis") ---- *)
Fixpoint prename (f : N -> N) (p : pex) : pex :=
  match p with
  | PAx n l m => PAx (f n) l m
  | PFl cs => PFl (map (prename f) cs)
  | POff o t i => POff o t (prename f i)
  end.
Definition erename (f : N -> N) (rho : env) : env := map (fun kv => (f (fst kv), snd kv)) rho.

Lemma lookup_rename f rho n : (forall a b, f a = f b -> a = b) -> lookup (erename f rho) (f n) = lookup rho n.
Proof.
  intros Hinj. induction rho as [|[k v] rho IH]; [reflexivity|]. cbn [erename map lookup fst snd].
  destruct (N.eqb_spec (f k) (f n)) as [E|E], (N.eqb_spec k n) as [E'|E']; try reflexivity.
  - apply Hinj in E. contradiction.
  - subst. contradiction.
  - exact IH.
Qed.

Lemma psize_rename f p : psize (prename f p) = psize p.
Proof.
  induction p as [n l m|cs IH|o t i IH] using pex_ind'; cbn [prename psize]; try reflexivity.
  f_equal. rewrite map_map. apply map_ext_in. intros c Hc. rewrite Forall_forall in IH. now apply IH.
Qed.

Lemma pidx_rename f rho p : (forall a b, f a = f b -> a = b) -> pidx (erename f rho) (prename f p) = pidx rho p.
Proof.
  intros Hinj. induction p as [n l m|cs IH|o t i IH] using pex_ind'; cbn [prename pidx].
  - now apply lookup_rename.
  - rewrite !map_map. f_equal.
    + apply map_ext_in. intros c Hc. rewrite Forall_forall in IH. now apply IH.
    + apply map_ext. intros c. apply psize_rename.
  - now rewrite IH.
Qed.

Theorem pos_rename f rho dims :
  (forall a b, f a = f b -> a = b) -> pos (erename f rho) (map (prename f) dims) = pos rho dims.
Proof.
  intros Hinj. unfold pos. rewrite !map_map. f_equal.
  - apply map_ext. intros c. now apply pidx_rename.
  - apply map_ext. intros c. apply psize_rename.
Qed.
