(* The registry state machine refines the specification [select]: whatever was looked up, imported,
   entered or left before, a lookup returns what [select] says for the backends that are available
   now, the current with-stack, the backend argument and the argument types. *)
From Coq Require Import List ZArith Bool Arith Lia Permutation.
From EinxV Require Import Model.Registry Proofs.RegistryProofs.
Import ListNotations.

(* ---------------------------------------------------------------- small facts *)
Lemma mem_nat_In n l : mem_nat n l = true <-> In n l.
Proof.
  unfold mem_nat. rewrite existsb_exists. split.
  - intros [x [Hx E]]. apply Nat.eqb_eq in E. now subst.
  - intros H. exists n. split; [exact H|apply Nat.eqb_refl].
Qed.
Lemma mem_nat_false n l : mem_nat n l = false <-> ~ In n l.
Proof. rewrite <- mem_nat_In. destruct (mem_nat n l); split; intros H; try congruence; try (exfalso; now apply H); discriminate. Qed.

Lemma uninit_find_add u m b m' :
  uninit_find (uninit_add u m b) m' = if Nat.eqb m m' then uninit_find u m' ++ [b] else uninit_find u m'.
Proof.
  induction u as [|[k l] r IH]; cbn [uninit_add uninit_find].
  - destruct (Nat.eqb m m'); reflexivity.
  - destruct (Nat.eqb k m) eqn:E1; cbn [uninit_find].
    + apply Nat.eqb_eq in E1. subst k. destruct (Nat.eqb m m'); reflexivity.
    + destruct (Nat.eqb k m') eqn:E2; [|exact IH].
      apply Nat.eqb_eq in E2. subst k. rewrite Nat.eqb_sym in E1. rewrite E1. reflexivity.
Qed.

Lemma uninit_find_del u m m' :
  uninit_find (uninit_del u m) m' = if Nat.eqb m m' then [] else uninit_find u m'.
Proof.
  induction u as [|[k l] r IH]; cbn [uninit_del uninit_find].
  - destruct (Nat.eqb m m'); reflexivity.
  - destruct (Nat.eqb k m) eqn:E1.
    + rewrite IH. apply Nat.eqb_eq in E1. subst k. destruct (Nat.eqb m m'); reflexivity.
    + cbn [uninit_find]. destruct (Nat.eqb k m') eqn:E2; [|exact IH].
      apply Nat.eqb_eq in E2. subst k. rewrite Nat.eqb_sym in E1. rewrite E1. reflexivity.
Qed.

Definition by_name (n : nat) (b : backend) : bool := Nat.eqb (bname b) n.

Lemma find_app {A} (p : A -> bool) l1 l2 : find p (l1 ++ l2) = match find p l1 with Some x => Some x | None => find p l2 end.
Proof. induction l1 as [|a l IH]; cbn [List.app find]; [reflexivity|]. destruct (p a); auto. Qed.

Lemma filter_filter_ext {A} (P Q Q' : A -> bool) l :
  (forall x, In x l -> P x = true -> Q x = Q' x) -> filter P (filter Q l) = filter P (filter Q' l).
Proof.
  induction l as [|a l IH]; intros H; [reflexivity|]. cbn [filter].
  assert (IH' := IH (fun x Hx => H x (or_intror Hx))).
  destruct (P a) eqn:Pa.
  - rewrite (H a (or_introl eq_refl) Pa). destruct (Q' a); cbn [filter]; rewrite ?Pa; congruence.
  - destruct (Q a), (Q' a); cbn [filter]; rewrite ?Pa; exact IH'.
Qed.

Lemma filter_or_perm {A} (p q : A -> bool) l :
  (forall x, In x l -> p x = true -> q x = false) ->
  Permutation (filter (fun x => p x || q x) l) (filter p l ++ filter q l).
Proof.
  induction l as [|a l IH]; intros H; [constructor|]. cbn [filter].
  assert (IH' := IH (fun x Hx => H x (or_intror Hx))).
  destruct (p a) eqn:Pa; cbn [orb].
  - rewrite (H a (or_introl eq_refl) Pa). cbn [List.app]. now constructor.
  - destruct (q a); [|exact IH']. apply Permutation_cons_app. exact IH'.
Qed.

Lemma filter_map_swap {A B} (f : A -> B) (p : B -> bool) l : filter p (map f l) = map f (filter (fun x => p (f x)) l).
Proof. induction l as [|a l IH]; [reflexivity|]. cbn [map filter]. destruct (p (f a)); cbn [map]; congruence. Qed.

Lemma ttype_eqb_eq a b : ttype_eqb a b = true -> a = b.
Proof.
  destruct a as [[x|]], b as [[y|]]; unfold ttype_eqb; cbn; intros H; try discriminate; [|reflexivity].
  apply Nat.eqb_eq in H. now subst.
Qed.
Lemma ttypes_eqb_eq a : forall b, ttypes_eqb a b = true -> a = b.
Proof.
  induction a as [|x r IH]; intros [|y s] H; cbn [ttypes_eqb] in H; try discriminate; [reflexivity|].
  apply andb_prop in H as [H1 H2]. f_equal; [now apply ttype_eqb_eq|now apply IH].
Qed.
Lemma ttype_eqb_refl a : ttype_eqb a a = true.
Proof. destruct a as [[x|]]; unfold ttype_eqb; cbn; [apply Nat.eqb_refl|reflexivity]. Qed.
Lemma ttypes_eqb_refl a : ttypes_eqb a a = true.
Proof. induction a as [|x r IH]; cbn [ttypes_eqb]; [reflexivity|]. now rewrite ttype_eqb_refl. Qed.

Definition name_entry (b : backend) : nat * backend := (bname b, b).

Lemma names_find_rev l n :
  NoDup (map bname l) -> names_find (rev (map name_entry l)) n = find (by_name n) l.
Proof.
  induction l as [|b l IH]; intros Hnd; [reflexivity|]. cbn [map rev find]. inversion Hnd as [|? ? Hb Hl]; subst.
  assert (Hsplit : forall l1 l2, names_find (l1 ++ l2) n = match names_find l1 n with Some x => Some x | None => names_find l2 n end).
  { induction l1 as [|[k x] l1 IH1]; intros l2; cbn [List.app names_find]; [reflexivity|]. destruct (Nat.eqb k n); auto. }
  rewrite Hsplit, (IH Hl). cbn [names_find name_entry]. unfold by_name at 2.
  destruct (Nat.eqb (bname b) n) eqn:E.
  - destruct (find (by_name n) l) as [x|] eqn:F; [|reflexivity]. exfalso. apply find_some in F as [Hin Hx].
    unfold by_name in Hx. apply Nat.eqb_eq in E, Hx. apply Hb. rewrite E, <- Hx. now apply in_map.
  - destruct (find (by_name n) l); reflexivity.
Qed.

(* ---------------------------------------------------------------- the declaration phase *)
Definition is_decl (o : rop) : bool := match o with RRegister _ | RRegisterOnImport _ _ => true | _ => false end.
Fixpoint eager_of (d : list rop) : list backend :=
  match d with [] => [] | RRegister b :: r => b :: eager_of r | _ :: r => eager_of r end.
Fixpoint lazy_of (d : list rop) : list (nat * backend) :=
  match d with [] => [] | RRegisterOnImport m b :: r => (m, b) :: lazy_of r | _ :: r => lazy_of r end.

Definition pending (l : list (nat * backend)) (m : nat) : list backend := map snd (filter (fun mb => Nat.eqb (fst mb) m) l).

Record DInv (mods0 : list nat) (e : list backend) (l : list (nat * backend)) (s : rstate) : Prop := {
  d_seen : seen s = [];
  d_memo : memo s = [];
  d_stack : stack s = [];
  d_b : Permutation (backends s) (e ++ map snd (filter (fun mb => mem_nat (fst mb) mods0) l));
  d_u : forall m, uninit_find (uninit s) m = if mem_nat m mods0 then [] else pending l m;
  d_n : names s = rev (map name_entry (backends s)) }.

Lemma DInv_init mods0 : DInv mods0 [] [] rinit.
Proof. constructor; cbn; auto. intros m. destruct (mem_nat m mods0); reflexivity. Qed.

Lemma set_backends_names s b : names s = rev (map name_entry (backends s)) ->
  names (set_backends s b) = rev (map name_entry (backends (set_backends s b))).
Proof. intros H. cbn [set_backends names backends]. rewrite map_app, rev_app_distr, H. reflexivity. Qed.

Lemma DInv_register mods0 e l s b : DInv mods0 e l s -> DInv mods0 (e ++ [b]) l (set_backends s b).
Proof.
  intros [H1 H2 H3 H4 H5 H6]. constructor; cbn [set_backends seen memo stack uninit]; auto.
  - cbn [backends]. rewrite <- app_assoc. eapply Permutation_trans; [apply Permutation_app_tail; exact H4|].
    rewrite <- app_assoc. apply Permutation_app_head. apply Permutation_app_comm.
  - now apply set_backends_names.
Qed.

Lemma DInv_register_on_import mods0 e l s m b :
  DInv mods0 e l s -> DInv mods0 e (l ++ [(m, b)]) (register_on_import mods0 s m b).
Proof.
  intros [H1 H2 H3 H4 H5 H6]. unfold register_on_import. destruct (mem_nat m mods0) eqn:Em.
  - constructor; cbn [set_backends seen memo stack uninit]; auto.
    + cbn [backends]. rewrite filter_app, map_app. cbn [filter fst]. rewrite Em. cbn [map snd].
      rewrite app_assoc. apply Permutation_app_tail. exact H4.
    + intros m'. rewrite H5. destruct (mem_nat m' mods0) eqn:Em'; [reflexivity|].
      unfold pending. rewrite filter_app, map_app. cbn [filter fst].
      destruct (Nat.eqb m m') eqn:E; [apply Nat.eqb_eq in E; congruence|]. cbn [map]. now rewrite app_nil_r.
    + now apply set_backends_names.
  - constructor; cbn [seen memo stack uninit backends names]; auto.
    + rewrite filter_app, map_app. cbn [filter fst]. rewrite Em. cbn [map]. now rewrite app_nil_r.
    + intros m'. rewrite uninit_find_add, H5. unfold pending. rewrite filter_app, map_app. cbn [filter fst].
      destruct (Nat.eqb m m') eqn:E.
      * apply Nat.eqb_eq in E. subst m'. rewrite Em. reflexivity.
      * cbn [map]. rewrite app_nil_r. reflexivity.
Qed.

Lemma decl_phase mods0 : forall decls e l s,
  forallb is_decl decls = true -> DInv mods0 e l s ->
  exists s', fst (run_history (mods0, s) decls) = (mods0, s') /\ DInv mods0 (e ++ eager_of decls) (l ++ lazy_of decls) s'.
Proof.
  induction decls as [|o r IH]; intros e l s Hd Hi.
  - exists s. cbn. rewrite !app_nil_r. auto.
  - cbn [forallb] in Hd. apply andb_prop in Hd as [Ho Hr]. destruct o; try discriminate Ho.
    + destruct (IH (e ++ [b]) l (set_backends s b) Hr (DInv_register _ _ _ _ _ Hi)) as [s' [E I]].
      exists s'. cbn [run_history step]. destruct (run_history (mods0, set_backends s b) r) as [st2 xs] eqn:Er. cbn [fst] in *.
      split; [exact E|]. cbn [eager_of lazy_of]. rewrite <- app_assoc in I. exact I.
    + destruct (IH e (l ++ [(m, b)]) (register_on_import mods0 s m b) Hr (DInv_register_on_import _ _ _ _ _ _ Hi)) as [s' [E I]].
      exists s'. cbn [run_history step]. destruct (run_history (mods0, register_on_import mods0 s m b) r) as [st2 xs] eqn:Er. cbn [fst] in *.
      split; [exact E|]. cbn [eager_of lazy_of]. rewrite <- app_assoc in I. exact I.
Qed.

(* ---------------------------------------------------------------- NoDup helpers *)
Lemma nodup_app_iff {A} (l1 l2 : list A) : NoDup (l1 ++ l2) <-> NoDup l1 /\ NoDup l2 /\ (forall x, In x l1 -> ~ In x l2).
Proof.
  induction l1 as [|a l IH]; cbn [List.app].
  - split; [intros H; repeat split; [constructor|exact H|intros x []]|tauto].
  - split.
    + intros H. inversion H as [|? ? Ha Hl]; subst. apply IH in Hl as [H1 [H2 H3]]. split; [|split; [exact H2|]].
      * constructor; [|exact H1]. intros Hin. apply Ha. apply in_or_app. now left.
      * intros x [<-|Hx]; [intros Hin; apply Ha; apply in_or_app; now right|now apply H3].
    + intros [H1 [H2 H3]]. inversion H1 as [|? ? Ha Hl]; subst. constructor.
      * intros Hin. apply in_app_or in Hin as [Hin|Hin]; [now apply Ha|]. apply (H3 a); [now left|exact Hin].
      * apply IH. split; [exact Hl|split; [exact H2|]]. intros x Hx. apply H3. now right.
Qed.

Lemma nodup_map_filter {A B} (f : A -> B) (q : A -> bool) l : NoDup (map f l) -> NoDup (map f (filter q l)).
Proof.
  induction l as [|a l IH]; intros H; [constructor|]. cbn [map] in H. inversion H as [|? ? Ha Hl]; subst. cbn [filter].
  destruct (q a); [|now apply IH]. cbn [map]. constructor; [|now apply IH].
  intros Hin. apply Ha. apply in_map_iff in Hin as [x [E Hx]]. apply filter_In in Hx as [Hx _]. rewrite <- E. now apply in_map.
Qed.

Lemma nodup_sub {A B C} (f : B -> C) (g : A -> B) (q : A -> bool) l1 l2 :
  NoDup (map f (l1 ++ map g l2)) -> NoDup (map f (l1 ++ map g (filter q l2))).
Proof.
  rewrite !map_app, !nodup_app_iff. intros [H1 [H2 H3]]. split; [exact H1|split].
  - rewrite map_map in *. now apply nodup_map_filter.
  - intros x Hx Hin. apply (H3 x Hx). rewrite map_map in *. apply in_map_iff in Hin as [y [E Hy]]. apply filter_In in Hy as [Hy _].
    apply in_map_iff. exists y. auto.
Qed.

Lemma nodup_map_inj {A B} (f : A -> B) l x y : NoDup (map f l) -> In x l -> In y l -> f x = f y -> x = y.
Proof.
  induction l as [|c l IH]; intros Hnd Hx Hy E; [contradiction|]. cbn [map] in Hnd. inversion Hnd as [|? ? Hc Hl]; subst.
  destruct Hx as [->|Hx], Hy as [->|Hy]; auto.
  - exfalso. apply Hc. rewrite E. now apply in_map.
  - exfalso. apply Hc. rewrite <- E. now apply in_map.
Qed.

Lemma nodup_of_map {A B} (f : A -> B) l : NoDup (map f l) -> NoDup l.
Proof.
  induction l as [|a l IH]; intros H; [constructor|]. cbn [map] in H. inversion H as [|? ? Ha Hl]; subst.
  constructor; [|now apply IH]. intros Hin. apply Ha. now apply in_map.
Qed.

(* ---------------------------------------------------------------- the operation phase *)
Section Refine.
  Variable mods0 : list nat.
  Variable eager : list backend.
  Variable lazy : list (nat * backend).
  Hypothesis Hnames : NoDup (map bname (eager ++ map snd lazy)).        (* distinctly named *)
  Hypothesis Hids : NoDup (map bid (eager ++ map snd lazy)).
  Hypothesis Hlazy_fw : forall m b, In (m, b) lazy -> bfw b = m.          (* a backend registered on import of m is m's *)
  Hypothesis Hsplit : forall b m b', In b eager -> In (m, b') lazy -> bfw b <> m.

  Definition A (S : list nat) : list backend := available S eager lazy.
  Definition reg (s : rstate) (m : nat) : bool := mem_nat m mods0 || mem_nat m (seen s).
  Definition Rg (s : rstate) : list backend := eager ++ map snd (filter (fun mb => reg s (fst mb)) lazy).
  Definition types_ok (mods : list nat) (tys : list ttype) : Prop := forall t m, In t tys -> tfw t = Some m -> In m mods.
  Definition synced (mods : list nat) (s : rstate) : Prop := forall m, In m mods -> reg s m = true.

  Record Inv (mods : list nat) (s : rstate) : Prop := {
    inv_b : Permutation (backends s) (Rg s);
    inv_u : forall m, uninit_find (uninit s) m = if reg s m then [] else pending lazy m;
    inv_n : names s = rev (map name_entry (backends s));
    inv_s : incl (seen s) mods;
    inv_0 : incl mods0 mods;
    inv_m : forall tys b, memo_find (memo s) tys = Some b -> types_ok mods tys /\ select (A mods) [] BNone tys = OBackend b }.

  Lemma A_names S : NoDup (map bname (A S)).
  Proof. unfold A, available. now apply nodup_sub. Qed.
  Lemma A_ids S : NoDup (map bid (A S)).
  Proof. unfold A, available. now apply nodup_sub. Qed.
  Lemma Rg_names s : NoDup (map bname (Rg s)).
  Proof. unfold Rg. now apply nodup_sub. Qed.

  Lemma Rg_in_A mods s : incl (seen s) mods -> incl mods0 mods -> incl (Rg s) (A mods).
  Proof.
    intros Hs H0 b Hb. unfold Rg, A, available in *. apply in_app_or in Hb as [Hb|Hb]; apply in_or_app; [now left|right].
    apply in_map_iff in Hb as [[m x] [E Hx]]. apply filter_In in Hx as [Hx Hr]. apply in_map_iff. exists (m, x). split; [exact E|].
    apply filter_In. split; [exact Hx|]. cbn [fst] in *. apply mem_nat_In. unfold reg in Hr. apply orb_prop in Hr as [Hr|Hr]; apply mem_nat_In in Hr; auto.
  Qed.

  Lemma Rg_synced mods s : incl (seen s) mods -> incl mods0 mods -> synced mods s -> Rg s = A mods.
  Proof.
    intros Hs H0 Hy. unfold Rg, A, available. f_equal. f_equal. apply filter_ext_in. intros [m x] _. cbn [fst].
    destruct (mem_nat m mods) eqn:E.
    - apply mem_nat_In in E. now apply Hy.
    - destruct (reg s m) eqn:Er; [|reflexivity]. exfalso. apply mem_nat_false in E. apply E.
      unfold reg in Er. apply orb_prop in Er as [Er|Er]; apply mem_nat_In in Er; auto.
  Qed.

  Lemma backends_names mods s : Inv mods s -> NoDup (map bname (backends s)).
  Proof. intros I. eapply Permutation_NoDup; [apply Permutation_map, Permutation_sym, (inv_b _ _ I)|apply Rg_names]. Qed.

  Lemma names_find_backends mods s n : Inv mods s -> names_find (names s) n = find (by_name n) (backends s).
  Proof. intros I. rewrite (inv_n _ _ I). apply names_find_rev. eapply backends_names; eauto. Qed.

  Lemma find_by_name_unique L b n : NoDup (map bname L) -> In b L -> by_name n b = true -> find (by_name n) L = Some b.
  Proof.
    intros Hnd Hin Hb. apply find_unique; auto. intros y Hy Hyn. unfold by_name in *. apply Nat.eqb_eq in Hb, Hyn.
    eapply nodup_map_inj; eauto. congruence.
  Qed.

  Lemma find_registered mods s n b : Inv mods s -> find (by_name n) (backends s) = Some b -> find (by_name n) (A mods) = Some b.
  Proof.
    intros I F. apply find_some in F as [Hin Hb]. apply find_by_name_unique; [apply A_names| |exact Hb].
    apply (Rg_in_A mods s (inv_s _ _ I) (inv_0 _ _ I)). eapply Permutation_in; [apply (inv_b _ _ I)|exact Hin].
  Qed.

  Lemma find_synced mods s n : Inv mods s -> synced mods s -> find (by_name n) (backends s) = find (by_name n) (A mods).
  Proof.
    intros I Hy. apply find_perm.
    - rewrite <- (Rg_synced mods s (inv_s _ _ I) (inv_0 _ _ I) Hy). apply (inv_b _ _ I).
    - intros x y Hx Hyy Px Py. unfold by_name in *. apply Nat.eqb_eq in Px, Py.
      eapply nodup_map_inj; [eapply backends_names; eauto| | |]; auto. congruence.
  Qed.

  (* ---- one module becomes seen: its pending factories run ---- *)
  Definition sync1 (st : rstate) (m : nat) : rstate :=
    let st1 := {| seen := m :: seen st; uninit := uninit st; backends := backends st; memo := memo st; names := names st; stack := stack st |} in
    let fs := uninit_find (uninit st1) m in
    let st2 := register_all st1 fs in
    {| seen := seen st2; uninit := uninit_del (uninit st2) m; backends := backends st2; memo := memo st2; names := names st2; stack := stack st2 |}.

  Lemma register_all_spec bs : forall s,
    seen (register_all s bs) = seen s /\ uninit (register_all s bs) = uninit s /\ memo (register_all s bs) = memo s /\
    stack (register_all s bs) = stack s /\ backends (register_all s bs) = backends s ++ bs /\
    (names s = rev (map name_entry (backends s)) -> names (register_all s bs) = rev (map name_entry (backends (register_all s bs)))).
  Proof.
    unfold register_all. induction bs as [|b r IH]; intros s; cbn [fold_left].
    - rewrite app_nil_r. repeat split; auto.
    - destruct (IH (set_backends s b)) as [H1 [H2 [H3 [H4 [H5 H6]]]]]. cbn [set_backends seen uninit memo stack backends] in *.
      repeat split; auto. + rewrite H5, <- app_assoc. reflexivity. + intros Hn. apply H6. now apply set_backends_names.
  Qed.

  Lemma reg_sync1 st m x : reg (sync1 st m) x = reg st x || Nat.eqb x m.
  Proof.
    unfold sync1. destruct (register_all_spec (uninit_find (uninit st) m)
      {| seen := m :: seen st; uninit := uninit st; backends := backends st; memo := memo st; names := names st; stack := stack st |}) as [H1 _].
    unfold reg. cbn [seen uninit] in *. rewrite H1. cbn [seen]. unfold mem_nat at 2. cbn [existsb]. fold (mem_nat x (seen st)).
    destruct (mem_nat x mods0), (Nat.eqb x m), (mem_nat x (seen st)); reflexivity.
  Qed.

  Lemma sync1_inv mods st m : Inv mods st -> In m mods ->
    Inv mods (sync1 st m) /\ stack (sync1 st m) = stack st /\ memo (sync1 st m) = memo st.
  Proof.
    intros I Hm. pose proof (reg_sync1 st m) as Hreg.
    set (st1 := {| seen := m :: seen st; uninit := uninit st; backends := backends st; memo := memo st; names := names st; stack := stack st |}) in *.
    destruct (register_all_spec (uninit_find (uninit st1) m) st1) as [H1 [H2 [H3 [H4 [H5 H6]]]]].
    assert (Hfs : uninit_find (uninit st1) m = if reg st m then [] else pending lazy m) by (cbn [st1 uninit]; apply (inv_u _ _ I)).
    split; [|split; [unfold sync1; fold st1; cbn [stack]; rewrite H4; reflexivity|unfold sync1; fold st1; cbn [memo]; rewrite H3; reflexivity]].
    constructor.
    - (* backends *)
      unfold sync1 at 1. fold st1. cbn [backends]. rewrite H5. cbn [st1 backends].
      unfold Rg. destruct (reg st m) eqn:Er.
      + rewrite Hfs, app_nil_r. eapply Permutation_trans; [apply (inv_b _ _ I)|]. unfold Rg.
        replace (filter (fun mb => reg (sync1 st m) (fst mb)) lazy) with (filter (fun mb => reg st (fst mb)) lazy); [apply Permutation_refl|].
        apply filter_ext. intros [k x]. cbn [fst]. rewrite Hreg. destruct (Nat.eqb k m) eqn:E; [|now rewrite orb_false_r].
        apply Nat.eqb_eq in E. subst k. rewrite Er. reflexivity.
      + rewrite Hfs. eapply Permutation_trans; [apply Permutation_app_tail, (inv_b _ _ I)|]. unfold Rg, pending.
        rewrite <- app_assoc. apply Permutation_app_head. rewrite <- map_app. apply Permutation_map. apply Permutation_sym.
        replace (filter (fun mb => reg (sync1 st m) (fst mb)) lazy) with (filter (fun mb => reg st (fst mb) || Nat.eqb (fst mb) m) lazy)
          by (apply filter_ext; intros [k x]; cbn [fst]; now rewrite Hreg).
        apply (filter_or_perm (fun mb => reg st (fst mb)) (fun mb => Nat.eqb (fst mb) m)).
        intros [k x] _ Hk. cbn [fst] in *. destruct (Nat.eqb k m) eqn:E; [|reflexivity]. apply Nat.eqb_eq in E. congruence.
    - (* uninit *)
      intros m'. unfold sync1 at 1. fold st1. cbn [uninit]. rewrite H2. cbn [st1 uninit]. rewrite uninit_find_del, Hreg, (inv_u _ _ I).
      rewrite (Nat.eqb_sym m' m). destruct (Nat.eqb m m'); [now rewrite orb_true_r|now rewrite orb_false_r].
    - (* names *)
      unfold sync1. fold st1. cbn [names backends]. apply H6. cbn [st1 names backends]. apply (inv_n _ _ I).
    - unfold sync1. fold st1. cbn [seen]. rewrite H1. cbn [st1 seen]. intros x [<-|Hx]; [exact Hm|now apply (inv_s _ _ I)].
    - apply (inv_0 _ _ I).
    - unfold sync1. fold st1. cbn [memo]. rewrite H3. cbn [st1 memo]. apply (inv_m _ _ I).
  Qed.

  Lemma sync_fold mods : forall new st, Inv mods st -> incl new mods ->
    let st' := fold_left sync1 new st in
    Inv mods st' /\ stack st' = stack st /\ memo st' = memo st /\ (forall x, reg st' x = reg st x || mem_nat x new).
  Proof.
    induction new as [|m r IH]; intros st I Hn; cbn [fold_left].
    - split; [exact I|split; [reflexivity|split; [reflexivity|]]]. intros x. unfold mem_nat. cbn. now rewrite orb_false_r.
    - destruct (sync1_inv mods st m I (Hn m (or_introl eq_refl))) as [I1 [S1 M1]].
      destruct (IH (sync1 st m) I1 (fun x Hx => Hn x (or_intror Hx))) as [I2 [S2 [M2 R2]]].
      split; [exact I2|split; [congruence|split; [congruence|]]]. intros x. rewrite R2, reg_sync1. unfold mem_nat at 2. cbn [existsb]. fold (mem_nat x r).
      now rewrite orb_assoc.
  Qed.

  (* _check_new_imports *)
  Lemma cni_spec mods s : Inv mods s ->
    let '(ch, s') := check_new_imports mods s in
    Inv mods s' /\ synced mods s' /\ stack s' = stack s /\ memo s' = memo s /\ (ch = false -> s' = s).
  Proof.
    intros I. unfold check_new_imports.
    change (fun (st : rstate) (m : nat) => _) with sync1.
    set (new := filter (fun m => negb (mem_nat m (seen s))) mods).
    assert (Hnew : incl new mods) by (intros x Hx; apply filter_In in Hx; tauto).
    destruct (sync_fold mods new s I Hnew) as [I' [S' [M' R']]].
    assert (Hsy : forall st', (forall x, reg st' x = reg s x || mem_nat x new) -> synced mods st').
    { intros st' Hr m Hm. rewrite Hr. destruct (mem_nat m (seen s)) eqn:E.
      - unfold reg. rewrite E. now rewrite orb_true_r.
      - replace (mem_nat m new) with true; [now rewrite orb_true_r|]. symmetry. apply mem_nat_In. apply filter_In. split; [exact Hm|now rewrite E]. }
    destruct new as [|n0 r] eqn:En.
    - split; [exact I|split; [|split; [reflexivity|split; [reflexivity|reflexivity]]]]. apply Hsy. intros x. unfold mem_nat. cbn. now rewrite orb_false_r.
    - split; [exact I'|split; [now apply Hsy|split; [exact S'|split; [exact M'|discriminate]]]].
  Qed.


  (* ---- lookup by name ---- *)
  Lemma get_by_name_spec mods s n : Inv mods s ->
    let '(l', s', ob) := get_by_name mods false s n in
    Inv mods s' /\ stack s' = stack s /\ memo s' = memo s /\ ob = find (by_name n) (A mods) /\ (l' = true -> synced mods s').
  Proof.
    intros I. unfold get_by_name. rewrite (names_find_backends mods s n I).
    destruct (find (by_name n) (backends s)) as [b|] eqn:F.
    - split; [exact I|split; [reflexivity|split; [reflexivity|split; [|discriminate]]]]. symmetry. eapply find_registered; eauto.
    - pose proof (cni_spec mods s I) as H. destruct (check_new_imports mods s) as [ch s1]. destruct H as [I1 [Y1 [S1 [M1 E1]]]].
      split; [exact I1|split; [exact S1|split; [exact M1|split; [|intros _; exact Y1]]]].
      destruct ch.
      + rewrite (names_find_backends mods s1 n I1). now apply find_synced.
      + rewrite (E1 eq_refl) in *. rewrite <- (find_synced mods s n I Y1). now rewrite F.
  Qed.

  (* ---- backends supporting one tensor type ---- *)
  Definition cand_of (mods : list nat) (t : ttype) (found : list backend) : Prop :=
    forall b, In b found <-> (In b (A mods) /\ accepts b t = true).

  Lemma supporting_complete mods s t x :
    Inv mods s -> In x (supporting s t) -> cand_of mods t (supporting s t).
  Proof.
    intros I Hx b. unfold supporting in *. rewrite filter_In. split.
    - intros [Hb Ha]. split; [|exact Ha]. apply (Rg_in_A mods s (inv_s _ _ I) (inv_0 _ _ I)). eapply Permutation_in; [apply (inv_b _ _ I)|exact Hb].
    - intros [Hb Ha]. split; [|exact Ha]. eapply Permutation_in; [apply Permutation_sym, (inv_b _ _ I)|].
      apply filter_In in Hx as [Hx Hxa]. apply (Permutation_in _ (inv_b _ _ I)) in Hx.
      unfold accepts in Ha, Hxa. apply andb_prop in Ha as [_ Ha]. apply andb_prop in Hxa as [_ Hxa].
      destruct (tfw t) as [m|]; [|discriminate]. apply Nat.eqb_eq in Ha, Hxa.
      unfold A, available, Rg in *. apply in_app_or in Hb as [Hb|Hb]; apply in_or_app; [now left|right].
      apply in_map_iff in Hb as [[mb b'] [Eb Hb]]. cbn [snd] in Eb. subst b'. apply filter_In in Hb as [Hb _].
      pose proof (Hlazy_fw mb b Hb) as Hfw.
      apply in_app_or in Hx as [Hx|Hx].
      + exfalso. apply (Hsplit x mb b Hx Hb). congruence.
      + apply in_map_iff in Hx as [[mx x'] [Ex Hx]]. cbn [snd] in Ex. subst x'. apply filter_In in Hx as [Hx Hrx]. cbn [fst] in Hrx.
        pose proof (Hlazy_fw mx x Hx) as Hfx. apply in_map_iff. exists (mb, b). split; [reflexivity|]. apply filter_In. split; [exact Hb|].
        cbn [fst]. replace mb with mx by congruence. exact Hrx.
  Qed.

  Lemma supporting_synced mods s t : Inv mods s -> synced mods s -> cand_of mods t (supporting s t).
  Proof.
    intros I Y b. unfold supporting. rewrite filter_In. rewrite <- (Rg_synced mods s (inv_s _ _ I) (inv_0 _ _ I) Y). split.
    - intros [Hb Ha]. split; [|exact Ha]. eapply Permutation_in; [apply (inv_b _ _ I)|exact Hb].
    - intros [Hb Ha]. split; [|exact Ha]. eapply Permutation_in; [apply Permutation_sym, (inv_b _ _ I)|exact Hb].
  Qed.

  Definition LInv (mods : list nat) (latch : bool) (s : rstate) : Prop := latch = true -> synced mods s.

  Lemma get_by_tensor_spec mods latch s t : Inv mods s -> LInv mods latch s ->
    let '(l', s', found) := get_by_tensor mods latch s t in
    Inv mods s' /\ LInv mods l' s' /\ stack s' = stack s /\ memo s' = memo s /\ cand_of mods t found.
  Proof.
    intros I L. unfold get_by_tensor. destruct (supporting s t) as [|x r] eqn:Es.
    - destruct latch.
      + split; [exact I|split; [exact L|split; [reflexivity|split; [reflexivity|]]]]. rewrite <- Es. apply supporting_synced; auto.
      + pose proof (cni_spec mods s I) as H. destruct (check_new_imports mods s) as [ch s1]. destruct H as [I1 [Y1 [S1 [M1 E1]]]].
        split; [exact I1|split; [intros _; exact Y1|split; [exact S1|split; [exact M1|]]]].
        destruct ch; [now apply supporting_synced|]. rewrite (E1 eq_refl) in *. rewrite <- Es. now apply supporting_synced.
    - split; [exact I|split; [exact L|split; [reflexivity|split; [reflexivity|]]]]. rewrite <- Es.
      apply (supporting_complete mods s t x I). rewrite Es. now left.
  Qed.

  (* ---- all tensor types of a call ---- *)
  Definition fold_tys (mods : list nat) :=
    fold_left (fun (acc : bool * rstate * list backend) (t : ttype) =>
                 let '(l, st, cs) := acc in let '(l', st', found) := get_by_tensor mods l st t in (l', st', cs ++ found)).

  Lemma fold_tys_spec mods : forall tys latch s cs done,
    Inv mods s -> LInv mods latch s ->
    (forall b, In b cs <-> (In b (A mods) /\ existsb (accepts b) done = true)) ->
    let '(l', s', cs') := fold_tys mods tys (latch, s, cs) in
    Inv mods s' /\ LInv mods l' s' /\ stack s' = stack s /\ memo s' = memo s /\
    (forall b, In b cs' <-> (In b (A mods) /\ existsb (accepts b) (done ++ tys) = true)).
  Proof.
    induction tys as [|t r IH]; intros latch s cs done I L Hcs; cbn [fold_tys fold_left].
    - rewrite app_nil_r. split; [exact I|split; [exact L|split; [reflexivity|split; [reflexivity|exact Hcs]]]].
    - pose proof (get_by_tensor_spec mods latch s t I L) as H. destruct (get_by_tensor mods latch s t) as [[l1 s1] found].
      destruct H as [I1 [L1 [S1 [M1 C1]]]].
      assert (Hcs1 : forall b, In b (cs ++ found) <-> (In b (A mods) /\ existsb (accepts b) (done ++ [t]) = true)).
      { intros b. rewrite in_app_iff, Hcs, (C1 b), existsb_app. cbn [existsb]. rewrite orb_false_r.
        split; [intros [[A1 B1]|[A1 B1]]; split; auto; rewrite ?B1, ?orb_true_r; auto|].
        intros [A1 B1]. apply orb_prop in B1 as [B1|B1]; auto. }
      specialize (IH l1 s1 (cs ++ found) (done ++ [t]) I1 L1 Hcs1). fold (fold_tys mods) in *.
      destruct (fold_tys mods r (l1, s1, cs ++ found)) as [[l2 s2] cs2]. destruct IH as [I2 [L2 [S2 [M2 C2]]]].
      split; [exact I2|split; [exact L2|split; [congruence|split; [congruence|]]]]. intros b. rewrite C2, <- app_assoc. reflexivity.
  Qed.

  (* ---- removing duplicates (by identifier) ---- *)
  Lemma dedup_b_spec : forall l acc,
    (forall x y, In x (l ++ acc) -> In y (l ++ acc) -> bid x = bid y -> x = y) -> NoDup acc ->
    NoDup (dedup_b l acc) /\ (forall b, In b (dedup_b l acc) <-> (In b l \/ In b acc)).
  Proof.
    induction l as [|a l IH]; intros acc Hinj Hnd; cbn [dedup_b].
    - split; [now apply NoDup_rev|]. intros b. rewrite <- in_rev. cbn [In]. tauto.
    - destruct (existsb (backend_eqb a) acc) eqn:E.
      + destruct (IH acc) as [N M]; [intros x y Hx Hy; apply Hinj; cbn [List.app]; now right|exact Hnd|].
        split; [exact N|]. intros b. rewrite M. apply existsb_exists in E as [c [Hc Ec]]. unfold backend_eqb in Ec. apply Nat.eqb_eq in Ec.
        assert (a = c) by (apply Hinj; [now left|right; apply in_or_app; now right|exact Ec]). subst c.
        cbn [In]. split; [tauto|]. intros [[<-|H]|H]; auto.
      + assert (Hna : ~ In a acc).
        { intros Hin. assert (existsb (backend_eqb a) acc = true); [|congruence]. apply existsb_exists. exists a. split; [exact Hin|apply Nat.eqb_refl]. }
        destruct (IH (a :: acc)) as [N M].
        * intros x y Hx Hy. apply Hinj; apply in_app_or in Hx, Hy; cbn [List.app]; destruct Hx as [Hx|[<-|Hx]], Hy as [Hy|[<-|Hy]];
            try (now left); right; apply in_or_app; auto.
        * now constructor.
        * split; [exact N|]. intros b. rewrite M. cbn [In]. tauto.
  Qed.


  (* ---- _get_by_tensors ---- *)
  Definition outcome_of (r : option (list backend)) : outcome :=
    match r with None => OValueError | Some [b] => OBackend b | Some _ => OResolutionError end.

  Definition with_memo (s : rstate) (tys : list ttype) (b : backend) : rstate :=
    {| seen := seen s; uninit := uninit s; backends := backends s; memo := (tys, b) :: memo s; names := names s; stack := stack s |}.

  Lemma memo_add_inv mods s tys b :
    Inv mods s -> types_ok mods tys -> select (A mods) [] BNone tys = OBackend b -> Inv mods (with_memo s tys b).
  Proof.
    intros I Ht Hs. constructor; try exact (inv_b _ _ I); try exact (inv_u _ _ I); try exact (inv_n _ _ I); try exact (inv_s _ _ I); try exact (inv_0 _ _ I).
    intros tys' b'. cbn [with_memo memo memo_find]. destruct (ttypes_eqb tys tys') eqn:E.
    - apply ttypes_eqb_eq in E. subst tys'. intros H. injection H as <-. auto.
    - apply (inv_m _ _ I).
  Qed.

  Lemma cands_perm mods tys cs :
    (forall b, In b cs <-> (In b (A mods) /\ existsb (accepts b) tys = true)) ->
    Permutation (dedup_b cs []) (filter (fun b => existsb (accepts b) tys) (A mods)).
  Proof.
    intros H. destruct (dedup_b_spec cs []) as [N M]; [|constructor|].
    - intros x y Hx Hy E. rewrite app_nil_r in *. apply H in Hx as [Hx _]. apply H in Hy as [Hy _].
      eapply nodup_map_inj; [apply (A_ids mods)| | |]; eauto.
    - apply NoDup_Permutation; [exact N|apply NoDup_filter; eapply nodup_of_map; apply (A_ids mods)|].
      intros b. rewrite M, filter_In, H. cbn [In]. tauto.
  Qed.

  Lemma keep_max_single_perm l l' : Permutation l l' ->
    match keep_max l with [b] => keep_max l' = [b] | _ => forall b, keep_max l' <> [b] end.
  Proof.
    intros HP. pose proof (keep_max_perm l l' HP) as HK. destruct (keep_max l) as [|x [|y r]] eqn:E.
    - apply Permutation_nil in HK. rewrite HK. discriminate.
    - now apply Permutation_length_1_inv in HK.
    - intros b Hb. rewrite Hb in HK. apply Permutation_length in HK. cbn in HK. lia.
  Qed.

  Lemma get_by_tensors_spec mods s tys : Inv mods s -> types_ok mods tys ->
    let '(s', r) := get_by_tensors mods false s tys in
    Inv mods s' /\ stack s' = stack s /\ outcome_of r = select (A mods) [] BNone tys.
  Proof.
    intros I Ht. unfold get_by_tensors. destruct (memo_find (memo s) tys) as [b|] eqn:Em.
    - split; [exact I|split; [reflexivity|]]. destruct (inv_m _ _ I tys b Em) as [_ Hs]. now rewrite Hs.
    - change (fold_left _ tys (false, s, [])) with (fold_tys mods tys (false, s, [])).
      pose proof (fold_tys_spec mods tys false s [] [] I ltac:(intros H; discriminate H)
                    ltac:(intros b; cbn; split; [intros []|intros [_ H]; discriminate H])) as HF.
      destruct (fold_tys mods tys (false, s, [])) as [[l1 s1] cands]. destruct HF as [I1 [L1 [S1 [M1 C1]]]]. cbn [List.app] in C1.
      cbn [select]. destruct (forallb is_scalar tys) eqn:Esc.
      + (* scalars only: the backend named numpy *)
        pose proof (get_by_name_spec mods s1 numpy_name I1) as HN.
        destruct (get_by_name mods false s1 numpy_name) as [[l2 s2] ob]. destruct HN as [I2 [S2 [M2 [E2 _]]]].
        change (fun b : backend => Nat.eqb (bname b) numpy_name) with (by_name numpy_name). rewrite <- E2.
        destruct ob as [b|].
        * cbn [keep_max]. split; [|split; [cbn [with_memo stack]; congruence|reflexivity]].
          apply (memo_add_inv mods s2 tys b I2 Ht). cbn [select]. rewrite Esc.
          change (fun b : backend => Nat.eqb (bname b) numpy_name) with (by_name numpy_name). now rewrite <- E2.
        * split; [exact I2|split; [congruence|reflexivity]].
      + (* candidates: the highest priority among the backends accepting an argument *)
        pose proof (keep_max_single_perm _ _ (cands_perm mods tys cands C1)) as HK.
        destruct (keep_max (dedup_b cands [])) as [|x [|y r]] eqn:Ek.
        * split; [exact I1|split; [exact S1|]]. cbn [outcome_of].
          destruct (keep_max (filter (fun b => existsb (accepts b) tys) (A mods))) as [|x' [|y' r']] eqn:Ek'; try reflexivity.
          exfalso. now apply (HK x').
        * rewrite HK. split; [|split; [cbn [stack]; exact S1|reflexivity]].
          apply (memo_add_inv mods s1 tys x I1 Ht). cbn [select]. rewrite Esc, HK. reflexivity.
        * split; [exact I1|split; [exact S1|]]. cbn [outcome_of].
          destruct (keep_max (filter (fun b => existsb (accepts b) tys) (A mods))) as [|x' [|y' r']] eqn:Ek'; try reflexivity.
          exfalso. now apply (HK x').
  Qed.


  (* ---- _get ---- *)
  Lemma get_spec mods s a tys : Inv mods s -> types_ok mods tys ->
    let '(s', o) := get mods s a tys in
    Inv mods s' /\ stack s' = stack s /\ o = select (A mods) (stack s) a tys.
  Proof.
    intros I Ht. unfold get, select.
    assert (Hname : forall n, let '(_, s1, ob) := get_by_name mods false s n in
                              Inv mods s1 /\ stack s1 = stack s /\
                              match ob with Some b => OBackend b | None => OValueError end =
                              match find (fun b => Nat.eqb (bname b) n) (A mods) with Some b => OBackend b | None => OValueError end).
    { intros n. pose proof (get_by_name_spec mods s n I) as H. destruct (get_by_name mods false s n) as [[l1 s1] ob].
      destruct H as [I1 [S1 [_ [E1 _]]]]. split; [exact I1|split; [exact S1|]]. rewrite E1. reflexivity. }
    assert (Htens : let '(s1, r) := get_by_tensors mods false s tys in
                    Inv mods s1 /\ stack s1 = stack s /\
                    match r with None => OValueError | Some [b] => OBackend b | Some _ => OResolutionError end = select (A mods) [] BNone tys).
    { pose proof (get_by_tensors_spec mods s tys I Ht) as H. destruct (get_by_tensors mods false s tys) as [s1 r]. exact H. }
    destruct a as [|n|b|].
    - destruct (stack s) as [|top rest] eqn:Es; [|split; [exact I|split; [first [exact Es|reflexivity]|reflexivity]]].
      destruct (get_by_tensors mods false s tys) as [s1 r]. destruct Htens as [I1 [S1 E1]]. split; [exact I1|split; [congruence|exact E1]].
    - specialize (Hname n). destruct (get_by_name mods false s n) as [[l1 s1] ob]. exact Hname.
    - split; [exact I|split; reflexivity].
    - split; [exact I|split; reflexivity].
  Qed.

  (* ---- importing a module does not disturb what is memoised ---- *)
  Lemma A_mono mods mods' : incl mods mods' -> incl (A mods) (A mods').
  Proof.
    intros H b Hb. unfold A, available in *. apply in_app_or in Hb as [Hb|Hb]; apply in_or_app; [now left|right].
    apply in_map_iff in Hb as [[m x] [E Hx]]. apply filter_In in Hx as [Hx Hm]. apply in_map_iff. exists (m, x). split; [exact E|].
    apply filter_In. split; [exact Hx|]. cbn [fst] in *. apply mem_nat_In. apply H. now apply mem_nat_In.
  Qed.

  Lemma select_stable mods mods' tys b : incl mods mods' -> types_ok mods tys ->
    select (A mods) [] BNone tys = OBackend b -> select (A mods') [] BNone tys = OBackend b.
  Proof.
    intros Hi Ht. cbn [select]. destruct (forallb is_scalar tys).
    - change (fun b0 : backend => Nat.eqb (bname b0) numpy_name) with (by_name numpy_name).
      destruct (find (by_name numpy_name) (A mods)) as [x|] eqn:F; [|discriminate]. intros H. injection H as ->.
      apply find_some in F as [Hin Hb]. rewrite (find_by_name_unique (A mods') b numpy_name (A_names mods') (A_mono _ _ Hi b Hin) Hb). reflexivity.
    - replace (filter (fun b0 => existsb (accepts b0) tys) (A mods')) with (filter (fun b0 => existsb (accepts b0) tys) (A mods)); [auto|].
      unfold A, available. rewrite !filter_app. f_equal. rewrite !filter_map_swap. f_equal. apply filter_filter_ext.
      intros [m x] Hx Hp. cbn [fst snd] in *. apply existsb_exists in Hp as [t [Ht1 Ha]]. unfold accepts in Ha. apply andb_prop in Ha as [_ Ha].
      destruct (tfw t) as [mt|] eqn:Et; [|discriminate]. apply Nat.eqb_eq in Ha. pose proof (Hlazy_fw m x Hx) as Hfw.
      assert (Hm : In m mods) by (apply (Ht t mt Ht1) in Et; congruence).
      transitivity true; [now apply mem_nat_In|symmetry; now apply mem_nat_In, Hi].
  Qed.

  Lemma Inv_mono mods mods' s : incl mods mods' -> Inv mods s -> Inv mods' s.
  Proof.
    intros Hi I. constructor; try exact (inv_b _ _ I); try exact (inv_u _ _ I); try exact (inv_n _ _ I).
    - intros x Hx. apply Hi. now apply (inv_s _ _ I).
    - intros x Hx. apply Hi. now apply (inv_0 _ _ I).
    - intros tys b Hm. destruct (inv_m _ _ I tys b Hm) as [Ht Hs]. split.
      + intros t m Ht1 Et. apply Hi. eapply Ht; eauto.
      + eapply select_stable; eauto.
  Qed.

  (* ---- the specification as a machine: imported modules and with-stack only ---- *)
  Definition spec_step (st : list nat * list backend) (o : rop) : (list nat * list backend) * rres :=
    let '(mods, stk) := st in
    match o with
    | RImport m => ((if mem_nat m mods then mods else mods ++ [m], stk), ResNone)
    | RLookup a tys => ((mods, stk), ResOutcome (select (A mods) stk a tys))
    | REnter b => ((mods, b :: stk), ResNone)
    | RExit ob =>
      match stk with
      | top :: r => if match ob with Some b => backend_eqb top b | None => true end then ((mods, r), ResNone) else ((mods, stk), ResAssert)
      | [] => ((mods, stk), ResAssert)
      end
    | _ => (st, ResNone)
    end.
  Fixpoint spec_run (st : list nat * list backend) (h : list rop) : list rres :=
    match h with [] => [] | o :: r => let '(st1, x) := spec_step st o in x :: spec_run st1 r end.

  Definition op_ok (mods : list nat) (o : rop) : Prop :=
    match o with RLookup _ tys => types_ok mods tys | RRegister _ | RRegisterOnImport _ _ => False | _ => True end.
  Fixpoint ops_ok (mods : list nat) (h : list rop) : Prop :=
    match h with [] => True | o :: r => op_ok mods o /\ ops_ok (fst (fst (spec_step (mods, []) o))) r end.

  Lemma step_sim mods s o : Inv mods s -> op_ok mods o ->
    let '((mods1, s1), r) := step (mods, s) o in
    let '((mods2, stk2), r2) := spec_step (mods, stack s) o in
    mods1 = mods2 /\ stack s1 = stk2 /\ r = r2 /\ Inv mods1 s1 /\ mods2 = fst (fst (spec_step (mods, []) o)).
  Proof.
    intros I Ho. destruct o as [b|m b|m|a tys|b|ob]; cbn [step spec_step op_ok] in *; try contradiction.
    - (* import *)
      split; [reflexivity|split; [reflexivity|split; [reflexivity|split; [|reflexivity]]]].
      destruct (mem_nat m mods); [exact I|]. eapply Inv_mono; [|exact I]. intros x Hx. apply in_or_app. now left.
    - (* lookup *)
      pose proof (get_spec mods s a tys I Ho) as H. destruct (get mods s a tys) as [s1 r]. destruct H as [I1 [S1 E1]].
      split; [reflexivity|split; [destruct r; auto|split; [now rewrite E1|split; [destruct r; auto|reflexivity]]]].
    - (* enter *)
      split; [reflexivity|split; [reflexivity|split; [reflexivity|split; [|reflexivity]]]].
      constructor; try exact (inv_b _ _ I); try exact (inv_u _ _ I); try exact (inv_n _ _ I); try exact (inv_s _ _ I); try exact (inv_0 _ _ I); exact (inv_m _ _ I).
    - (* exit *)
      destruct (stack s) as [|top rest] eqn:Es; [split; [reflexivity|split; [exact Es|split; [reflexivity|split; [exact I|reflexivity]]]]|].
      destruct (match ob with Some b => backend_eqb top b | None => true end);
        [|split; [reflexivity|split; [exact Es|split; [reflexivity|split; [exact I|reflexivity]]]]].
      split; [reflexivity|split; [reflexivity|split; [reflexivity|split; [|reflexivity]]]].
      constructor; try exact (inv_b _ _ I); try exact (inv_u _ _ I); try exact (inv_n _ _ I); try exact (inv_s _ _ I); try exact (inv_0 _ _ I); exact (inv_m _ _ I).
  Qed.

  Lemma spec_step_mods mods stk o : fst (fst (spec_step (mods, stk) o)) = fst (fst (spec_step (mods, []) o)).
  Proof. destruct o as [b|m b|m|a tys|b|ob]; cbn [spec_step fst]; try reflexivity. destruct stk as [|top r]; [reflexivity|]. destruct (match ob with Some b => _ | None => _ end); reflexivity. Qed.

  Lemma run_sim : forall ops mods s, Inv mods s -> ops_ok mods ops ->
    snd (run_history (mods, s) ops) = spec_run (mods, stack s) ops.
  Proof.
    induction ops as [|o r IH]; intros mods s I Hok; [reflexivity|]. cbn [ops_ok] in Hok. destruct Hok as [Ho Hr].
    cbn [run_history spec_run]. pose proof (step_sim mods s o I Ho) as H.
    destruct (step (mods, s) o) as [[mods1 s1] x]. destruct (spec_step (mods, stack s) o) as [[mods2 stk2] x2].
    destruct H as [E1 [E2 [E3 [I1 E4]]]]. subst mods2 x2. rewrite <- E4 in Hr.
    specialize (IH mods1 s1 I1 Hr). destruct (run_history (mods1, s1) r) as [st2 xs]. cbn [snd] in *. rewrite IH, E2. reflexivity.
  Qed.

  Lemma DInv_Inv s : DInv mods0 eager lazy s -> Inv mods0 s /\ stack s = [].
  Proof.
    intros [H1 H2 H3 H4 H5 H6]. split; [|exact H3].
    assert (Hr : forall m, reg s m = mem_nat m mods0) by (intros m; unfold reg; rewrite H1; cbn; now rewrite orb_false_r).
    constructor.
    - unfold Rg. replace (filter (fun mb => reg s (fst mb)) lazy) with (filter (fun mb => mem_nat (fst mb) mods0) lazy); [exact H4|].
      apply filter_ext. intros [m x]. now rewrite Hr.
    - intros m. rewrite Hr. apply H5.
    - exact H6.
    - rewrite H1. intros x [].
    - apply incl_refl.
    - intros tys b. rewrite H2. discriminate.
  Qed.

End Refine.

(* ---------------------------------------------------------------- the whole history *)
Lemma run_history_app : forall h1 h2 st,
  run_history st (h1 ++ h2) =
  let '(st1, xs) := run_history st h1 in let '(st2, ys) := run_history st1 h2 in (st2, xs ++ ys).
Proof.
  induction h1 as [|o r IH]; intros h2 st; cbn [List.app run_history].
  - destruct (run_history st h2). reflexivity.
  - destruct (step st o) as [st1 x]. rewrite IH. destruct (run_history st1 r) as [st2 xs]. destruct (run_history st2 h2). reflexivity.
Qed.

Lemma decl_results : forall decls st, forallb is_decl decls = true -> snd (run_history st decls) = map (fun _ => ResNone) decls.
Proof.
  induction decls as [|o r IH]; intros st H; [reflexivity|]. cbn [forallb] in H. apply andb_prop in H as [Ho Hr].
  cbn [run_history map]. destruct st as [mods s]. destruct o; try discriminate Ho; cbn [step];
    match goal with |- context [run_history ?st1 r] => specialize (IH st1 Hr); destruct (run_history st1 r); cbn [snd] in *; now rewrite IH end.
Qed.

(* Backends are declared first (eagerly or on import of a module, with whatever modules are imported at that time); then, for
   EVERY sequence of module imports, with-blocks and lookups, each lookup returns [select] of what is available at that moment. *)
Theorem registry_refines_select : forall mods0 decls ops,
  forallb is_decl decls = true ->
  let eager := eager_of decls in
  let lazy := lazy_of decls in
  NoDup (map bname (eager ++ map snd lazy)) ->
  NoDup (map bid (eager ++ map snd lazy)) ->
  (forall m b, In (m, b) lazy -> bfw b = m) ->
  (forall b m b', In b eager -> In (m, b') lazy -> bfw b <> m) ->
  ops_ok eager lazy mods0 ops ->
  snd (run_history (mods0, rinit) (decls ++ ops)) =
  map (fun _ => ResNone) decls ++ spec_run eager lazy (mods0, []) ops.
Proof.
  intros mods0 decls ops Hd eager lazy Hn Hi Hf Hs Hok.
  destruct (decl_phase mods0 decls [] [] rinit Hd (DInv_init mods0)) as [s1 [E1 D1]]. cbn [List.app] in D1.
  rewrite run_history_app. pose proof (decl_results decls (mods0, rinit) Hd) as Hr.
  destruct (run_history (mods0, rinit) decls) as [st1 xs]. cbn [fst snd] in *. subst st1 xs.
  destruct (DInv_Inv mods0 eager lazy s1 D1) as [I1 S1].
  pose proof (run_sim mods0 eager lazy Hn Hi Hf Hs ops mods0 s1 I1 Hok) as H.
  destruct (run_history (mods0, s1) ops) as [st2 ys]. cbn [snd] in *. rewrite H, S1. reflexivity.
Qed.
