(* Properties of the specification [select]: the chosen backend does not depend on the order in
   which backends were declared. *)
From Coq Require Import List ZArith Bool Arith Lia Permutation.
From EinxV Require Import Model.Registry.
Import ListNotations.

(* ---- find by a predicate that at most one element satisfies ---- *)
Lemma find_some_in {A} (p : A -> bool) l x : find p l = Some x -> In x l /\ p x = true.
Proof. apply find_some. Qed.

Lemma find_unique {A} (p : A -> bool) l x :
  In x l -> p x = true -> (forall y, In y l -> p y = true -> y = x) -> find p l = Some x.
Proof.
  induction l as [|a l IH]; intros Hin Hp Hu; [contradiction|]. cbn [find].
  destruct (p a) eqn:Ea.
  - f_equal. apply Hu; [now left|exact Ea].
  - destruct Hin as [->|Hin]; [congruence|]. apply IH; auto. intros y Hy. apply Hu. now right.
Qed.

Lemma find_none_iff {A} (p : A -> bool) l : find p l = None <-> forall y, In y l -> p y = false.
Proof.
  split.
  - intros H y Hy. eapply find_none; eauto.
  - induction l as [|a l IH]; intros H; [reflexivity|]. cbn [find]. rewrite (H a) by now left. apply IH. intros y Hy. apply H. now right.
Qed.

Lemma find_perm {A} (p : A -> bool) l l' :
  Permutation l l' -> (forall x y, In x l -> In y l -> p x = true -> p y = true -> x = y) -> find p l = find p l'.
Proof.
  intros HP Hu. destruct (find p l) as [x|] eqn:E.
  - apply find_some in E as [Hin Hp]. symmetry. apply find_unique; [eapply Permutation_in; eauto|exact Hp|].
    intros y Hy Hpy. apply Hu; auto. eapply Permutation_in; [apply Permutation_sym; exact HP|exact Hy].
  - symmetry. apply find_none_iff. intros y Hy. eapply find_none; [exact E|]. eapply Permutation_in; [apply Permutation_sym; exact HP|exact Hy].
Qed.

(* ---- the priority filter ---- *)
Definition is_max (l : list backend) (m : Z) : Prop :=
  (forall b, In b l -> (bprio b <= m)%Z) /\ exists b, In b l /\ bprio b = m.

Lemma max_prio_is_max l : l <> [] -> is_max l (max_prio l).
Proof.
  destruct l as [|b0 l]; [congruence|]. intros _. unfold max_prio.
  assert (H : forall (init : Z) l', 
             (forall b, In b l' -> (bprio b <= fold_right (fun b m => Z.max (bprio b) m) init l')%Z)
             /\ (init <= fold_right (fun b m => Z.max (bprio b) m) init l')%Z
             /\ (fold_right (fun b m => Z.max (bprio b) m) init l' = init \/ exists b, In b l' /\ bprio b = fold_right (fun b m => Z.max (bprio b) m) init l')).
  { intros init l'. induction l' as [|a l' [IH1 [IH2 IH3]]]; cbn [fold_right].
    - split; [intros b []|]. split; [lia|now left].
    - split; [|split].
      + intros b [->|Hb]; [lia|]. specialize (IH1 b Hb). lia.
      + lia.
      + destruct (Z.max_spec (bprio a) (fold_right (fun b m => Z.max (bprio b) m) init l')) as [[_ ->]|[_ ->]].
        * destruct IH3 as [->|[b [Hb Eb]]]; [now left|right; exists b; split; [now right|exact Eb]].
        * right. exists a. split; [now left|reflexivity]. }
  destruct (H (bprio b0) (b0 :: l)) as [H1 [H2 H3]]. split; [exact H1|].
  destruct H3 as [->|H3]; [exists b0; split; [now left|reflexivity]|exact H3].
Qed.

Lemma is_max_unique l m m' : is_max l m -> is_max l m' -> m = m'.
Proof. intros [A [b [Hb Eb]]] [A' [b' [Hb' Eb']]]. specialize (A b' Hb'). specialize (A' b Hb). lia. Qed.

Lemma is_max_perm l l' m : Permutation l l' -> is_max l m -> is_max l' m.
Proof.
  intros HP [A [b [Hb Eb]]]. split.
  - intros c Hc. apply A. eapply Permutation_in; [apply Permutation_sym; exact HP|exact Hc].
  - exists b. split; [eapply Permutation_in; eauto|exact Eb].
Qed.

Lemma max_prio_perm l l' : Permutation l l' -> l <> [] -> max_prio l = max_prio l'.
Proof.
  intros HP Hne. assert (Hne' : l' <> []) by (intros ->; apply Permutation_sym, Permutation_nil in HP; congruence).
  eapply is_max_unique; [apply max_prio_is_max; exact Hne|]. eapply is_max_perm; [apply Permutation_sym; exact HP|]. now apply max_prio_is_max.
Qed.

Lemma filter_perm {A} (p : A -> bool) l l' : Permutation l l' -> Permutation (filter p l) (filter p l').
Proof.
  induction 1 as [|a l l' _ IH|a b l|l l' l'' _ IH1 _ IH2]; cbn [filter].
  - constructor.
  - destruct (p a); [now constructor|exact IH].
  - destruct (p a), (p b); [apply perm_swap|apply Permutation_refl|apply Permutation_refl|apply Permutation_refl].
  - eapply Permutation_trans; eauto.
Qed.

Lemma keep_max_perm l l' : Permutation l l' -> Permutation (keep_max l) (keep_max l').
Proof.
  intros HP. pose proof (Permutation_length HP) as HL.
  destruct l as [|a [|b l]]; destruct l' as [|a' [|b' l']]; cbn [length] in HL; try discriminate; cbn [keep_max]; try exact HP.
  rewrite (max_prio_perm _ _ HP) by discriminate. apply filter_perm, HP.
Qed.

Lemma singleton_perm {A} (x : A) l l' : Permutation l l' -> l = [x] -> l' = [x].
Proof. intros HP ->. now apply Permutation_length_1_inv. Qed.

Lemma nodup_name_inj l x y : NoDup (map bname l) -> In x l -> In y l -> bname x = bname y -> x = y.
Proof.
  induction l as [|c l IH]; intros Hnd Hx Hy E; [contradiction|]. cbn [map] in Hnd. inversion Hnd as [|? ? Hc Hl]; subst.
  destruct Hx as [->|Hx], Hy as [->|Hy]; auto.
  - exfalso. apply Hc. rewrite E. now apply in_map.
  - exfalso. apply Hc. rewrite <- E. now apply in_map.
Qed.

(* The choice is a function of the *set* of declared backends: any two declaration orders of
   backends with pairwise distinct names select the same backend (or the same error). *)
Theorem select_order_independent avail avail' stack a tys :
  Permutation avail avail' -> NoDup (map bname avail) ->
  select avail stack a tys = select avail' stack a tys.
Proof.
  intros HP Hnd.
  assert (Hname : forall n, find (fun b => Nat.eqb (bname b) n) avail = find (fun b => Nat.eqb (bname b) n) avail').
  { intros n. apply find_perm; [exact HP|]. intros x y Hx Hy Ex Ey. apply Nat.eqb_eq in Ex. apply Nat.eqb_eq in Ey.
    eapply nodup_name_inj; eauto. congruence. }
  unfold select. destruct a as [|n|b|]; auto.
  - destruct stack; auto. destruct (forallb is_scalar tys); [now rewrite Hname|].
    pose proof (keep_max_perm _ _ (filter_perm (fun b => existsb (accepts b) tys) _ _ HP)) as HK.
    destruct (keep_max (filter (fun b => existsb (accepts b) tys) avail)) as [|x [|y r]] eqn:E.
    + apply Permutation_nil in HK. now rewrite HK.
    + apply Permutation_length_1_inv in HK. now rewrite HK.
    + pose proof (Permutation_length HK) as HL. cbn [length] in HL.
      destruct (keep_max (filter (fun b => existsb (accepts b) tys) avail')) as [|x' [|y' r']]; cbn [length] in HL; try discriminate; reflexivity.
  - now rewrite Hname.
Qed.
