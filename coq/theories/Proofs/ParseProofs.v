(* The parser model never fails internally and every error position lies inside the caller's
   string (einx/_src/namedtensor/stage1/parse.py; the SyntaxError constructor asserts exactly this). *)
From Coq Require Import List NArith ZArith Bool Lia.
From EinxV Require Import Model.Parse.
Import ListNotations.
Open Scope Z_scope.

Section Len.
  Variable n : Z.                      (* length of the description string *)
  Hypothesis Hn0 : 0 <= n.

  Definition inr (p : Z) : Prop := 0 <= p < n.
  Definition tokok (t : token) : Prop := 0 <= tbeg t /\ tbeg t < tend t /\ tend t <= n.

  Lemma range_in b e p : In p (range b e) -> b <= p < e.
  Proof.
    unfold range. intros H. apply in_map_iff in H as [i [<- Hi]]. apply in_seq in Hi. lia.
  Qed.
  Lemma range_inr b e : 0 <= b -> e <= n -> Forall inr (range b e).
  Proof. intros Hb He. apply Forall_forall. intros p Hp. apply range_in in Hp. unfold inr. lia. Qed.
  Lemma range_empty b e : e <= b -> range b e = [].
  Proof. intros H. unfold range. replace (Z.to_nat (e - b)) with 0%nat by lia. reflexivity. Qed.

  (* ---------------------------------------------------------------- lexer *)
  Lemma flush_ok run pos : 0 <= pos - Z.of_nat (length run) -> pos <= n -> Forall tokok (flush run pos).
  Proof.
    intros H1 H2. destruct run as [|c r]; cbn [flush]; [constructor|]. constructor; [|constructor].
    unfold tokok; cbn [tbeg tend]. cbn [length] in *. lia.
  Qed.

  Lemma lex_ok : forall k cs pos run,
    (length cs <= k)%nat -> 0 <= pos - Z.of_nat (length run) -> pos + Z.of_nat (length cs) = n ->
    Forall tokok (lex cs pos run).
  Proof.
    induction k as [|k IH]; intros cs pos run Hk Hrun Hn.
    - destruct cs; [|cbn in Hk; lia]. cbn [lex]. apply flush_ok; cbn [length] in Hn; lia.
    - destruct cs as [|c r]; [cbn [lex]; apply flush_ok; cbn [length] in Hn; lia|].
      cbn [length] in Hk, Hn.
      assert (Hpush : Forall tokok (lex r (pos + 1) (c :: run))).
      { apply IH; cbn [length]; lia. }
      assert (Hone : forall l, Forall tokok (flush run pos ++ mkTok pos (pos + 1) (TLit l) :: lex r (pos + 1) [])).
      { intros l. apply Forall_app. split; [apply flush_ok; lia|]. constructor; [unfold tokok; cbn; lia|]. apply IH; cbn [length]; lia. }
      cbn [lex].
      repeat match goal with
             | |- Forall tokok (match ?x with _ => _ end) => destruct x; try exact Hpush; try apply Hone
             end.
      + (* "->" *)
        cbn [length] in *. apply Forall_app. split; [apply flush_ok; lia|]. constructor; [unfold tokok; cbn; lia|]. apply IH; cbn [length]; lia.
      + (* "..." *)
        cbn [length] in *. apply Forall_app. split; [apply flush_ok; lia|]. constructor; [unfold tokok; cbn; lia|]. apply IH; cbn [length]; lia.
  Qed.

  Lemma first_bad_none ts : first_bad ts = None -> Forall (fun t => match tk t with TBad _ => False | _ => True end) ts.
  Proof.
    induction ts as [|t r IH]; intros H; [constructor|]. cbn [first_bad] in H. destruct (tk t) eqn:E; try discriminate; constructor; auto; now rewrite E.
  Qed.
  Lemma first_bad_some ts t : first_bad ts = Some t -> In t ts.
  Proof.
    induction ts as [|a r IH]; intros H; [discriminate|]. cbn [first_bad] in H. destruct (tk a); try (right; now apply IH). injection H as <-. now left.
  Qed.

  Lemma dedupe_sub ts : forall b t, In t (dedupe ts b) -> In t ts.
  Proof.
    induction ts as [|a r IH]; intros b t H; [contradiction|]. cbn [dedupe] in H.
    destruct (is_space a); [destruct b|]; try (destruct H as [<-|H]; [now left|right; eauto]); right; eauto.
  Qed.

  (* ---------------------------------------------------------------- grouping *)
  Definition plain (t : token) : Prop :=                 (* a token that may appear outside delimiters in a tree *)
    tokok t /\ match tk t with
               | TBad _ | TLit LOpenP | TLit LOpenB | TLit LCloseP | TLit LCloseB => False
               | _ => True
               end.

  Inductive ttok : ttree -> Prop :=
  | ttok_T t : plain t -> ttok (TT t)
  | ttok_G p o c inner : tokok o -> tokok c -> Forall ttok inner -> ttok (TG p o c inner).

  Definition good {A} (P : A -> Prop) (r : result A) : Prop :=
    match r with Ok a => P a | Err _ pos => Forall inr pos | Internal _ => False end.

  Definition stackok (st : list (bool * token * list ttree)) : Prop :=
    Forall (fun e => tokok (snd (fst e)) /\ Forall ttok (snd e)) st.

  Lemma group_good ts : forall st cur,
    Forall (fun t => tokok t /\ match tk t with TBad _ => False | _ => True end) ts ->
    stackok st -> Forall ttok cur -> good (Forall ttok) (group ts st cur).
  Proof.
    induction ts as [|t r IH]; intros st cur Hts Hst Hcur; cbn [group].
    - destruct st as [|[[p o] outer] st'].
      + cbn [good]. now apply Forall_rev.
      + cbn [good]. inversion Hst as [|? ? [Ho _] _]; subst. cbn [fst snd] in Ho. destruct Ho as [A [B C]]. apply range_inr; lia.
    - inversion Hts as [|? ? [Htok Hnb] Hr]; subst.
      assert (Hrange : Forall inr (range (tbeg t) (tend t))) by (destruct Htok as [A [B C]]; apply range_inr; lia).
      destruct (tk t) as [l|cs|cs|cs] eqn:Ek; try contradiction.
      + destruct l; try (apply IH; auto; constructor; auto; constructor; split; [exact Htok|now rewrite Ek]).
        * (* ( *) apply IH; auto. constructor; [split; [exact Htok|exact Hcur]|exact Hst].
        * (* [ *) apply IH; auto. constructor; [split; [exact Htok|exact Hcur]|exact Hst].
        * (* ) *)
          destruct st as [|[[p o] outer] st']; [exact Hrange|]. destruct p; [|exact Hrange].
          inversion Hst as [|? ? [Ho Hout] Hst']; subst. cbn [fst snd] in *.
          apply IH; auto. constructor; [|exact Hout]. constructor; auto. now apply Forall_rev.
        * (* ] *)
          destruct st as [|[[p o] outer] st']; [exact Hrange|]. destruct p; [exact Hrange|].
          inversion Hst as [|? ? [Ho Hout] Hst']; subst. cbn [fst snd] in *.
          apply IH; auto. constructor; [|exact Hout]. constructor; auto. now apply Forall_rev.
      + apply IH; auto. constructor; auto. constructor. split; [exact Htok|now rewrite Ek].
      + apply IH; auto. constructor; auto. constructor. split; [exact Htok|now rewrite Ek].
  Qed.

  (* ---------------------------------------------------------------- expressions *)
  Definition okpos (b e : Z) : Prop := (0 <= b /\ e <= n) \/ e <= b.
  Definition leafy (x : expr) : bool := match x with EArgs _ _ _ | EOp _ _ _ => false | _ => true end.
  Definition is_op (x : expr) : bool := match x with EOp _ _ _ => true | _ => false end.

  Fixpoint W (x : expr) : Prop :=
    okpos (ebeg x) (eend x) /\
    match x with
    | EAxis _ _ _ _ => True
    | EList cs _ _ => (fix all (l : list expr) : Prop := match l with [] => True | c :: r => W c /\ all r end) cs /\ forallb leafy cs = true
    | EFlat i _ _ => W i
    | ECat cs _ _ => (fix all (l : list expr) : Prop := match l with [] => True | c :: r => W c /\ all r end) cs
                     /\ forallb is_axis_or_flat cs = true /\ (2 <= length cs)%nat
    | EBr i b e => W i /\ inr b /\ inr (e - 1)
    | EEll i _ _ _ => W i /\ leafy i = true
    | EArgs cs _ _ => (fix all (l : list expr) : Prop := match l with [] => True | c :: r => W c /\ all r end) cs /\ forallb leafy cs = true
    | EOp cs _ _ => (fix all (l : list expr) : Prop := match l with [] => True | c :: r => W c /\ all r end) cs /\ cs <> []
    end.
  Definition Wl : list expr -> Prop := fix all (l : list expr) : Prop := match l with [] => True | c :: r => W c /\ all r end.
  Lemma Wl_Forall l : Wl l <-> Forall W l.
  Proof. induction l as [|c l IH]; cbn; split; intros H; try constructor; try tauto; try (fold (Wl l) in *; tauto); inversion H; subst; fold (Wl l); tauto. Qed.

  Lemma W_okpos x : W x -> okpos (ebeg x) (eend x).
  Proof. destruct x; cbn [W]; tauto. Qed.

  Lemma okpos_range b e : okpos b e -> Forall inr (range b e).
  Proof. intros [[A B]|C]; [now apply range_inr|rewrite range_empty by exact C; constructor]. Qed.

  Lemma W_empty : W empty_list /\ leafy empty_list = true.
  Proof. unfold empty_list. cbn. repeat split; auto. right; lia. Qed.

  Lemma leafy_axis_or_flat x : is_axis_or_flat x = true -> leafy x = true.
  Proof. destruct x; cbn; congruence. Qed.
  Lemma ndim1_axis_or_flat x : is_axis_or_flat x = true -> ndim1 x = true.
  Proof. destruct x; cbn; congruence. Qed.

  (* the normalising constructors *)
  Lemma flat_create_W i b e : W i -> okpos b e -> W (flat_create i b e) /\ is_axis_or_flat (flat_create i b e) = true.
  Proof. intros Hi Hp. destruct i; cbn [flat_create]; cbn [W ebeg eend is_axis_or_flat]; auto. Qed.

  Lemma br_create_W i b e : W i -> okpos b e -> inr b -> inr (e - 1) -> W (br_create i b e) /\ leafy (br_create i b e) = true.
  Proof.
    intros Hi Hp Hb He. destruct i; cbn [br_create]; try (destruct (ndim0 _); [exact W_empty|]); cbn [W ebeg eend leafy]; auto.
  Qed.

  Lemma ell_create_W i b e id : W i -> leafy i = true -> okpos b e -> W (ell_create i b e id) /\ leafy (ell_create i b e id) = true.
  Proof. intros Hi Hl Hp. unfold ell_create. destruct (ndim0 i); [exact W_empty|]. cbn [W ebeg eend leafy]. auto. Qed.

  Lemma flatten1_W x : W x -> leafy x = true -> Forall (fun c => W c /\ leafy c = true) (list_flatten1 x).
  Proof.
    intros Hx Hl. destruct x; cbn [list_flatten1]; try (constructor; [split; assumption|constructor]).
    cbn [W] in Hx. destruct Hx as [_ [Hcs Hlf]]. change (Wl cs) in Hcs. rewrite Wl_Forall in Hcs. rewrite forallb_forall in Hlf.
    apply Forall_forall. intros c Hc. split; [rewrite Forall_forall in Hcs; auto|auto].
  Qed.

  Lemma list_create_W cs b e :
    Forall (fun c => W c /\ leafy c = true) cs -> okpos b e -> W (list_create cs b e) /\ leafy (list_create cs b e) = true.
  Proof.
    intros Hcs Hp. unfold list_create.
    assert (Hf : Forall (fun c => W c /\ leafy c = true) (flat_map list_flatten1 cs)).
    { induction Hcs as [|c l [Hc Hl] _ IH]; cbn [flat_map]; [constructor|]. apply Forall_app. split; [now apply flatten1_W|exact IH]. }
    destruct (flat_map list_flatten1 cs) as [|x [|y r]] eqn:E.
    - cbn. repeat split; auto.
    - inversion Hf; subst. tauto.
    - cbn [W ebeg eend leafy]. split; [|reflexivity]. split; [exact Hp|]. split.
      + change (Wl (x :: y :: r)). rewrite Wl_Forall. eapply Forall_impl; [|exact Hf]. intros a [A _]; exact A.
      + apply forallb_forall. intros a Ha. rewrite Forall_forall in Hf. apply Hf in Ha. tauto.
  Qed.

  Lemma cat_create_good cs b e :
    Forall (fun c => W c /\ is_axis_or_flat c = true) cs -> (2 <= length cs)%nat -> okpos b e ->
    good (fun x => W x /\ leafy x = true) (cat_create cs b e).
  Proof.
    intros Hcs Hlen Hp. unfold cat_create. destruct cs as [|x [|y r]]; cbn [length] in Hlen; try lia.
    assert (Hn : forallb ndim1 (x :: y :: r) = true).
    { apply forallb_forall. intros a Ha. rewrite Forall_forall in Hcs. apply ndim1_axis_or_flat. now apply Hcs. }
    rewrite Hn. cbn [good W ebeg eend leafy]. split; [|reflexivity]. split; [exact Hp|]. split; [|split; [|cbn [length]; lia]].
    - change (Wl (x :: y :: r)). rewrite Wl_Forall. eapply Forall_impl; [|exact Hcs]. intros a [A _]; exact A.
    - apply forallb_forall. intros a Ha. rewrite Forall_forall in Hcs. now apply Hcs.
  Qed.

  Lemma sequence_good {A} (P : A -> Prop) (l : list (result A)) :
    Forall (good P) l -> good (Forall P) (sequence l).
  Proof.
    induction 1 as [|r l Hr _ IH]; cbn [sequence]; [constructor|].
    destruct r as [a|s p|s]; cbn [bind good] in *; try assumption.
    destruct (sequence l) as [rs|s p|s]; cbn [bind good] in *; try assumption. now constructor.
  Qed.

  (* ---------------------------------------------------------------- items and the recursive descent *)
  Definition Pl (x : expr) : Prop := W x /\ leafy x = true.

  Inductive itemok : item -> Prop :=
  | iok_T t : plain t -> itemok (ITok t)
  | iok_G b e r : 0 <= b -> b <= n -> 0 <= e -> e <= n -> good Pl r -> itemok (IGrp b e r).

  Lemma item_bounds i : itemok i -> 0 <= ibeg i <= n /\ 0 <= iend i <= n.
  Proof. intros [t [[A [B C]] _]|b e r H1 H2 H3 H4 _]; cbn [ibeg iend]; lia. Qed.

  Lemma strip_front_sub is i : In i (strip_front is) -> In i is.
  Proof. induction is as [|a r IH]; cbn [strip_front]; [auto|]. destruct (item_is LSpace a); [intros H; right; auto|auto]. Qed.
  Lemma strip_sub is i : In i (strip is) -> In i is.
  Proof. unfold strip. intros H. apply in_rev, strip_front_sub, in_rev, strip_front_sub in H. exact H. Qed.
  Lemma strip_ok is : Forall itemok is -> Forall itemok (strip is).
  Proof. intros H. apply Forall_forall. intros i Hi. rewrite Forall_forall in H. apply H, strip_sub, Hi. Qed.

  Lemma tl_end_bounds is b : Forall itemok is -> 0 <= b <= n -> 0 <= tl_end is b <= n.
  Proof.
    intros H Hb. unfold tl_end. destruct (rev is) as [|i r] eqn:E; [exact Hb|].
    assert (Hi : In i is) by (apply in_rev; rewrite E; now left). rewrite Forall_forall in H. apply item_bounds, H, Hi.
  Qed.

  Lemma split_at_ok l : forall is cur lse,
    Forall itemok is -> Forall itemok cur -> 0 <= lse <= n ->
    Forall (fun o => Forall itemok (fst o) /\ 0 <= snd o <= n) (split_at l is cur lse).
  Proof.
    induction is as [|i r IH]; intros cur lse His Hcur Hlse; cbn [split_at].
    - constructor; [|constructor]. cbn [fst snd]. split; [now apply Forall_rev|].
      destruct (rev cur) as [|j q] eqn:E; [exact Hlse|]. assert (In j cur) by (apply in_rev; rewrite E; now left).
      rewrite Forall_forall in Hcur. apply item_bounds; auto.
    - inversion His as [|? ? Hi Hr]; subst. destruct (item_is l i).
      + constructor.
        * cbn [fst snd]. split; [now apply Forall_rev|]. destruct (rev cur) as [|j q] eqn:E; [apply item_bounds; exact Hi|].
          assert (In j cur) by (apply in_rev; rewrite E; now left). rewrite Forall_forall in Hcur. apply item_bounds; auto.
        * apply IH; auto. apply item_bounds; exact Hi.
      + apply IH; auto.
  Qed.
  Lemma split_at_nonempty l : forall is cur lse, (1 <= length (split_at l is cur lse))%nat.
  Proof. induction is as [|i r IH]; intros cur lse; cbn [split_at]; [cbn; lia|]. destruct (item_is l i); [cbn [length]; lia|apply IH]. Qed.
  Lemma split_at_length l : forall is cur lse, existsb (item_is l) is = true -> (2 <= length (split_at l is cur lse))%nat.
  Proof.
    induction is as [|i r IH]; intros cur lse H; cbn [existsb] in H; [discriminate|]. cbn [split_at].
    destruct (item_is l i) eqn:E.
    - cbn [length]. pose proof (split_at_nonempty l r [] (iend i)). lia.
    - cbn [orb] in H. now apply IH.
  Qed.

  Definition opfree (i : item) : Prop := forall l, In l nary_ops -> item_is l i = false.

  Lemma atom1_good i : itemok i -> opfree i -> good Pl (atom1 i).
  Proof.
    intros [t [[A [B C]] Hk]|b e r Hb1 Hb2 He1 He2 Hr] Hfree; cbn [atom1]; [|exact Hr].
    destruct (tk t) as [l|cs|cs|cs] eqn:Ek; try contradiction.
    - destruct l; try contradiction.
      + exfalso. specialize (Hfree LArrow ltac:(cbn; tauto)). cbn [item_is] in Hfree. rewrite Ek in Hfree. discriminate.
      + exfalso. specialize (Hfree LComma ltac:(cbn; tauto)). cbn [item_is] in Hfree. rewrite Ek in Hfree. discriminate.
      + exfalso. specialize (Hfree LPlus ltac:(cbn; tauto)). cbn [item_is] in Hfree. rewrite Ek in Hfree. discriminate.
      + exfalso. specialize (Hfree LSpace ltac:(cbn; tauto)). cbn [item_is] in Hfree. rewrite Ek in Hfree. discriminate.
      + (* "..." alone *) cbn [good]. apply ell_create_W; [cbn [W ebeg eend]; split; [right; lia|exact I]|reflexivity|left; lia].
    - cbn [good Pl W ebeg eend leafy]. split; [|reflexivity]. split; [left; split; [exact A|exact C]|exact I].
    - cbn [good Pl W ebeg eend leafy]. split; [|reflexivity]. split; [left; split; [exact A|exact C]|exact I].
  Qed.

  Lemma parse_atoms_good is : Forall itemok is -> Forall opfree is -> is <> [] -> good Pl (parse_atoms is).
  Proof.
    intros H Hf Hne. destruct is as [|i [|j r]]; [congruence| |].
    - inversion H; subst. inversion Hf; subst. now apply atom1_good.
    - inversion H as [|? ? Hi Hr]; subst. inversion Hr as [|? ? Hj Hr']; subst. inversion Hf as [|? ? Hfi _]; subst.
      pose proof (item_bounds _ Hi) as Bi. pose proof (item_bounds _ Hj) as Bj.
      cbn [parse_atoms]. destruct r as [|k r].
      + destruct (item_is LDots j).
        * pose proof (atom1_good _ Hi Hfi) as Ha. destruct (atom1 i) as [x|s p|s]; cbn [bind good] in *; auto.
          destruct Ha as [Ha1 Ha2]. apply ell_create_W; [exact Ha1|exact Ha2|left; lia].
        * cbn [good]. apply range_inr; lia.
      + cbn [good]. apply range_inr; [lia|]. apply tl_end_bounds; [exact H|lia].
  Qed.

  (* what the result of parsing with the remaining operators [ops] can be *)
  Definition has (l : lit) (ops : list lit) : bool := existsb (lit_eqb l) ops.
  Definition cls (ops : list lit) (x : expr) : Prop :=
    W x /\ (has LArrow ops = false -> is_op x = false) /\ (has LArrow ops = false -> has LComma ops = false -> leafy x = true).

  Inductive sfx : list lit -> Prop :=
  | sfx0 : sfx [] | sfx1 : sfx [LSpace] | sfx2 : sfx [LPlus; LSpace] | sfx3 : sfx [LComma; LPlus; LSpace] | sfx4 : sfx [LArrow; LComma; LPlus; LSpace].

  Lemma Pl_cls ops x : Pl x -> cls ops x.
  Proof. intros [A B]. repeat split; auto. destruct x; cbn in *; congruence. Qed.
  Lemma cls_weaken op ops x : cls ops x -> cls (op :: ops) x.
  Proof.
    intros [A [B C]]. split; [exact A|]. unfold has in *. cbn [existsb]. split.
    - intros H. apply orb_false_elim in H as [_ H]. auto.
    - intros H1 H2. apply orb_false_elim in H1 as [_ H1]. apply orb_false_elim in H2 as [_ H2]. auto.
  Qed.

  Lemma good_impl {A} (P Q : A -> Prop) r : (forall a, P a -> Q a) -> good P r -> good Q r.
  Proof. destruct r; cbn; auto. Qed.

  Definition freeops (ops : list lit) (is : list item) : Prop :=
    forall l, In l nary_ops -> has l ops = false -> Forall (fun i => item_is l i = false) is.

  Lemma freeops_incl ops is is' : incl is' is -> freeops ops is -> freeops ops is'.
  Proof.
    intros Hi Hf l Hl Hh. specialize (Hf l Hl Hh). apply Forall_forall. intros i Hin. rewrite Forall_forall in Hf. apply Hf, Hi, Hin.
  Qed.

  Lemma split_at_free l : forall is cur lse,
    Forall (fun i => item_is l i = false) cur ->
    Forall (fun o => Forall (fun i => item_is l i = false) (fst o) /\ incl (fst o) (cur ++ is)) (split_at l is cur lse).
  Proof.
    induction is as [|i r IH]; intros cur lse Hcur; cbn [split_at].
    - constructor; [|constructor]. cbn [fst]. split; [now apply Forall_rev|]. intros x Hx. apply in_or_app. left. now apply in_rev.
    - destruct (item_is l i) eqn:E.
      + constructor.
        * cbn [fst]. split; [now apply Forall_rev|]. intros x Hx. apply in_or_app. left. now apply in_rev.
        * specialize (IH [] (iend i) (Forall_nil _)). eapply Forall_impl; [|exact IH]. intros o [A B]. split; [exact A|].
          intros x Hx. apply B in Hx. cbn [app] in Hx. apply in_or_app. right. now right.
      + specialize (IH (i :: cur) lse ltac:(constructor; assumption)). eapply Forall_impl; [|exact IH]. intros o [A B]. split; [exact A|].
        intros x Hx. apply B in Hx. apply in_app_or in Hx as [Hx|Hx]; apply in_or_app; [destruct Hx as [<-|Hx]; [right; now left|now left]|right; now right].
  Qed.

  Lemma has_cons l op rest : has l (op :: rest) = false -> lit_eqb l op = false /\ has l rest = false.
  Proof. unfold has. cbn [existsb]. intros H. now apply orb_false_elim in H. Qed.
  Lemma lit_eqb_refl l : lit_eqb l l = true. Proof. destruct l; reflexivity. Qed.
  Lemma lit_eqb_eq a b : lit_eqb a b = true -> a = b. Proof. destruct a, b; cbn; congruence. Qed.

  Lemma sequence_length {A} (l : list (result A)) xs : sequence l = Ok xs -> length xs = length l.
  Proof.
    revert xs; induction l as [|r l IH]; intros xs H; cbn [sequence] in H; [injection H as <-; reflexivity|].
    destruct r; cbn [bind] in H; try discriminate. destruct (sequence l) eqn:E; cbn [bind] in H; try discriminate.
    injection H as <-. cbn [length]. f_equal. now apply IH.
  Qed.

  Lemma parse_ops_good : forall ops, sfx ops -> forall (comp : bool) (b e : Z) (is : list item),
    Forall itemok is -> freeops ops is -> 0 <= b <= n -> 0 <= e <= n -> good (cls ops) (parse_ops ops comp b e is).
  Proof.
    assert (Hframe : forall (ops : list lit) (b e : Z) (is : list item) (K : list item -> result expr),
              Forall itemok is -> 0 <= b <= n -> 0 <= e <= n ->
              (forall is', Forall itemok is' -> incl is' is -> is' <> [] -> good (cls ops) (K is')) ->
              good (cls ops) (match strip is with
                              | [] => Ok (EList [] b e)
                              | [IGrp _ _ r] => r
                              | first :: _ => K (strip is)
                              end)).
    { intros ops b e is K His Hb He HK. pose proof (strip_ok _ His) as Hs.
      assert (Hincl : incl (strip is) is) by (intros x Hx; now apply strip_sub).
      destruct (strip is) as [|i [|j r]] eqn:E.
      - cbn [good]. apply Pl_cls. split; [|reflexivity]. cbn [W ebeg eend]. repeat split; auto. left; lia.
      - destruct i as [t|gb ge r].
        + apply HK; [exact Hs|exact Hincl|discriminate].
        + inversion Hs as [|? ? Hi _]; subst. inversion Hi; subst. eapply good_impl; [apply Pl_cls|eassumption].
      - destruct i; apply HK; try exact Hs; try exact Hincl; discriminate. }
    intros ops Hsfx. induction ops as [|op rest IH]; intros comp b e is His Hfree Hb He.
    - (* atoms *)
      cbn [parse_ops].
      assert (HK : forall is', Forall itemok is' -> incl is' is -> is' <> [] -> good (cls []) (parse_atoms is')).
      { intros is' A B C. eapply good_impl; [apply Pl_cls|]. apply parse_atoms_good; auto.
        apply Forall_forall. intros i Hi l Hl. specialize (Hfree l Hl eq_refl). rewrite Forall_forall in Hfree. apply Hfree, B, Hi. }
      pose proof (Hframe [] b e is parse_atoms His Hb He HK) as H.
      destruct (strip is) as [|i [|j r]] eqn:E; try exact H; destruct i; exact H.
    - assert (Hrest : sfx rest) by (inversion Hsfx; constructor).
      specialize (IH Hrest).
      assert (Hop : In op nary_ops) by (inversion Hsfx; cbn; tauto).
      cbn [parse_ops].
      set (K := fun is' : list item =>
                  let bp := match is' with f :: _ => ibeg f | [] => 0 end in
                  let ep := tl_end is' bp in
                  if existsb (item_is op) is' then
                    let operands := split_at op is' [] 0 in
                    let operands := match op with
                                    | LSpace => filter (fun o => match fst o with [] => false | _ => true end) operands
                                    | _ => operands end in
                    bind (sequence (map (fun o => parse_ops rest false (snd o) (tl_end (fst o) (snd o)) (fst o)) operands))
                         (fun xs => match op with
                                    | LSpace => Ok (list_create xs bp ep)
                                    | LArrow => op_create xs bp ep
                                    | LComma => args_create xs bp ep
                                    | LPlus =>
                                      let invalid := filter (fun x => negb (is_axis_or_flat x)) xs in
                                      match invalid with
                                      | _ :: _ => Err 210 (flat_map (fun x => range (ebeg x) (eend x)) invalid
                                                           ++ flat_map (fun i => if item_is LPlus i then range (ibeg i) (iend i) else []) is')
                                      | [] => if comp then cat_create xs bp ep else Err 216 (range bp ep)
                                      end
                                    | _ => Internal 219
                                    end)
                  else parse_ops rest comp b e is').
      assert (HK : forall is', Forall itemok is' -> incl is' is -> is' <> [] -> good (cls (op :: rest)) (K is')).
      { intros is' Hok Hincl Hne. unfold K. destruct is' as [|f tl]; [congruence|]. cbn zeta.
        set (is2 := f :: tl) in *.
        assert (Hfree2 : freeops (op :: rest) is2) by (eapply freeops_incl; eauto).
        assert (Hbp : 0 <= ibeg f <= n) by (inversion Hok; subst; apply item_bounds; assumption).
        assert (Hep : 0 <= tl_end is2 (ibeg f) <= n) by (apply tl_end_bounds; assumption).
        assert (Hpos : okpos (ibeg f) (tl_end is2 (ibeg f))) by (left; lia).
        destruct (existsb (item_is op) is2) eqn:Eex.
        2:{ eapply good_impl; [apply cls_weaken|]. apply IH; try assumption.
            intros l Hl Hh. destruct (lit_eqb l op) eqn:El.
            - apply lit_eqb_eq in El. subst l. apply Forall_forall. intros i Hi.
              destruct (item_is op i) eqn:Ei; [|reflexivity]. exfalso.
              assert (existsb (item_is op) is2 = true) by (apply existsb_exists; eauto). congruence.
            - apply Hfree2; [exact Hl|]. unfold has. cbn [existsb]. now rewrite El. }
        pose proof (split_at_ok op is2 [] 0 Hok (Forall_nil _) ltac:(lia)) as Hsp.
        pose proof (split_at_free op is2 [] 0 (Forall_nil _)) as Hsf.
        pose proof (split_at_length op is2 [] 0 Eex) as Hlen.
        set (ops0 := split_at op is2 [] 0) in *.
        set (operands := match op with LSpace => filter (fun o => match fst o with [] => false | _ => true end) ops0 | _ => ops0 end).
        assert (Hsub : incl operands ops0).
        { unfold operands. destruct op; try apply incl_refl. intros o Ho. apply filter_In in Ho. tauto. }
        assert (Hopd : Forall (fun o => Forall itemok (fst o) /\ 0 <= snd o <= n /\ freeops rest (fst o)) operands).
        { apply Forall_forall. intros o Ho. apply Hsub in Ho. rewrite Forall_forall in Hsp, Hsf.
          destruct (Hsp o Ho) as [A B]. destruct (Hsf o Ho) as [C D]. cbn [app] in D. repeat split; try tauto.
          intros l Hl Hh. destruct (lit_eqb l op) eqn:El.
          - apply lit_eqb_eq in El. subst l. exact C.
          - eapply freeops_incl; [exact D| |exact Hl|]; [exact Hfree2|]. unfold has. cbn [existsb]. now rewrite El. }
        assert (Hseq : good (Forall (cls rest)) (sequence (map (fun o => parse_ops rest false (snd o) (tl_end (fst o) (snd o)) (fst o)) operands))).
        { apply sequence_good. rewrite Forall_map. eapply Forall_impl; [|exact Hopd]. intros o [Ho [Hb' Hf']]. apply IH; auto. apply tl_end_bounds; auto. }
        destruct (sequence (map (fun o => parse_ops rest false (snd o) (tl_end (fst o) (snd o)) (fst o)) operands)) as [xs|s p|s] eqn:Eseq;
          cbn [bind good] in *; try assumption.
        assert (Hxl : length xs = length operands) by (rewrite (sequence_length _ _ Eseq); apply map_length).
        inversion Hsfx; subst; cbn [good].
        + (* space *)
          apply Pl_cls. apply list_create_W; [|exact Hpos]. eapply Forall_impl; [|exact Hseq]. intros x [A [_ C]]. split; [exact A|]. apply C; reflexivity.
        + (* plus *)
          destruct (filter (fun x => negb (is_axis_or_flat x)) xs) as [|bad badr] eqn:Ef.
          * destruct comp.
            -- eapply good_impl; [apply Pl_cls|]. apply cat_create_good; [|unfold operands in Hxl; lia|exact Hpos].
               apply Forall_forall. intros x Hx. rewrite Forall_forall in Hseq. destruct (Hseq x Hx) as [A _]. split; [exact A|].
               destruct (is_axis_or_flat x) eqn:Ea; [reflexivity|]. exfalso.
               assert (Hin : In x (filter (fun x => negb (is_axis_or_flat x)) xs)) by (apply filter_In; split; [exact Hx|now rewrite Ea]).
               rewrite Ef in Hin. contradiction.
            -- cbn [good]. apply range_inr; lia.
          * cbn [good]. apply Forall_app. split.
            -- apply Forall_forall. intros p Hp. apply in_flat_map in Hp as [x [Hx Hp]].
               assert (Hx' : In x xs) by (rewrite <- Ef in Hx; apply filter_In in Hx; tauto).
               rewrite Forall_forall in Hseq. destruct (Hseq x Hx') as [A _]. pose proof (okpos_range _ _ (W_okpos _ A)) as Hr.
               rewrite Forall_forall in Hr. auto.
            -- apply Forall_forall. intros p Hp. apply in_flat_map in Hp as [i [Hi Hp]]. destruct (item_is LPlus i); [|contradiction].
               rewrite Forall_forall in Hok. pose proof (item_bounds _ (Hok i Hi)) as Bi. apply range_in in Hp. unfold inr. lia.
        + (* comma *)
          unfold args_create.
          assert (Hlf : forallb leafy xs = true).
          { apply forallb_forall. intros x Hx. rewrite Forall_forall in Hseq. destruct (Hseq x Hx) as [_ [_ C]]. apply C; reflexivity. }
          assert (Hna : existsb is_args xs = false).
          { destruct (existsb is_args xs) eqn:Ee; [|reflexivity]. apply existsb_exists in Ee as [x [Hx Hx2]].
            rewrite forallb_forall in Hlf. specialize (Hlf x Hx). destruct x; cbn in *; congruence. }
          rewrite Hna. cbn [good]. split; [|split; [reflexivity|intros _ H; discriminate]].
          cbn [W ebeg eend]. split; [exact Hpos|]. split; [|exact Hlf].
          change (Wl xs). rewrite Wl_Forall. eapply Forall_impl; [|exact Hseq]. intros x [A _]; exact A.
        + (* arrow *)
          unfold op_create. destruct xs as [|x xr]; [unfold operands in Hxl; cbn [length] in Hxl; lia|].
          cbn [good]. split; [|split; [intros H; discriminate|intros H; discriminate]].
          cbn [W ebeg eend]. split; [exact Hpos|]. split; [|discriminate].
          change (Wl (x :: xr)). rewrite Wl_Forall. eapply Forall_impl; [|exact Hseq]. intros y [A _]; exact A. }
      pose proof (Hframe (op :: rest) b e is K His Hb He HK) as HF.
      destruct (strip is) as [|i [|j r]] eqn:E; try exact HF; destruct i; exact HF.
  Qed.

  Lemma freeops_all is : freeops nary_ops is.
  Proof. intros l Hl Hh. exfalso. unfold has, nary_ops in *. cbn in Hl. destruct Hl as [<-|[<-|[<-|[<-|[]]]]]; cbn in Hh; discriminate. Qed.

  Lemma group_result_good paren o c inner :
    tokok o -> tokok c -> Forall itemok inner -> good Pl (group_result paren o c inner).
  Proof.
    intros [Ao [Bo Co]] [Ac [Bc Cc]] Hin. unfold group_result.
    set (ib := match inner with i :: _ => ibeg i | [] => tbeg c end).
    assert (Hib : 0 <= ib <= n).
    { unfold ib. destruct inner as [|i r]; [lia|]. inversion Hin; subst. now apply item_bounds. }
    pose proof (parse_ops_good nary_ops sfx4 paren ib (tl_end inner ib) inner Hin (freeops_all _) Hib (tl_end_bounds _ _ Hin Hib)) as H.
    destruct (parse_ops nary_ops paren ib (tl_end inner ib) inner) as [x|s p|s]; cbn [bind good] in *; try assumption.
    destruct H as [Hw _].
    assert (Hpos : okpos (tbeg o) (tend c)) by (left; lia).
    destruct paren.
    - destruct x; try (cbn [good]; destruct (flat_create_W _ (tbeg o) (tend c) Hw Hpos) as [A B]; split; [exact A|now apply leafy_axis_or_flat]).
      cbn [good]. split; [exact Hw|reflexivity].
    - cbn [good]. apply br_create_W; auto; unfold inr; lia.
  Qed.

  Lemma pre_ok : forall t, ttok t -> itemok (pre t).
  Proof.
    fix IH 1. intros [tok|paren o c inner] H; cbn [pre].
    - inversion H; subst. now constructor.
    - inversion H as [|? ? ? ? Ho Hc Hin]; subst.
      assert (Hitems : Forall itemok (map pre inner)).
      { clear - IH Hin. induction inner as [|x l IHl]; cbn [map]; [constructor|]. inversion Hin; subst. constructor; [apply IH; assumption|apply IHl; assumption]. }
      destruct Ho as [Ao [Bo Co]]. destruct Hc as [Ac [Bc Cc]].
      constructor; try lia. apply group_result_good; unfold tokok; auto.
  Qed.

  Lemma parse_top_good ts : Forall ttok ts -> good W (parse_top ts).
  Proof.
    intros H. unfold parse_top.
    assert (Hitems : Forall itemok (map pre ts)).
    { rewrite Forall_map. eapply Forall_impl; [|exact H]. intros t. apply pre_ok. }
    assert (H0 : 0 <= 0 <= n) by lia.
    pose proof (parse_ops_good nary_ops sfx4 false 0 (tl_end (map pre ts) 0) (map pre ts) Hitems (freeops_all _) H0 (tl_end_bounds _ _ Hitems H0)) as HP.
    eapply good_impl; [|exact HP]. intros x [A _]. exact A.
  Qed.

  (* ---------------------------------------------------------------- move_up *)
  (* no Op node anywhere; with [noargs] also no Args node *)
  Fixpoint free (noargs : bool) (x : expr) : bool :=
    match x with
    | EAxis _ _ _ _ => true
    | EList cs _ _ | ECat cs _ _ => forallb (free noargs) cs
    | EFlat i _ _ | EBr i _ _ | EEll i _ _ _ => free noargs i
    | EArgs cs _ _ => negb noargs && forallb (free noargs) cs
    | EOp _ _ _ => false
    end.

  Lemma free_flat k i b e : free k i = true -> free k (flat_create i b e) = true.
  Proof. destruct i; cbn [flat_create free]; auto. Qed.
  Lemma free_br k i b e : free k i = true -> free k (br_create i b e) = true.
  Proof. intros H. destruct i; cbn [br_create]; try (destruct (ndim0 _); [reflexivity|]); cbn [free]; auto. Qed.
  Lemma free_ell k i b e id : free k i = true -> free k (ell_create i b e id) = true.
  Proof. intros H. unfold ell_create. destruct (ndim0 i); [reflexivity|]. exact H. Qed.
  Lemma free_list k cs b e : forallb (free k) cs = true -> free k (list_create cs b e) = true.
  Proof.
    intros H. unfold list_create.
    assert (Hf : forallb (free k) (flat_map list_flatten1 cs) = true).
    { apply forallb_forall. intros x Hx. apply in_flat_map in Hx as [c [Hc Hx]]. rewrite forallb_forall in H. specialize (H c Hc).
      destruct c; cbn [list_flatten1] in Hx; try (destruct Hx as [<-|[]]; exact H).
      cbn [free] in H. rewrite forallb_forall in H. auto. }
    destruct (flat_map list_flatten1 cs) as [|x [|y r]]; [reflexivity| |exact Hf].
    cbn [forallb] in Hf. now rewrite andb_true_r in Hf.
  Qed.

  (* the property every alternative produced by a move_up pass has, relative to the node it came from *)
  Definition altok (k : bool) (x y : expr) : Prop :=
    W y /\ free k y = true /\ (leafy x = true -> leafy y = true) /\ (is_axis_or_flat x = true -> is_axis_or_flat y = true).

  Lemma altok_intro k x y : W y -> free k y = true -> (leafy x = true -> leafy y = true) ->
    (is_axis_or_flat x = true -> is_axis_or_flat y = true) -> altok k x y.
  Proof. intros A B C D. exact (conj A (conj B (conj C D))). Qed.
  Ltac absurd_hyp := let H := fresh in intros H; cbn in H; discriminate H.

  Variable arrow_pos : list Z.
  Hypothesis arrow_ok : Forall inr arrow_pos.

  Lemma nth_res_ok {A} (l : list A) i site : (i < length l)%nat -> exists a, nth_res l i site = Ok a /\ In a l.
  Proof.
    intros H. unfold nth_res. destruct (nth_error l i) as [a|] eqn:E; [exists a; split; [reflexivity|eapply nth_error_In; eauto]|].
    apply nth_error_None in E. lia.
  Qed.

  Lemma dedup_nat_le1 l n1 n2 r : dedup_nat l = n1 :: n2 :: r -> True. Proof. auto. Qed.

  Lemma distribute_good (P : expr -> Prop) alts site :
    Forall (fun a => a <> [] /\ Forall P a) alts ->
    good (fun res => res <> [] /\ Forall (fun a => length a = length alts /\ Forall P a) res) (distribute alts arrow_pos site).
  Proof.
    intros Halts. unfold distribute.
    set (lens := filter (fun n0 => negb (Nat.eqb n0 1)) (map (@length expr) alts)).
    destruct (dedup_nat lens) as [|n1 [|n2 r]] eqn:Ed.
    - (* every alternative list has one element *)
      assert (Hall1 : forall a, In a alts -> length a = 1%nat).
      { intros a Ha. destruct (Nat.eqb (length a) 1) eqn:E; [now apply Nat.eqb_eq|]. exfalso.
        assert (Hin : In (length a) lens) by (unfold lens; apply filter_In; split; [now apply in_map|now rewrite E]).
        unfold dedup_nat in Ed. apply (nodup_In Nat.eq_dec) in Hin. rewrite Ed in Hin. contradiction. }
      cbn [seq map sequence].
      assert (Hrow : good (fun a => length a = length alts /\ Forall P a)
                          (sequence (map (fun a : list expr => match a with [x] => Ok x | _ => nth_res a 0 (site + 12) end) alts))).
      { clear Ed. induction Halts as [|a l [Hne HP] _ IH]; cbn [map sequence]; [cbn; auto|].
        assert (Ha1 := Hall1 a ltac:(now left)). destruct a as [|x [|y q]]; cbn [length] in Ha1; try lia.
        cbn [bind]. specialize (IH ltac:(intros; apply Hall1; now right)).
        destruct (sequence _) as [rs|s p|s]; cbn [bind good] in *; auto. destruct IH as [A B]. inversion HP; subst. split; [cbn [length]; lia|constructor; auto]. }
      destruct (sequence _) as [row|s p|s]; cbn [bind good] in *; auto. split; [discriminate|]. constructor; [exact Hrow|constructor].
    - (* one common length n1 <> 1 *)
      assert (Hlen : forall a, In a alts -> length a = 1%nat \/ length a = n1).
      { intros a Ha. destruct (Nat.eqb (length a) 1) eqn:E; [left; now apply Nat.eqb_eq|right].
        assert (Hin : In (length a) lens) by (unfold lens; apply filter_In; split; [now apply in_map|now rewrite E]).
        unfold dedup_nat in Ed. apply (nodup_In Nat.eq_dec) in Hin. rewrite Ed in Hin. destruct Hin as [<-|[]]. reflexivity. }
      assert (Hn1 : (1 <= n1)%nat).
      { assert (Hin : In n1 (dedup_nat lens)) by (rewrite Ed; now left). unfold dedup_nat in Hin. apply nodup_In in Hin.
        unfold lens in Hin. apply filter_In in Hin as [Hin _]. apply in_map_iff in Hin as [a [<- Ha]].
        rewrite Forall_forall in Halts. destruct (Halts a Ha) as [Hne _]. destruct a; [congruence|cbn; lia]. }
      assert (Hrow : forall idx, (idx < n1)%nat ->
                 good (fun a => length a = length alts /\ Forall P a)
                      (sequence (map (fun a : list expr => match a with [x] => Ok x | _ => nth_res a idx (site + 12) end) alts))).
      { intros idx Hidx. clear Ed. induction Halts as [|a l [Hne HP] _ IH]; cbn [map sequence]; [cbn; auto|].
        specialize (IH ltac:(intros; apply Hlen; now right)).
        assert (Hel : exists x, (match a with [x] => Ok x | _ => nth_res a idx (site + 12) end) = Ok x /\ P x).
        { destruct (Hlen a ltac:(now left)) as [H1|H1].
          - destruct a as [|x [|y q]]; cbn [length] in H1; try lia. exists x. inversion HP; subst. auto.
          - destruct (nth_res_ok a idx (site + 12) ltac:(lia)) as [x [Hx Hin]]. rewrite Forall_forall in HP.
            destruct a as [|x0 [|y q]]; [congruence| |exists x; auto].
            cbn [length] in H1. exists x0. split; [reflexivity|]. apply HP. now left. }
        destruct Hel as [x [-> Px]]. cbn [bind].
        destruct (sequence _) as [rs|s p|s]; cbn [bind good] in *; auto. destruct IH as [A B]. split; [cbn [length]; lia|constructor; auto]. }
      assert (Hrows : good (Forall (fun a => length a = length alts /\ Forall P a))
                 (sequence (map (fun idx => sequence (map (fun a : list expr => match a with [x] => Ok x | _ => nth_res a idx (site + 12) end) alts)) (seq 0 n1)))).
      { apply sequence_good. rewrite Forall_map. apply Forall_forall. intros idx Hidx. apply in_seq in Hidx. apply Hrow. lia. }
      destruct (sequence _) as [rows|s p|s] eqn:Es; cbn [good] in *; auto. split; [|exact Hrows].
      apply sequence_length in Es. rewrite map_length, seq_length in Es. destruct rows; [cbn in Es; lia|discriminate].
    - cbn [good]. exact arrow_ok.
  Qed.

  Lemma distribute_good0 (P : expr -> Prop) alts site :
    Forall (Forall P) alts ->
    good (Forall (fun a => length a = length alts /\ Forall P a)) (distribute alts arrow_pos site).
  Proof.
    intros Halts. unfold distribute.
    set (lens := filter (fun n0 => negb (Nat.eqb n0 1)) (map (@length expr) alts)).
    destruct (dedup_nat lens) as [|n1 [|n2 r]] eqn:Ed.
    - (* every alternative list has one element *)
      assert (Hall1 : forall a, In a alts -> length a = 1%nat).
      { intros a Ha. destruct (Nat.eqb (length a) 1) eqn:E; [now apply Nat.eqb_eq|]. exfalso.
        assert (Hin : In (length a) lens) by (unfold lens; apply filter_In; split; [now apply in_map|now rewrite E]).
        unfold dedup_nat in Ed. apply (nodup_In Nat.eq_dec) in Hin. rewrite Ed in Hin. contradiction. }
      cbn [seq map sequence].
      assert (Hrow : good (fun a => length a = length alts /\ Forall P a)
                          (sequence (map (fun a : list expr => match a with [x] => Ok x | _ => nth_res a 0 (site + 12) end) alts))).
      { clear Ed. induction Halts as [|a l HP _ IH]; cbn [map sequence]; [cbn; auto|].
        assert (Ha1 := Hall1 a ltac:(now left)). destruct a as [|x [|y q]]; cbn [length] in Ha1; try lia.
        cbn [bind]. specialize (IH ltac:(intros; apply Hall1; now right)).
        destruct (sequence _) as [rs|s p|s]; cbn [bind good] in *; auto. destruct IH as [A B]. inversion HP; subst. split; [cbn [length]; lia|constructor; auto]. }
      destruct (sequence _) as [row|s p|s]; cbn [bind good] in *; auto.
    - (* one common length n1 <> 1 *)
      assert (Hlen : forall a, In a alts -> length a = 1%nat \/ length a = n1).
      { intros a Ha. destruct (Nat.eqb (length a) 1) eqn:E; [left; now apply Nat.eqb_eq|right].
        assert (Hin : In (length a) lens) by (unfold lens; apply filter_In; split; [now apply in_map|now rewrite E]).
        unfold dedup_nat in Ed. apply (nodup_In Nat.eq_dec) in Hin. rewrite Ed in Hin. destruct Hin as [<-|[]]. reflexivity. }
      assert (Hrow : forall idx, (idx < n1)%nat ->
                 good (fun a => length a = length alts /\ Forall P a)
                      (sequence (map (fun a : list expr => match a with [x] => Ok x | _ => nth_res a idx (site + 12) end) alts))).
      { intros idx Hidx. clear Ed. induction Halts as [|a l HP _ IH]; cbn [map sequence]; [cbn; auto|].
        specialize (IH ltac:(intros; apply Hlen; now right)).
        assert (Hel : exists x, (match a with [x] => Ok x | _ => nth_res a idx (site + 12) end) = Ok x /\ P x).
        { destruct (Hlen a ltac:(now left)) as [H1|H1].
          - destruct a as [|x [|y q]]; cbn [length] in H1; try lia. exists x. inversion HP; subst. auto.
          - destruct (nth_res_ok a idx (site + 12) ltac:(lia)) as [x [Hx Hin]]. rewrite Forall_forall in HP.
            destruct a as [|x0 [|y q]]; [cbn [length] in H1; lia| |exists x; auto].
            cbn [length] in H1. exists x0. split; [reflexivity|]. apply HP. now left. }
        destruct Hel as [x [-> Px]]. cbn [bind].
        destruct (sequence _) as [rs|s p|s]; cbn [bind good] in *; auto. destruct IH as [A B]. split; [cbn [length]; lia|constructor; auto]. }
      assert (Hrows : good (Forall (fun a => length a = length alts /\ Forall P a))
                 (sequence (map (fun idx => sequence (map (fun a : list expr => match a with [x] => Ok x | _ => nth_res a idx (site + 12) end) alts)) (seq 0 n1)))).
      { apply sequence_good. rewrite Forall_map. apply Forall_forall. intros idx Hidx. apply in_seq in Hidx. apply Hrow. lia. }
      exact Hrows.
    - cbn [good]. exact arrow_ok.
  Qed.


  Lemma expr_ind' (P : expr -> Prop) :
    (forall nm v b e, P (EAxis nm v b e)) ->
    (forall cs b e, Forall P cs -> P (EList cs b e)) -> (forall i b e, P i -> P (EFlat i b e)) ->
    (forall cs b e, Forall P cs -> P (ECat cs b e)) -> (forall i b e, P i -> P (EBr i b e)) ->
    (forall i b e id, P i -> P (EEll i b e id)) -> (forall cs b e, Forall P cs -> P (EArgs cs b e)) ->
    (forall cs b e, Forall P cs -> P (EOp cs b e)) -> forall x, P x.
  Proof.
    intros H1 H2 H3 H4 H5 H6 H7 H8. fix IH 1. intros x.
    assert (HL : forall l, Forall P l) by (intros l; induction l as [|c l IHl]; constructor; [apply IH|exact IHl]).
    destruct x.
    - apply H1. - apply H2, HL. - apply H3, IH. - apply H4, HL. - apply H5, IH. - apply H6, IH. - apply H7, HL. - apply H8, HL.
  Qed.

  Definition muok (k : bool) (x : expr) (r : list expr * Z * Z) : Prop :=
    fst (fst r) <> [] /\ Forall (altok k x) (fst (fst r)).

  Lemma W_children_list cs b e : W (EList cs b e) -> Forall W cs /\ forallb leafy cs = true /\ okpos b e.
  Proof. cbn [W ebeg eend]. intros [A [B C]]. change (Wl cs) in B. rewrite Wl_Forall in B. auto. Qed.
  Lemma W_children_cat cs b e : W (ECat cs b e) -> Forall W cs /\ forallb is_axis_or_flat cs = true /\ (2 <= length cs)%nat /\ okpos b e.
  Proof. cbn [W ebeg eend]. intros [A [B [C D]]]. change (Wl cs) in B. rewrite Wl_Forall in B. auto. Qed.
  Lemma W_children_args cs b e : W (EArgs cs b e) -> Forall W cs /\ forallb leafy cs = true /\ okpos b e.
  Proof. cbn [W ebeg eend]. intros [A [B C]]. change (Wl cs) in B. rewrite Wl_Forall in B. auto. Qed.
  Lemma W_children_op cs b e : W (EOp cs b e) -> Forall W cs /\ cs <> [] /\ okpos b e.
  Proof. cbn [W ebeg eend]. intros [A [B C]]. change (Wl cs) in B. rewrite Wl_Forall in B. auto. Qed.

  (* children results, collected *)
  Lemma subs_good (f : expr -> result (list expr * Z * Z)) k cs :
    Forall (fun c => good (muok k c) (f c)) cs ->
    good (fun subs => length subs = length cs /\ Forall2 (fun c s => muok k c s) cs subs) (sequence (map f cs)).
  Proof.
    induction 1 as [|c l Hc _ IH]; cbn [map sequence]; [cbn; auto|].
    destruct (f c) as [s|st p|st]; cbn [bind good] in *; auto.
    destruct (sequence (map f l)) as [ss|st p|st]; cbn [bind good] in *; auto.
    destruct IH as [A B]. split; [cbn [length]; lia|constructor; auto].
  Qed.

  Lemma alts_of_subs k cs subs (Q : expr -> Prop) :
    Forall2 (fun c s => muok k c s) cs subs -> (forall c y, In c cs -> altok k c y -> Q y) ->
    Forall (fun a => a <> [] /\ Forall Q a) (map (fun s => fst (fst s)) subs).
  Proof.
    intros H HQ. induction H as [|c s cs subs [Hne Hal] _ IH]; cbn [map]; [constructor|].
    constructor.
    - split; [exact Hne|]. eapply Forall_impl; [|exact Hal]. intros y Hy. apply (HQ c); [now left|exact Hy].
    - apply IH. intros c' y Hc'. apply HQ. now right.
  Qed.

  Lemma mk_op3_good k x cs b e : cs <> [] -> Forall (altok k x) cs -> good (muok k x) (mk_op3 cs b e).
  Proof. intros Hne H. unfold mk_op3. destruct cs; [congruence|]. cbn [good muok fst]. split; [discriminate|exact H]. Qed.

  Theorem mu_op_good : forall x, W x -> good (muok false x) (mu_op arrow_pos x).
  Proof.
    induction x as [nm v b e|cs b e IH|i b e IH|cs b e IH|i b e IH|i b e id IH|cs b e IH|cs b e IH] using expr_ind'; intros Hw; cbn [mu_op].
    - (* axis *) apply mk_op3_good; [discriminate|]. constructor; [|constructor]. exact (conj Hw (conj eq_refl (conj (fun h => h) (fun h => h)))).
    - (* list *)
      destruct (W_children_list _ _ _ Hw) as [Hc [Hlf Hp]].
      assert (Hsub : good (fun subs => length subs = length cs /\ Forall2 (fun c s => muok false c s) cs subs) (sequence (map (mu_op arrow_pos) cs))).
      { apply subs_good. rewrite Forall_forall in *. intros c Hin. apply IH; auto. }
      destruct (sequence (map (mu_op arrow_pos) cs)) as [subs|st p|st]; cbn [bind good] in *; auto. destruct Hsub as [_ Hsub].
      pose proof (proj1 (forallb_forall _ _) Hlf) as Hlf'.
      assert (Halts : Forall (fun a => a <> [] /\ Forall (fun y => W y /\ free false y = true /\ leafy y = true) a) (map (fun s => fst (fst s)) subs)).
      { apply (alts_of_subs false cs subs _ Hsub). intros c y Hin [A [B [C D]]]. exact (conj A (conj B (C (Hlf' c Hin)))). }
      pose proof (distribute_good _ _ 270 Halts) as Hd.
      destruct (distribute _ arrow_pos 270) as [alts|st p|st]; cbn [bind good] in *; auto. destruct Hd as [Hne Hal].
      apply mk_op3_good; [destruct alts; [congruence|discriminate]|]. rewrite Forall_map. eapply Forall_impl; [|exact Hal].
      intros a [_ Ha]. destruct (list_create_W a b e ltac:(eapply Forall_impl; [|exact Ha]; intros y [A [B C]]; auto) Hp) as [A B].
      apply altok_intro; [exact A| |intros _; exact B|intros H; cbn in H; discriminate H]. apply free_list, forallb_forall. intros y Hy. rewrite Forall_forall in Ha. apply Ha in Hy. tauto.
    - (* flattened *)
      cbn [W ebeg eend] in Hw. destruct Hw as [Hp Hi]. specialize (IH Hi).
      destruct (mu_op arrow_pos i) as [[[cs ob] oe]|st p|st]; cbn [bind good] in *; auto. destruct IH as [Hne Hal]. cbn [fst] in *.
      apply mk_op3_good; [destruct cs; [congruence|discriminate]|]. rewrite Forall_map. eapply Forall_impl; [|exact Hal].
      intros a [A [B _]]. destruct (flat_create_W a b e A Hp) as [C D]. apply altok_intro; [exact C|now apply free_flat|intros _; now apply leafy_axis_or_flat|intros _; exact D].
    - (* concatenation *)
      destruct (W_children_cat _ _ _ Hw) as [Hc [Haf [Hlen Hp]]].
      assert (Hsub : good (fun subs => length subs = length cs /\ Forall2 (fun c s => muok false c s) cs subs) (sequence (map (mu_op arrow_pos) cs))).
      { apply subs_good. rewrite Forall_forall in *. intros c Hin. apply IH; auto. }
      destruct (sequence (map (mu_op arrow_pos) cs)) as [subs|st p|st]; cbn [bind good] in *; auto. destruct Hsub as [Hsl Hsub].
      pose proof (proj1 (forallb_forall _ _) Haf) as Haf'.
      assert (Halts : Forall (fun a => a <> [] /\ Forall (fun y => W y /\ free false y = true /\ is_axis_or_flat y = true) a) (map (fun s => fst (fst s)) subs)).
      { apply (alts_of_subs false cs subs _ Hsub). intros c y Hin [A [B [C D]]]. exact (conj A (conj B (D (Haf' c Hin)))). }
      pose proof (distribute_good _ _ 270 Halts) as Hd.
      destruct (distribute _ arrow_pos 270) as [alts|st p|st]; cbn [bind good] in *; auto. destruct Hd as [Hne Hal].
      assert (Hys : good (Forall (fun y => W y /\ free false y = true /\ leafy y = true)) (sequence (map (fun a => cat_create a b e) alts))).
      { apply sequence_good. rewrite Forall_map. eapply Forall_impl; [|exact Hal]. intros a [Hla Ha].
        rewrite map_length in Hla.
        pose proof (cat_create_good a b e ltac:(eapply Forall_impl; [|exact Ha]; intros y [A [B C]]; auto) ltac:(lia) Hp) as Hcc.
        unfold cat_create in *. destruct a as [|y1 [|y2 q]]; cbn [length] in Hla; try lia.
        destruct (forallb ndim1 (y1 :: y2 :: q)); cbn [good] in *; [|contradiction]. destruct Hcc as [A B]. split; [exact A|split; [|exact B]].
        cbn [free]. apply forallb_forall. intros y Hy. rewrite Forall_forall in Ha. apply Ha in Hy. tauto. }
      destruct (sequence (map (fun a => cat_create a b e) alts)) as [ys|st p|st] eqn:Es; cbn [bind good] in *; auto.
      apply mk_op3_good.
      + apply sequence_length in Es. rewrite map_length in Es. destruct ys; [destruct alts; [congruence|cbn in Es; lia]|discriminate].
      + eapply Forall_impl; [|exact Hys]. intros y [A [B C]]. apply altok_intro; [exact A|exact B|intros _; exact C|intros H; cbn in H; discriminate H].
    - (* brackets *)
      cbn [W ebeg eend] in Hw. destruct Hw as [Hp [Hi [Hb He]]]. specialize (IH Hi).
      destruct (mu_op arrow_pos i) as [[[cs ob] oe]|st p|st]; cbn [bind good] in *; auto. destruct IH as [Hne Hal]. cbn [fst] in *.
      apply mk_op3_good; [destruct cs; [congruence|discriminate]|]. rewrite Forall_map. eapply Forall_impl; [|exact Hal].
      intros a [A [B _]]. destruct (br_create_W a b e A Hp Hb He) as [C D]. apply altok_intro; [exact C|now apply free_br|intros _; exact D|intros H; cbn in H; discriminate H].
    - (* ellipsis *)
      cbn [W ebeg eend] in Hw. destruct Hw as [Hp [Hi Hl]]. specialize (IH Hi).
      destruct (mu_op arrow_pos i) as [[[cs ob] oe]|st p|st]; cbn [bind good] in *; auto. destruct IH as [Hne Hal]. cbn [fst] in *.
      apply mk_op3_good; [destruct cs; [congruence|discriminate]|]. rewrite Forall_map. eapply Forall_impl; [|exact Hal].
      intros a [A [B [C _]]]. destruct (ell_create_W a b e id A (C Hl) Hp) as [D E]. apply altok_intro; [exact D|now apply free_ell|intros _; exact E|intros H; cbn in H; discriminate H].
    - (* args *)
      destruct (W_children_args _ _ _ Hw) as [Hc [Hlf Hp]].
      assert (Hsub : good (fun subs => length subs = length cs /\ Forall2 (fun c s => muok false c s) cs subs) (sequence (map (mu_op arrow_pos) cs))).
      { apply subs_good. rewrite Forall_forall in *. intros c Hin. apply IH; auto. }
      destruct (sequence (map (mu_op arrow_pos) cs)) as [subs|st p|st]; cbn [bind good] in *; auto. destruct Hsub as [_ Hsub].
      pose proof (proj1 (forallb_forall _ _) Hlf) as Hlf'.
      assert (Halts : Forall (fun a => a <> [] /\ Forall (fun y => W y /\ free false y = true /\ leafy y = true) a) (map (fun s => fst (fst s)) subs)).
      { apply (alts_of_subs false cs subs _ Hsub). intros c y Hin [A [B [C D]]]. exact (conj A (conj B (C (Hlf' c Hin)))). }
      pose proof (distribute_good _ _ 270 Halts) as Hd.
      destruct (distribute _ arrow_pos 270) as [alts|st p|st]; cbn [bind good] in *; auto. destruct Hd as [Hne Hal].
      assert (Hys : good (Forall (fun y => W y /\ free false y = true)) (sequence (map (fun a => args_create a b e) alts))).
      { apply sequence_good. rewrite Forall_map. eapply Forall_impl; [|exact Hal]. intros a [_ Ha]. unfold args_create.
        assert (Hlfa : forallb leafy a = true) by (apply forallb_forall; intros y Hy; rewrite Forall_forall in Ha; apply Ha in Hy; tauto).
        assert (Hna : existsb is_args a = false).
        { destruct (existsb is_args a) eqn:Ee; [|reflexivity]. apply existsb_exists in Ee as [y [Hy Hy2]].
          rewrite forallb_forall in Hlfa. specialize (Hlfa y Hy). destruct y; cbn in *; congruence. }
        rewrite Hna. cbn [good W ebeg eend free negb andb]. split; [split; [exact Hp|split; [|exact Hlfa]]|].
        - change (Wl a). rewrite Wl_Forall. eapply Forall_impl; [|exact Ha]. intros y [A _]. exact A.
        - apply forallb_forall. intros y Hy. rewrite Forall_forall in Ha. apply Ha in Hy. tauto. }
      destruct (sequence (map (fun a => args_create a b e) alts)) as [ys|st p|st] eqn:Es; cbn [bind good] in *; auto.
      apply mk_op3_good.
      + apply sequence_length in Es. rewrite map_length in Es. destruct ys; [destruct alts; [congruence|cbn in Es; lia]|discriminate].
      + eapply Forall_impl; [|exact Hys]. intros y [A B]. apply altok_intro; [exact A|exact B|intros H; cbn in H; discriminate H|intros H; cbn in H; discriminate H].
    - (* op *)
      destruct (W_children_op _ _ _ Hw) as [Hc [Hne Hp]].
      assert (Hsub : good (fun subs => length subs = length cs /\ Forall2 (fun c s => muok false c s) cs subs) (sequence (map (mu_op arrow_pos) cs))).
      { apply subs_good. rewrite Forall_forall in *. intros c Hin. apply IH; auto. }
      destruct (sequence (map (mu_op arrow_pos) cs)) as [subs|st p|st]; cbn [bind good] in *; auto. destruct Hsub as [Hsl Hsub].
      apply mk_op3_good.
      + destruct cs as [|c0 cr]; [congruence|]. inversion Hsub as [|? s0 ? sr [Hs0ne _] _]; subst. cbn [flat_map]. destruct (fst (fst s0)); [congruence|discriminate].
      + apply Forall_forall. intros y Hy. apply in_flat_map in Hy as [s0 [Hs0 Hy]].
        clear - Hsub Hs0 Hy. induction Hsub as [|c s1 cs subs [_ Hal] _ IHs]; [contradiction|].
        destruct Hs0 as [<-|Hs0]; [|auto]. rewrite Forall_forall in Hal. destruct (Hal y Hy) as [A [B _]]. apply altok_intro; [exact A|exact B|intros H; cbn in H; discriminate H|intros H; cbn in H; discriminate H].
  Qed.

  (* ---- move_up for Args ---- *)
  Definition muaok (x : expr) (r : list expr * Z * Z) : Prop :=
    okpos (snd (fst r)) (snd r) /\ Forall (fun y => altok true x y /\ leafy y = true) (fst (fst r)).

  Lemma subs_goodR (R : expr -> list expr * Z * Z -> Prop) (f : expr -> result (list expr * Z * Z)) cs :
    Forall (fun c => good (R c) (f c)) cs ->
    good (fun subs => length subs = length cs /\ Forall2 R cs subs) (sequence (map f cs)).
  Proof.
    induction 1 as [|c l Hc _ IH]; cbn [map sequence]; [cbn; auto|].
    destruct (f c) as [s|st p|st]; cbn [bind good] in *; auto.
    destruct (sequence (map f l)) as [ss|st p|st]; cbn [bind good] in *; auto.
    destruct IH as [A B]. split; [cbn [length]; lia|constructor; auto].
  Qed.

  Lemma leafy_no_args cs : Forall (fun y => leafy y = true) cs -> existsb is_args cs = false.
  Proof.
    intros H. destruct (existsb is_args cs) eqn:Ee; [|reflexivity]. apply existsb_exists in Ee as [y [Hy Hy2]].
    rewrite Forall_forall in H. specialize (H y Hy). destruct y; cbn in *; congruence.
  Qed.

  Lemma mk_args3_good x cs b e : okpos b e -> Forall (fun y => altok true x y /\ leafy y = true) cs -> good (muaok x) (mk_args3 cs b e).
  Proof.
    intros Hp H. unfold mk_args3. rewrite leafy_no_args; [|eapply Forall_impl; [|exact H]; intros y [_ L]; exact L].
    cbn [good muaok fst snd]. exact (conj Hp H).
  Qed.

  Lemma alts_of_subsA cs subs (Q : expr -> Prop) :
    Forall2 muaok cs subs -> (forall c y, In c cs -> altok true c y -> leafy y = true -> Q y) ->
    Forall (Forall Q) (map (fun s => fst (fst s)) subs).
  Proof.
    intros H HQ. induction H as [|c s cs subs [_ Hal] _ IH]; cbn [map]; [constructor|].
    constructor.
    - eapply Forall_impl; [|exact Hal]. intros y [Hy Ly]. apply (HQ c); [now left|exact Hy|exact Ly].
    - apply IH. intros c' y Hc'. apply HQ. now right.
  Qed.

  Theorem mu_args_good : forall x, W x -> free false x = true -> good (muaok x) (mu_args arrow_pos x).
  Proof.
    induction x as [nm v b e|cs b e IH|i b e IH|cs b e IH|i b e IH|i b e id IH|cs b e IH|cs b e IH] using expr_ind'; intros Hw Hf; cbn [mu_args].
    - (* axis *) apply mk_args3_good; [right; lia|]. constructor; [|constructor].
      split; [|reflexivity]. apply altok_intro; [exact Hw|reflexivity|auto|auto].
    - (* list *)
      destruct (W_children_list _ _ _ Hw) as [Hc [Hlf Hp]]. cbn [free] in Hf.
      pose proof (proj1 (forallb_forall _ _) Hlf) as Hlf'. pose proof (proj1 (forallb_forall _ _) Hf) as Hf'.
      assert (Hsub : good (fun subs => length subs = length cs /\ Forall2 muaok cs subs) (sequence (map (mu_args arrow_pos) cs))).
      { apply subs_goodR. rewrite Forall_forall in *. intros c Hin. apply IH; auto. }
      destruct (sequence (map (mu_args arrow_pos) cs)) as [subs|st p|st]; cbn [bind good] in *; auto. destruct Hsub as [_ Hsub].
      assert (Halts : Forall (Forall (fun y => W y /\ free true y = true /\ leafy y = true)) (map (fun s => fst (fst s)) subs)).
      { apply (alts_of_subsA cs subs _ Hsub). intros c y Hin [A [B [C D]]] L. exact (conj A (conj B L)). }
      pose proof (distribute_good0 _ _ 316 Halts) as Hd.
      destruct (distribute _ arrow_pos 316) as [alts|st p|st]; cbn [bind good] in *; auto.
      apply mk_args3_good; [exact Hp|]. rewrite Forall_map. eapply Forall_impl; [|exact Hd].
      intros a [_ Ha]. destruct (list_create_W a b e) as [A B]; [eapply Forall_impl; [|exact Ha]; intros y [A [B C]]; exact (conj A C)|exact Hp|].
      split; [|exact B]. apply altok_intro; [exact A| |intros _; exact B|intros H; cbn in H; discriminate H].
      apply free_list, forallb_forall. intros y Hy. rewrite Forall_forall in Ha. apply Ha in Hy. tauto.
    - (* flattened *)
      cbn [W ebeg eend] in Hw. destruct Hw as [Hp Hi]. cbn [free] in Hf. specialize (IH Hi Hf).
      destruct (mu_args arrow_pos i) as [[[cs ob] oe]|st p|st]; cbn [bind good] in *; auto. destruct IH as [Hop Hal]. cbn [fst snd] in *.
      apply mk_args3_good; [exact Hop|]. rewrite Forall_map. eapply Forall_impl; [|exact Hal].
      intros a [[A [B _]] _]. destruct (flat_create_W a b e A Hp) as [C D].
      split; [|now apply leafy_axis_or_flat]. apply altok_intro; [exact C|now apply free_flat|intros _; now apply leafy_axis_or_flat|intros _; exact D].
    - (* concatenation *)
      destruct (W_children_cat _ _ _ Hw) as [Hc [Haf [Hlen Hp]]]. cbn [free] in Hf.
      pose proof (proj1 (forallb_forall _ _) Haf) as Haf'. pose proof (proj1 (forallb_forall _ _) Hf) as Hf'.
      assert (Hsub : good (fun subs => length subs = length cs /\ Forall2 muaok cs subs) (sequence (map (mu_args arrow_pos) cs))).
      { apply subs_goodR. rewrite Forall_forall in *. intros c Hin. apply IH; auto. }
      destruct (sequence (map (mu_args arrow_pos) cs)) as [subs|st p|st]; cbn [bind good] in *; auto. destruct Hsub as [Hsl Hsub].
      assert (Halts : Forall (Forall (fun y => W y /\ free true y = true /\ is_axis_or_flat y = true)) (map (fun s => fst (fst s)) subs)).
      { apply (alts_of_subsA cs subs _ Hsub). intros c y Hin [A [B [C D]]] L. exact (conj A (conj B (D (Haf' c Hin)))). }
      pose proof (distribute_good0 _ _ 316 Halts) as Hd.
      destruct (distribute _ arrow_pos 316) as [alts|st p|st]; cbn [bind good] in *; auto.
      assert (Hys : good (Forall (fun y => W y /\ free true y = true /\ leafy y = true)) (sequence (map (fun a => cat_create a b e) alts))).
      { apply sequence_good. rewrite Forall_map. eapply Forall_impl; [|exact Hd]. intros a [Hla Ha].
        rewrite map_length in Hla.
        assert (Hcc : good (fun x => W x /\ leafy x = true) (cat_create a b e)).
        { apply cat_create_good; [eapply Forall_impl; [|exact Ha]; intros y [A [B C]]; exact (conj A C)|lia|exact Hp]. }
        unfold cat_create in *. destruct a as [|y1 [|y2 q]]; cbn [length] in Hla; try lia.
        destruct (forallb ndim1 (y1 :: y2 :: q)); cbn [good] in *; [|contradiction]. destruct Hcc as [A B]. split; [exact A|split; [|exact B]].
        cbn [free]. apply forallb_forall. intros y Hy. rewrite Forall_forall in Ha. apply Ha in Hy. tauto. }
      destruct (sequence (map (fun a => cat_create a b e) alts)) as [ys|st p|st] eqn:Es; cbn [bind good] in *; auto.
      apply mk_args3_good; [exact Hp|]. eapply Forall_impl; [|exact Hys]. intros y [A [B C]].
      split; [|exact C]. apply altok_intro; [exact A|exact B|intros _; exact C|intros H; cbn in H; discriminate H].
    - (* brackets *)
      cbn [W ebeg eend] in Hw. destruct Hw as [Hp [Hi [Hb He]]]. cbn [free] in Hf. specialize (IH Hi Hf).
      destruct (mu_args arrow_pos i) as [[[cs ob] oe]|st p|st]; cbn [bind good] in *; auto. destruct IH as [Hop Hal]. cbn [fst snd] in *.
      apply mk_args3_good; [exact Hop|]. rewrite Forall_map. eapply Forall_impl; [|exact Hal].
      intros a [[A [B _]] _]. destruct (br_create_W a b e A Hp Hb He) as [C D].
      split; [|exact D]. apply altok_intro; [exact C|now apply free_br|intros _; exact D|intros H; cbn in H; discriminate H].
    - (* ellipsis *)
      cbn [W ebeg eend] in Hw. destruct Hw as [Hp [Hi Hl]]. cbn [free] in Hf. specialize (IH Hi Hf).
      destruct (mu_args arrow_pos i) as [[[cs ob] oe]|st p|st]; cbn [bind good] in *; auto. destruct IH as [Hop Hal]. cbn [fst snd] in *.
      apply mk_args3_good; [exact Hop|]. rewrite Forall_map. eapply Forall_impl; [|exact Hal].
      intros a [[A [B _]] L]. destruct (ell_create_W a b e id A L Hp) as [D E].
      split; [|exact E]. apply altok_intro; [exact D|now apply free_ell|intros _; exact E|intros H; cbn in H; discriminate H].
    - (* args *)
      destruct (W_children_args _ _ _ Hw) as [Hc [Hlf Hp]]. cbn [free negb andb] in Hf.
      pose proof (proj1 (forallb_forall _ _) Hlf) as Hlf'. pose proof (proj1 (forallb_forall _ _) Hf) as Hf'.
      assert (Hsub : good (fun subs => length subs = length cs /\ Forall2 muaok cs subs) (sequence (map (mu_args arrow_pos) cs))).
      { apply subs_goodR. rewrite Forall_forall in *. intros c Hin. apply IH; auto. }
      destruct (sequence (map (mu_args arrow_pos) cs)) as [subs|st p|st]; cbn [bind good] in *; auto. destruct Hsub as [Hsl Hsub].
      apply mk_args3_good; [exact Hp|].
      apply Forall_forall. intros y Hy. apply in_flat_map in Hy as [s0 [Hs0 Hy]].
      clear - Hsub Hs0 Hy. induction Hsub as [|c s1 cs subs [_ Hal] _ IHs]; [contradiction|].
      destruct Hs0 as [<-|Hs0]; [|auto]. rewrite Forall_forall in Hal. destruct (Hal y Hy) as [[A [B _]] L].
      split; [|exact L]. apply altok_intro; [exact A|exact B|intros H; cbn in H; discriminate H|intros H; cbn in H; discriminate H].
    - (* op *) cbn [free] in Hf. discriminate Hf.
  Qed.

  (* ---- positions of the Op that mu_op returns ---- *)
  Definition posok (r : result (list expr * Z * Z)) : Prop :=
    match r with Ok v => okpos (snd (fst v)) (snd v) | _ => True end.
  Lemma mk_op3_pos cs b e : okpos b e -> posok (mk_op3 cs b e).
  Proof. intros H. unfold mk_op3. destruct cs; cbn; auto. Qed.

  Lemma mu_op_pos : forall x, W x -> posok (mu_op arrow_pos x).
  Proof.
    induction x as [nm v b e|cs b e IH|i b e IH|cs b e IH|i b e IH|i b e id IH|cs b e IH|cs b e IH] using expr_ind'; intros Hw; cbn [mu_op].
    - apply mk_op3_pos. right; lia.
    - destruct (W_children_list _ _ _ Hw) as [_ [_ Hp]].
      destruct (sequence _) as [subs|st p|st]; cbn [bind posok]; auto.
      destruct (distribute _ _ _) as [alts|st p|st]; cbn [bind posok]; auto. now apply mk_op3_pos.
    - cbn [W] in Hw. destruct Hw as [_ Hi]. specialize (IH Hi).
      destruct (mu_op arrow_pos i) as [[[cs ob] oe]|st p|st]; cbn [bind posok fst snd] in *; auto. now apply mk_op3_pos.
    - destruct (W_children_cat _ _ _ Hw) as [_ [_ [_ Hp]]].
      destruct (sequence _) as [subs|st p|st]; cbn [bind posok]; auto.
      destruct (distribute _ _ _) as [alts|st p|st]; cbn [bind posok]; auto.
      destruct (sequence _) as [ys|st p|st]; cbn [bind posok]; auto. now apply mk_op3_pos.
    - cbn [W] in Hw. destruct Hw as [_ [Hi _]]. specialize (IH Hi).
      destruct (mu_op arrow_pos i) as [[[cs ob] oe]|st p|st]; cbn [bind posok fst snd] in *; auto. now apply mk_op3_pos.
    - cbn [W] in Hw. destruct Hw as [_ [Hi _]]. specialize (IH Hi).
      destruct (mu_op arrow_pos i) as [[[cs ob] oe]|st p|st]; cbn [bind posok fst snd] in *; auto. now apply mk_op3_pos.
    - destruct (W_children_args _ _ _ Hw) as [_ [_ Hp]].
      destruct (sequence _) as [subs|st p|st]; cbn [bind posok]; auto.
      destruct (distribute _ _ _) as [alts|st p|st]; cbn [bind posok]; auto.
      destruct (sequence _) as [ys|st p|st]; cbn [bind posok]; auto. now apply mk_op3_pos.
    - destruct (W_children_op _ _ _ Hw) as [_ [_ Hp]].
      destruct (sequence _) as [subs|st p|st]; cbn [bind posok]; auto. now apply mk_op3_pos.
  Qed.

  (* ---- traverse on expressions without Op / Args ---- *)
  Lemma free_true_leafy x : free true x = true -> leafy x = true.
  Proof. destruct x; cbn; auto. Qed.

  Definition pureok (x y : expr) : Prop :=
    W y /\ free true y = true /\ (is_axis_or_flat x = true -> is_axis_or_flat y = true).

  Lemma trav_children (f : expr -> result expr) cs :
    Forall (fun c => good (pureok c) (f c)) cs ->
    good (fun ys => length ys = length cs /\ Forall2 pureok cs ys) (sequence (map f cs)).
  Proof.
    induction 1 as [|c l Hc _ IH]; cbn [map sequence]; [cbn; auto|].
    destruct (f c) as [s|st p|st]; cbn [bind good] in *; auto.
    destruct (sequence (map f l)) as [ss|st p|st]; cbn [bind good] in *; auto.
    destruct IH as [A B]. split; [cbn [length]; lia|constructor; auto].
  Qed.

  Lemma Forall2_right {A B} (R : A -> B -> Prop) (Q : B -> Prop) l l' :
    Forall2 R l l' -> (forall a b, In a l -> R a b -> Q b) -> Forall Q l'.
  Proof.
    induction 1 as [|a b l l' Hab _ IH]; intros HQ; constructor.
    - apply (HQ a); [now left|exact Hab].
    - apply IH. intros a' b' Ha'. apply HQ. now right.
  Qed.

  Theorem traverse_pure : forall x inbr, W x -> free true x = true -> good (pureok x) (traverse inbr x).
  Proof.
    induction x as [nm v b e|cs b e IH|i b e IH|cs b e IH|i b e IH|i b e id IH|cs b e IH|cs b e IH] using expr_ind'; intros inbr Hw Hf; cbn [traverse].
    - cbn [good]. exact (conj Hw (conj eq_refl (fun h => h))).
    - destruct (W_children_list _ _ _ Hw) as [Hc [Hlf Hp]]. cbn [free] in Hf. pose proof (proj1 (forallb_forall _ _) Hf) as Hf'.
      assert (Hys : good (fun ys => length ys = length cs /\ Forall2 pureok cs ys) (sequence (map (traverse inbr) cs))).
      { apply trav_children. rewrite Forall_forall in *. intros c Hin. apply IH; auto. }
      destruct (sequence _) as [ys|st p|st]; cbn [bind good] in *; auto. destruct Hys as [_ Hys].
      assert (Hall : Forall (fun y => W y /\ free true y = true) ys).
      { apply (Forall2_right _ _ _ _ Hys). intros a y _ [A [B _]]. exact (conj A B). }
      destruct (list_create_W ys b e) as [A B]; [eapply Forall_impl; [|exact Hall]; intros y [A B]; exact (conj A (free_true_leafy y B))|exact Hp|].
      split; [exact A|split; [|intros H; cbn in H; discriminate H]].
      apply free_list, forallb_forall. intros y Hy. rewrite Forall_forall in Hall. apply Hall in Hy. tauto.
    - cbn [W ebeg eend] in Hw. destruct Hw as [Hp Hi]. cbn [free] in Hf. specialize (IH inbr Hi Hf).
      destruct (traverse inbr i) as [y|st p|st]; cbn [bind good] in *; auto. destruct IH as [A [B _]].
      destruct (flat_create_W y b e A Hp) as [C D]. exact (conj C (conj (free_flat _ _ _ _ B) (fun _ => D))).
    - destruct (W_children_cat _ _ _ Hw) as [Hc [Haf [Hlen Hp]]]. cbn [free] in Hf.
      pose proof (proj1 (forallb_forall _ _) Hf) as Hf'. pose proof (proj1 (forallb_forall _ _) Haf) as Haf'.
      assert (Hys : good (fun ys => length ys = length cs /\ Forall2 pureok cs ys) (sequence (map (traverse inbr) cs))).
      { apply trav_children. rewrite Forall_forall in *. intros c Hin. apply IH; auto. }
      destruct (sequence _) as [ys|st p|st]; cbn [bind good] in *; auto. destruct Hys as [Hl Hys].
      assert (Hall : Forall (fun y => W y /\ free true y = true /\ is_axis_or_flat y = true) ys).
      { apply (Forall2_right _ _ _ _ Hys). intros a y Ha [A [B C]]. exact (conj A (conj B (C (Haf' a Ha)))). }
      assert (Hcc : good (fun x => W x /\ leafy x = true) (cat_create ys b e)).
      { apply cat_create_good; [eapply Forall_impl; [|exact Hall]; intros y [A [B C]]; exact (conj A C)|lia|exact Hp]. }
      unfold cat_create in *. destruct ys as [|y1 [|y2 q]]; cbn [length] in Hl; try lia.
      destruct (forallb ndim1 (y1 :: y2 :: q)); cbn [good] in *; [|contradiction]. destruct Hcc as [A B].
      split; [exact A|split; [|intros H; cbn in H; discriminate H]].
      cbn [free]. apply forallb_forall. intros y Hy. rewrite Forall_forall in Hall. apply Hall in Hy. tauto.
    - cbn [W ebeg eend] in Hw. destruct Hw as [Hp [Hi [Hb He]]]. cbn [free] in Hf. specialize (IH true Hi Hf).
      destruct inbr.
      + destruct (traverse true i) as [y|st p|st]; cbn [bind good] in *; auto. destruct IH as [A [B _]].
        split; [exact A|split; [exact B|intros H; cbn in H; discriminate H]].
      + destruct (traverse true i) as [y|st p|st]; cbn [bind good] in *; auto. destruct IH as [A [B _]].
        destruct (br_create_W y b e A Hp Hb He) as [C D].
        split; [exact C|split; [exact (free_br _ _ _ _ B)|intros H; cbn in H; discriminate H]].
    - cbn [W ebeg eend] in Hw. destruct Hw as [Hp [Hi Hl]]. cbn [free] in Hf. specialize (IH inbr Hi Hf).
      destruct (traverse inbr i) as [y|st p|st]; cbn [bind good] in *; auto. destruct IH as [A [B _]].
      destruct (ell_create_W y b e id A (free_true_leafy y B) Hp) as [C D].
      split; [exact C|split; [exact (free_ell _ _ _ _ _ B)|intros H; cbn in H; discriminate H]].
    - cbn [free] in Hf. discriminate Hf.
    - cbn [free] in Hf. discriminate Hf.
  Qed.

  (* ---- axes and bracket markers of a well-positioned tree ---- *)
  Definition axok (a : aname * Z * Z * bool * list Z) : Prop :=
    match a with (_, b, e, _, brpos) => okpos b e /\ Forall inr brpos end.

  Lemma axes_of_ok : forall x inbr brpos, W x -> Forall inr brpos -> Forall axok (axes_of x inbr brpos).
  Proof.
    induction x as [nm v b e|cs b e IH|i b e IH|cs b e IH|i b e IH|i b e id IH|cs b e IH|cs b e IH] using expr_ind'; intros inbr brpos Hw Hbr; cbn [axes_of].
    - constructor; [|constructor]. cbn [W ebeg eend] in Hw. cbn [axok]. tauto.
    - destruct (W_children_list _ _ _ Hw) as [Hc _]. apply Forall_forall. intros a Ha. apply in_flat_map in Ha as [c [Hc1 Ha]].
      rewrite Forall_forall in IH, Hc. specialize (IH c Hc1 inbr brpos (Hc c Hc1) Hbr). rewrite Forall_forall in IH. auto.
    - cbn [W] in Hw. apply IH; tauto.
    - destruct (W_children_cat _ _ _ Hw) as [Hc _]. apply Forall_forall. intros a Ha. apply in_flat_map in Ha as [c [Hc1 Ha]].
      rewrite Forall_forall in IH, Hc. specialize (IH c Hc1 inbr brpos (Hc c Hc1) Hbr). rewrite Forall_forall in IH. auto.
    - cbn [W] in Hw. destruct Hw as [_ [Hi [Hb He]]]. apply IH; [exact Hi|]. cbn [List.app]. constructor; [exact Hb|constructor; [exact He|exact Hbr]].
    - cbn [W] in Hw. apply IH; tauto.
    - destruct (W_children_args _ _ _ Hw) as [Hc _]. apply Forall_forall. intros a Ha. apply in_flat_map in Ha as [c [Hc1 Ha]].
      rewrite Forall_forall in IH, Hc. specialize (IH c Hc1 inbr brpos (Hc c Hc1) Hbr). rewrite Forall_forall in IH. auto.
    - destruct (W_children_op _ _ _ Hw) as [Hc _]. apply Forall_forall. intros a Ha. apply in_flat_map in Ha as [c [Hc1 Ha]].
      rewrite Forall_forall in IH, Hc. specialize (IH c Hc1 inbr brpos (Hc c Hc1) Hbr). rewrite Forall_forall in IH. auto.
  Qed.


  Lemma bracket_check_ok axs nm : Forall axok axs -> Forall inr (bracket_check_pos axs nm).
  Proof.
    intros H. unfold bracket_check_pos. apply Forall_forall. intros p Hp. apply in_flat_map in Hp as [a [Ha Hp]].
    rewrite Forall_forall in H. specialize (H a Ha). destruct a as [[[[nm' b] e] ib] brpos]. cbn [axok] in H. destruct H as [H1 H2].
    destruct (aname_eqb nm' nm); [|contradiction]. apply in_app_or in Hp as [Hp|Hp].
    - pose proof (okpos_range b e H1) as Hr. rewrite Forall_forall in Hr. auto.
    - rewrite Forall_forall in H2. auto.
  Qed.

  (* ---- everything after the first-stage parse ---- *)
  Definition stage2 (x : expr) : result expr :=
    do '(cs, b, e) <- mu_op arrow_pos x;
    do cs2 <- sequence (map (fun c => do '(as_, ab, ae) <- mu_args arrow_pos c; args_create as_ ab ae) cs);
    do y <- op_create cs2 b e;
    do z <- traverse false y;
    if (2 <? length (op_children z))%nat then Err 374 arrow_pos
    else
      let axs := axes_of z false [] in
      match find (fun a => inconsistent axs (ax_name a)) axs with
      | Some a => Err 397 (bracket_check_pos axs (ax_name a))
      | None => Ok z
      end.

  Definition argsok (a : expr) : Prop :=
    exists as_ ab ae, a = EArgs as_ ab ae /\ okpos ab ae /\ Forall (fun y => W y /\ free true y = true) as_.

  Lemma args_stage_good c : W c -> free false c = true ->
    good argsok (do '(as_, ab, ae) <- mu_args arrow_pos c; args_create as_ ab ae).
  Proof.
    intros Hw Hf. pose proof (mu_args_good c Hw Hf) as H.
    destruct (mu_args arrow_pos c) as [[[as_ ab] ae]|st p|st]; cbn [bind good] in *; auto.
    destruct H as [Hp Hal]. cbn [fst snd] in *. unfold args_create.
    rewrite leafy_no_args; [|eapply Forall_impl; [|exact Hal]; intros y [_ L]; exact L].
    cbn [good]. exists as_, ab, ae. split; [reflexivity|split; [exact Hp|]].
    eapply Forall_impl; [|exact Hal]. intros y [[A [B _]] _]. exact (conj A B).
  Qed.

  Lemma traverse_args a : argsok a -> good (fun a' => W a' /\ is_args a' = true) (traverse false a).
  Proof.
    intros [as_ [ab [ae [-> [Hp Hal]]]]]. cbn [traverse].
    assert (Hys : good (fun ys => length ys = length as_ /\ Forall2 pureok as_ ys) (sequence (map (traverse false) as_))).
    { apply trav_children. eapply Forall_impl; [|exact Hal]. intros y [A B]. now apply traverse_pure. }
    destruct (sequence _) as [ys|st p|st]; cbn [bind good] in *; auto. destruct Hys as [_ Hys].
    assert (Hall : Forall (fun y => W y /\ leafy y = true) ys).
    { apply (Forall2_right _ _ _ _ Hys). intros a y _ [A [B _]]. exact (conj A (free_true_leafy y B)). }
    unfold args_create. rewrite leafy_no_args; [|eapply Forall_impl; [|exact Hall]; intros y [_ L]; exact L].
    cbn [good W ebeg eend is_args]. split; [|reflexivity]. split; [exact Hp|split].
    - change (Wl ys). rewrite Wl_Forall. eapply Forall_impl; [|exact Hall]. intros y [A _]. exact A.
    - apply forallb_forall. intros y Hy. rewrite Forall_forall in Hall. apply Hall in Hy. tauto.
  Qed.

  Definition opargs (z : expr) : Prop := forallb is_args (op_children z) = true.
  Theorem stage2_good x : W x -> good opargs (stage2 x).
  Proof.
    intros Hw. unfold stage2. pose proof (mu_op_good x Hw) as H1. pose proof (mu_op_pos x Hw) as H1p.
    destruct (mu_op arrow_pos x) as [[[cs b] e]|st p|st]; cbn [bind good posok] in *; auto.
    destruct H1 as [Hne Hal]. cbn [fst snd] in *.
    assert (H2 : good (Forall argsok) (sequence (map (fun c => do '(as_, ab, ae) <- mu_args arrow_pos c; args_create as_ ab ae) cs))).
    { apply sequence_good. rewrite Forall_map. eapply Forall_impl; [|exact Hal]. intros c [A [B _]]. now apply args_stage_good. }
    destruct (sequence _) as [cs2|st p|st] eqn:E2; cbn [bind good] in *; auto.
    apply sequence_length in E2. rewrite map_length in E2.
    unfold op_create at 1. destruct cs2 as [|a0 cs2']; [destruct cs; [congruence|cbn in E2; lia]|]. cbn [bind].
    set (cs2 := a0 :: cs2') in *. cbn [traverse].
    assert (H3 : good (Forall (fun a => W a /\ is_args a = true)) (sequence (map (traverse false) cs2))).
    { apply sequence_good. rewrite Forall_map. eapply Forall_impl; [|exact H2]. intros a. apply traverse_args. }
    destruct (sequence (map (traverse false) cs2)) as [ys|st p|st] eqn:E3; cbn [bind good] in *; auto.
    apply sequence_length in E3. rewrite map_length in E3.
    unfold op_create. destruct ys as [|y0 ys']; [subst cs2; cbn in E3; lia|]. cbn [bind].
    assert (Hz : W (EOp (y0 :: ys') b e)).
    { cbn [W ebeg eend]. split; [exact H1p|split; [|discriminate]]. change (Wl (y0 :: ys')). rewrite Wl_Forall. eapply Forall_impl; [|exact H3]. intros a [A _]. exact A. }
    destruct (2 <? length (op_children (EOp (y0 :: ys') b e)))%nat; [exact arrow_ok|].
    cbv zeta. destruct (find _ _) as [a|]; cbn [good].
    2:{ unfold opargs. cbn [op_children]. apply forallb_forall. intros a Ha. rewrite Forall_forall in H3. apply H3 in Ha. tauto. }
    apply bracket_check_ok. apply axes_of_ok; [exact Hz|constructor].
  Qed.
End Len.

(* ---- the arrow positions lie inside the text ---- *)
Lemma literal_positions_ok : forall cs pos, Forall (fun p => pos <= p < pos + Z.of_nat (length cs)) (literal_positions cs pos).
Proof.
  assert (H : forall k cs pos, (length cs <= k)%nat -> Forall (fun p => pos <= p < pos + Z.of_nat (length cs)) (literal_positions cs pos)).
  { induction k as [|k IH]; intros cs pos Hk.
    - destruct cs; [constructor|cbn in Hk; lia].
    - destruct cs as [|c r]; [constructor|]. cbn [length] in Hk.
      assert (Hr : Forall (fun p => pos <= p < pos + Z.of_nat (length (c :: r))) (literal_positions r (pos + 1))).
      { eapply Forall_impl; [|apply (IH r (pos + 1)); lia]. intros p Hp. cbv beta in *. cbn [length]. lia. }
      cbn [literal_positions].
      destruct c as [|c]; [exact Hr|].
      repeat (destruct c as [c|c|]; try exact Hr).
      destruct r as [|d r']; [exact Hr|].
      destruct d as [|d]; [exact Hr|].
      repeat (destruct d as [d|d|]; try exact Hr).
      constructor; [cbn [length]; lia|]. constructor; [cbn [length]; lia|]. exact Hr. }
  intros cs pos. apply (H (length cs)). lia.
Qed.

(* ---- the theorem: the parser never fails internally, and every position it reports lies in the text ---- *)
Definition in_text (text : list N) (p : Z) : Prop := 0 <= p < Z.of_nat (length text).

Definition well_reported {A} (text : list N) (r : result A) : Prop :=
  match r with Ok _ => True | Err _ pos => Forall (in_text text) pos | Internal _ => False end.

Lemma parse_op_good_strong text : well_reported text (parse_op text) /\ match parse_op text with Ok z => opargs z | _ => True end.
Proof.
  set (n := Z.of_nat (length text)). assert (Hn0 : 0 <= n) by (unfold n; lia).
  assert (Harrow : Forall (inr n) (literal_positions text 0)).
  { eapply Forall_impl; [|apply literal_positions_ok]. intros p Hp. cbv beta in Hp. unfold inr, n. lia. }
  assert (Hconv : forall (r : result expr), good n opargs r -> well_reported text r /\ match r with Ok z => opargs z | _ => True end).
  { intros r. destruct r; cbn; auto. }
  assert (Hlex : Forall (tokok n) (lex text 0 [])).
  { apply (lex_ok n (length text)); [lia|cbn; lia|unfold n; lia]. }
  change (parse_op text) with
    (match first_bad (lex text 0 []) with
     | Some t => Err 73 (range (tbeg t) (tend t))
     | None => do tts <- group (dedupe (lex text 0 []) false) [] []; do x <- parse_top tts; stage2 (literal_positions text 0) x
     end).
  destruct (first_bad (lex text 0 [])) as [t|] eqn:Eb.
  - apply first_bad_some in Eb. rewrite Forall_forall in Hlex. destruct (Hlex t Eb) as [A [B C]].
    split; [|exact I]. cbn [well_reported]. eapply Forall_impl; [|apply (range_inr n); [exact A|exact C]]. intros p Hp. exact Hp.
  - apply Hconv. apply first_bad_none in Eb.
    assert (Hg : good n (Forall (ttok n)) (group (dedupe (lex text 0 []) false) [] [])).
    { apply group_good; [|constructor|constructor]. apply Forall_forall. intros t Ht. apply dedupe_sub in Ht.
      rewrite Forall_forall in Hlex, Eb. split; [now apply Hlex|now apply Eb]. }
    destruct (group _ _ _) as [tts|st p|st]; cbn [bind good] in *; auto.
    pose proof (parse_top_good n Hn0 tts Hg) as Hp.
    destruct (parse_top tts) as [x|st p|st]; cbn [bind good] in *; auto.
    apply (stage2_good n _ Harrow x Hp).
Qed.

Theorem parse_op_good text : well_reported text (parse_op text).
Proof. apply parse_op_good_strong. Qed.

Lemma comma_positions_ok : forall cs pos, Forall (fun p => pos <= p < pos + Z.of_nat (length cs)) (comma_positions cs pos).
Proof.
  induction cs as [|c r IH]; intros pos; [constructor|].
  assert (Hr : Forall (fun p => pos <= p < pos + Z.of_nat (length (c :: r))) (comma_positions r (pos + 1))).
  { eapply Forall_impl; [|apply (IH (pos + 1))]. intros p Hp. cbv beta in *. cbn [length]. lia. }
  cbn [comma_positions].
  destruct c as [|c]; [exact Hr|].
  repeat (destruct c as [c|c|]; try exact Hr).
  constructor; [cbn [length]; lia|exact Hr].
Qed.

Theorem parse_args_good text : well_reported text (parse_args text).
Proof.
  unfold parse_args. destruct (parse_op_good_strong text) as [H H2].
  destruct (parse_op text) as [x|st p|st]; cbn [bind well_reported] in *; auto.
  unfold opargs in H2. destruct (op_children x) as [|a [|a2 r]].
  - cbn [well_reported]. eapply Forall_impl; [|apply literal_positions_ok]. intros p Hp. unfold in_text. cbv beta in Hp. lia.
  - cbn [forallb] in H2. destruct (is_args a); [exact I|discriminate H2].
  - cbn [well_reported]. eapply Forall_impl; [|apply literal_positions_ok]. intros p Hp. unfold in_text. cbv beta in Hp. lia.
Qed.

Theorem parse_arg_good text : well_reported text (parse_arg text).
Proof.
  unfold parse_arg. pose proof (parse_args_good text) as H.
  destruct (parse_args text) as [a|st p|st]; cbn [bind well_reported] in *; auto.
  assert (Hc : Forall (in_text text) (comma_positions text 0)).
  { eapply Forall_impl; [|apply comma_positions_ok]. intros p Hp. unfold in_text. cbv beta in Hp. lia. }
  destruct a; try exact Hc. destruct cs as [|x [|y r]]; try exact Hc. exact I.
Qed.
