(* With every state-replacing registry method under the lock, every schedule is serialisable. *)
From Coq Require Import List ZArith Bool Arith Lia.
From EinxV Require Import Model.Registry Model.Conc.
Import ListNotations.

Lemma nth_error_upd_same {A} (l : list A) i x t : nth_error l i = Some t -> nth_error (upd l i x) i = Some x.
Proof. revert i; induction l as [|y l IH]; intros [|i] H; cbn in *; try discriminate; auto. Qed.
Lemma nth_error_upd_other {A} (l : list A) i j x : i <> j -> nth_error (upd l i x) j = nth_error l j.
Proof. revert i j; induction l as [|y l IH]; intros [|i] [|j] H; cbn; auto; try congruence. Qed.
Lemma upd_length {A} (l : list A) i x : length (upd l i x) = length l.
Proof. revert i; induction l as [|y l IH]; intros [|i]; cbn; auto. Qed.

Lemma serial_snoc s0 l i o :
  serial s0 (l ++ [(i, o)]) =
  (fst (step (fst (serial s0 l)) o), snd (serial s0 l) ++ [(i, snd (step (fst (serial s0 l)) o))]).
Proof.
  revert s0; induction l as [|[j p] l IH]; intros s0.
  - cbn [serial app fst snd]. destruct (step s0 o) as [s1 x]. reflexivity.
  - cbn [serial app]. destruct (step s0 p) as [s1 x]. rewrite IH. destruct (serial s1 l) as [s2 xs]. reflexivity.
Qed.

Lemma ops_of_snoc_same i l o : ops_of i (l ++ [(i, o)]) = ops_of i l ++ [o].
Proof. unfold ops_of. rewrite filter_app, map_app. cbn. now rewrite Nat.eqb_refl. Qed.
Lemma ops_of_snoc_other i j l o : i <> j -> ops_of j (l ++ [(i, o)]) = ops_of j l.
Proof. intros H. unfold ops_of. rewrite filter_app, map_app. cbn. apply Nat.eqb_neq in H. rewrite H. cbn. apply app_nil_r. Qed.
Lemma results_of_snoc_same i l r : results_of i (l ++ [(i, r)]) = results_of i l ++ [r].
Proof. unfold results_of. rewrite filter_app, map_app. cbn. now rewrite Nat.eqb_refl. Qed.
Lemma results_of_snoc_other i j l r : i <> j -> results_of j (l ++ [(i, r)]) = results_of j l.
Proof. intros H. unfold results_of. rewrite filter_app, map_app. cbn. apply Nat.eqb_neq in H. rewrite H. cbn. apply app_nil_r. Qed.

Section Locked.
  Variable locked : rop -> bool.
  Hypothesis all_locked : forall o, locked o = true.
  Variable s0 : S.
  Variable progs : list (list rop).

  Definition pend_ops (t : tstate) : list rop := match pending t with Some (o, _) => [o] | None => [] end.

  Definition thread_ok (g : gstate) (i : nat) (t : tstate) (p0 : list rop) : Prop :=
    p0 = ops_of i (log g) ++ pend_ops t ++ prog t
    /\ outs t = results_of i (snd (serial s0 (log g)))
    /\ match pending t with
       | Some (o, snap) => snap = shared g /\ owner g = Some i
       | None => owner g <> Some i
       end.

  Definition Inv (g : gstate) : Prop :=
    shared g = fst (serial s0 (log g))
    /\ length (threads g) = length progs
    /\ forall i t p0, nth_error (threads g) i = Some t -> nth_error progs i = Some p0 -> thread_ok g i t p0.

  Lemma Inv_init : Inv (ginit s0 progs).
  Proof.
    unfold Inv, ginit; cbn. split; [reflexivity|]. split; [apply map_length|].
    intros i t p0 Ht Hp. rewrite nth_error_map, Hp in Ht. cbn in Ht. injection Ht as <-.
    unfold thread_ok, pend_ops; cbn. repeat split; auto. discriminate.
  Qed.

  Lemma Inv_step g i : Inv g -> Inv (sched_step locked g i).
  Proof.
    intros [Hs [Hl Ht]]. unfold sched_step.
    destruct (nth_error (threads g) i) as [t|] eqn:Ei; [|exact (conj Hs (conj Hl Ht))].
    assert (Hi : i < length progs) by (rewrite <- Hl; apply nth_error_Some; congruence).
    destruct (nth_error progs i) as [p0|] eqn:Ep; [|apply nth_error_None in Ep; lia].
    destruct (Ht i t p0 Ei Ep) as [Hp0 [Ho Hpend]].
    destruct (pending t) as [[o snap]|] eqn:Epd.
    - (* the pending operation completes *)
      destruct Hpend as [Hsnap Hown]. subst snap.
      destruct (step (shared g) o) as [s' r] eqn:Est. rewrite all_locked.
      split; [|split].
      + cbn [shared log]. rewrite serial_snoc. cbn [fst]. rewrite <- Hs, Est. reflexivity.
      + cbn [threads]. now rewrite upd_length.
      + intros j tj pj Hj Hpj. cbn [threads] in Hj. destruct (Nat.eq_dec i j) as [<-|Hne].
        * rewrite (nth_error_upd_same _ _ _ _ Ei) in Hj. injection Hj as <-. rewrite Ep in Hpj. injection Hpj as <-.
          unfold thread_ok, pend_ops. cbn [log shared owner pending prog outs].
          rewrite ops_of_snoc_same, serial_snoc. cbn [snd]. rewrite results_of_snoc_same, <- Hs, Est. cbn [snd].
          repeat split.
          -- rewrite Hp0. unfold pend_ops. rewrite Epd. cbn [app]. now rewrite <- app_assoc.
          -- now rewrite Ho.
          -- discriminate.
        * rewrite nth_error_upd_other in Hj by exact Hne.
          destruct (Ht j tj pj Hj Hpj) as [Hq0 [Hqo Hqp]].
          unfold thread_ok. cbn [log shared owner].
          rewrite (ops_of_snoc_other i j _ _ Hne), serial_snoc. cbn [snd]. rewrite (results_of_snoc_other i j _ _ Hne).
          repeat split; auto.
          destruct (pending tj) as [[oj sj]|]; [|discriminate].
          destruct Hqp as [_ Hown']. rewrite Hown in Hown'. injection Hown' as ->. contradiction.
    - (* the thread is idle *)
      destruct (prog t) as [|o rest] eqn:Epr; [exact (conj Hs (conj Hl Ht))|].
      rewrite all_locked.
      destruct (owner g) as [k|] eqn:Eow; [exact (conj Hs (conj Hl Ht))|].
      split; [exact Hs|]. split; [cbn [threads]; now rewrite upd_length|].
      intros j tj pj Hj Hpj. cbn [threads] in Hj. destruct (Nat.eq_dec i j) as [<-|Hne].
      * rewrite (nth_error_upd_same _ _ _ _ Ei) in Hj. injection Hj as <-. rewrite Ep in Hpj. injection Hpj as <-.
        unfold thread_ok, pend_ops. cbn [log shared owner pending prog outs].
        repeat split; auto. rewrite Hp0. unfold pend_ops. rewrite Epd. reflexivity.
      * rewrite nth_error_upd_other in Hj by exact Hne.
        destruct (Ht j tj pj Hj Hpj) as [Hq0 [Hqo Hqp]].
        unfold thread_ok. cbn [log shared owner]. split; [exact Hq0|]. split; [exact Hqo|].
        destruct (pending tj) as [[oj sj]|].
        -- destruct Hqp as [_ Hc]. rewrite Eow in Hc. discriminate.
        -- intros Hc. apply Hne. congruence.
  Qed.

  Lemma Inv_run sched : forall g, Inv g -> Inv (run_sched locked g sched).
  Proof. induction sched as [|i sched IH]; intros g H; cbn; [exact H|]. apply IH, Inv_step, H. Qed.

  Definition finished (g : gstate) : Prop :=
    forall i t, nth_error (threads g) i = Some t -> prog t = [] /\ pending t = None.

  (* For every schedule that lets all threads finish, the completion order [log] is a serial
     execution of exactly the threads' operations, in each thread's program order, that yields
     the same final registry state and the same result for every call. *)
  Theorem locked_serialisable sched :
    let g := run_sched locked (ginit s0 progs) sched in
    finished g ->
    shared g = fst (serial s0 (log g))
    /\ forall i t p0, nth_error (threads g) i = Some t -> nth_error progs i = Some p0 ->
         ops_of i (log g) = p0 /\ outs t = results_of i (snd (serial s0 (log g))).
  Proof.
    intros g Hfin. destruct (Inv_run sched _ Inv_init) as [Hs [Hl Ht]]. fold g in Hs, Hl, Ht.
    split; [exact Hs|]. intros i t p0 Hi Hp. destruct (Ht i t p0 Hi Hp) as [H1 [H2 _]].
    destruct (Hfin i t Hi) as [Hpr Hpd]. unfold pend_ops in H1. rewrite Hpr, Hpd in H1. cbn [app] in H1.
    rewrite app_nil_r in H1. split; [now symmetry|exact H2].
  Qed.
End Locked.
