(* proofs for C04 (generated variable names): the names the code generator hands out are pairwise different, never a
   reserved word, and the stream never runs dry *)
From Coq Require Import List Arith Bool Lia Ascii String.
From EinxV Require Import Gen.GenNames Model.Names.
Import ListNotations.

Section StreamProofs.
  Variable K : nat.
  Hypothesis HK : 0 < K.

  (* bijective base-K value of a word *)
  Fixpoint wval (w : word) : nat := match w with [] => 0 | d :: r => S d + K * wval r end.
  Definition wfw (w : word) : Prop := Forall (fun d => d < K) w.

  Lemma wsucc_spec w : wfw w -> wval (wsucc K w) = S (wval w) /\ wfw (wsucc K w).
  Proof.
    induction w as [|d r IH]; intros Hw.
    - cbn. split; [lia|]. constructor; [exact HK|constructor].
    - inversion Hw as [|? ? Hd Hr]; subst. cbn [wsucc]. destruct (Nat.ltb_spec (S d) K) as [Hlt|Hge].
      + cbn [wval]. split; [lia|]. constructor; assumption.
      + destruct (IH Hr) as [Hv Hf]. cbn [wval]. rewrite Hv. split; [|constructor; [exact HK|exact Hf]].
        assert (S d = K) by lia. nia.
  Qed.

  Variable res : word -> bool.

  Lemma take_ge fuel : forall count w x, wfw w -> In x (take K res fuel count w) -> wval w <= wval x /\ wfw x.
  Proof.
    induction fuel as [|f IH]; intros count w x Hw Hin; [contradiction|]. cbn [take] in Hin. destruct count as [|c]; [contradiction|].
    destruct (wsucc_spec w Hw) as [Hv Hf]. destruct (res w).
    - destruct (IH _ _ _ Hf Hin) as [H1 H2]. split; [lia|exact H2].
    - destruct Hin as [<-|Hin]; [split; [lia|exact Hw]|]. destruct (IH _ _ _ Hf Hin) as [H1 H2]. split; [lia|exact H2].
  Qed.

  Theorem take_not_reserved fuel : forall count w x, In x (take K res fuel count w) -> res x = false.
  Proof.
    induction fuel as [|f IH]; intros count w x Hin; [contradiction|]. cbn [take] in Hin. destruct count as [|c]; [contradiction|].
    destruct (res w) eqn:E; [exact (IH _ _ _ Hin)|]. destruct Hin as [<-|Hin]; [exact E|exact (IH _ _ _ Hin)].
  Qed.

  Theorem take_nodup fuel : forall count w, wfw w -> NoDup (take K res fuel count w).
  Proof.
    induction fuel as [|f IH]; intros count w Hw; [constructor|]. cbn [take]. destruct count as [|c]; [constructor|].
    destruct (wsucc_spec w Hw) as [Hv Hf]. destruct (res w); [now apply IH|]. constructor; [|now apply IH].
    intros Hin. destruct (take_ge _ _ _ _ Hf Hin) as [H _]. lia.
  Qed.

  Theorem take_length_le fuel : forall count w, List.length (take K res fuel count w) <= count.
  Proof.
    induction fuel as [|f IH]; intros count w; [cbn; lia|]. cbn [take]. destruct count as [|c]; [cbn; lia|].
    destruct (res w); [apply IH|]. cbn [List.length]. specialize (IH c (wsucc K w)). lia.
  Qed.
End StreamProofs.

(* ---- the stream never runs dry: with a finite list L of reserved words, count + |L| words are enough ---- *)
Lemma word_eqb_eq a b : word_eqb a b = true <-> a = b.
Proof. unfold word_eqb. destruct (list_eq_dec Nat.eq_dec a b); split; congruence. Qed.

Lemma reserved_in_In L w : reserved_in L w = true <-> In w L.
Proof.
  unfold reserved_in. rewrite existsb_exists. split.
  - intros [x [Hx E]]. apply word_eqb_eq in E. now subst.
  - intros H. exists w. split; [exact H|now apply word_eqb_eq].
Qed.

Section Dry.
  Variable K : nat.
  Hypothesis HK : 0 < K.
  Variable L : list word.

  (* reserved words the stream has not passed yet *)
  Definition pending (w : word) : list word := filter (fun x => Nat.leb (wval K w) (wval K x)) L.

  Lemma filter_length_le {A} (P Q : A -> bool) (l : list A) : (forall x, Q x = true -> P x = true) ->
    List.length (filter Q l) <= List.length (filter P l).
  Proof.
    intros H. induction l as [|x r IH]; [cbn; lia|]. cbn [filter]. destruct (Q x) eqn:EQ.
    - rewrite (H x EQ). cbn [List.length]. lia.
    - destruct (P x); cbn [List.length]; lia.
  Qed.
  Lemma filter_length_lt {A} (P Q : A -> bool) (l : list A) y : (forall x, Q x = true -> P x = true) ->
    In y l -> P y = true -> Q y = false -> List.length (filter Q l) < List.length (filter P l).
  Proof.
    intros H. induction l as [|x r IH]; intros Hin Py Qy; [contradiction|]. cbn [filter]. destruct Hin as [->|Hin].
    - rewrite Py, Qy. cbn [List.length]. pose proof (filter_length_le P Q r H). lia.
    - specialize (IH Hin Py Qy). destruct (Q x) eqn:EQ.
      + rewrite (H x EQ). cbn [List.length]. lia.
      + destruct (P x); cbn [List.length]; lia.
  Qed.

  Theorem take_never_dry fuel : forall count w, wfw K w -> count + List.length (pending w) <= fuel ->
    List.length (take K (reserved_in L) fuel count w) = count.
  Proof.
    induction fuel as [|f IH]; intros count w Hw Hf.
    - assert (count = 0) by lia. subst. reflexivity.
    - cbn [take]. destruct count as [|c]; [reflexivity|]. destruct (wsucc_spec K HK w Hw) as [Hv Hwf].
      assert (Hmono : forall x, Nat.leb (wval K (wsucc K w)) (wval K x) = true -> Nat.leb (wval K w) (wval K x) = true).
      { intros x Hx. apply Nat.leb_le in Hx. apply Nat.leb_le. lia. }
      destruct (reserved_in L w) eqn:E.
      + apply reserved_in_In in E. apply IH; [exact Hwf|].
        assert (List.length (pending (wsucc K w)) < List.length (pending w)).
        { unfold pending. apply (filter_length_lt _ _ L w Hmono E); [apply Nat.leb_le; lia|apply Nat.leb_gt; lia]. }
        lia.
      + cbn [List.length]. f_equal. apply IH; [exact Hwf|].
        pose proof (filter_length_le _ _ L Hmono) as Hle. fold (pending (wsucc K w)) in Hle. fold (pending w) in Hle. lia.
  Qed.

  Lemma pending_le w : List.length (pending w) <= List.length L.
  Proof. unfold pending. induction L as [|x r IH]; [cbn; lia|]. cbn [filter]. destruct (Nat.leb _ _); cbn [List.length]; lia. Qed.
End Dry.

(* ---- the stream of the source ---- *)
Lemma alphabet_pos : 0 < gen_names_alphabet.
Proof. unfold gen_names_alphabet. lia. Qed.

Lemma start_wf : wfw gen_names_alphabet start_word.
Proof. unfold start_word, wfw. apply Forall_forall. intros d Hd. apply repeat_spec in Hd. subst. exact alphabet_pos. Qed.

Theorem gen_names_are_distinct L count : NoDup (gen_take L count).
Proof. apply (take_nodup _ alphabet_pos). exact start_wf. Qed.

Theorem gen_names_are_not_reserved L count x : In x (gen_take L count) -> ~ In x L.
Proof. intros Hin HL. apply take_not_reserved in Hin. apply reserved_in_In in HL. congruence. Qed.

Theorem gen_names_never_run_dry L count : List.length (gen_take L count) = count.
Proof.
  unfold gen_take. apply (take_never_dry _ alphabet_pos); [exact start_wf|]. pose proof (pending_le gen_names_alphabet alphabet_pos L start_word) as Hp. lia.
Qed.

(* every generated word is over the alphabet: it renders to lower-case letters *)
Theorem gen_names_are_words_over_the_alphabet L count x : In x (gen_take L count) -> Forall (fun d => d < gen_names_alphabet) x.
Proof. intros Hin. exact (proj2 (take_ge _ alphabet_pos _ _ _ _ _ start_wf Hin)). Qed.

(* rendering is injective on words over the alphabet (distinct words are distinct identifiers) *)
Lemma ascii_inj a b : a < 256 -> b < 256 -> ascii_of_nat a = ascii_of_nat b -> a = b.
Proof. intros Ha Hb H. rewrite <- (nat_ascii_embedding a Ha), <- (nat_ascii_embedding b Hb). now rewrite H. Qed.

Lemma render_acc_inj : forall (x y : word) (a b : string),
  Forall (fun d => d < gen_names_alphabet) x -> Forall (fun d => d < gen_names_alphabet) y -> String.length a = String.length b ->
  fold_left (fun acc d => String (ascii_of_nat (gen_names_first_char + d)) acc) x a =
  fold_left (fun acc d => String (ascii_of_nat (gen_names_first_char + d)) acc) y b -> List.length x = List.length y -> x = y /\ a = b.
Proof.
  induction x as [|d r IH]; intros [|e s] a b Hx Hy Hl H Hlen; try discriminate.
  - cbn in H. now split.
  - cbn [fold_left] in H. inversion Hx as [|? ? Hd Hr]; subst. inversion Hy as [|? ? He Hs]; subst.
    destruct (IH s (String (ascii_of_nat (gen_names_first_char + d)) a) (String (ascii_of_nat (gen_names_first_char + e)) b) Hr Hs) as [E1 E2];
      [cbn; now rewrite Hl|exact H|cbn in Hlen; lia|].
    injection E2 as E3 E4. apply ascii_inj in E3; [|unfold gen_names_first_char, gen_names_alphabet in *; lia|unfold gen_names_first_char, gen_names_alphabet in *; lia].
    split; [f_equal; [lia|exact E1]|exact E4].
Qed.

Lemma render_length : forall (x : word) (a : string),
  String.length (fold_left (fun acc d => String (ascii_of_nat (gen_names_first_char + d)) acc) x a) = List.length x + String.length a.
Proof. induction x as [|d r IH]; intros a; [reflexivity|]. cbn [fold_left List.length]. rewrite IH. cbn. lia. Qed.

Theorem render_injective x y :
  Forall (fun d => d < gen_names_alphabet) x -> Forall (fun d => d < gen_names_alphabet) y -> render x = render y -> x = y.
Proof.
  intros Hx Hy H. unfold render in H. assert (Hlen : List.length x = List.length y).
  { pose proof (render_length x EmptyString) as H1. pose proof (render_length y EmptyString) as H2. rewrite H in H1. cbn in H1, H2. lia. }
  exact (proj1 (render_acc_inj x y _ _ Hx Hy eq_refl H Hlen)).
Qed.

(* ---- naming the groups of variables: a group with a single hint takes it, every other group takes the next generated name ---- *)
Definition is_none {A} (o : option A) : bool := match o with None => true | Some _ => false end.
Definition count_none (hints : list (option word)) : nat := List.length (filter is_none hints).
(* the names given to the groups without a hint, in order *)
Definition picks (hints : list (option word)) (names : list (option word)) : list (option word) :=
  map snd (filter (fun p => is_none (fst p)) (combine hints names)).

Lemma picks_name_groups hints : forall s, count_none hints <= List.length s ->
  picks hints (name_groups hints s) = map Some (firstn (count_none hints) s).
Proof.
  induction hints as [|[h|] r IH]; intros s Hs.
  - reflexivity.
  - cbn [name_groups]. unfold picks, count_none in *. cbn [combine filter fst is_none]. apply IH. exact Hs.
  - unfold count_none in Hs. cbn [filter is_none List.length] in Hs. destruct s as [|n s]; [cbn in Hs; lia|].
    cbn [name_groups]. unfold picks, count_none. cbn [combine filter fst is_none map snd List.length firstn].
    f_equal. apply IH. cbn [List.length] in Hs. unfold count_none. lia.
Qed.

Lemma NoDup_firstn {A} (l : list A) n : NoDup l -> NoDup (firstn n l).
Proof.
  revert n. induction l as [|x r IH]; intros [|n] H; cbn [firstn]; try constructor.
  - inversion H as [|? ? Hx Hr]; subst. intros Hin. apply Hx. revert Hin. clear. revert n. induction r as [|y r IH]; intros [|n] Hin; cbn [firstn] in Hin; try contradiction.
    destruct Hin as [->|Hin]; [now left|right; eapply IH; exact Hin].
  - inversion H; subst. now apply IH.
Qed.
Lemma In_firstn {A} (l : list A) n x : In x (firstn n l) -> In x l.
Proof. revert n. induction l as [|y r IH]; intros [|n] H; cbn [firstn] in H; try contradiction. destruct H as [->|H]; [now left|right; eapply IH; exact H]. Qed.

Theorem groups_without_hint_get_fresh_names (L : list word) (hints : list (option word)) :
  let names := name_groups hints (gen_take L (count_none hints)) in
  NoDup (picks hints names) /\ forall o, In o (picks hints names) -> exists x, o = Some x /\ ~ In x L.
Proof.
  cbn zeta. rewrite picks_name_groups by (rewrite gen_names_never_run_dry; lia).
  rewrite firstn_all2 by (rewrite gen_names_never_run_dry; lia). split.
  - pose proof (gen_names_are_distinct L (count_none hints)) as ND. induction ND as [|x l Hx _ IHl]; cbn [map]; constructor; [|exact IHl].
    intros Hin. apply in_map_iff in Hin as [y [E Hy]]. injection E as ->. contradiction.
  - intros o Hin. apply in_map_iff in Hin as [x [<- Hx]]. exists x. split; [reflexivity|]. eapply gen_names_are_not_reserved. exact Hx.
Qed.
