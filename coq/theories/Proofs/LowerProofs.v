(* The lowering model of a rearrangement computes the loop-notation meaning: every element of the
   input ends up at the position the reference semantics (Spec/LoopSem.v) prescribes - for every
   nesting depth, every number of axes and every size. *)
From Coq Require Import List NArith Arith Bool Lia.
From Coq Require Import String.
Close Scope string_scope.
From EinxV Require Import Spec.LoopSem Model.Opt Model.Lower Proofs.LoopSemProofs Proofs.OptProofs Proofs.AdapterProofs.
Import ListNotations.
Open Scope N_scope.

Lemma plain_offset_free p : plain p = true -> offset_free p = true.
Proof.
  induction p as [n l m|cs IH|o t i IH] using pex_ind'; cbn [plain offset_free]; intros H; try discriminate; [reflexivity|].
  apply forallb_forall. intros c Hc. rewrite forallb_forall in H. rewrite Forall_forall in IH. auto.
Qed.
Lemma plain_dims_offset_free dims : forallb plain dims = true -> forallb offset_free dims = true.
Proof. intros H. apply forallb_forall. intros c Hc. rewrite forallb_forall in H. apply plain_offset_free; auto. Qed.

Lemma llens_dims dims : dims_leaf_len dims = llens dims.
Proof. unfold dims_leaf_len, llens, leaves, leaf_len. apply flat_map_map_pleaves. Qed.
Lemma lidx_dims rho dims : dims_leaf_idx rho dims = map (lookup rho) (lnames dims).
Proof. unfold dims_leaf_idx, lnames, leaves, leaf_idx. rewrite flat_map_map_pleaves, map_map. reflexivity. Qed.

(* every axis index lies below the axis length *)
Definition in_bounds (rho : env) (dims : list pex) : Prop :=
  forall x, In x (leaves dims) -> lookup rho (fst (fst x)) < snd (fst x).

Lemma leaf_valid rho dims : in_bounds rho dims -> valid_idx (map (lookup rho) (lnames dims)) (llens dims).
Proof.
  unfold in_bounds, lnames, llens, valid_idx. induction (leaves dims) as [|x l IH]; intros H; cbn [map]; constructor.
  - apply H. now left.
  - apply IH. intros y Hy. apply H. now right.
Qed.

Lemma pidx_lt rho p : offset_free p = true -> (forall x, In x (pleaves p) -> lookup rho (fst (fst x)) < snd (fst x)) -> pidx rho p < psize p.
Proof.
  intros Hof Hb. rewrite (pidx_leaves rho p Hof), (psize_leaves p Hof).
  assert (Hv : Forall2 (fun i l => i < l) (leaf_idx rho p) (leaf_len p)).
  { unfold leaf_idx, leaf_len. induction (pleaves p) as [|x l IH]; cbn [map]; constructor; [apply Hb; now left|apply IH; intros y Hy; apply Hb; now right]. }
  destruct (ravel_le _ _ Hv) as [H|[E1 E2]]; [exact H|]. rewrite E2, E1. cbn. lia.
Qed.

Lemma dims_valid rho dims : forallb offset_free dims = true -> in_bounds rho dims -> valid_idx (map (pidx rho) dims) (map psize dims).
Proof.
  unfold in_bounds, leaves, valid_idx. induction dims as [|d r IH]; intros Hof Hb; cbn [map]; constructor.
  - cbn [forallb] in Hof. apply andb_prop in Hof as [H1 _]. apply pidx_lt; [exact H1|]. intros x Hx. apply Hb. cbn [flat_map]. apply in_or_app. now left.
  - cbn [forallb] in Hof. apply andb_prop in Hof as [_ H2]. apply IH; [exact H2|]. intros x Hx. apply Hb. cbn [flat_map]. apply in_or_app. now right.
Qed.

Lemma memNb_In n l : memNb n l = true <-> In n l.
Proof.
  unfold memNb. rewrite existsb_exists. split; [intros [x [Hx E]]; apply N.eqb_eq in E; now subst|].
  intros H. exists n. split; [exact H|apply N.eqb_refl].
Qed.

Lemma nth_index_of {A} (f : N -> A) (d : A) n names : In n names -> nth (index_of n names) (map f names) d = f n.
Proof.
  induction names as [|x r IH]; intros H; [contradiction|]. cbn [index_of map]. destruct (x =? n) eqn:E.
  - apply N.eqb_eq in E. now subst.
  - cbn [nth]. apply IH. destruct H as [->|H]; [rewrite N.eqb_refl in E; discriminate|exact H].
Qed.

(* with distinct names, the leaf found by name is the leaf itself *)
Lemma nth_index_of_leaf (ls : list (N * N * bool)) n l :
  nodupb (map (fun x => fst (fst x)) ls) = true -> (exists m, In (n, l, m) ls) ->
  nth (index_of n (map (fun x => fst (fst x)) ls)) (map (fun x => snd (fst x)) ls) 0 = l.
Proof.
  induction ls as [|[[n0 l0] m0] r IH]; intros Hnd [m Hin]; [contradiction|]. cbn [map fst snd nodupb index_of] in *.
  apply andb_prop in Hnd as [Hn0 Hr]. destruct (n0 =? n) eqn:E.
  - apply N.eqb_eq in E. subst n0. destruct Hin as [Hin|Hin]; [injection Hin as -> ->; reflexivity|].
    exfalso. apply negb_true_iff in Hn0. assert (memNb n (map (fun x => fst (fst x)) r) = true); [|congruence].
    apply memNb_In. apply in_map_iff. exists (n, l, m). auto.
  - cbn [nth]. apply IH; [exact Hr|]. destruct Hin as [Hin|Hin]; [injection Hin as -> -> ->; rewrite N.eqb_refl in E; discriminate|eauto].
Qed.

Section Lowering.
  Variable V : Type.
  Variable inp : nat -> entries V.
  Variable F : String.string -> list (entries V) -> list String.string -> entries V.
  Variable BC : list N -> list N -> entries V -> entries V.
  Variable CC : nat -> list (list N * entries V) -> entries V.

  Variables din dout : list pex.
  Hypothesis Hok : rearrange_ok din dout = true.

  Let Hplain_in : forallb plain din = true.
  Proof. unfold rearrange_ok in Hok. repeat (apply andb_prop in Hok as [Hok ?]). exact Hok. Qed.
  Let Hplain_out : forallb plain dout = true.
  Proof. unfold rearrange_ok in Hok. repeat (apply andb_prop in Hok as [Hok ?]). assumption. Qed.
  Let Hnd : nodupb (lnames din) = true.
  Proof. unfold rearrange_ok in Hok. repeat (apply andb_prop in Hok as [Hok ?]). assumption. Qed.
  Let Hsame : same_axes din dout = true.
  Proof. unfold rearrange_ok in Hok. apply andb_prop in Hok as [_ H]. exact H. Qed.

  Lemma out_leaf_in x : In x (leaves dout) -> In (fst (fst x)) (lnames din) /\ exists m, In (fst (fst x), snd (fst x), m) (leaves din).
  Proof.
    intros Hx. unfold same_axes in Hsame. rewrite forallb_forall in Hsame. specialize (Hsame x Hx).
    apply existsb_exists in Hsame as [[[n l] m] [Hy E]]. cbn [fst snd] in E. apply andb_prop in E as [E1 E2].
    apply N.eqb_eq in E1, E2. rewrite E1, E2. split; [unfold lnames; apply in_map_iff; exists (n, l, m); auto|eauto].
  Qed.

  (* the transposition brings the leaf lengths and the leaf indices of the input into the output's order *)
  Lemma gather_lens : gather 0 (llens din) (perm_of din dout) = llens dout.
  Proof.
    unfold gather, perm_of, llens, lnames. rewrite !map_map. apply map_ext_in. intros x Hx.
    destruct (out_leaf_in x Hx) as [_ Hm]. apply (nth_index_of_leaf (leaves din) _ _ Hnd Hm).
  Qed.

  Lemma gather_idx rho : gather 0 (map (lookup rho) (lnames din)) (perm_of din dout) = map (lookup rho) (lnames dout).
  Proof.
    unfold gather, perm_of. rewrite map_map. unfold lnames at 3 4. rewrite !map_map. apply map_ext_in. intros x Hx.
    destruct (out_leaf_in x Hx) as [Hn _]. apply (nth_index_of (lookup rho) 0 _ _ Hn).
  Qed.

  (* where the model puts the element that the input holds at multi-index [idx] *)
  Definition moved (idx : list N) : list N :=
    unravel (ravel (gather 0 (unravel (ravel idx (map psize din)) (llens din)) (perm_of din dout)) (llens dout)) (map psize dout).

  Lemma meval_lower k : meval V inp F BC CC (lower_rearrange k din dout) = map (fun iv => (moved (fst iv), snd iv)) (inp k).
  Proof.
    unfold lower_rearrange. cbn [meval mshape]. unfold e_reshape, e_transpose. rewrite !map_map. apply map_ext. intros [i v]. cbn [fst snd].
    unfold moved. rewrite gather_lens. reflexivity.
  Qed.

  Theorem moved_is_the_meaning rho :
    in_bounds rho din -> in_bounds rho dout ->
    moved (map (pidx rho) din) = map (pidx rho) dout.
  Proof.
    intros Bin Bout. unfold moved.
    pose proof (plain_dims_offset_free _ Hplain_in) as Oin. pose proof (plain_dims_offset_free _ Hplain_out) as Oout.
    change (ravel (map (pidx rho) din) (map psize din)) with (pos rho din).
    rewrite (pos_leaves rho din Oin), llens_dims, lidx_dims.
    rewrite (unravel_ravel _ _ (leaf_valid rho din Bin)), gather_idx.
    rewrite <- lidx_dims, <- llens_dims, <- (pos_leaves rho dout Oout). unfold pos.
    apply unravel_ravel. now apply dims_valid.
  Qed.

  (* every element of the input is found in the result at the position the loop notation gives it *)
  Theorem lower_rearrange_correct k rho v :
    in_bounds rho din -> in_bounds rho dout ->
    In (map (pidx rho) din, v) (inp k) ->
    In (map (pidx rho) dout, v) (meval V inp F BC CC (lower_rearrange k din dout)).
  Proof.
    intros Bin Bout Hin. rewrite meval_lower. apply in_map_iff. exists (map (pidx rho) din, v). split; [|exact Hin].
    cbn [fst snd]. now rewrite moved_is_the_meaning.
  Qed.

  (* in flat (row-major) positions, the way the reference plan [plan_id] speaks *)
  Corollary lower_rearrange_flat rho :
    in_bounds rho din -> in_bounds rho dout ->
    ravel (moved (map (pidx rho) din)) (map psize dout) = pos rho dout /\ ravel (map (pidx rho) din) (map psize din) = pos rho din.
  Proof. intros Bin Bout. rewrite moved_is_the_meaning by assumption. split; reflexivity. Qed.
End Lowering.

(* ---------------------------------------------------------------- alignment of an element-wise input *)
Lemma nodupb_NoDup l : nodupb l = true -> NoDup l.
Proof.
  induction l as [|x r IH]; intros H; [constructor|]. cbn [nodupb] in H. apply andb_prop in H as [H1 H2]. constructor; [|now apply IH].
  intros Hin. apply memNb_In in Hin. rewrite Hin in H1. discriminate.
Qed.

Lemma nodup_leaf_inj (L : list (N * N * bool)) x y :
  NoDup (map (fun z => fst (fst z)) L) -> In x L -> In y L -> fst (fst x) = fst (fst y) -> x = y.
Proof.
  induction L as [|c l IH]; intros Hnd Hx Hy E; [contradiction|]. cbn [map] in Hnd. inversion Hnd as [|? ? Hc Hl]; subst.
  destruct Hx as [->|Hx], Hy as [->|Hy]; auto.
  - exfalso. apply Hc. rewrite E. apply in_map_iff. eauto.
  - exfalso. apply Hc. rewrite <- E. apply in_map_iff. eauto.
Qed.

Section Align.
  Variable V : Type.
  Variable inp : nat -> entries V.
  Variable F : String.string -> list (entries V) -> list String.string -> entries V.
  Variable BC : list N -> list N -> entries V -> entries V.
  Variable CC : nat -> list (list N * entries V) -> entries V.
  Variables din dout : list pex.
  Hypothesis Hok : align_ok din dout = true.

  Let Hplain_in : forallb plain din = true.
  Proof. unfold align_ok in Hok. repeat (apply andb_prop in Hok as [Hok ?]). exact Hok. Qed.
  Let Hnd_in : nodupb (lnames din) = true.
  Proof. unfold align_ok in Hok. repeat (apply andb_prop in Hok as [Hok ?]). assumption. Qed.
  Let Hnd_out : nodupb (lnames dout) = true.
  Proof. unfold align_ok in Hok. apply andb_prop in Hok as [Hok _]. apply andb_prop in Hok as [_ H]. exact H. Qed.
  Let Hsub : sub_axes din dout = true.
  Proof. unfold align_ok in Hok. apply andb_prop in Hok as [_ H]. exact H. Qed.

  (* the output-order list of the input's own axes *)
  Definition own : list (N * N) := filter (fun nl => present din (fst nl)) (onames dout).

  (* where an element ends up: output leaf order, 0 where the input has no such axis *)
  Definition aligned_idx (rho : env) : list N :=
    map (fun nl => if present din (fst nl) then lookup rho (fst nl) else 0) (onames dout).

  Lemma ravel_unit_insert (rho : env) : forall l : list (N * N),
    ravel (map (fun nl => if present din (fst nl) then lookup rho (fst nl) else 0) l)
          (map (fun nl => if present din (fst nl) then snd nl else 1) l)
    = ravel (map (fun nl => lookup rho (fst nl)) (filter (fun nl => present din (fst nl)) l))
            (map snd (filter (fun nl => present din (fst nl)) l)).
  Proof.
    induction l as [|[n len] r IH]; [reflexivity|]. cbn [map filter fst snd]. destruct (present din n); cbn [map fst snd].
    - rewrite !ravel_cons, IH. f_equal. f_equal. clear. induction r as [|[n2 l2] r IH]; [reflexivity|]. cbn [map filter fst snd].
      destruct (present din n2); cbn [map snd]; rewrite !nprod_cons, IH; lia.
    - rewrite ravel_cons, IH. lia.
  Qed.

  (* an own axis has the length it has in the input *)
  Lemma own_len n len : In (n, len) own -> exists m, In (n, len, m) (leaves din).
  Proof.
    unfold own. rewrite filter_In. intros [Hin Hp]. cbn [fst] in Hp. unfold present in Hp. apply memNb_In in Hp.
    unfold lnames in Hp. apply in_map_iff in Hp as [[[n1 l1] m1] [E Hx]]. cbn [fst] in E. subst n1.
    unfold sub_axes in Hsub. rewrite forallb_forall in Hsub. specialize (Hsub _ Hx). apply existsb_exists in Hsub as [[[n2 l2] m2] [Hy E2]].
    cbn [fst snd] in E2. apply andb_prop in E2 as [E3 E4]. apply N.eqb_eq in E3, E4. subst n2 l2.
    (* the output has one leaf named n: its length is len *)
    unfold onames in Hin. apply in_map_iff in Hin as [[[n3 l3] m3] [E5 Hz]]. cbn [fst snd] in E5. injection E5 as -> ->.
    assert (l1 = len).
    { pose proof (nodupb_NoDup _ Hnd_out) as ND. unfold lnames in ND.
      assert (Hi : (n, l1, m2) = (n, len, m3)); [|now injection Hi].
      apply (nodup_leaf_inj (leaves dout)); auto. }
    subst l1. eauto.
  Qed.

  Lemma gather_own_lens : gather 0 (llens din) (perm_align din dout) = map snd own.
  Proof.
    unfold gather, perm_align. fold own. rewrite map_map. apply map_ext_in. intros [n len] Hin. cbn [fst snd].
    destruct (own_len n len Hin) as [m Hm]. apply (nth_index_of_leaf (leaves din) n len Hnd_in). eauto.
  Qed.

  Lemma gather_own_idx rho : gather 0 (map (lookup rho) (lnames din)) (perm_align din dout) = map (fun nl => lookup rho (fst nl)) own.
  Proof.
    unfold gather, perm_align. fold own. rewrite map_map. apply map_ext_in. intros [n len] Hin. cbn [fst].
    unfold own in Hin. apply filter_In in Hin as [_ Hp]. cbn [fst] in Hp. unfold present in Hp. apply memNb_In in Hp.
    apply (nth_index_of (lookup rho) 0 _ _ Hp).
  Qed.

  Definition moved_align (idx : list N) : list N :=
    unravel (ravel (gather 0 (unravel (ravel idx (map psize din)) (llens din)) (perm_align din dout)) (map snd own)) (bshape din dout).

  Lemma meval_align k : meval V inp F BC CC (lower_align k din dout) = map (fun iv => (moved_align (fst iv), snd iv)) (inp k).
  Proof.
    unfold lower_align. cbn [meval mshape]. unfold e_reshape, e_transpose. rewrite !map_map. apply map_ext. intros [i v]. cbn [fst snd].
    unfold moved_align. rewrite gather_own_lens. reflexivity.
  Qed.

  Theorem aligned_is_the_meaning rho : in_bounds rho din -> moved_align (map (pidx rho) din) = aligned_idx rho.
  Proof.
    intros Bin. unfold moved_align. pose proof (plain_dims_offset_free _ Hplain_in) as Oin.
    change (ravel (map (pidx rho) din) (map psize din)) with (pos rho din).
    rewrite (pos_leaves rho din Oin), llens_dims, lidx_dims, (unravel_ravel _ _ (leaf_valid rho din Bin)), gather_own_idx.
    unfold own. rewrite <- (ravel_unit_insert rho (onames dout)). unfold bshape, aligned_idx. apply unravel_ravel.
    assert (Hv : forall l : list (N * N),
               (forall nl, In nl l -> present din (fst nl) = true -> lookup rho (fst nl) < snd nl) ->
               Forall2 N.lt (map (fun nl => if present din (fst nl) then lookup rho (fst nl) else 0) l)
                            (map (fun nl => if present din (fst nl) then snd nl else 1) l)).
    { induction l as [|[n len] r IH]; intros H; cbn [map]; constructor.
      - cbn [fst snd]. destruct (present din n) eqn:Ep; [|lia]. apply (H (n, len)); [now left|exact Ep].
      - apply IH. intros nl Hnl. apply H. now right. }
    apply Hv. intros [n len] Hin Hp. cbn [fst snd] in *.
    destruct (own_len n len) as [m Hm]; [unfold own; apply filter_In; split; [exact Hin|exact Hp]|].
    apply (Bin (n, len, m) Hm).
  Qed.

  (* every element of the input is found in the aligned tensor at the output's leaf coordinates (0 where the input lacks the axis) *)
  Theorem lower_align_correct k rho v :
    in_bounds rho din -> In (map (pidx rho) din, v) (inp k) ->
    In (aligned_idx rho, v) (meval V inp F BC CC (lower_align k din dout)).
  Proof.
    intros Bin Hin. rewrite meval_align. apply in_map_iff. exists (map (pidx rho) din, v). split; [|exact Hin].
    cbn [fst snd]. now rewrite aligned_is_the_meaning.
  Qed.
End Align.

(* ---------------------------------------------------------------- inverse and composition of rearrangements *)
Lemma rearrange_inverse d1 d2 rho :
  rearrange_ok d1 d2 = true -> rearrange_ok d2 d1 = true -> in_bounds rho d1 -> in_bounds rho d2 ->
  moved d2 d1 (moved d1 d2 (map (pidx rho) d1)) = map (pidx rho) d1.
Proof. intros H12 H21 B1 B2. rewrite (moved_is_the_meaning d1 d2 H12 rho B1 B2). apply (moved_is_the_meaning d2 d1 H21 rho B2 B1). Qed.

Lemma rearrange_compose d1 d2 d3 rho :
  rearrange_ok d1 d2 = true -> rearrange_ok d2 d3 = true -> rearrange_ok d1 d3 = true ->
  in_bounds rho d1 -> in_bounds rho d2 -> in_bounds rho d3 ->
  moved d2 d3 (moved d1 d2 (map (pidx rho) d1)) = moved d1 d3 (map (pidx rho) d1).
Proof.
  intros H12 H23 H13 B1 B2 B3. rewrite (moved_is_the_meaning d1 d2 H12 rho B1 B2), (moved_is_the_meaning d2 d3 H23 rho B2 B3).
  symmetry. apply (moved_is_the_meaning d1 d3 H13 rho B1 B3).
Qed.

(* ---------------------------------------------------------------- reductions *)
(* what a backend reduction over the positions [ax] leaves of a coordinate tuple: the coordinates at the other positions, in order *)
Fixpoint drop_from {A} (i : nat) (ax : list nat) (l : list A) : list A :=
  match l with
  | [] => []
  | x :: r => if existsb (Nat.eqb i) ax then drop_from (S i) ax r else x :: drop_from (S i) ax r
  end.
Definition drop_axes {A} (ax : list nat) (l : list A) : list A := drop_from 0 ax l.

Lemma unoffset_offset_free p : unoffset p = true -> offset_free p = true.
Proof.
  induction p as [n l m|cs IH|o t i IH] using pex_ind'; cbn [unoffset offset_free]; intros H; try discriminate; [reflexivity|].
  apply forallb_forall. intros c Hc. rewrite forallb_forall in H. rewrite Forall_forall in IH. auto.
Qed.

Lemma drop_from_marks {B} (f : N * N * bool -> B) (L : list (N * N * bool)) : forall i ax,
  (forall k, (i <= k)%nat -> In k ax <-> nth (k - i) (map snd L) false = true) ->
  drop_from i ax (map f L) = map f (filter (fun x => negb (snd x)) L).
Proof.
  induction L as [|x r IH]; intros i ax H; cbn [map drop_from filter]; [reflexivity|].
  assert (E : existsb (Nat.eqb i) ax = snd x).
  { pose proof (H i (le_n i)) as Hi. rewrite Nat.sub_diag in Hi. cbn [map nth] in Hi.
    destruct (snd x) eqn:Sx.
    - apply existsb_exists. exists i. split; [now apply Hi|apply Nat.eqb_refl].
    - destruct (existsb (Nat.eqb i) ax) eqn:Ex; [|reflexivity]. apply existsb_exists in Ex as [k [Hk Ek]].
      apply Nat.eqb_eq in Ek. subst k. apply Hi in Hk. discriminate. }
  rewrite E.
  assert (Hr : forall k, (S i <= k)%nat -> In k ax <-> nth (k - S i) (map snd r) false = true).
  { intros k Hk. rewrite (H k) by lia. replace (k - i)%nat with (S (k - S i)) by lia. reflexivity. }
  destruct (snd x); cbn [negb]; [apply IH, Hr|]. cbn [map]. f_equal. apply IH, Hr.
Qed.

Lemma kept_leaves din : leaves (kept din) = map (fun x => (fst (fst x), snd (fst x), false)) (filter (fun x => negb (snd x)) (leaves din)).
Proof.
  unfold kept, leaves. induction (filter (fun x => negb (snd x)) (flat_map pleaves din)) as [|x r IH]; cbn [map flat_map pleaves app]; [reflexivity|].
  now rewrite IH.
Qed.
Lemma kept_lnames din : lnames (kept din) = map (fun x => fst (fst x)) (filter (fun x => negb (snd x)) (leaves din)).
Proof. unfold lnames. rewrite kept_leaves, map_map. reflexivity. Qed.
Lemma kept_llens din : llens (kept din) = map (fun x => snd (fst x)) (filter (fun x => negb (snd x)) (leaves din)).
Proof. unfold llens. rewrite kept_leaves, map_map. reflexivity. Qed.
Lemma kept_psize din : map psize (kept din) = llens (kept din).
Proof. rewrite kept_llens. unfold kept. rewrite map_map. reflexivity. Qed.
Lemma kept_pidx rho din : map (pidx rho) (kept din) = map (lookup rho) (lnames (kept din)).
Proof. rewrite kept_lnames. unfold kept. rewrite !map_map. reflexivity. Qed.

Section Reduce.
  Variable V : Type.
  Variable inp : nat -> entries V.
  Variable F : String.string -> list (entries V) -> list String.string -> entries V.
  Variable BC : list N -> list N -> entries V -> entries V.
  Variable CC : nat -> list (list N * entries V) -> entries V.
  Variables (f : String.string) (din dout : list pex).
  Hypothesis Hok : reduce_ok din dout = true.

  Let Hun : forallb offset_free din = true.
  Proof.
    unfold reduce_ok in Hok. apply andb_prop in Hok as [H _]. apply andb_prop in H as [H _].
    apply forallb_forall. intros c Hc. rewrite forallb_forall in H. apply unoffset_offset_free; auto.
  Qed.
  Let Hre : rearrange_ok (kept din) dout = true.
  Proof. unfold reduce_ok in Hok. apply andb_prop in Hok as [_ H]. exact H. Qed.

  Definition reduce_axes : list nat := EinxV.Gen.GenAdapter.gen_expr_to_axis (lmarks din).
  (* the tensor handed to the backend's reduction, and what the reduction returns *)
  Definition reduce_arg : tm := MReshape (MIn 0 (map psize din)) (llens din).
  Definition reduced : entries V := F f [meval V inp F BC CC reduce_arg] [axis_lit reduce_axes; "kw:axis"%string].

  (* 1. the reduction sees every element at the coordinates of its leaf axes *)
  Theorem reduce_arg_is_the_leaf_view rho v :
    in_bounds rho din -> In (map (pidx rho) din, v) (inp 0) ->
    In (map (lookup rho) (lnames din), v) (meval V inp F BC CC reduce_arg).
  Proof.
    intros Bin Hin. unfold reduce_arg. cbn [meval mshape]. unfold e_reshape. apply in_map_iff. exists (map (pidx rho) din, v). split; [|exact Hin].
    cbn [fst snd]. f_equal.
    change (ravel (map (pidx rho) din) (map psize din)) with (pos rho din).
    rewrite (pos_leaves rho din Hun), llens_dims, lidx_dims. apply unravel_ravel, leaf_valid, Bin.
  Qed.

  (* 2. axis= names exactly the bracketed leaves; dropping those positions from the leaf coordinates / lengths leaves the
        coordinates / lengths of the un-bracketed leaves, in order *)
  Theorem reduce_axes_are_the_brackets k : In k reduce_axes <-> nth k (lmarks din) false = true.
  Proof. apply EinxV.Proofs.AdapterProofs.axis_is_bracket_positions. Qed.

  Lemma drop_reduce_axes {B} (g : N * N * bool -> B) :
    drop_axes reduce_axes (map g (leaves din)) = map g (filter (fun x => negb (snd x)) (leaves din)).
  Proof.
    unfold drop_axes. apply drop_from_marks. intros k _. rewrite Nat.sub_0_r. apply reduce_axes_are_the_brackets.
  Qed.
  Theorem reduce_drops_to_kept_coordinates rho :
    drop_axes reduce_axes (map (lookup rho) (lnames din)) = map (lookup rho) (lnames (kept din)) /\
    drop_axes reduce_axes (llens din) = llens (kept din).
  Proof.
    split.
    - unfold lnames at 1. rewrite map_map, drop_reduce_axes, kept_lnames, map_map. reflexivity.
    - unfold llens at 1. rewrite drop_reduce_axes, kept_llens. reflexivity.
  Qed.

  (* 3. whatever the reduction returns at the coordinates of the un-bracketed leaves ends up where the output expression puts it *)
  Lemma meval_reduce :
    meval V inp F BC CC (lower_reduce f din dout) = meval V (fun _ => reduced) F BC CC (lower_rearrange 0 (kept din) dout).
  Proof.
    unfold lower_reduce, lower_rearrange. cbn [meval mshape map]. rewrite kept_psize. reflexivity.
  Qed.
  Theorem lower_reduce_correct rho v :
    in_bounds rho (kept din) -> in_bounds rho dout ->
    In (map (lookup rho) (lnames (kept din)), v) reduced ->
    In (map (pidx rho) dout, v) (meval V inp F BC CC (lower_reduce f din dout)).
  Proof.
    intros Bk Bo Hin. rewrite meval_reduce. apply (lower_rearrange_correct V (fun _ => reduced) F BC CC (kept din) dout Hre 0%nat rho v Bk Bo).
    rewrite kept_pidx. exact Hin.
  Qed.
End Reduce.

(* ---------------------------------------------------------------- dot (matmul path) *)
Lemma leaves_leaf_ax (L : list (N * N * bool)) : leaves (map leaf_ax L) = map (fun x => (fst (fst x), snd (fst x), false)) L.
Proof. unfold leaves. induction L as [|x r IH]; cbn [map flat_map pleaves leaf_ax app]; [reflexivity|]. now rewrite IH. Qed.

Lemma leaves_three a b c : leaves [PFl a; PFl b; PFl c] = leaves a ++ leaves b ++ leaves c.
Proof. unfold leaves. cbn [flat_map pleaves]. now rewrite app_nil_r. Qed.

Lemma in_bounds_sub rho (d : list pex) (P : N * N * bool -> bool) :
  in_bounds rho d -> in_bounds rho (map leaf_ax (filter P (leaves d))).
Proof.
  intros B x Hx. rewrite leaves_leaf_ax in Hx. apply in_map_iff in Hx as [y [<- Hy]]. apply filter_In in Hy as [Hy _].
  cbn [fst snd]. exact (B y Hy).
Qed.

Lemma in_bounds_three rho a b c : in_bounds rho a -> in_bounds rho b -> in_bounds rho c -> in_bounds rho [PFl a; PFl b; PFl c].
Proof.
  intros Ba Bb Bc x Hx. rewrite leaves_three in Hx. apply in_app_or in Hx as [H|H]; [exact (Ba x H)|].
  apply in_app_or in H as [H|H]; [exact (Bb x H)|exact (Bc x H)].
Qed.

Section Dot.
  Variable V : Type.
  Variable inp : nat -> entries V.
  Variable F : String.string -> list (entries V) -> list String.string -> entries V.
  Variable BC : list N -> list N -> entries V -> entries V.
  Variable CC : nat -> list (list N * entries V) -> entries V.
  Variables (d1 d2 dout : list pex).
  Hypothesis Hok : dot_ok d1 d2 dout = true.

  Let H1 : rearrange_ok d1 (dot_lhs d1 d2 dout) = true.
  Proof. unfold dot_ok in Hok. apply andb_prop in Hok as [H _]. apply andb_prop in H as [H _]. exact H. Qed.
  Let H2 : rearrange_ok d2 (dot_rhs d1 d2 dout) = true.
  Proof. unfold dot_ok in Hok. apply andb_prop in Hok as [H _]. apply andb_prop in H as [_ H]. exact H. Qed.
  Let H3 : rearrange_ok (dot_mid d1 d2 dout) dout = true.
  Proof. unfold dot_ok in Hok. apply andb_prop in Hok as [_ H]. exact H. Qed.

  Lemma dot_lhs_bounds rho : in_bounds rho d1 -> in_bounds rho (dot_lhs d1 d2 dout).
  Proof. intros B. apply in_bounds_three; apply in_bounds_sub; exact B. Qed.
  Lemma dot_rhs_bounds rho : in_bounds rho d1 -> in_bounds rho d2 -> in_bounds rho (dot_rhs d1 d2 dout).
  Proof. intros B1 B2. apply in_bounds_three; apply in_bounds_sub; assumption. Qed.
  Lemma dot_mid_bounds rho : in_bounds rho d1 -> in_bounds rho d2 -> in_bounds rho (dot_mid d1 d2 dout).
  Proof. intros B1 B2. apply in_bounds_three; apply in_bounds_sub; assumption. Qed.

  (* what the batched matmul receives and returns *)
  Definition dot_operands : list (entries V) :=
    [meval V inp F BC CC (lower_rearrange 0 d1 (dot_lhs d1 d2 dout)); meval V inp F BC CC (lower_rearrange 1 d2 (dot_rhs d1 d2 dout))].
  Definition dot_product : entries V := F "matmul"%string dot_operands ["kw:"%string].

  (* 1. the left operand reaches the matmul at [batch, left, contracted], the right one at [batch, contracted, right] *)
  Theorem dot_left_operand rho v :
    in_bounds rho d1 -> In (map (pidx rho) d1, v) (inp 0%nat) ->
    In (map (pidx rho) (dot_lhs d1 d2 dout), v) (nth 0 dot_operands []).
  Proof. intros B Hin. cbn [dot_operands nth]. apply (lower_rearrange_correct V inp F BC CC d1 _ H1 0%nat rho v B (dot_lhs_bounds rho B) Hin). Qed.

  Theorem dot_right_operand rho v :
    in_bounds rho d1 -> in_bounds rho d2 -> In (map (pidx rho) d2, v) (inp 1%nat) ->
    In (map (pidx rho) (dot_rhs d1 d2 dout), v) (nth 1 dot_operands []).
  Proof. intros B1 B2 Hin. cbn [dot_operands nth]. apply (lower_rearrange_correct V inp F BC CC d2 _ H2 1%nat rho v B2 (dot_rhs_bounds rho B1 B2) Hin). Qed.

  (* 2. what the matmul returns at [batch, left, right] ends up where the output expression puts it *)
  Lemma meval_dot :
    meval V inp F BC CC (lower_dot d1 d2 dout) = meval V (fun _ => dot_product) F BC CC (lower_rearrange 0 (dot_mid d1 d2 dout) dout).
  Proof. unfold lower_dot, lower_rearrange, dot_matmul. cbn [meval mshape map]. reflexivity. Qed.

  Theorem lower_dot_correct rho v :
    in_bounds rho d1 -> in_bounds rho d2 -> in_bounds rho dout ->
    In (map (pidx rho) (dot_mid d1 d2 dout), v) dot_product ->
    In (map (pidx rho) dout, v) (meval V inp F BC CC (lower_dot d1 d2 dout)).
  Proof.
    intros B1 B2 Bo Hin. rewrite meval_dot.
    apply (lower_rearrange_correct V (fun _ => dot_product) F BC CC _ dout H3 0%nat rho v (dot_mid_bounds rho B1 B2) Bo Hin).
  Qed.
End Dot.

(* the coordinate of a group of plain axes is the row-major number of their loop indices *)
Lemma pidx_group rho (L : list (N * N * bool)) :
  pidx rho (PFl (map leaf_ax L)) = ravel (map (fun x => lookup rho (fst (fst x))) L) (map (fun x => snd (fst x)) L).
Proof. cbn [pidx]. rewrite !map_map. reflexivity. Qed.

(* ---------------------------------------------------------------- un-bracketed reductions *)
Lemma pleaves_pmark g p : pleaves (pmark g p) = map (fun x => (fst (fst x), snd (fst x), g (fst (fst x)))) (pleaves p).
Proof.
  induction p as [n l m|cs IH|o t i IH] using pex_ind'; cbn [pmark pleaves map fst snd]; [reflexivity| |exact IH].
  induction IH as [|c r Hc _ IHr]; cbn [map flat_map]; [reflexivity|]. now rewrite map_app, Hc, IHr.
Qed.
Lemma leaves_pmark g dims : leaves (map (pmark g) dims) = map (fun x => (fst (fst x), snd (fst x), g (fst (fst x)))) (leaves dims).
Proof. unfold leaves. induction dims as [|d r IH]; cbn [map flat_map]; [reflexivity|]. now rewrite map_app, pleaves_pmark, IH. Qed.

Theorem automark_spec din dout :
  lnames (automark din dout) = lnames din /\ llens (automark din dout) = llens din /\
  lmarks (automark din dout) = map (fun n => negb (memNb n (lnames dout))) (lnames din) /\
  lnames (kept (automark din dout)) = filter (fun n => memNb n (lnames dout)) (lnames din).
Proof.
  unfold automark. repeat split.
  - unfold lnames. rewrite leaves_pmark, map_map. reflexivity.
  - unfold llens. rewrite leaves_pmark, map_map. reflexivity.
  - unfold lmarks, lnames. rewrite leaves_pmark, !map_map. reflexivity.
  - rewrite kept_lnames, leaves_pmark. unfold lnames. induction (leaves din) as [|x r IH]; cbn [map filter fst snd]; [reflexivity|].
    rewrite negb_involutive. destruct (memNb (fst (fst x)) _); cbn [map fst]; [f_equal|]; exact IH.
Qed.

Lemma psize_pmark g p : psize (pmark g p) = psize p.
Proof.
  induction p as [n l m|cs IH|o t i IH] using pex_ind'; cbn [pmark psize]; try reflexivity.
  f_equal. rewrite map_map. apply map_ext_in. intros c Hc. rewrite Forall_forall in IH. exact (IH c Hc).
Qed.
Lemma pidx_pmark g rho p : pidx rho (pmark g p) = pidx rho p.
Proof.
  induction p as [n l m|cs IH|o t i IH] using pex_ind'; cbn [pmark pidx]; try reflexivity; [|now rewrite IH].
  rewrite !map_map. rewrite Forall_forall in IH. f_equal; apply map_ext_in; intros c Hc; [exact (IH c Hc)|apply psize_pmark].
Qed.
Theorem automark_same_positions rho din dout :
  map (pidx rho) (automark din dout) = map (pidx rho) din /\ map psize (automark din dout) = map psize din.
Proof.
  unfold automark. rewrite !map_map. split; apply map_ext; intros p; [apply pidx_pmark|apply psize_pmark].
Qed.
