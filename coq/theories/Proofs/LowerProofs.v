(* The lowering model of a rearrangement computes the loop-notation meaning: every element of the
   input ends up at the position the reference semantics (Spec/LoopSem.v) prescribes - for every
   nesting depth, every number of axes and every size. *)
From Coq Require Import List NArith Arith Bool Lia.
From EinxV Require Import Spec.LoopSem Model.Opt Model.Lower Proofs.LoopSemProofs Proofs.OptProofs.
Import ListNotations.
Open Scope N_scope.

Lemma plain_offset_free p : plain p = true -> offset_free p = true.
Proof.
  induction p as [n l m|cs IH|o t i IH] using pex_ind'; cbn [plain offset_free]; intros H; try discriminate; [reflexivity|].
  apply forallb_forall. intros c Hc. rewrite forallb_forall in H. rewrite Forall_forall in IH. auto.
Qed.
Lemma plain_dims_offset_free dims : forallb plain dims = true -> forallb offset_free dims = true.
Proof. intros H. apply forallb_forall. intros c Hc. rewrite forallb_forall in H. apply plain_offset_free; auto. Qed.

Lemma llens_dims dims : dims_leaf_len dims = llens dims.
Proof. unfold dims_leaf_len, llens, leaves, leaf_len. apply flat_map_map_pleaves. Qed.
Lemma lidx_dims rho dims : dims_leaf_idx rho dims = map (lookup rho) (lnames dims).
Proof. unfold dims_leaf_idx, lnames, leaves, leaf_idx. rewrite flat_map_map_pleaves, map_map. reflexivity. Qed.

(* every axis index lies below the axis length *)
Definition in_bounds (rho : env) (dims : list pex) : Prop :=
  forall x, In x (leaves dims) -> lookup rho (fst (fst x)) < snd (fst x).

Lemma leaf_valid rho dims : in_bounds rho dims -> valid_idx (map (lookup rho) (lnames dims)) (llens dims).
Proof.
  unfold in_bounds, lnames, llens, valid_idx. induction (leaves dims) as [|x l IH]; intros H; cbn [map]; constructor.
  - apply H. now left.
  - apply IH. intros y Hy. apply H. now right.
Qed.

Lemma pidx_lt rho p : offset_free p = true -> (forall x, In x (pleaves p) -> lookup rho (fst (fst x)) < snd (fst x)) -> pidx rho p < psize p.
Proof.
  intros Hof Hb. rewrite (pidx_leaves rho p Hof), (psize_leaves p Hof).
  assert (Hv : Forall2 (fun i l => i < l) (leaf_idx rho p) (leaf_len p)).
  { unfold leaf_idx, leaf_len. induction (pleaves p) as [|x l IH]; cbn [map]; constructor; [apply Hb; now left|apply IH; intros y Hy; apply Hb; now right]. }
  destruct (ravel_le _ _ Hv) as [H|[E1 E2]]; [exact H|]. rewrite E2, E1. cbn. lia.
Qed.

Lemma dims_valid rho dims : forallb offset_free dims = true -> in_bounds rho dims -> valid_idx (map (pidx rho) dims) (map psize dims).
Proof.
  unfold in_bounds, leaves, valid_idx. induction dims as [|d r IH]; intros Hof Hb; cbn [map]; constructor.
  - cbn [forallb] in Hof. apply andb_prop in Hof as [H1 _]. apply pidx_lt; [exact H1|]. intros x Hx. apply Hb. cbn [flat_map]. apply in_or_app. now left.
  - cbn [forallb] in Hof. apply andb_prop in Hof as [_ H2]. apply IH; [exact H2|]. intros x Hx. apply Hb. cbn [flat_map]. apply in_or_app. now right.
Qed.

Lemma memNb_In n l : memNb n l = true <-> In n l.
Proof.
  unfold memNb. rewrite existsb_exists. split; [intros [x [Hx E]]; apply N.eqb_eq in E; now subst|].
  intros H. exists n. split; [exact H|apply N.eqb_refl].
Qed.

Lemma nth_index_of {A} (f : N -> A) (d : A) n names : In n names -> nth (index_of n names) (map f names) d = f n.
Proof.
  induction names as [|x r IH]; intros H; [contradiction|]. cbn [index_of map]. destruct (x =? n) eqn:E.
  - apply N.eqb_eq in E. now subst.
  - cbn [nth]. apply IH. destruct H as [->|H]; [rewrite N.eqb_refl in E; discriminate|exact H].
Qed.

(* with distinct names, the leaf found by name is the leaf itself *)
Lemma nth_index_of_leaf (ls : list (N * N * bool)) n l :
  nodupb (map (fun x => fst (fst x)) ls) = true -> (exists m, In (n, l, m) ls) ->
  nth (index_of n (map (fun x => fst (fst x)) ls)) (map (fun x => snd (fst x)) ls) 0 = l.
Proof.
  induction ls as [|[[n0 l0] m0] r IH]; intros Hnd [m Hin]; [contradiction|]. cbn [map fst snd nodupb index_of] in *.
  apply andb_prop in Hnd as [Hn0 Hr]. destruct (n0 =? n) eqn:E.
  - apply N.eqb_eq in E. subst n0. destruct Hin as [Hin|Hin]; [injection Hin as -> ->; reflexivity|].
    exfalso. apply negb_true_iff in Hn0. assert (memNb n (map (fun x => fst (fst x)) r) = true); [|congruence].
    apply memNb_In. apply in_map_iff. exists (n, l, m). auto.
  - cbn [nth]. apply IH; [exact Hr|]. destruct Hin as [Hin|Hin]; [injection Hin as -> -> ->; rewrite N.eqb_refl in E; discriminate|eauto].
Qed.

Section Lowering.
  Variable V : Type.
  Variable inp : nat -> entries V.
  Variable F : String.string -> list (entries V) -> list String.string -> entries V.
  Variable BC : list N -> list N -> entries V -> entries V.
  Variable CC : nat -> list (list N * entries V) -> entries V.

  Variables din dout : list pex.
  Hypothesis Hok : rearrange_ok din dout = true.

  Let Hplain_in : forallb plain din = true.
  Proof. unfold rearrange_ok in Hok. repeat (apply andb_prop in Hok as [Hok ?]). exact Hok. Qed.
  Let Hplain_out : forallb plain dout = true.
  Proof. unfold rearrange_ok in Hok. repeat (apply andb_prop in Hok as [Hok ?]). assumption. Qed.
  Let Hnd : nodupb (lnames din) = true.
  Proof. unfold rearrange_ok in Hok. repeat (apply andb_prop in Hok as [Hok ?]). assumption. Qed.
  Let Hsame : same_axes din dout = true.
  Proof. unfold rearrange_ok in Hok. apply andb_prop in Hok as [_ H]. exact H. Qed.

  Lemma out_leaf_in x : In x (leaves dout) -> In (fst (fst x)) (lnames din) /\ exists m, In (fst (fst x), snd (fst x), m) (leaves din).
  Proof.
    intros Hx. unfold same_axes in Hsame. rewrite forallb_forall in Hsame. specialize (Hsame x Hx).
    apply existsb_exists in Hsame as [[[n l] m] [Hy E]]. cbn [fst snd] in E. apply andb_prop in E as [E1 E2].
    apply N.eqb_eq in E1, E2. rewrite E1, E2. split; [unfold lnames; apply in_map_iff; exists (n, l, m); auto|eauto].
  Qed.

  (* the transposition brings the leaf lengths and the leaf indices of the input into the output's order *)
  Lemma gather_lens : gather 0 (llens din) (perm_of din dout) = llens dout.
  Proof.
    unfold gather, perm_of, llens, lnames. rewrite !map_map. apply map_ext_in. intros x Hx.
    destruct (out_leaf_in x Hx) as [_ Hm]. apply (nth_index_of_leaf (leaves din) _ _ Hnd Hm).
  Qed.

  Lemma gather_idx rho : gather 0 (map (lookup rho) (lnames din)) (perm_of din dout) = map (lookup rho) (lnames dout).
  Proof.
    unfold gather, perm_of. rewrite map_map. unfold lnames at 3 4. rewrite !map_map. apply map_ext_in. intros x Hx.
    destruct (out_leaf_in x Hx) as [Hn _]. apply (nth_index_of (lookup rho) 0 _ _ Hn).
  Qed.

  (* where the model puts the element that the input holds at multi-index [idx] *)
  Definition moved (idx : list N) : list N :=
    unravel (ravel (gather 0 (unravel (ravel idx (map psize din)) (llens din)) (perm_of din dout)) (llens dout)) (map psize dout).

  Lemma meval_lower k : meval V inp F BC CC (lower_rearrange k din dout) = map (fun iv => (moved (fst iv), snd iv)) (inp k).
  Proof.
    unfold lower_rearrange. cbn [meval mshape]. unfold e_reshape, e_transpose. rewrite !map_map. apply map_ext. intros [i v]. cbn [fst snd].
    unfold moved. rewrite gather_lens. reflexivity.
  Qed.

  Theorem moved_is_the_meaning rho :
    in_bounds rho din -> in_bounds rho dout ->
    moved (map (pidx rho) din) = map (pidx rho) dout.
  Proof.
    intros Bin Bout. unfold moved.
    pose proof (plain_dims_offset_free _ Hplain_in) as Oin. pose proof (plain_dims_offset_free _ Hplain_out) as Oout.
    change (ravel (map (pidx rho) din) (map psize din)) with (pos rho din).
    rewrite (pos_leaves rho din Oin), llens_dims, lidx_dims.
    rewrite (unravel_ravel _ _ (leaf_valid rho din Bin)), gather_idx.
    rewrite <- lidx_dims, <- llens_dims, <- (pos_leaves rho dout Oout). unfold pos.
    apply unravel_ravel. now apply dims_valid.
  Qed.

  (* every element of the input is found in the result at the position the loop notation gives it *)
  Theorem lower_rearrange_correct k rho v :
    in_bounds rho din -> in_bounds rho dout ->
    In (map (pidx rho) din, v) (inp k) ->
    In (map (pidx rho) dout, v) (meval V inp F BC CC (lower_rearrange k din dout)).
  Proof.
    intros Bin Bout Hin. rewrite meval_lower. apply in_map_iff. exists (map (pidx rho) din, v). split; [|exact Hin].
    cbn [fst snd]. now rewrite moved_is_the_meaning.
  Qed.

  (* in flat (row-major) positions, the way the reference plan [plan_id] speaks *)
  Corollary lower_rearrange_flat rho :
    in_bounds rho din -> in_bounds rho dout ->
    ravel (moved (map (pidx rho) din)) (map psize dout) = pos rho dout /\ ravel (map (pidx rho) din) (map psize din) = pos rho din.
  Proof. intros Bin Bout. rewrite moved_is_the_meaning by assumption. split; reflexivity. Qed.
End Lowering.
