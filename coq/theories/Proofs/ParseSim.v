(* Positions never influence what the parser builds: two token lists with the same token kinds
   (and a consistent renumbering of the positions that name anonymous axes) parse to the same
   outcome - the same tree up to positions, or an error raised at the same place of the source.
   With the lexer lemma at the end: a redundant space next to a space does not change how a
   description parses (the first spacing clause of C12). *)
From Coq Require Import List NArith ZArith Bool Lia.
From EinxV Require Import Model.Parse Proofs.ParseProofs.
Import ListNotations.
Open Scope Z_scope.

Section Erase.
  Variable g : Z -> Z.
  Definition nmap (n : aname) : aname := match n with NUnnamed i => NUnnamed (g i) | _ => n end.
  Fixpoint emap (x : expr) : expr :=
    match x with
    | EAxis n v _ _ => EAxis (nmap n) v 0 0
    | EList cs _ _ => EList (map emap cs) 0 0
    | EFlat i _ _ => EFlat (emap i) 0 0
    | ECat cs _ _ => ECat (map emap cs) 0 0
    | EBr i _ _ => EBr (emap i) 0 0
    | EEll i _ _ _ => EEll (emap i) 0 0 (0, 0)
    | EArgs cs _ _ => EArgs (map emap cs) 0 0
    | EOp cs _ _ => EOp (map emap cs) 0 0
    end.
  Definition rmap {A B} (f : A -> B) (r : result A) : result B :=
    match r with Ok a => Ok (f a) | Err s _ => Err s [] | Internal s => Internal s end.
End Erase.

Definition e0 := emap (fun z => z).

(* the relation: [x'] comes from one run, [x] from the other; g renumbers the anonymous-axis identifiers *)
Section Sim.
  Variable g : Z -> Z.
  Hypothesis g_inj : forall a b, g a = g b -> a = b.

  Definition esim (x' x : expr) : Prop := e0 x' = emap g x.
  Definition lsim (l' l : list expr) : Prop := map e0 l' = map (emap g) l.
  Definition rsim (r' r : result expr) : Prop := rmap e0 r' = rmap (emap g) r.

  Lemma lsim_nil : lsim [] []. Proof. reflexivity. Qed.
  Lemma lsim_cons x' x l' l : esim x' x -> lsim l' l -> lsim (x' :: l') (x :: l).
  Proof. unfold esim, lsim. cbn [map]. congruence. Qed.
  Lemma lsim_inv l' l : lsim l' l -> Forall2 esim l' l.
  Proof.
    revert l. induction l' as [|a' l' IH]; intros [|a l] H; cbn in H; try discriminate; constructor.
    - injection H as H1 _. exact H1. - apply IH. injection H as _ H2. exact H2.
  Qed.
  Lemma lsim_of l' l : Forall2 esim l' l -> lsim l' l.
  Proof. induction 1 as [|a' a l' l Ha _ IH]; [reflexivity|now apply lsim_cons]. Qed.
  Lemma lsim_length l' l : lsim l' l -> length l' = length l.
  Proof. intros H. apply lsim_inv in H. induction H; cbn [length]; congruence. Qed.
  Lemma lsim_app a' a b' b : lsim a' a -> lsim b' b -> lsim (a' ++ b') (a ++ b).
  Proof. unfold lsim. rewrite !map_app. congruence. Qed.

  (* ---- structure-only predicates agree on related expressions ---- *)
  Lemma ndim_emap h : forall x, ndim (emap h x) = ndim x.
  Proof.
    induction x as [nm v b e|cs b e IH|i b e IH|cs b e IH|i b e IH|i b e id IH|cs b e IH|cs b e IH] using expr_ind'; cbn [emap ndim]; auto.
    - f_equal. rewrite map_map. apply map_ext_in. intros c Hc. rewrite Forall_forall in IH. auto.
    - now rewrite IH.
  Qed.
  Lemma ndim_sim x' x : esim x' x -> ndim x' = ndim x.
  Proof. intros H. rewrite <- (ndim_emap (fun z => z) x'), <- (ndim_emap g x). unfold esim, e0 in H. now rewrite H. Qed.
  Lemma ndim0_sim x' x : esim x' x -> ndim0 x' = ndim0 x.
  Proof. intros H. unfold ndim0. now rewrite (ndim_sim _ _ H). Qed.
  Lemma ndim1_sim x' x : esim x' x -> ndim1 x' = ndim1 x.
  Proof. intros H. unfold ndim1. now rewrite (ndim_sim _ _ H). Qed.

  Definition ctor (x : expr) : nat :=
    match x with EAxis _ _ _ _ => 0 | EList _ _ _ => 1 | EFlat _ _ _ => 2 | ECat _ _ _ => 3 | EBr _ _ _ => 4 | EEll _ _ _ _ => 5 | EArgs _ _ _ => 6 | EOp _ _ _ => 7 end%nat.
  Lemma ctor_emap h x : ctor (emap h x) = ctor x. Proof. destruct x; reflexivity. Qed.
  Lemma ctor_sim x' x : esim x' x -> ctor x' = ctor x.
  Proof. intros H. rewrite <- (ctor_emap (fun z => z) x'), <- (ctor_emap g x). unfold esim, e0 in H. now rewrite H. Qed.

  (* inversion: related expressions have the same head constructor and related children *)
  Lemma esim_list x' cs b e : esim x' (EList cs b e) -> exists cs' b' e', x' = EList cs' b' e' /\ lsim cs' cs.
  Proof. destruct x'; unfold esim, e0; cbn [emap]; intros H; try discriminate. injection H as H. eauto. Qed.
  Lemma esim_cat x' cs b e : esim x' (ECat cs b e) -> exists cs' b' e', x' = ECat cs' b' e' /\ lsim cs' cs.
  Proof. destruct x'; unfold esim, e0; cbn [emap]; intros H; try discriminate. injection H as H. eauto. Qed.
  Lemma esim_args x' cs b e : esim x' (EArgs cs b e) -> exists cs' b' e', x' = EArgs cs' b' e' /\ lsim cs' cs.
  Proof. destruct x'; unfold esim, e0; cbn [emap]; intros H; try discriminate. injection H as H. eauto. Qed.
  Lemma esim_op x' cs b e : esim x' (EOp cs b e) -> exists cs' b' e', x' = EOp cs' b' e' /\ lsim cs' cs.
  Proof. destruct x'; unfold esim, e0; cbn [emap]; intros H; try discriminate. injection H as H. eauto. Qed.
  Lemma esim_flat x' i b e : esim x' (EFlat i b e) -> exists i' b' e', x' = EFlat i' b' e' /\ esim i' i.
  Proof. destruct x'; unfold esim, e0; cbn [emap]; intros H; try discriminate. injection H as H. eauto. Qed.
  Lemma esim_br x' i b e : esim x' (EBr i b e) -> exists i' b' e', x' = EBr i' b' e' /\ esim i' i.
  Proof. destruct x'; unfold esim, e0; cbn [emap]; intros H; try discriminate. injection H as H. eauto. Qed.
  Lemma esim_ell x' i b e id : esim x' (EEll i b e id) -> exists i' b' e' id', x' = EEll i' b' e' id' /\ esim i' i.
  Proof. destruct x'; unfold esim, e0; cbn [emap]; intros H; try discriminate. injection H as H. eauto 6. Qed.
  Lemma esim_axis x' n v b e : esim x' (EAxis n v b e) -> exists n' b' e', x' = EAxis n' v b' e' /\ nmap (fun z => z) n' = nmap g n.
  Proof. destruct x'; unfold esim, e0; cbn [emap]; intros H; try discriminate. injection H as H1 H2. subst. eauto. Qed.

  (* ---- the normalising constructors preserve the relation ---- *)
  Lemma sim_empty : esim empty_list empty_list. Proof. reflexivity. Qed.
  Lemma sim_EList cs' cs b' e' b e : lsim cs' cs -> esim (EList cs' b' e') (EList cs b e).
  Proof. unfold esim, lsim, e0. cbn [emap]. congruence. Qed.
  Lemma sim_EFlat i' i b' e' b e : esim i' i -> esim (EFlat i' b' e') (EFlat i b e).
  Proof. unfold esim, e0. cbn [emap]. congruence. Qed.
  Lemma sim_EBr i' i b' e' b e : esim i' i -> esim (EBr i' b' e') (EBr i b e).
  Proof. unfold esim, e0. cbn [emap]. congruence. Qed.
  Lemma sim_EEll i' i b' e' id' b e id : esim i' i -> esim (EEll i' b' e' id') (EEll i b e id).
  Proof. unfold esim, e0. cbn [emap]. congruence. Qed.
  Lemma sim_ECat cs' cs b' e' b e : lsim cs' cs -> esim (ECat cs' b' e') (ECat cs b e).
  Proof. unfold esim, lsim, e0. cbn [emap]. congruence. Qed.
  Lemma sim_EArgs cs' cs b' e' b e : lsim cs' cs -> esim (EArgs cs' b' e') (EArgs cs b e).
  Proof. unfold esim, lsim, e0. cbn [emap]. congruence. Qed.
  Lemma sim_EOp cs' cs b' e' b e : lsim cs' cs -> esim (EOp cs' b' e') (EOp cs b e).
  Proof. unfold esim, lsim, e0. cbn [emap]. congruence. Qed.

  Lemma sim_flat_create i' i b' e' b e : esim i' i -> esim (flat_create i' b' e') (flat_create i b e).
  Proof.
    intros H. pose proof (ctor_sim _ _ H) as Hc. destruct i; destruct i'; cbn [ctor] in Hc; try discriminate Hc; cbn [flat_create]; try exact H; now apply sim_EFlat.
  Qed.
  Lemma sim_br_create i' i b' e' b e : esim i' i -> esim (br_create i' b' e') (br_create i b e).
  Proof.
    intros H. pose proof (ctor_sim _ _ H) as Hc. pose proof (ndim0_sim _ _ H) as Hn.
    destruct i; destruct i'; cbn [ctor] in Hc; try discriminate Hc; cbn [br_create]; try exact H; rewrite Hn;
      (match goal with |- context [if ?c then _ else _] => destruct c end; [exact sim_empty|now apply sim_EBr]).
  Qed.
  Lemma sim_ell_create i' i b' e' id' b e id : esim i' i -> esim (ell_create i' b' e' id') (ell_create i b e id).
  Proof. intros H. unfold ell_create. rewrite (ndim0_sim _ _ H). destruct (ndim0 i); [exact sim_empty|now apply sim_EEll]. Qed.

  Lemma sim_flatten1 x' x : esim x' x -> lsim (list_flatten1 x') (list_flatten1 x).
  Proof.
    intros H. pose proof (ctor_sim _ _ H) as Hc. destruct x; destruct x'; cbn [ctor] in Hc; try discriminate Hc; cbn [list_flatten1];
      try (apply lsim_cons; [exact H|exact lsim_nil]).
    unfold esim, e0 in H. cbn [emap] in H. injection H as H. exact H.
  Qed.
  Lemma sim_flat_map_flatten1 l' l : lsim l' l -> lsim (flat_map list_flatten1 l') (flat_map list_flatten1 l).
  Proof.
    intros H. apply lsim_inv in H. induction H as [|a' a l' l Ha _ IH]; cbn [flat_map]; [exact lsim_nil|].
    apply lsim_app; [now apply sim_flatten1|exact IH].
  Qed.
  Lemma sim_list_create l' l b' e' b e : lsim l' l -> esim (list_create l' b' e') (list_create l b e).
  Proof.
    intros H. unfold list_create. pose proof (sim_flat_map_flatten1 _ _ H) as Hf. pose proof (lsim_length _ _ Hf) as Hl.
    destruct (flat_map list_flatten1 l) as [|x [|y r]]; destruct (flat_map list_flatten1 l') as [|x' [|y' r']]; cbn [length] in Hl; try discriminate Hl.
    - now apply sim_EList.
    - apply lsim_inv in Hf. inversion Hf; subst. assumption.
    - now apply sim_EList.
  Qed.

  Lemma forallb_sim (p : expr -> bool) l' l : (forall x' x, esim x' x -> p x' = p x) -> lsim l' l -> forallb p l' = forallb p l.
  Proof. intros Hp H. apply lsim_inv in H. induction H as [|a' a l' l Ha _ IH]; [reflexivity|]. cbn [forallb]. now rewrite (Hp _ _ Ha), IH. Qed.
  Lemma existsb_sim (p : expr -> bool) l' l : (forall x' x, esim x' x -> p x' = p x) -> lsim l' l -> existsb p l' = existsb p l.
  Proof. intros Hp H. apply lsim_inv in H. induction H as [|a' a l' l Ha _ IH]; [reflexivity|]. cbn [existsb]. now rewrite (Hp _ _ Ha), IH. Qed.
  Lemma is_args_sim x' x : esim x' x -> is_args x' = is_args x.
  Proof. intros H. pose proof (ctor_sim _ _ H) as Hc. destruct x; destruct x'; cbn [ctor] in Hc; try discriminate Hc; reflexivity. Qed.
  Lemma is_aof_sim x' x : esim x' x -> is_axis_or_flat x' = is_axis_or_flat x.
  Proof. intros H. pose proof (ctor_sim _ _ H) as Hc. destruct x; destruct x'; cbn [ctor] in Hc; try discriminate Hc; reflexivity. Qed.

  Lemma sim_cat_create l' l b' e' b e : lsim l' l -> rsim (cat_create l' b' e') (cat_create l b e).
  Proof.
    intros H. unfold cat_create. pose proof (lsim_length _ _ H) as Hl. pose proof (forallb_sim ndim1 _ _ ndim1_sim H) as Hn.
    destruct l as [|x [|y r]]; destruct l' as [|x' [|y' r']]; cbn [length] in Hl; try discriminate Hl.
    - reflexivity.
    - apply lsim_inv in H. inversion H; subst. unfold rsim. cbn [rmap]. f_equal. assumption.
    - rewrite Hn. destruct (forallb ndim1 (x :: y :: r)); [|reflexivity]. unfold rsim. cbn [rmap]. f_equal. now apply sim_ECat.
  Qed.
  Lemma sim_op_create l' l b' e' b e : lsim l' l -> rsim (op_create l' b' e') (op_create l b e).
  Proof.
    intros H. unfold op_create. pose proof (lsim_length _ _ H) as Hl. destruct l; destruct l'; cbn [length] in Hl; try discriminate Hl; [reflexivity|].
    unfold rsim. cbn [rmap]. f_equal. now apply sim_EOp.
  Qed.
  Lemma sim_args_create l' l b' e' b e : lsim l' l -> rsim (args_create l' b' e') (args_create l b e).
  Proof.
    intros H. unfold args_create. rewrite (existsb_sim is_args _ _ is_args_sim H). destruct (existsb is_args l); [reflexivity|].
    unfold rsim. cbn [rmap]. f_equal. now apply sim_EArgs.
  Qed.

  (* ---- results ---- *)
  Definition rsimG {A} (R : A -> A -> Prop) (r' r : result A) : Prop :=
    match r', r with
    | Ok a', Ok a => R a' a
    | Err s' _, Err s _ => s' = s
    | Internal s', Internal s => s' = s
    | _, _ => False
    end.
  Lemma rsim_G r' r : rsim r' r <-> rsimG esim r' r.
  Proof.
    unfold rsim, rsimG, esim. destruct r', r; cbn [rmap]; split; intros H; try discriminate; try contradiction; try congruence.
  Qed.
  Lemma rsimG_impl {A} (R S : A -> A -> Prop) r' r : (forall a' a, R a' a -> S a' a) -> rsimG R r' r -> rsimG S r' r.
  Proof. intros H. destruct r', r; cbn; auto. Qed.

  Lemma bind_sim {A B} (R : A -> A -> Prop) (S : B -> B -> Prop) r' r k' k :
    rsimG R r' r -> (forall a' a, R a' a -> rsimG S (k' a') (k a)) -> rsimG S (bind r' k') (bind r k).
  Proof. intros Hr Hk. destruct r', r; cbn [rsimG bind] in *; try contradiction; auto. Qed.

  Lemma sequence_sim {A} (R : A -> A -> Prop) rs' rs :
    Forall2 (rsimG R) rs' rs -> rsimG (Forall2 R) (sequence rs') (sequence rs).
  Proof.
    induction 1 as [|r' r rs' rs Hr _ IH]; cbn [sequence]; [constructor|].
    apply (bind_sim R); [exact Hr|]. intros a' a Ha. apply (bind_sim (Forall2 R)); [exact IH|]. intros l' l Hl. cbn. now constructor.
  Qed.

  Lemma Forall2_map2 {A B} (R : B -> B -> Prop) (f' f : A -> B) l' l (Q : A -> A -> Prop) :
    Forall2 Q l' l -> (forall a' a, Q a' a -> R (f' a') (f a)) -> Forall2 R (map f' l') (map f l).
  Proof. induction 1; cbn [map]; constructor; auto. Qed.
  Lemma Forall2_same {A} (R : A -> A -> Prop) l : (forall a, In a l -> R a a) -> Forall2 R l l.
  Proof. induction l; constructor; [apply H; now left|apply IHl; intros; apply H; now right]. Qed.
  Lemma Forall2_len {A B} (R : A -> B -> Prop) l' l : Forall2 R l' l -> length l' = length l.
  Proof. induction 1; cbn; congruence. Qed.
  Lemma Forall2_nth_error {A} (R : A -> A -> Prop) l' l i : Forall2 R l' l ->
    match nth_error l' i, nth_error l i with Some a', Some a => R a' a | None, None => True | _, _ => False end.
  Proof. intros H. revert i. induction H as [|a' a l' l Ha _ IH]; intros [|i]; cbn; auto. apply IH. Qed.

  (* ---- distribute ---- *)
  Lemma distribute_sim alts' alts ap' ap site :
    Forall2 (Forall2 esim) alts' alts ->
    rsimG (Forall2 (Forall2 esim)) (distribute alts' ap' site) (distribute alts ap site).
  Proof.
    intros H. unfold distribute.
    assert (Hlen : map (@length expr) alts' = map (@length expr) alts).
    { induction H as [|a' a l' l Ha _ IH]; cbn [map]; [reflexivity|]. f_equal; [eapply Forall2_len; eauto|exact IH]. }
    rewrite Hlen.
    assert (Hrow : forall num, rsimG (Forall2 (Forall2 esim))
              (sequence (map (fun idx => sequence (map (fun a : list expr => match a with [x] => Ok x | _ => nth_res a idx (site + 12) end) alts')) (seq 0 num)))
              (sequence (map (fun idx => sequence (map (fun a : list expr => match a with [x] => Ok x | _ => nth_res a idx (site + 12) end) alts)) (seq 0 num)))).
    { intros num. apply sequence_sim. apply Forall2_map2 with (Q := eq); [apply Forall2_same; auto|]. intros idx ? <-.
      apply sequence_sim. eapply Forall2_map2; [exact H|]. intros a' a Ha.
      assert (Hn := Forall2_nth_error esim a' a idx Ha). pose proof (Forall2_len _ _ _ Ha) as Hl.
      destruct a as [|x [|y r0]]; destruct a' as [|x' [|y' r0']]; cbn [length] in Hl; try discriminate Hl; unfold nth_res.
      - destruct idx; cbn; auto.
      - inversion Ha; subst. cbn. assumption.
      - destruct (nth_error (x' :: y' :: r0') idx), (nth_error (x :: y :: r0) idx); cbn; auto. }
    destruct (dedup_nat _) as [|n1 [|n2 r]]; [apply Hrow|apply Hrow|cbn; reflexivity].
  Qed.

  (* ---- move_up ---- *)
  Definition R3 (r' r : list expr * Z * Z) : Prop := Forall2 esim (fst (fst r')) (fst (fst r)).

  Lemma mk_op3_sim cs' cs b' e' b e : Forall2 esim cs' cs -> rsimG R3 (mk_op3 cs' b' e') (mk_op3 cs b e).
  Proof. intros H. unfold mk_op3. destruct H; cbn; auto. unfold R3. cbn. now constructor. Qed.
  Lemma mk_args3_sim cs' cs b' e' b e : Forall2 esim cs' cs -> rsimG R3 (mk_args3 cs' b' e') (mk_args3 cs b e).
  Proof.
    intros H. unfold mk_args3. rewrite (existsb_sim is_args _ _ is_args_sim (lsim_of _ _ H)). destruct (existsb is_args cs); cbn; auto.
  Qed.

  Lemma Forall2_with {A} (P : A -> Prop) (R S : A -> A -> Prop) l' l :
    Forall2 R l' l -> Forall P l -> (forall a' a, P a -> R a' a -> S a' a) -> Forall2 S l' l.
  Proof. induction 1 as [|a' a l' l Ha _ IH]; intros HP HS; constructor; inversion HP; subst; auto. Qed.

  Lemma subs_fst_sim subs' subs : Forall2 R3 subs' subs -> Forall2 (Forall2 esim) (map (fun s => fst (fst s)) subs') (map (fun s => fst (fst s)) subs).
  Proof. induction 1; cbn [map]; constructor; auto. Qed.
  Lemma flat_map_fst_sim subs' subs : Forall2 R3 subs' subs -> Forall2 esim (flat_map (fun s => fst (fst s)) subs') (flat_map (fun s => fst (fst s)) subs).
  Proof.
    induction 1 as [|s' s l' l Hs _ IH]; cbn [flat_map]; [constructor|]. unfold R3 in Hs.
    apply lsim_inv. apply lsim_app; apply lsim_of; assumption.
  Qed.

  Lemma map_ctor_sim (f' f : expr -> expr) cs' cs :
    Forall2 esim cs' cs -> (forall a' a, esim a' a -> esim (f' a') (f a)) -> Forall2 esim (map f' cs') (map f cs).
  Proof. intros H Hf. eapply Forall2_map2; eauto. Qed.

  Section MuOp.
    Variables ap' ap : list Z.
    Lemma mu_op_sim : forall x x', esim x' x -> rsimG R3 (mu_op ap' x') (mu_op ap x).
    Proof.
      induction x as [nm v b e|cs b e IH|i b e IH|cs b e IH|i b e IH|i b e id IH|cs b e IH|cs b e IH] using expr_ind'; intros x' Hx.
      - destruct (esim_axis _ _ _ _ _ Hx) as [n' [b' [e' [-> Hn]]]]. cbn [mu_op]. apply mk_op3_sim. constructor; [exact Hx|constructor].
      - destruct (esim_list _ _ _ _ Hx) as [cs' [b' [e' [-> Hl]]]]. cbn [mu_op].
        apply (bind_sim (Forall2 R3)).
        + apply sequence_sim. eapply Forall2_map2; [apply (Forall2_with _ _ _ _ _ (lsim_inv _ _ Hl) IH)|]; [intros a' a Pa Ra; exact (Pa a' Ra)|auto].
        + intros subs' subs Hs. apply (bind_sim (Forall2 (Forall2 esim))); [apply distribute_sim, subs_fst_sim, Hs|].
          intros al' al Hal. apply mk_op3_sim. eapply Forall2_map2; [exact Hal|]. intros a' a Ha. apply sim_list_create. now apply lsim_of.
      - destruct (esim_flat _ _ _ _ Hx) as [i' [b' [e' [-> Hi]]]]. cbn [mu_op].
        apply (bind_sim R3); [apply IH, Hi|]. intros [[c' ob'] oe'] [[c ob] oe] Hc. unfold R3 in Hc. cbn [fst] in Hc.
        apply mk_op3_sim. apply map_ctor_sim; [exact Hc|]. intros. now apply sim_flat_create.
      - destruct (esim_cat _ _ _ _ Hx) as [cs' [b' [e' [-> Hl]]]]. cbn [mu_op].
        apply (bind_sim (Forall2 R3)).
        + apply sequence_sim. eapply Forall2_map2; [apply (Forall2_with _ _ _ _ _ (lsim_inv _ _ Hl) IH)|]; [intros a' a Pa Ra; exact (Pa a' Ra)|auto].
        + intros subs' subs Hs. apply (bind_sim (Forall2 (Forall2 esim))); [apply distribute_sim, subs_fst_sim, Hs|].
          intros al' al Hal. apply (bind_sim (Forall2 esim)).
          * apply sequence_sim. eapply Forall2_map2; [exact Hal|]. intros a' a Ha. apply rsim_G. apply sim_cat_create. now apply lsim_of.
          * intros ys' ys Hy. now apply mk_op3_sim.
      - destruct (esim_br _ _ _ _ Hx) as [i' [b' [e' [-> Hi]]]]. cbn [mu_op].
        apply (bind_sim R3); [apply IH, Hi|]. intros [[c' ob'] oe'] [[c ob] oe] Hc. unfold R3 in Hc. cbn [fst] in Hc.
        apply mk_op3_sim. apply map_ctor_sim; [exact Hc|]. intros. now apply sim_br_create.
      - destruct (esim_ell _ _ _ _ _ Hx) as [i' [b' [e' [id' [-> Hi]]]]]. cbn [mu_op].
        apply (bind_sim R3); [apply IH, Hi|]. intros [[c' ob'] oe'] [[c ob] oe] Hc. unfold R3 in Hc. cbn [fst] in Hc.
        apply mk_op3_sim. apply map_ctor_sim; [exact Hc|]. intros. now apply sim_ell_create.
      - destruct (esim_args _ _ _ _ Hx) as [cs' [b' [e' [-> Hl]]]]. cbn [mu_op].
        apply (bind_sim (Forall2 R3)).
        + apply sequence_sim. eapply Forall2_map2; [apply (Forall2_with _ _ _ _ _ (lsim_inv _ _ Hl) IH)|]; [intros a' a Pa Ra; exact (Pa a' Ra)|auto].
        + intros subs' subs Hs. apply (bind_sim (Forall2 (Forall2 esim))); [apply distribute_sim, subs_fst_sim, Hs|].
          intros al' al Hal. apply (bind_sim (Forall2 esim)).
          * apply sequence_sim. eapply Forall2_map2; [exact Hal|]. intros a' a Ha. apply rsim_G. apply sim_args_create. now apply lsim_of.
          * intros ys' ys Hy. now apply mk_op3_sim.
      - destruct (esim_op _ _ _ _ Hx) as [cs' [b' [e' [-> Hl]]]]. cbn [mu_op].
        apply (bind_sim (Forall2 R3)).
        + apply sequence_sim. eapply Forall2_map2; [apply (Forall2_with _ _ _ _ _ (lsim_inv _ _ Hl) IH)|]; [intros a' a Pa Ra; exact (Pa a' Ra)|auto].
        + intros subs' subs Hs. apply mk_op3_sim. now apply flat_map_fst_sim.
    Qed.

    Lemma mu_args_sim : forall x x', esim x' x -> rsimG R3 (mu_args ap' x') (mu_args ap x).
    Proof.
      induction x as [nm v b e|cs b e IH|i b e IH|cs b e IH|i b e IH|i b e id IH|cs b e IH|cs b e IH] using expr_ind'; intros x' Hx.
      - destruct (esim_axis _ _ _ _ _ Hx) as [n' [b' [e' [-> Hn]]]]. cbn [mu_args]. apply mk_args3_sim. constructor; [exact Hx|constructor].
      - destruct (esim_list _ _ _ _ Hx) as [cs' [b' [e' [-> Hl]]]]. cbn [mu_args].
        apply (bind_sim (Forall2 R3)).
        + apply sequence_sim. eapply Forall2_map2; [apply (Forall2_with _ _ _ _ _ (lsim_inv _ _ Hl) IH)|]; [intros a' a Pa Ra; exact (Pa a' Ra)|auto].
        + intros subs' subs Hs. apply (bind_sim (Forall2 (Forall2 esim))); [apply distribute_sim, subs_fst_sim, Hs|].
          intros al' al Hal. apply mk_args3_sim. eapply Forall2_map2; [exact Hal|]. intros a' a Ha. apply sim_list_create. now apply lsim_of.
      - destruct (esim_flat _ _ _ _ Hx) as [i' [b' [e' [-> Hi]]]]. cbn [mu_args].
        apply (bind_sim R3); [apply IH, Hi|]. intros [[c' ob'] oe'] [[c ob] oe] Hc. unfold R3 in Hc. cbn [fst] in Hc.
        apply mk_args3_sim. apply map_ctor_sim; [exact Hc|]. intros. now apply sim_flat_create.
      - destruct (esim_cat _ _ _ _ Hx) as [cs' [b' [e' [-> Hl]]]]. cbn [mu_args].
        apply (bind_sim (Forall2 R3)).
        + apply sequence_sim. eapply Forall2_map2; [apply (Forall2_with _ _ _ _ _ (lsim_inv _ _ Hl) IH)|]; [intros a' a Pa Ra; exact (Pa a' Ra)|auto].
        + intros subs' subs Hs. apply (bind_sim (Forall2 (Forall2 esim))); [apply distribute_sim, subs_fst_sim, Hs|].
          intros al' al Hal. apply (bind_sim (Forall2 esim)).
          * apply sequence_sim. eapply Forall2_map2; [exact Hal|]. intros a' a Ha. apply rsim_G. apply sim_cat_create. now apply lsim_of.
          * intros ys' ys Hy. now apply mk_args3_sim.
      - destruct (esim_br _ _ _ _ Hx) as [i' [b' [e' [-> Hi]]]]. cbn [mu_args].
        apply (bind_sim R3); [apply IH, Hi|]. intros [[c' ob'] oe'] [[c ob] oe] Hc. unfold R3 in Hc. cbn [fst] in Hc.
        apply mk_args3_sim. apply map_ctor_sim; [exact Hc|]. intros. now apply sim_br_create.
      - destruct (esim_ell _ _ _ _ _ Hx) as [i' [b' [e' [id' [-> Hi]]]]]. cbn [mu_args].
        apply (bind_sim R3); [apply IH, Hi|]. intros [[c' ob'] oe'] [[c ob] oe] Hc. unfold R3 in Hc. cbn [fst] in Hc.
        apply mk_args3_sim. apply map_ctor_sim; [exact Hc|]. intros. now apply sim_ell_create.
      - destruct (esim_args _ _ _ _ Hx) as [cs' [b' [e' [-> Hl]]]]. cbn [mu_args].
        apply (bind_sim (Forall2 R3)).
        + apply sequence_sim. eapply Forall2_map2; [apply (Forall2_with _ _ _ _ _ (lsim_inv _ _ Hl) IH)|]; [intros a' a Pa Ra; exact (Pa a' Ra)|auto].
        + intros subs' subs Hs. apply mk_args3_sim. now apply flat_map_fst_sim.
      - destruct (esim_op _ _ _ _ Hx) as [cs' [b' [e' [-> Hl]]]]. cbn [mu_args rsimG]. reflexivity.
    Qed.
  End MuOp.

  (* ---- traverse ---- *)
  Lemma traverse_sim : forall x x' inbr, esim x' x -> rsimG esim (traverse inbr x') (traverse inbr x).
  Proof.
    induction x as [nm v b e|cs b e IH|i b e IH|cs b e IH|i b e IH|i b e id IH|cs b e IH|cs b e IH] using expr_ind'; intros x' inbr Hx.
    - destruct (esim_axis _ _ _ _ _ Hx) as [n' [b' [e' [-> Hn]]]]. cbn [traverse rsimG]. exact Hx.
    - destruct (esim_list _ _ _ _ Hx) as [cs' [b' [e' [-> Hl]]]]. cbn [traverse].
      apply (bind_sim (Forall2 esim)).
      + apply sequence_sim. eapply Forall2_map2; [apply (Forall2_with _ _ _ _ _ (lsim_inv _ _ Hl) IH)|]; [intros a' a Pa Ra; exact (fun ib => Pa a' ib Ra)|auto].
      + intros ys' ys Hy. cbn [rsimG]. apply sim_list_create. now apply lsim_of.
    - destruct (esim_flat _ _ _ _ Hx) as [i' [b' [e' [-> Hi]]]]. cbn [traverse].
      apply (bind_sim esim); [apply IH, Hi|]. intros y' y Hy. cbn [rsimG]. now apply sim_flat_create.
    - destruct (esim_cat _ _ _ _ Hx) as [cs' [b' [e' [-> Hl]]]]. cbn [traverse].
      apply (bind_sim (Forall2 esim)).
      + apply sequence_sim. eapply Forall2_map2; [apply (Forall2_with _ _ _ _ _ (lsim_inv _ _ Hl) IH)|]; [intros a' a Pa Ra; exact (fun ib => Pa a' ib Ra)|auto].
      + intros ys' ys Hy. apply rsim_G. apply sim_cat_create. now apply lsim_of.
    - destruct (esim_br _ _ _ _ Hx) as [i' [b' [e' [-> Hi]]]]. cbn [traverse]. destruct inbr; [apply IH, Hi|].
      apply (bind_sim esim); [apply IH, Hi|]. intros y' y Hy. cbn [rsimG]. now apply sim_br_create.
    - destruct (esim_ell _ _ _ _ _ Hx) as [i' [b' [e' [id' [-> Hi]]]]]. cbn [traverse].
      apply (bind_sim esim); [apply IH, Hi|]. intros y' y Hy. cbn [rsimG]. now apply sim_ell_create.
    - destruct (esim_args _ _ _ _ Hx) as [cs' [b' [e' [-> Hl]]]]. cbn [traverse].
      apply (bind_sim (Forall2 esim)).
      + apply sequence_sim. eapply Forall2_map2; [apply (Forall2_with _ _ _ _ _ (lsim_inv _ _ Hl) IH)|]; [intros a' a Pa Ra; exact (fun ib => Pa a' ib Ra)|auto].
      + intros ys' ys Hy. apply rsim_G. apply sim_args_create. now apply lsim_of.
    - destruct (esim_op _ _ _ _ Hx) as [cs' [b' [e' [-> Hl]]]]. cbn [traverse].
      apply (bind_sim (Forall2 esim)).
      + apply sequence_sim. eapply Forall2_map2; [apply (Forall2_with _ _ _ _ _ (lsim_inv _ _ Hl) IH)|]; [intros a' a Pa Ra; exact (fun ib => Pa a' ib Ra)|auto].
      + intros ys' ys Hy. apply rsim_G. apply sim_op_create. now apply lsim_of.
  Qed.


  (* ---- the final checks ---- *)
  Definition pr (a : aname * Z * Z * bool * list Z) : aname * bool := (ax_name a, ax_inbr a).
  Definition inc2 (l : list (aname * bool)) (n : aname) : bool :=
    let mine := filter (fun a => aname_eqb (fst a) n) l in existsb snd mine && existsb (fun a => negb (snd a)) mine.

  Lemma inconsistent_pr axs n : inconsistent axs n = inc2 (map pr axs) n.
  Proof.
    unfold inconsistent, inc2. f_equal.
    - induction axs as [|a r IH]; [reflexivity|]. cbn [filter map]. unfold pr at 1. cbn [fst]. destruct (aname_eqb (ax_name a) n); cbn [existsb map]; [|exact IH].
      unfold pr at 1. cbn [snd]. now rewrite IH.
    - induction axs as [|a r IH]; [reflexivity|]. cbn [filter map]. unfold pr at 1. cbn [fst]. destruct (aname_eqb (ax_name a) n); cbn [existsb map]; [|exact IH].
      unfold pr at 1. cbn [snd]. now rewrite IH.
  Qed.

  Lemma aname_eqb_nmap h (Hh : forall a b, h a = h b -> a = b) a b : aname_eqb (nmap h a) (nmap h b) = aname_eqb a b.
  Proof.
    destruct a, b; cbn [nmap aname_eqb]; try reflexivity. destruct (Z.eqb_spec id id0) as [->|Hne]; [apply Z.eqb_refl|].
    apply Z.eqb_neq. intros E. apply Hne. now apply Hh.
  Qed.

  Definition prmap (h : Z -> Z) (l : list (aname * bool)) : list (aname * bool) := map (fun a => (nmap h (fst a), snd a)) l.

  Lemma inc2_nmap h (Hh : forall a b, h a = h b -> a = b) l n : inc2 (prmap h l) (nmap h n) = inc2 l n.
  Proof.
    unfold inc2, prmap. f_equal.
    - induction l as [|a r IH]; [reflexivity|]. cbn [map filter fst]. rewrite (aname_eqb_nmap h Hh). destruct (aname_eqb (fst a) n); cbn [existsb snd]; [now rewrite IH|exact IH].
    - induction l as [|a r IH]; [reflexivity|]. cbn [map filter fst]. rewrite (aname_eqb_nmap h Hh). destruct (aname_eqb (fst a) n); cbn [existsb snd]; [now rewrite IH|exact IH].
  Qed.

  Lemma existsb_map' {A B} (f : A -> B) (p : B -> bool) l : existsb p (map f l) = existsb (fun x => p (f x)) l.
  Proof. induction l as [|a r IH]; [reflexivity|]. cbn [map existsb]. now rewrite IH. Qed.
  Lemma existsb_ext' {A} (p q : A -> bool) l : (forall a, p a = q a) -> existsb p l = existsb q l.
  Proof. intros H. induction l as [|a r IH]; [reflexivity|]. cbn [existsb]. now rewrite H, IH. Qed.

  Definition any_inc (l : list (aname * bool)) : bool := existsb (fun a => inc2 l (fst a)) l.
  Lemma any_inc_nmap h (Hh : forall a b, h a = h b -> a = b) l : any_inc (prmap h l) = any_inc l.
  Proof.
    unfold any_inc. unfold prmap at 2. rewrite existsb_map'. apply existsb_ext'. intros a. cbn [fst]. apply (inc2_nmap h Hh).
  Qed.

  Lemma find_any axs : match find (fun a => inconsistent axs (ax_name a)) axs with Some _ => true | None => false end = any_inc (map pr axs).
  Proof.
    unfold any_inc. rewrite existsb_map'.
    assert (H : forall l, match find (fun a => inconsistent axs (ax_name a)) l with Some _ => true | None => false end
                          = existsb (fun a => inc2 (map pr axs) (fst (pr a))) l).
    { induction l as [|a r IH]; [reflexivity|]. cbn [find existsb]. unfold pr at 2. cbn [fst]. rewrite <- inconsistent_pr.
      destruct (inconsistent axs (ax_name a)); [reflexivity|exact IH]. }
    apply H.
  Qed.

  (* the (name, in brackets) view of the axes of related trees is related *)
  Lemma axes_list_sim l' l ib bp' bp :
    Forall2 esim l' l ->
    Forall (fun x => forall x' ib bp' bp, esim x' x -> prmap (fun z => z) (map pr (axes_of x' ib bp')) = prmap g (map pr (axes_of x ib bp))) l ->
    prmap (fun z => z) (map pr (flat_map (fun c => axes_of c ib bp') l')) = prmap g (map pr (flat_map (fun c => axes_of c ib bp) l)).
  Proof.
    induction 1 as [|a' a r' r Ha _ IHl]; intros IH; [reflexivity|]. inversion IH as [|? ? IHa IHr]; subst. cbn [flat_map].
    unfold prmap in *. rewrite !map_app. f_equal; [apply (IHa a' ib bp' bp Ha)|apply IHl, IHr].
  Qed.

  Lemma axes_pr_sim : forall x x' ib bp' bp, esim x' x ->
    prmap (fun z => z) (map pr (axes_of x' ib bp')) = prmap g (map pr (axes_of x ib bp)).
  Proof.
    induction x as [nm v b e|cs b e IH|i b e IH|cs b e IH|i b e IH|i b e id IH|cs b e IH|cs b e IH] using expr_ind'; intros x' ib bp' bp Hx.
    - destruct (esim_axis _ _ _ _ _ Hx) as [n' [b' [e' [-> Hn]]]]. cbn [axes_of map prmap pr ax_name ax_inbr fst snd]. now rewrite Hn.
    - destruct (esim_list _ _ _ _ Hx) as [cs' [b' [e' [-> Hl]]]]. cbn [axes_of]. apply axes_list_sim; [now apply lsim_inv|exact IH].
    - destruct (esim_flat _ _ _ _ Hx) as [i' [b' [e' [-> Hi]]]]. cbn [axes_of]. now apply IH.
    - destruct (esim_cat _ _ _ _ Hx) as [cs' [b' [e' [-> Hl]]]]. cbn [axes_of]. apply axes_list_sim; [now apply lsim_inv|exact IH].
    - destruct (esim_br _ _ _ _ Hx) as [i' [b' [e' [-> Hi]]]]. cbn [axes_of]. now apply IH.
    - destruct (esim_ell _ _ _ _ _ Hx) as [i' [b' [e' [id' [-> Hi]]]]]. cbn [axes_of]. now apply IH.
    - destruct (esim_args _ _ _ _ Hx) as [cs' [b' [e' [-> Hl]]]]. cbn [axes_of]. apply axes_list_sim; [now apply lsim_inv|exact IH].
    - destruct (esim_op _ _ _ _ Hx) as [cs' [b' [e' [-> Hl]]]]. cbn [axes_of]. apply axes_list_sim; [now apply lsim_inv|exact IH].
  Qed.

  Lemma op_children_len x' x : esim x' x -> length (op_children x') = length (op_children x).
  Proof.
    intros H. pose proof (ctor_sim _ _ H) as Hc. destruct x; destruct x'; cbn [ctor] in Hc; try discriminate Hc; try reflexivity.
    destruct (esim_op _ _ _ _ H) as [cs' [b' [e' [E Hl]]]]. injection E as <- _ _. cbn [op_children]. now apply lsim_length.
  Qed.

  (* ---- everything after the first-stage parse ---- *)
  Theorem stage2_sim ap' ap x' x : esim x' x -> rsimG esim (stage2 ap' x') (stage2 ap x).
  Proof.
    intros Hx. unfold stage2.
    apply (bind_sim R3); [now apply mu_op_sim|]. intros [[cs' b'] e'] [[cs b] e] Hc. unfold R3 in Hc. cbn [fst] in Hc.
    apply (bind_sim (Forall2 esim)).
    { apply sequence_sim. eapply Forall2_map2; [exact Hc|]. intros c' c Hcc.
      apply (bind_sim R3); [now apply mu_args_sim|]. intros [[a' ab'] ae'] [[a ab] ae] Ha. unfold R3 in Ha. cbn [fst] in Ha.
      apply rsim_G. apply sim_args_create. now apply lsim_of. }
    intros cs2' cs2 H2. apply (bind_sim esim); [apply rsim_G, sim_op_create; now apply lsim_of|].
    intros y' y Hy. apply (bind_sim esim); [now apply traverse_sim|]. intros z' z Hz.
    rewrite (op_children_len _ _ Hz). destruct (2 <? length (op_children z))%nat; [reflexivity|]. cbv zeta.
    pose proof (find_any (axes_of z' false [])) as F'. pose proof (find_any (axes_of z false [])) as F.
    pose proof (axes_pr_sim z z' false [] [] Hz) as HA.
    assert (E : any_inc (map pr (axes_of z' false [])) = any_inc (map pr (axes_of z false []))).
    { rewrite <- (any_inc_nmap (fun t => t) (fun a b H => H) (map pr (axes_of z' false []))), <- (any_inc_nmap g g_inj (map pr (axes_of z false []))). now rewrite HA. }
    rewrite E in F'. rewrite <- F in F'.
    destruct (find _ (axes_of z' false [])), (find _ (axes_of z false [])); try discriminate F'; cbn [rsimG]; auto.
  Qed.


  (* ---- tokens, delimiter trees, items ---- *)
  Definition tsim (t' t : token) : Prop := tk t' = tk t /\ tbeg t' = g (tbeg t).
  Inductive ttsim : ttree -> ttree -> Prop :=
  | tts_T t' t : tsim t' t -> ttsim (TT t') (TT t)
  | tts_G p o' c' o c in' in_ : Forall2 ttsim in' in_ -> ttsim (TG p o' c' in') (TG p o c in_).
  Inductive isim : item -> item -> Prop :=
  | is_T t' t : tsim t' t -> isim (ITok t') (ITok t)
  | is_G b' e' r' b e r : rsimG esim r' r -> isim (IGrp b' e' r') (IGrp b e r).

  Lemma item_is_sim l i' i : isim i' i -> item_is l i' = item_is l i.
  Proof. intros [t' t [Hk _]|]; cbn [item_is]; [now rewrite Hk|reflexivity]. Qed.

  Lemma group_sim : forall ts ts' st' st cur' cur,
    Forall2 tsim ts' ts ->
    Forall2 (fun e' e => fst (fst e') = fst (fst e) /\ Forall2 ttsim (snd e') (snd e)) st' st ->
    Forall2 ttsim cur' cur ->
    rsimG (Forall2 ttsim) (group ts' st' cur') (group ts st cur).
  Proof.
    induction ts as [|t r IH]; intros ts' st' st cur' cur Ht Hst Hcur; inversion Ht as [|t' ? r' ? Htt Hr]; subst; cbn [group].
    - destruct Hst as [|[[p' o'] out'] [[p o] out] st' st _ _]; cbn [rsimG]; [|reflexivity].
      clear - Hcur. revert cur Hcur. induction cur' as [|a' l' IHl] using rev_ind; intros cur Hcur.
      + inversion Hcur; subst. constructor.
      + apply Forall2_app_inv_l in Hcur as [l1 [l2 [H1 [H2 ->]]]]. inversion H2 as [|? a ? ? Ha Hn]; subst. inversion Hn; subst.
        rewrite !rev_app_distr. cbn [rev List.app]. constructor; [exact Ha|]. now apply IHl.
    - destruct Htt as [Hk Hb]. rewrite Hk.
      assert (Hrev : forall c' c, Forall2 ttsim c' c -> Forall2 ttsim (rev c') (rev c)).
      { clear. intros c' c H. induction H as [|a' a l' l Ha _ IHl]; [constructor|]. cbn [rev]. apply Forall2_app; [exact IHl|constructor; [exact Ha|constructor]]. }
      assert (Hplain : rsimG (Forall2 ttsim) (group r' st' (TT t' :: cur')) (group r st (TT t :: cur))).
      { apply (IH r' st' st (TT t' :: cur') (TT t :: cur) Hr Hst). constructor; [constructor; split; assumption|exact Hcur]. }
      destruct (tk t) as [[]| | |]; try exact Hplain.
      + apply (IH r' ((true, t', cur') :: st') ((true, t, cur) :: st) [] [] Hr); [|constructor]. constructor; [cbn; auto|exact Hst].
      + apply (IH r' ((false, t', cur') :: st') ((false, t, cur) :: st) [] [] Hr); [|constructor]. constructor; [cbn; auto|exact Hst].
      + destruct Hst as [|[[p' o'] out'] [[p o] out] st' st [Hp Ho] Hs]; cbn [rsimG]; [reflexivity|]. cbn [fst snd] in Hp, Ho. subst p'.
        destruct p; [|cbn [rsimG]; reflexivity]. apply (IH r' st' st _ _ Hr Hs). constructor; [|exact Ho]. constructor. now apply Hrev.
      + destruct Hst as [|[[p' o'] out'] [[p o] out] st' st [Hp Ho] Hs]; cbn [rsimG]; [reflexivity|]. cbn [fst snd] in Hp, Ho. subst p'.
        destruct p; [cbn [rsimG]; reflexivity|]. apply (IH r' st' st _ _ Hr Hs). constructor; [|exact Ho]. constructor. now apply Hrev.
  Qed.


  (* ---- the recursive-descent parse ---- *)
  Lemma F2_rev {A} (R : A -> A -> Prop) l' l : Forall2 R l' l -> Forall2 R (rev l') (rev l).
  Proof. induction 1 as [|a' a l' l Ha _ IH]; [constructor|]. cbn [rev]. apply Forall2_app; [exact IH|constructor; [exact Ha|constructor]]. Qed.

  Lemma strip_front_sim is' is_ : Forall2 isim is' is_ -> Forall2 isim (strip_front is') (strip_front is_).
  Proof.
    induction 1 as [|i' i l' l Hi Hl IH]; [constructor|]. cbn [strip_front]. rewrite (item_is_sim LSpace _ _ Hi).
    destruct (item_is LSpace i); [exact IH|now constructor].
  Qed.
  Lemma strip_sim is' is_ : Forall2 isim is' is_ -> Forall2 isim (strip is') (strip is_).
  Proof. intros H. unfold strip. apply F2_rev, strip_front_sim, F2_rev, strip_front_sim, H. Qed.

  Definition opsim (o' o : list item * Z) : Prop := Forall2 isim (fst o') (fst o).

  Lemma split_at_sim l : forall is_ is' cur' cur e' e,
    Forall2 isim is' is_ -> Forall2 isim cur' cur -> Forall2 opsim (split_at l is' cur' e') (split_at l is_ cur e).
  Proof.
    induction is_ as [|i r IH]; intros is' cur' cur e' e Hi Hc; inversion Hi as [|i' ? r' ? Hii Hr]; subst; cbn [split_at].
    - constructor; [|constructor]. unfold opsim. cbn [fst]. now apply F2_rev.
    - rewrite (item_is_sim l _ _ Hii). destruct (item_is l i).
      + constructor; [unfold opsim; cbn [fst]; now apply F2_rev|]. apply IH; [exact Hr|constructor].
      + apply IH; [exact Hr|]. now constructor.
  Qed.

  Lemma atom1_sim i' i : isim i' i -> rsimG esim (atom1 i') (atom1 i).
  Proof.
    intros [t' t [Hk Hb]|b' e' r' b e r Hr]; cbn [atom1]; [|exact Hr]. rewrite Hk. destruct (tk t) as [[]|cs|cs|cs]; cbn [rsimG]; auto.
    - apply sim_ell_create. reflexivity.
    - reflexivity.
    - unfold esim, e0. cbn [emap nmap]. now rewrite Hb.
  Qed.

  Lemma parse_atoms_sim is' is_ : Forall2 isim is' is_ -> rsimG esim (parse_atoms is') (parse_atoms is_).
  Proof.
    intros H. unfold parse_atoms. destruct H as [|i' i l' l Hi [|j' j m' m Hj [|k' k n' n Hk Hn]]]; cbn [rsimG]; auto.
    - now apply atom1_sim.
    - rewrite (item_is_sim LDots _ _ Hj). destruct (item_is LDots j); [|reflexivity].
      apply (bind_sim esim); [now apply atom1_sim|]. intros x' x Hx. cbn [rsimG]. now apply sim_ell_create.
  Qed.

  Lemma existsb_item_sim l is' is_ : Forall2 isim is' is_ -> existsb (item_is l) is' = existsb (item_is l) is_.
  Proof. induction 1 as [|i' i r' r Hi _ IH]; [reflexivity|]. cbn [existsb]. now rewrite (item_is_sim l _ _ Hi), IH. Qed.

  Lemma filter_nonempty_sim ops' ops :
    Forall2 opsim ops' ops ->
    Forall2 opsim (filter (fun o : list item * Z => match fst o with [] => false | _ => true end) ops')
                  (filter (fun o : list item * Z => match fst o with [] => false | _ => true end) ops).
  Proof.
    induction 1 as [|[o1' o2'] [o1 o2] r' r Ho _ IH]; [constructor|]. cbn [filter fst]. unfold opsim in Ho. cbn [fst] in Ho.
    destruct Ho as [|? ? ? ? Hh Ht]; [exact IH|]. constructor; [unfold opsim; cbn [fst]; now constructor|exact IH].
  Qed.

  Lemma filter_sim (p : expr -> bool) l' l : (forall x' x, esim x' x -> p x' = p x) -> Forall2 esim l' l -> Forall2 esim (filter p l') (filter p l).
  Proof. intros Hp. induction 1 as [|a' a r' r Ha _ IH]; [constructor|]. cbn [filter]. rewrite (Hp _ _ Ha). destruct (p a); [now constructor|exact IH]. Qed.

  (* only the stripped lists matter *)
  Lemma parse_ops_sim_strip : forall ops comp b' e' b e is' is_,
    Forall2 isim (strip is') (strip is_) -> rsimG esim (parse_ops ops comp b' e' is') (parse_ops ops comp b e is_).
  Proof.
    induction ops as [|op rest IH]; intros comp b' e' b e is' is_ H; cbn [parse_ops].
    - destruct H as [|i' i l' l Hi Hl]; [cbn [rsimG]; now apply sim_EList|].
      assert (Hat : rsimG esim (parse_atoms (i' :: l')) (parse_atoms (i :: l))) by (apply parse_atoms_sim; now constructor).
      destruct Hi as [t' t Ht|gb' ge' r' gb ge r Hr]; [exact Hat|]. destruct Hl; [exact Hr|exact Hat].
    - destruct H as [|i' i l' l Hi Hl]; [cbn [rsimG]; now apply sim_EList|].
      assert (Hall : Forall2 isim (i' :: l') (i :: l)) by now constructor.
      set (body' := if existsb (item_is op) (i' :: l') then _ else _).
      set (body := if existsb (item_is op) (i :: l) then _ else _).
      assert (Hbody : rsimG esim body' body).
      { subst body' body. rewrite (existsb_item_sim op _ _ Hall). destruct (existsb (item_is op) (i :: l)); [|apply IH; now apply strip_sim].
        pose proof (split_at_sim op _ _ [] [] 0 0 Hall (Forall2_nil _)) as Hsp.
        set (operands' := match op with LSpace => filter _ (split_at op (i' :: l') [] 0) | _ => split_at op (i' :: l') [] 0 end).
        set (operands := match op with LSpace => filter _ (split_at op (i :: l) [] 0) | _ => split_at op (i :: l) [] 0 end).
        assert (Hops : Forall2 opsim operands' operands).
        { subst operands' operands. destruct op; try exact Hsp. now apply filter_nonempty_sim. }
        apply (bind_sim (Forall2 esim)).
        - apply sequence_sim. eapply Forall2_map2; [exact Hops|]. intros o' o Ho. apply IH. apply strip_sim. exact Ho.
        - intros xs' xs Hxs. destruct op; cbn [rsimG]; auto.
          + apply rsim_G, sim_op_create. now apply lsim_of.
          + apply rsim_G, sim_args_create. now apply lsim_of.
          + pose proof (filter_sim (fun x => negb (is_axis_or_flat x)) _ _ (fun x' x Hx => f_equal negb (is_aof_sim _ _ Hx)) Hxs) as Hf.
            destruct Hf as [|? ? ? ? _ _]; [|reflexivity]. destruct comp; [|reflexivity]. apply rsim_G, sim_cat_create. now apply lsim_of.
          + apply sim_list_create. now apply lsim_of. }
      destruct Hi as [t' t Ht|gb' ge' r' gb ge r Hr]; [exact Hbody|]. destruct Hl; [exact Hr|exact Hbody].
  Qed.

  Lemma parse_ops_sim ops comp b' e' b e is' is_ :
    Forall2 isim is' is_ -> rsimG esim (parse_ops ops comp b' e' is') (parse_ops ops comp b e is_).
  Proof. intros H. apply parse_ops_sim_strip. now apply strip_sim. Qed.

  Lemma group_result_sim paren o' c' o c in' in_ :
    Forall2 isim in' in_ -> rsimG esim (group_result paren o' c' in') (group_result paren o c in_).
  Proof.
    intros H. unfold group_result. apply (bind_sim esim); [now apply parse_ops_sim|]. intros x' x Hx.
    destruct paren; [|cbn [rsimG]; now apply sim_br_create].
    pose proof (ctor_sim _ _ Hx) as Hc. destruct x; destruct x'; cbn [ctor] in Hc; try discriminate Hc; cbn [rsimG]; try exact Hx; now apply sim_flat_create.
  Qed.

  Lemma ttsim_ind' (P : ttree -> ttree -> Prop) :
    (forall t' t, tsim t' t -> P (TT t') (TT t)) ->
    (forall p o' c' o c in' in_, Forall2 ttsim in' in_ -> Forall2 P in' in_ -> P (TG p o' c' in') (TG p o c in_)) ->
    forall t' t, ttsim t' t -> P t' t.
  Proof.
    intros HT HG. fix IH 3. intros t' t H. destruct H as [a' a Ha|p o' c' o c in' in_ Hin].
    - now apply HT.
    - apply HG; [exact Hin|]. revert in' in_ Hin. fix go 3. intros in' in_ Hin. destruct Hin as [|x' x l' l Hx Hl]; constructor; [apply IH, Hx|apply go, Hl].
  Qed.

  Lemma pre_sim : forall t' t, ttsim t' t -> isim (pre t') (pre t).
  Proof.
    apply ttsim_ind'.
    - intros t' t Ht. cbn [pre]. now constructor.
    - intros p o' c' o c in' in_ _ Hin. cbn [pre]. constructor. apply group_result_sim.
      induction Hin as [|x' x l' l Hx _ IHl]; cbn [map]; constructor; [exact Hx|exact IHl].
  Qed.

  Lemma parse_top_sim ts' ts : Forall2 ttsim ts' ts -> rsimG esim (parse_top ts') (parse_top ts).
  Proof. intros H. unfold parse_top. apply parse_ops_sim. eapply Forall2_map2; [exact H|]. intros. now apply pre_sim. Qed.

  Lemma dedupe_sim : forall ts ts' b, Forall2 tsim ts' ts -> Forall2 tsim (dedupe ts' b) (dedupe ts b).
  Proof.
    induction ts as [|t r IH]; intros ts' b H; inversion H as [|t' ? r' ? [Hk Hb] Hr]; subst; cbn [dedupe]; [constructor|].
    assert (Hts : tsim t' t) by (split; assumption).
    unfold is_space. rewrite Hk. destruct (tk t) as [[]| | |]; try (constructor; [exact Hts|now apply IH]).
    destruct b; [now apply IH|constructor; [exact Hts|now apply IH]].
  Qed.

  Lemma first_bad_sim ts' ts : Forall2 tsim ts' ts ->
    match first_bad ts', first_bad ts with Some _, Some _ => True | None, None => True | _, _ => False end.
  Proof. induction 1 as [|t' t r' r [Hk _] _ IH]; cbn [first_bad]; [exact I|]. rewrite Hk. destruct (tk t); auto. Qed.

  (* from the tokens on: related token lists give related outcomes *)
  Definition parse_tokens (ap : list Z) (toks : list token) : result expr :=
    match first_bad toks with
    | Some t => Err 73 (range (tbeg t) (tend t))
    | None => do tts <- group (dedupe toks false) [] []; do x <- parse_top tts; stage2 ap x
    end.

  Theorem parse_tokens_sim ap' ap toks' toks : Forall2 tsim toks' toks -> rsimG esim (parse_tokens ap' toks') (parse_tokens ap toks).
  Proof.
    intros H. unfold parse_tokens. pose proof (first_bad_sim _ _ H) as Hb.
    destruct (first_bad toks'), (first_bad toks); try contradiction; [reflexivity|].
    apply (bind_sim (Forall2 ttsim)); [apply group_sim; [now apply dedupe_sim|constructor|constructor]|].
    intros tts' tts Ht. apply (bind_sim esim); [now apply parse_top_sim|]. intros x' x Hx. now apply stage2_sim.
  Qed.

End Sim.

(* ---------------------------------------------------------------- the lexer, one step at a time *)
Definition next_lit (cs : list N) : option (lit * nat) :=
  match cs with
  | 45%N :: 62%N :: _ => Some (LArrow, 2%nat)
  | 46%N :: 46%N :: 46%N :: _ => Some (LDots, 3%nat)
  | 44%N :: _ => Some (LComma, 1%nat)
  | 43%N :: _ => Some (LPlus, 1%nat)
  | 32%N :: _ => Some (LSpace, 1%nat)
  | 40%N :: _ => Some (LOpenP, 1%nat)
  | 91%N :: _ => Some (LOpenB, 1%nat)
  | 41%N :: _ => Some (LCloseP, 1%nat)
  | 93%N :: _ => Some (LCloseB, 1%nat)
  | _ => None
  end.

Lemma lex_step c r pos run :
  lex (c :: r) pos run =
  match next_lit (c :: r) with
  | Some (l, n) => flush run pos ++ mkTok pos (pos + Z.of_nat n) (TLit l) :: lex (skipn n (c :: r)) (pos + Z.of_nat n) []
  | None => lex r (pos + 1) (c :: run)
  end.
Proof.
  cbn [lex next_lit].
  repeat match goal with
         | |- context [match ?x with _ => _ end] => destruct x; try reflexivity
         end.
Qed.

Lemma next_lit_len cs l n : next_lit cs = Some (l, n) -> (1 <= n <= length cs)%nat.
Proof.
  unfold next_lit.
  repeat match goal with
         | |- context [match ?x with _ => _ end] => destruct x; try discriminate
         end; intros H; injection H as _ <-; cbn [length]; lia.
Qed.

(* a space after [pre] does not change what the lexer sees inside [pre] (its look-ahead stops at the space) *)
Lemma next_lit_app_space pre rest : pre <> [] -> next_lit (pre ++ 32%N :: rest) = next_lit pre.
Proof.
  intros Hne. destruct pre as [|a [|b [|c r]]]; [congruence| | |]; cbn [List.app next_lit];
  repeat match goal with
         | |- context [match ?x with _ => _ end] => destruct x; try reflexivity
         end.
Qed.

Definition sp (p : Z) : token := mkTok p (p + 1) (TLit LSpace).

Lemma lex_app_space : forall k pre pos run rest, (length pre <= k)%nat ->
  lex (pre ++ 32%N :: rest) pos run =
  lex pre pos run ++ sp (pos + Z.of_nat (length pre)) :: lex rest (pos + Z.of_nat (length pre) + 1) [].
Proof.
  induction k as [|k IH]; intros pre pos run rest Hk.
  - destruct pre; [|cbn in Hk; lia]. cbn [List.app length]. rewrite lex_step. cbn [next_lit skipn lex]. unfold sp. now rewrite Z.add_0_r.
  - destruct pre as [|c r].
    + cbn [List.app length]. rewrite lex_step. cbn [next_lit skipn lex]. unfold sp. now rewrite Z.add_0_r.
    + cbn [length] in Hk. change ((c :: r) ++ 32%N :: rest) with (c :: (r ++ 32%N :: rest)). rewrite !lex_step.
      change (c :: (r ++ 32%N :: rest)) with ((c :: r) ++ 32%N :: rest). rewrite (next_lit_app_space (c :: r) rest) by discriminate.
      destruct (next_lit (c :: r)) as [[l n]|] eqn:En.
      * apply next_lit_len in En. set (cr := c :: r) in *. assert (Hcr : length cr = S (length r)) by reflexivity.
        assert (Hs : skipn n (cr ++ 32%N :: rest) = skipn n cr ++ 32%N :: rest).
        { rewrite skipn_app. replace (n - length cr)%nat with 0%nat by lia. reflexivity. }
        rewrite Hs, (IH (skipn n cr)) by (rewrite skipn_length; lia).
        rewrite skipn_length. rewrite <- app_assoc. cbn [List.app].
        replace (pos + Z.of_nat n + Z.of_nat (length cr - n)) with (pos + Z.of_nat (length cr)) by lia. reflexivity.
      * rewrite (IH r) by lia. replace (Z.of_nat (length (c :: r))) with (1 + Z.of_nat (length r)) by (cbn [length]; lia).
        rewrite !Z.add_assoc. reflexivity.
Qed.

Definition shiftT (d : Z) (t : token) : token := mkTok (tbeg t + d) (tend t + d) (tk t).

Lemma flush_shift run pos d : flush run (pos + d) = map (shiftT d) (flush run pos).
Proof. destruct run; [reflexivity|]. cbn [flush map]. unfold shiftT. cbn [tbeg tend tk]. f_equal. f_equal; lia. Qed.

Lemma lex_shift d : forall k cs pos run, (length cs <= k)%nat -> lex cs (pos + d) run = map (shiftT d) (lex cs pos run).
Proof.
  induction k as [|k IH]; intros cs pos run Hk.
  - destruct cs; [|cbn in Hk; lia]. cbn [lex]. apply flush_shift.
  - destruct cs as [|c r]; [cbn [lex]; apply flush_shift|]. cbn [length] in Hk. rewrite !lex_step.
    destruct (next_lit (c :: r)) as [[l n]|] eqn:En.
    + apply next_lit_len in En. cbn [length] in En. rewrite map_app. cbn [map]. rewrite flush_shift.
      replace (pos + d + Z.of_nat n) with (pos + Z.of_nat n + d) by lia. rewrite IH by (rewrite skipn_length; cbn [length]; lia).
      unfold shiftT at 3. cbn [tbeg tend tk]. reflexivity.
    + replace (pos + d + 1) with (pos + 1 + d) by lia. apply IH. lia.
Qed.

(* every token begins at or after the start of the pending run, and before the end of the text *)
Lemma flush_bounds run pos m : 0 <= m ->
  Forall (fun t => pos - Z.of_nat (length run) <= tbeg t < pos + m) (flush run pos).
Proof. intros Hm. destruct run as [|c r]; cbn [flush]; constructor; [|constructor]. cbn [tbeg length]. lia. Qed.

Lemma lex_bounds : forall k cs pos run, (length cs <= k)%nat ->
  Forall (fun t => pos - Z.of_nat (length run) <= tbeg t < pos + Z.of_nat (length cs)) (lex cs pos run).
Proof.
  induction k as [|k IH]; intros cs pos run Hk.
  - destruct cs; [|cbn in Hk; lia]. cbn [lex]. apply flush_bounds. lia.
  - destruct cs as [|c r]; [cbn [lex]; apply flush_bounds; lia|].
    cbn [length] in Hk. rewrite lex_step. destruct (next_lit (c :: r)) as [[l n]|] eqn:En.
    + apply next_lit_len in En. cbn [length] in En. apply Forall_app. split; [apply flush_bounds; lia|].
      constructor; [cbn [tbeg length]; lia|].
      specialize (IH (skipn n (c :: r)) (pos + Z.of_nat n) [] ltac:(rewrite skipn_length; cbn [length]; lia)).
      eapply Forall_impl; [|exact IH]. intros t Ht. rewrite skipn_length in Ht. cbn [length] in *. lia.
    + specialize (IH r (pos + 1) (c :: run) ltac:(lia)). eapply Forall_impl; [|exact IH]. intros t Ht. cbn [length] in *. lia.
Qed.

(* ---------------------------------------------------------------- a redundant space *)
Definition shift_at (k p : Z) : Z := if p <? k then p else p + 1.
Lemma shift_at_inj k a b : shift_at k a = shift_at k b -> a = b.
Proof. unfold shift_at. destruct (Z.ltb_spec a k), (Z.ltb_spec b k); lia. Qed.

Lemma parse_op_tokens text : parse_op text = parse_tokens (literal_positions text 0) (lex text 0 []).
Proof. reflexivity. Qed.

Definition is_bad (t : token) : bool := match tk t with TBad _ => true | _ => false end.
Lemma first_bad_existsb ts : match first_bad ts with Some _ => true | None => false end = existsb is_bad ts.
Proof. induction ts as [|t r IH]; [reflexivity|]. cbn [first_bad existsb]. unfold is_bad at 1. destruct (tk t); cbn [orb]; auto. Qed.

Fixpoint dstate (ts : list token) (b : bool) : bool :=
  match ts with [] => b | t :: r => dstate r (is_space t) end.
Lemma dedupe_app a : forall b x, dedupe (a ++ x) b = dedupe a b ++ dedupe x (dstate a b).
Proof.
  induction a as [|t r IH]; intros b x; [reflexivity|]. cbn [List.app dedupe dstate]. destruct (is_space t); [destruct b|]; cbn [List.app]; now rewrite IH.
Qed.
Lemma dedupe_map d : forall ts b, dedupe (map (shiftT d) ts) b = map (shiftT d) (dedupe ts b).
Proof.
  induction ts as [|t r IH]; intros b; [reflexivity|]. cbn [map dedupe]. unfold is_space, shiftT at 1. cbn [tk].
  destruct (match tk t with TLit LSpace => true | _ => false end); [destruct b|]; cbn [map]; now rewrite IH.
Qed.
Lemma dedupe_Forall (P : token -> Prop) : forall ts b, Forall P ts -> Forall P (dedupe ts b).
Proof.
  induction ts as [|t r IH]; intros b H; [constructor|]. inversion H; subst. cbn [dedupe].
  destruct (is_space t); [destruct b|]; try constructor; auto.
Qed.

Section Sim2.
  Variable g : Z -> Z.
  Hypothesis g_inj : forall a b, g a = g b -> a = b.
  Theorem parse_tokens_sim2 ap' ap toks' toks :
    existsb is_bad toks' = existsb is_bad toks ->
    Forall2 (tsim g) (dedupe toks' false) (dedupe toks false) ->
    rsimG (esim g) (parse_tokens ap' toks') (parse_tokens ap toks).
  Proof.
    intros Hb H. unfold parse_tokens. rewrite <- !first_bad_existsb in Hb.
    destruct (first_bad toks'), (first_bad toks); try discriminate Hb; [reflexivity|].
    apply (bind_sim (Forall2 (ttsim g))); [apply group_sim; [exact H|constructor|constructor]|].
    intros tts' tts Ht. apply (bind_sim (esim g)); [now apply parse_top_sim|]. intros x' x Hx. now apply stage2_sim.
  Qed.
End Sim2.

(* Doubling a space does not change how a description parses: the same tree up to positions
   (anonymous axes renumbered consistently), or a SyntaxError raised at the same place of the parser. *)
Theorem redundant_space_is_irrelevant pre post :
  rsimG (esim (shift_at (Z.of_nat (length pre) + 1)))
        (parse_op (pre ++ 32%N :: 32%N :: post)) (parse_op (pre ++ 32%N :: post)).
Proof.
  set (p := Z.of_nat (length pre)). set (k := p + 1).
  rewrite !parse_op_tokens.
  set (A := lex pre 0 []). set (B := lex post (p + 1) []).
  assert (E : lex (pre ++ 32%N :: post) 0 [] = A ++ sp p :: B).
  { rewrite (lex_app_space (length pre)) by lia. reflexivity. }
  assert (E' : lex (pre ++ 32%N :: 32%N :: post) 0 [] = A ++ sp p :: sp (p + 1) :: map (shiftT 1) B).
  { rewrite (lex_app_space (length pre)) by lia. fold p A. f_equal. f_equal.
    change (32%N :: post) with ([] ++ 32%N :: post). rewrite (lex_app_space 0) by (cbn; lia). cbn [lex flush List.app length].
    replace (0 + p + 1 + Z.of_nat 0) with (p + 1) by lia. f_equal. replace (p + 1 + 1) with (p + 1 + 1) by lia.
    apply (lex_shift 1 (length post)). lia. }
  rewrite E, E'.
  assert (HA : Forall (fun t => tbeg t < k) A).
  { pose proof (lex_bounds (length pre) pre 0 [] ltac:(lia)) as H. eapply Forall_impl; [|exact H]. intros t Ht. cbn [length] in Ht. subst k p. lia. }
  assert (HB : Forall (fun t => k <= tbeg t) B).
  { pose proof (lex_bounds (length post) post (p + 1) [] ltac:(lia)) as H. eapply Forall_impl; [|exact H]. intros t Ht. cbn [length] in Ht. subst k. lia. }
  apply parse_tokens_sim2; [apply shift_at_inj| |].
  - rewrite !existsb_app. cbn [existsb is_bad sp tk orb]. f_equal. clear. induction B as [|t r IH]; [reflexivity|]. cbn [map existsb]. now rewrite IH.
  - rewrite !dedupe_app. apply Forall2_app.
    + apply Forall2_same. intros t Ht. pose proof (dedupe_Forall _ _ false HA) as HA'. rewrite Forall_forall in HA'. specialize (HA' t Ht).
      split; [reflexivity|]. unfold shift_at. destruct (Z.ltb_spec (tbeg t) k); [reflexivity|lia].
    + cbn [dedupe is_space sp tk].
      assert (Hsp : tsim (shift_at k) (sp p) (sp p)).
      { split; [reflexivity|]. cbn [sp tbeg]. unfold shift_at. destruct (Z.ltb_spec p k); [reflexivity|subst k; lia]. }
      assert (Htail : Forall2 (tsim (shift_at k)) (dedupe (map (shiftT 1) B) true) (dedupe B true)).
      { rewrite dedupe_map. pose proof (dedupe_Forall _ _ true HB) as HB'. clear - HB'. induction (dedupe B true) as [|t r IH]; [constructor|].
        inversion HB'; subst. constructor; [|now apply IH]. split; [reflexivity|]. cbn [shiftT tbeg]. unfold shift_at. destruct (Z.ltb_spec (tbeg t) k); [lia|reflexivity]. }
      destruct (dstate A false); [exact Htail|constructor; [exact Hsp|exact Htail]].
Qed.

(* in terms of [erase] (structure without positions and anonymous-axis identifiers, Model/Parse.v) *)
Lemma erase_emap h : forall x, erase (emap h x) = erase x.
Proof.
  induction x as [nm v b e|cs b e IH|i b e IH|cs b e IH|i b e IH|i b e id IH|cs b e IH|cs b e IH] using expr_ind'; cbn [emap erase];
    try (f_equal; rewrite map_map; apply map_ext_in; intros c Hc; rewrite Forall_forall in IH; now apply IH); try (now rewrite IH).
  destruct nm; reflexivity.
Qed.

Lemma esim_erase g x' x : esim g x' x -> erase x' = erase x.
Proof. intros H. rewrite <- (erase_emap (fun z => z) x'), <- (erase_emap g x). unfold esim, e0 in H. now rewrite H. Qed.

Corollary redundant_space_same_structure pre post :
  match parse_op (pre ++ 32%N :: 32%N :: post), parse_op (pre ++ 32%N :: post) with
  | Ok t', Ok t => erase t' = erase t
  | Err s' _, Err s _ => s' = s
  | Internal s', Internal s => s' = s
  | _, _ => False
  end.
Proof.
  pose proof (redundant_space_is_irrelevant pre post) as H.
  destruct (parse_op (pre ++ 32%N :: 32%N :: post)), (parse_op (pre ++ 32%N :: post)); cbn [rsimG] in H; auto.
  eapply esim_erase; eauto.
Qed.
Print Assumptions redundant_space_same_structure.
