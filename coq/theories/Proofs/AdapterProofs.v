(* proofs for C15 over the regenerated kernel _expr_to_axis *)
From Coq Require Import List Bool Arith Lia Sorted.
From EinxV Require Import Gen.GenAdapter.
Import ListNotations.

Lemma from_spec idx marks k :
  In k (gen_expr_to_axis_from idx marks) <-> (idx <= k /\ nth (k - idx) marks false = true).
Proof.
  revert idx k. induction marks as [|m r IH]; intros idx k; cbn [gen_expr_to_axis_from].
  - split; [intros []|intros [_ H]]. destruct (k - idx); discriminate.
  - destruct m.
    + cbn [In]. rewrite IH. split.
      * intros [<-|[Hle Hn]]; [split; [lia|now rewrite Nat.sub_diag]|].
        split; [lia|]. replace (k - idx) with (S (k - S idx)) by lia. exact Hn.
      * intros [Hle Hn]. destruct (Nat.eq_dec idx k) as [E|E]; [now left|right]. split; [lia|].
        replace (k - idx) with (S (k - S idx)) in Hn by lia. exact Hn.
    + rewrite IH. split.
      * intros [Hle Hn]. split; [lia|]. replace (k - idx) with (S (k - S idx)) by lia. exact Hn.
      * intros [Hle Hn]. destruct (Nat.eq_dec idx k) as [E|E].
        -- subst. rewrite Nat.sub_diag in Hn. discriminate.
        -- split; [lia|]. replace (k - idx) with (S (k - S idx)) in Hn by lia. exact Hn.
Qed.

(* axis= lists exactly the positions of the bracketed dimensions ... *)
Theorem axis_is_bracket_positions : forall marks k,
  In k (gen_expr_to_axis marks) <-> nth k marks false = true.
Proof.
  intros marks k. unfold gen_expr_to_axis. rewrite from_spec, Nat.sub_0_r. split; [tauto|]. intros H. split; [lia|exact H].
Qed.
Lemma from_sorted idx marks : forall k, In k (gen_expr_to_axis_from idx marks) -> idx <= k.
Proof. intros k H. apply from_spec in H. tauto. Qed.
Theorem axis_strictly_ascending : forall marks,
  StronglySorted lt (gen_expr_to_axis marks).
Proof.
  intros marks. unfold gen_expr_to_axis. generalize 0. induction marks as [|m r IH]; intros idx; cbn [gen_expr_to_axis_from]; [constructor|].
  destruct m; [|apply IH]. constructor; [apply IH|]. apply Forall_forall. intros k Hk. apply from_sorted in Hk. lia.
Qed.
