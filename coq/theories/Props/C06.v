(* C06 - a call's outcome does not depend on earlier calls (cache transparency).
   The compiled function is looked up under a key built from the frozen arguments; a hit returns
   what an earlier call with an *equal* key compiled.  Transparency therefore needs: equal keys
   imply that tracing sees the same thing.  With numbers compared together with their type (as
   the source does now - Gen/GenFreeze.v) key equality is identity of the frozen value; without
   it, 2 and 2.0 collide (the defect of the pinned tree). *)
From Coq Require Import String List ZArith Bool Arith.
From EinxV Require Import Model.PyVal Gen.GenFreeze Proofs.PyValProofs Gen.GenTracerKey Model.TracerKey Proofs.TracerKeyProofs.
Import ListNotations.

(* equal keys are identical frozen values: a cache hit was compiled for exactly these arguments *)
Theorem C06_typed_keys_separate : forall a b, key_eq ByTypeAndRepr a b = true -> a = b.
Proof. exact typed_keys_separate. Qed.
Print Assumptions C06_typed_keys_separate.

(* hence any outcome that is a function of the frozen arguments is the same for a hit and a miss *)
Corollary C06_cache_hit_is_transparent : forall (O : Type) (trace : fv -> O) a b,
  key_eq ByTypeAndRepr a b = true -> trace a = trace b.
Proof. intros O trace a b H. now rewrite (C06_typed_keys_separate a b H). Qed.

(* the cache as a state machine (lookup by key equality, insert on a miss): for EVERY history of calls, starting from
   the empty cache, each call returns exactly what tracing its own arguments afresh returns - earlier calls do not matter *)
Theorem C06_every_history_is_transparent : forall (O : Type) (trace : fv -> O) (history : list fv),
  run O trace ByTypeAndRepr [] history = map trace history.
Proof. intros O trace h. apply cache_transparent_for_every_history. intros k o []. Qed.
Print Assumptions C06_every_history_is_transparent.

(* ... while with the untyped comparison of the pinned tree a history exists in which the second call gets the first one's result *)
Theorem C06_untyped_history_refuted : exists (history : list fv),
  run fv (fun a => a) ByValue [] history <> map (fun a => a) history.
Proof.
  exists [FDict [("c"%string, FNum {| nt := TInt; integral := true; code := 2; negz := false |})];
          FDict [("c"%string, FNum {| nt := TFloat; integral := true; code := 2; negz := false |})]].
  vm_compute. discriminate.
Qed.

(* the source compares numbers together with their type *)
Theorem C06_source_uses_typed_keys : gen_freeze_numbers_typed = true /\ gen_freeze_numbers_by_repr = true.
Proof. split; reflexivity. Qed.

(* comparing numbers by type and == alone does not separate either: 0.0 == -0.0 (the tree before fix 845e990) *)
Theorem C06_signed_zero_refuted : exists a b, key_eq ByType a b = true /\ a <> b.
Proof.
  exists (FDict [("s"%string, FNum {| nt := TFloat; integral := true; code := 0; negz := false |})]),
         (FDict [("s"%string, FNum {| nt := TFloat; integral := true; code := 0; negz := true |})]).
  split; [reflexivity|discriminate].
Qed.

(* the untyped comparison of the pinned tree does not separate: c=2 and c=2.0 share a key *)
Theorem C06_untyped_keys_refuted : exists a b, key_eq ByValue a b = true /\ a <> b.
Proof.
  exists (FDict [("c"%string, FNum {| nt := TInt; integral := true; code := 2; negz := false |})]),
         (FDict [("c"%string, FNum {| nt := TFloat; integral := true; code := 2; negz := false |})]).
  split; [reflexivity|discriminate].
Qed.

(* ---- tensor arguments: the key holds the placeholder that _to_tracer builds (Gen/GenTracerKey.v: its rows, and the attributes
   that __eq__ of Tensor / ConvertibleTensor compares, are read off the source on every run).  Tracing and compilation see
   the placeholders only, so a hit is a faithful stand-in for a fresh compilation iff equal placeholders are identical. ---- *)
Theorem C06_placeholders_of_tensor_arguments_separate : forall a b pa pb,
  to_ph a = Some pa -> to_ph b = Some pb -> ph_eqb pa pb = true -> pa = pb.
Proof. exact placeholders_of_arguments_separate. Qed.

(* every kind of argument has its row, and the row of a callable carries its signature *)
Definition some_arg (k : akind) : arg := Build_arg k [2; 3]%Z 1 ["shape"%string].
Example C06_every_argument_kind_has_a_placeholder : forall k, exists p, to_ph (some_arg k) = Some p.
Proof. intros []; eexists; vm_compute; reflexivity. Qed.
Example C06_factory_placeholder_holds_the_signature :
  option_map p_concrete (to_ph (fac ["shape"; "name"]%string))
  = Some [("type"%string, CType 7); ("parameters"%string, CParams ["shape"; "name"]%string)].
Proof. reflexivity. Qed.

(* the whole key - frozen option values and placeholders, position by position - and the cache over such keys: for EVERY history
   of calls each call gets what tracing its own key afresh gives *)
Theorem C06_every_history_with_tensor_arguments_is_transparent :
  forall (O : Type) (trace : list item -> O) (history : list (list item)),
  Forall (Forall wf_item) history -> krun O trace ckey_eqb [] history = map trace history.
Proof. intros O trace h Hh. apply kcache_transparent_for_every_history; [intros k o []|exact Hh]. Qed.

(* a placeholder comparison that ignores `concrete` (the signature of a factory) does not separate *)
Theorem C06_comparison_without_concrete_refuted : exists a b pa pb, to_ph a = Some pa /\ to_ph b = Some pb /\
  ph_eqb_with ["origin"; "shape"]%string ["origin"; "shape"]%string pa pb = true /\ pa <> pb.
Proof. exact without_concrete_refuted. Qed.

(* _to_tracer has a row for every kind of tensor argument: whatever its shape, type and signature, it gets a placeholder, and the
   placeholder holds exactly the shape / type / signature the row names (so the key distinguishes what tracing distinguishes) *)
Theorem C06_every_tensor_argument_gets_a_placeholder : forall a, exists p, to_ph a = Some p.
Proof. intros [k sh t ps]. destruct k; eexists; vm_compute; reflexivity. Qed.
Print Assumptions C06_every_tensor_argument_gets_a_placeholder.

Theorem C06_placeholder_fields_follow_the_argument : forall sh t ps,
  to_ph (Build_arg KNative sh t ps) = Some {| p_conv := false; p_origin := None; p_shape := Some sh; p_concrete := [] |} /\
  to_ph (Build_arg KNdarray sh t ps) = Some {| p_conv := true; p_origin := None; p_shape := Some sh; p_concrete := [("type"%string, CType t)] |} /\
  to_ph (Build_arg KScalar sh t ps) = Some {| p_conv := true; p_origin := None; p_shape := Some []; p_concrete := [("type"%string, CType t)] |} /\
  to_ph (Build_arg KCallable sh t ps) = Some {| p_conv := true; p_origin := None; p_shape := None;
                                                p_concrete := [("type"%string, CType t); ("parameters"%string, CParams ps)] |}.
Proof. intros sh t ps. repeat split; vm_compute; reflexivity. Qed.
Print Assumptions C06_placeholder_fields_follow_the_argument.
