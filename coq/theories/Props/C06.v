(* C06 - a call's outcome does not depend on earlier calls (cache transparency).
   The compiled function is looked up under a key built from the frozen arguments; a hit returns
   what an earlier call with an *equal* key compiled.  Transparency therefore needs: equal keys
   imply that tracing sees the same thing.  With numbers compared together with their type (as
   the source does now - Gen/GenFreeze.v) key equality is identity of the frozen value; without
   it, 2 and 2.0 collide (the defect of the pinned tree). *)
From Coq Require Import String List ZArith Bool Arith.
From EinxV Require Import Model.PyVal Gen.GenFreeze Proofs.PyValProofs.
Import ListNotations.

(* equal keys are identical frozen values: a cache hit was compiled for exactly these arguments *)
Theorem C06_typed_keys_separate : forall a b, key_eq true a b = true -> a = b.
Proof. exact typed_keys_separate. Qed.
Print Assumptions C06_typed_keys_separate.

(* hence any outcome that is a function of the frozen arguments is the same for a hit and a miss *)
Corollary C06_cache_hit_is_transparent : forall (O : Type) (trace : fv -> O) a b,
  key_eq true a b = true -> trace a = trace b.
Proof. intros O trace a b H. now rewrite (C06_typed_keys_separate a b H). Qed.

(* the cache as a state machine (lookup by key equality, insert on a miss): for EVERY history of calls, starting from
   the empty cache, each call returns exactly what tracing its own arguments afresh returns - earlier calls do not matter *)
Theorem C06_every_history_is_transparent : forall (O : Type) (trace : fv -> O) (history : list fv),
  run O trace true [] history = map trace history.
Proof. intros O trace h. apply cache_transparent_for_every_history. intros k o []. Qed.
Print Assumptions C06_every_history_is_transparent.

(* ... while with the untyped comparison of the pinned tree a history exists in which the second call gets the first one's result *)
Theorem C06_untyped_history_refuted : exists (history : list fv),
  run fv (fun a => a) false [] history <> map (fun a => a) history.
Proof.
  exists [FDict [("c"%string, FNum {| nt := TInt; integral := true; code := 2 |})];
          FDict [("c"%string, FNum {| nt := TFloat; integral := true; code := 2 |})]].
  vm_compute. discriminate.
Qed.

(* the source compares numbers together with their type *)
Theorem C06_source_uses_typed_keys : gen_freeze_numbers_typed = true.
Proof. reflexivity. Qed.

(* the untyped comparison of the pinned tree does not separate: c=2 and c=2.0 share a key *)
Theorem C06_untyped_keys_refuted : exists a b, key_eq false a b = true /\ a <> b.
Proof.
  exists (FDict [("c"%string, FNum {| nt := TInt; integral := true; code := 2 |})]),
         (FDict [("c"%string, FNum {| nt := TFloat; integral := true; code := 2 |})]).
  split; [reflexivity|discriminate].
Qed.
