(* C17 - generated code is loop-free and size-generic.
   The text einx returns is accepted by the decoder of the straight-line language of Model/Ir.v
   (the correspondence check fails closed otherwise); for that language the number of backend
   calls / updates / assertions of any execution is bounded by the number of call sites written
   in the text - independent of every tensor size and value. *)
From Coq Require Import String List ZArith Arith.
From EinxV Require Import Model.Ir Proofs.StraightLine.
Import ListNotations.

Theorem C17_calls_fixed_by_the_text : forall fuel pre c es r,
  sexec fuel pre c = Some (es, r) -> List.length es <= body_sites pre + body_sites (c_body c) + sites (c_ret c).
Proof. exact events_bounded_by_text. Qed.
Print Assumptions C17_calls_fixed_by_the_text.

(* the statement type has no loop, conditional or comprehension constructor: every statement is
   one of assignment / expression / item update / assert / import *)
Theorem C17_no_loops_by_construction : forall c : stmt,
  (exists x e, c = StAssign x e) \/ (exists e, c = StExpr e) \/ (exists o k op v, c = StAug o k op v)
  \/ (exists e m, c = StAssert e m) \/ (exists i f a, c = StImport i f a).
Proof. intros [x e|e|o k op v|e m|i f a]; eauto 10. Qed.
Print Assumptions C17_no_loops_by_construction.

From EinxV Require Import Spec.LoopSem Model.Opt Model.Lower.
(* size-genericity of the modelled lowering (Model/Lower.v, rearrangements with nested flattened axes): the sequence of
   operations and the transposition do not depend on any axis length - two calls whose expressions name the same axes in the
   same nesting get the same reshape / transpose / reshape skeleton, only the shape literals differ *)
Definition skeleton (t : tm) : list (option (list nat)) :=
  (fix go (t : tm) : list (option (list nat)) :=
     match t with
     | MIn _ _ => []
     | MReshape x _ => go x ++ [None]
     | MTranspose x p => go x ++ [Some p]
     | MBroadcast x _ => go x ++ [None]
     | _ => []
     end) t.
Theorem C17_rearrangement_skeleton_is_size_generic : forall k din dout din' dout',
  lnames din = lnames din' -> lnames dout = lnames dout' ->
  skeleton (lower_rearrange k din dout) = skeleton (lower_rearrange k din' dout').
Proof. intros k din dout din' dout' H1 H2. unfold lower_rearrange, perm_of. cbn. now rewrite H1, H2. Qed.
Print Assumptions C17_rearrangement_skeleton_is_size_generic.

(* the same for the whole operation tree of the three modelled lowerings, with the backend function and its literal
   arguments (axis=) kept and only the shape literals erased (Proofs/SkeletonProofs.v): rearrangements, element-wise calls
   of any number of inputs, reductions - equal axis names (and brackets) give the same operations whatever the lengths *)
From EinxV Require Import Proofs.SkeletonProofs.
Theorem C17_elementwise_skeleton_is_size_generic : forall f ins ins' dout dout',
  Forall2 (fun d d' => lnames d = lnames d') ins ins' -> lnames dout = lnames dout' ->
  skel (lower_elementwise f ins dout) = skel (lower_elementwise f ins' dout').
Proof. exact skel_elementwise. Qed.
Print Assumptions C17_elementwise_skeleton_is_size_generic.

Theorem C17_new_axes_skeleton_is_size_generic : forall k din dout din' dout',
  lnames din = lnames din' -> lnames dout = lnames dout' ->
  skel (lower_broadcast k din dout) = skel (lower_broadcast k din' dout').
Proof. exact skel_broadcast. Qed.
Print Assumptions C17_new_axes_skeleton_is_size_generic.

Theorem C17_reduction_skeleton_is_size_generic : forall f din dout din' dout',
  lnames din = lnames din' -> lmarks din = lmarks din' -> lnames dout = lnames dout' ->
  skel (lower_reduce f din dout) = skel (lower_reduce f din' dout').
Proof. exact skel_reduce. Qed.
Print Assumptions C17_reduction_skeleton_is_size_generic.

Example C17_skeleton_example :
  (* "a ([b] c) -> c a" with lengths 2,3,4 and with lengths 5,1,7: the same operations, axis=1 and transposition (1 0) *)
  let d1 := [PAx 1 2 false; PFl [PAx 2 3 true; PAx 3 4 false]] in
  let d2 := [PAx 1 5 false; PFl [PAx 2 1 true; PAx 3 7 false]] in
  skel (lower_reduce "sum"%string d1 [PAx 3 4 false; PAx 1 2 false]) = skel (lower_reduce "sum"%string d2 [PAx 3 7 false; PAx 1 5 false]) /\
  skel (lower_reduce "sum"%string d1 [PAx 3 4 false; PAx 1 2 false]) =
    SkReshape (SkTranspose (SkReshape (SkOther "sum"%string [SkReshape (SkIn 0)] ["1"%string; "kw:axis"%string])) [1; 0]%nat).
Proof. vm_compute. split; reflexivity. Qed.

Theorem C17_dot_skeleton_is_size_generic : forall d1 d2 dout d1' d2' dout',
  lnames d1 = lnames d1' -> lnames d2 = lnames d2' -> lnames dout = lnames dout' ->
  skel (lower_dot d1 d2 dout) = skel (lower_dot d1' d2' dout').
Proof. exact skel_dot. Qed.
Print Assumptions C17_dot_skeleton_is_size_generic.

(* n-ary element-wise operations (add, multiply, maximum, ... with three or more operands, and the coordinate sums of the
   indexing operations) are unfolded into binary backend calls by a kernel regenerated from
   adapter/_util.py:_associative_binary_to_nary (Gen/GenNary.v): the operands as written, left to right - a function of the
   operand LIST alone, polymorphic in what the operands are, so no length can enter the order or the number of calls. *)
From EinxV Require Import Gen.GenNary.
Theorem C17_nary_operations_follow_the_written_order : forall (A : Type) (op : A -> A -> A) x ys,
  gen_nary op (x :: ys) = Some (fold_left op ys x).
Proof. reflexivity. Qed.
Print Assumptions C17_nary_operations_follow_the_written_order.

Theorem C17_nary_operations_commute_with_any_relabelling : forall (A B : Type) (opA : A -> A -> A) (opB : B -> B -> B) (h : A -> B),
  (forall a b, h (opA a b) = opB (h a) (h b)) ->
  forall args, option_map h (gen_nary opA args) = gen_nary opB (map h args).
Proof.
  intros A B opA opB h Hh [|x ys]; [reflexivity|]. cbn [gen_nary map option_map]. f_equal.
  revert x. induction ys as [|y r IH]; intros x; cbn [fold_left map]; [reflexivity|]. now rewrite IH, Hh.
Qed.
Print Assumptions C17_nary_operations_commute_with_any_relabelling.
