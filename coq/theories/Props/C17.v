(* C17 - generated code is loop-free and size-generic.
   The text einx returns is accepted by the decoder of the straight-line language of Model/Ir.v
   (the correspondence check fails closed otherwise); for that language the number of backend
   calls / updates / assertions of any execution is bounded by the number of call sites written
   in the text - independent of every tensor size and value. *)
From Coq Require Import String List ZArith Arith.
From EinxV Require Import Model.Ir Proofs.StraightLine.
Import ListNotations.

Theorem C17_calls_fixed_by_the_text : forall fuel pre c es r,
  sexec fuel pre c = Some (es, r) -> List.length es <= body_sites pre + body_sites (c_body c) + sites (c_ret c).
Proof. exact events_bounded_by_text. Qed.
Print Assumptions C17_calls_fixed_by_the_text.

(* the statement type has no loop, conditional or comprehension constructor: every statement is
   one of assignment / expression / item update / assert / import *)
Theorem C17_no_loops_by_construction : forall c : stmt,
  (exists x e, c = StAssign x e) \/ (exists e, c = StExpr e) \/ (exists o k op v, c = StAug o k op v)
  \/ (exists e m, c = StAssert e m) \/ (exists i f a, c = StImport i f a).
Proof. intros [x e|e|o k op v|e m|i f a]; eauto 10. Qed.
Print Assumptions C17_no_loops_by_construction.
