(* C08 - results depend on axis names / positions only as the notation says (equivariance). *)
From Coq Require Import List NArith Bool.
From EinxV Require Import Spec.LoopSem Proofs.LoopSemProofs.
Import ListNotations.
Open Scope N_scope.

(* grouping or ungrouping axes with parentheses leaves every element where it is *)
Theorem C08_regroup_invariant : forall rho d1 d2,
  forallb offset_free d1 = true -> forallb offset_free d2 = true ->
  flat_map pleaves d1 = flat_map pleaves d2 ->
  pos rho d1 = pos rho d2.
Proof. exact regroup_invariant. Qed.
Print Assumptions C08_regroup_invariant.

(* consistently renaming axes leaves every element where it is *)
Theorem C08_rename_invariant : forall f rho dims,
  (forall a b, f a = f b -> a = b) -> pos (erename f rho) (map (prename f) dims) = pos rho dims.
Proof. exact pos_rename. Qed.
Print Assumptions C08_rename_invariant.
