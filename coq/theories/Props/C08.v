(* C08 - results depend on axis names / positions only as the notation says (equivariance). *)
From Coq Require Import List NArith Bool.
From EinxV Require Import Spec.LoopSem Proofs.LoopSemProofs.
Import ListNotations.
Open Scope N_scope.

(* grouping or ungrouping axes with parentheses leaves every element where it is *)
Theorem C08_regroup_invariant : forall rho d1 d2,
  forallb offset_free d1 = true -> forallb offset_free d2 = true ->
  flat_map pleaves d1 = flat_map pleaves d2 ->
  pos rho d1 = pos rho d2.
Proof. exact regroup_invariant. Qed.
Print Assumptions C08_regroup_invariant.

(* consistently renaming axes leaves every element where it is *)
Theorem C08_rename_invariant : forall f rho dims,
  (forall a b, f a = f b -> a = b) -> pos (erename f rho) (map (prename f) dims) = pos rho dims.
Proof. exact pos_rename. Qed.
Print Assumptions C08_rename_invariant.

(* For every pure rearrangement (of the modelled shape: one tensor, nested flattened axes), swapping the input and output
   expressions inverts it, and two rearrangements in sequence equal the single rearrangement from the first input to the last
   output expression - on the lowering model of Model/Lower.v, for every element and every in-bounds loop environment.
   [moved d d' idx] is where the model of "d -> d'" puts the element that the input holds at multi-index [idx]. *)
From EinxV Require Import Model.Opt Model.Lower Proofs.LowerProofs.
Theorem C08_swapping_input_and_output_inverts : forall d1 d2 rho,
  rearrange_ok d1 d2 = true -> rearrange_ok d2 d1 = true -> in_bounds rho d1 -> in_bounds rho d2 ->
  moved d2 d1 (moved d1 d2 (map (pidx rho) d1)) = map (pidx rho) d1.
Proof. exact rearrange_inverse. Qed.
Print Assumptions C08_swapping_input_and_output_inverts.

Theorem C08_two_rearrangements_compose : forall d1 d2 d3 rho,
  rearrange_ok d1 d2 = true -> rearrange_ok d2 d3 = true -> rearrange_ok d1 d3 = true ->
  in_bounds rho d1 -> in_bounds rho d2 -> in_bounds rho d3 ->
  moved d2 d3 (moved d1 d2 (map (pidx rho) d1)) = moved d1 d3 (map (pidx rho) d1).
Proof. exact rearrange_compose. Qed.
Print Assumptions C08_two_rearrangements_compose.

Example C08_inverse_example :
  let d1 := [PAx 1 2 false; PFl [PAx 2 3 false; PAx 3 4 false]] in
  let d2 := [PFl [PAx 3 4 false; PAx 1 2 false]; PAx 2 3 false] in
  rearrange_ok d1 d2 = true /\ rearrange_ok d2 d1 = true /\ moved d2 d1 (moved d1 d2 [1; 7]) = [1; 7].
Proof. vm_compute. repeat split; reflexivity. Qed.
