(* C12, thorough tier: the bounded re-printing theorem of Props/C12.v for sequences of at most 6 tokens (8 108 731 sequences);
   about three minutes of evaluation inside Coq. *)
From Coq Require Import List NArith.
From EinxV Require Import Model.Parse Proofs.ReprintBounded.
Import ListNotations.

Theorem C12_reprint_is_stable_up_to_6_tokens :
  forall toks : list (list N), (List.length toks <= 6)%nat -> Forall (fun t => In t alphabet) toks ->
  reprint_ok (concat toks) = true.
Proof. apply reprint_bounded. vm_compute. reflexivity. Qed.
Print Assumptions C12_reprint_is_stable_up_to_6_tokens.
