(* C09 - arguments are never modified (except the documented in-place *_at target).
   Static part: over the tables regenerated from signature/classical/numpy.py,
   adapter/numpy/classical_from_numpy.py and adapter/ops.py (finite, so [vm_compute] over
   [forallb] is a proof): (1) every numpy primitive known to write into an argument is wrapped
   by the tracer as an in-place call, (2) the classical operations built on an in-place
   primitive are exactly the update_at family, (3) and nothing outside that family uses one.
   The dynamic part (byte/flag snapshots, read-only arrays) is the correspondence check. *)
From Coq Require Import List String Bool.
From EinxV Require Import Gen.GenInplace.
Import ListNotations.
Open Scope string_scope.

(* numpy functions that write into one of their arguments (numpy reference, "in-place") *)
Definition mutating_numpy : list string :=
  ["put"; "add.at"; "subtract.at"; "multiply.at"; "maximum.at"; "minimum.at"; "place"; "putmask"; "copyto";
   "put_along_axis"; "fill_diagonal"; "ndarray.sort"; "ndarray.fill"; "ndarray.put"; "ndarray.resize";
   "ndarray.partition"; "ndarray.itemset"; "ndarray.__setitem__"; "random.shuffle"].

Definition mem (s : string) (l : list string) : bool := existsb (String.eqb s) l.

Definition wrapper_of (prim : string) : list string :=
  map (fun x => snd (fst x)) (filter (fun x => String.eqb (snd x) prim) gen_numpy_signature).

Definition is_inplace_prim (prim : string) : bool := mem "inplace" (wrapper_of prim).

(* (1) *)
Definition check_mutating_wrapped : bool :=
  forallb (fun x => let '(_, w, prim) := x in negb (mem prim mutating_numpy) || String.eqb w "inplace") gen_numpy_signature.
(* (1') and only those are declared in-place *)
Definition check_inplace_are_mutating : bool :=
  forallb (fun x => let '(_, w, prim) := x in negb (String.eqb w "inplace") || mem prim mutating_numpy) gen_numpy_signature.
(* (2)+(3) *)
Definition check_only_update_at : bool :=
  forallb (fun x => let '(op, prims) := x in
             Bool.eqb (existsb (fun p => mem p mutating_numpy || is_inplace_prim p) prims) (mem op gen_ops_update_at))
          gen_classical_ops.

Theorem C09_mutating_primitives_are_wrapped_inplace :
  forall a w prim, In (a, w, prim) gen_numpy_signature -> mem prim mutating_numpy = true -> w = "inplace".
Proof.
  assert (H : check_mutating_wrapped = true) by (vm_compute; reflexivity).
  unfold check_mutating_wrapped in H. rewrite forallb_forall in H.
  intros a w prim Hin Hm. specialize (H _ Hin). cbn beta iota in H. rewrite Hm in H. cbn [negb orb] in H.
  now apply String.eqb_eq.
Qed.
Print Assumptions C09_mutating_primitives_are_wrapped_inplace.

Theorem C09_inplace_primitives_only_in_update_at :
  forall op prims, In (op, prims) gen_classical_ops ->
  (existsb (fun p => mem p mutating_numpy || is_inplace_prim p) prims = true <-> mem op gen_ops_update_at = true).
Proof.
  assert (H : check_only_update_at = true) by (vm_compute; reflexivity).
  unfold check_only_update_at in H. rewrite forallb_forall in H.
  intros op prims Hin. specialize (H _ Hin). cbn beta iota in H. apply Bool.eqb_prop in H. rewrite H. tauto.
Qed.
Print Assumptions C09_inplace_primitives_only_in_update_at.

Theorem C09_declared_inplace_are_exactly_the_mutating_ones : check_inplace_are_mutating = true.
Proof. vm_compute. reflexivity. Qed.

(* non-vacuity: the table does contain the three in-place entries *)
Example C09_table_has_put : In ("set_at", ["put"]) gen_classical_ops.
Proof. vm_compute. tauto. Qed.
