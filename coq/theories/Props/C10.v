From Coq Require Import List.
Theorem C10_placeholder : True. Proof. exact I. Qed.
