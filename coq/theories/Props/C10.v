(* C10 - concurrent use from several threads behaves like some serial order.
   Model/Conc.v: threads execute registry methods as read / compute-on-a-copy / write with an
   optional lock; Model/Registry.v is the sequential meaning of every method.  The lock flags of
   the real methods are regenerated from frontend/backend.py (Gen/GenRegistry.v). *)
From Coq Require Import String List ZArith Bool Arith.
From EinxV Require Import Model.Registry Model.Conc Proofs.ConcProofs Gen.GenRegistry.
Import ListNotations.

(* every BackendRegistry method that assigns self.state does so while holding use_lock *)
Theorem C10_all_state_replacing_methods_hold_the_lock :
  forallb (fun m => snd m) gen_registry_methods = true.
Proof. vm_compute. reflexivity. Qed.

(* For any number of threads, any programs and any schedule (pre-emption between any two
   micro-steps): if every method holds the lock, the completion order is a serial execution of
   the same operations - respecting every thread's program order - with the same final registry
   state and the same result for every call. *)
Theorem C10_locked_schedules_are_serialisable :
  forall (locked : rop -> bool), (forall o, locked o = true) ->
  forall s0 progs sched,
    let g := run_sched locked (ginit s0 progs) sched in
    finished g ->
    shared g = fst (serial s0 (log g))
    /\ forall i t p0, nth_error (threads g) i = Some t -> nth_error progs i = Some p0 ->
         ops_of i (log g) = p0 /\ outs t = results_of i (snd (serial s0 (log g))).
Proof. exact locked_serialisable. Qed.
Print Assumptions C10_locked_schedules_are_serialisable.

(* Without the lock on get() (the pinned tree before the fix) a schedule exists whose outcome no
   serial order produces: T0 = [enter b; exit b], T1 = [lookup]; T1 reads the state before
   T0's push and writes it back afterwards, so the push is lost and exit fails. *)
Definition bA : backend := {| bid := 1; bname := 5; bprio := 0%Z; bfw := 1; bvalid := true |}.
Definition unlocked_get (o : rop) : bool := match o with RLookup _ _ => false | _ => true end.
Definition progsF8 : list (list rop) := [[REnter bA; RExit (Some bA)]; [RLookup (BObj bA) []]].
Definition schedF8 : list nat := [1; 0; 0; 1; 0; 0].

Theorem C10_unlocked_get_refuted :
  let g := run_sched unlocked_get (ginit ([1], rinit) progsF8) schedF8 in
  finished g /\
  (exists t, nth_error (threads g) 0 = Some t /\ outs t = [ResNone; ResAssert]) /\
  (* whereas in every serial order both operations of T0 succeed *)
  forall l, In l [[(0, REnter bA); (0, RExit (Some bA)); (1, RLookup (BObj bA) [])];
                  [(0, REnter bA); (1, RLookup (BObj bA) []); (0, RExit (Some bA))];
                  [(1, RLookup (BObj bA) []); (0, REnter bA); (0, RExit (Some bA))]] ->
            results_of 0 (snd (serial ([1], rinit) l)) = [ResNone; ResNone].
Proof.
  split; [|split].
  - intros i t H. destruct i as [|[|i]]; vm_compute in H.
    + injection H as H. subst t. split; reflexivity.
    + injection H as H. subst t. split; reflexivity.
    + destruct i; discriminate.
  - eexists. split; vm_compute; reflexivity.
  - intros l [<-|[<-|[<-|[]]]]; vm_compute; reflexivity.
Qed.
Print Assumptions C10_unlocked_get_refuted.

(* The memo of compiled functions under threads (Model/Memo.v).  The source keeps one table - functools' cache - between
   the argument freezing and the traced function, and nothing else remembers calls (Gen/GenFreeze.v:
   gen_memo_is_functools_only, regenerated from util/lru_cache.py:lru_cache on every run).  For a memo that publishes a key
   and its result together: whatever the number of threads, their calls and the interleaving of lookups, computations and
   publications, every call is handed the result of ITS OWN key, and the table only ever holds such pairs.  A memo that
   remembers the last call in two cells written one after the other does not have this property: the schedule below
   leaves the key of one call next to the result of another, and a later call gets it. *)
From EinxV Require Import Gen.GenFreeze Model.Memo Proofs.MemoProofs.
Theorem C10_the_memo_is_functools_only : gen_memo_is_functools_only = true.
Proof. reflexivity. Qed.
Print Assumptions C10_the_memo_is_functools_only.

Theorem C10_atomic_memo_is_transparent_under_every_interleaving :
  forall (f : nat -> nat) (progs : list (list nat)) (sched : list nat),
  good f (run f ([], map (fun p => {| todo := p; pending := None; got := [] |}) progs) sched).
Proof.
  intros f progs sched. apply atomic_memo_is_transparent. split; [intros k v []|].
  apply Forall_forall. intros t Ht. apply in_map_iff in Ht as [p [<- _]]. intros k v [].
Qed.
Print Assumptions C10_atomic_memo_is_transparent_under_every_interleaving.

Theorem C10_two_step_memo_refuted :
  let f := fun k => (10 * k)%nat in
  let ts := [{| todo2 := [1%nat]; stage := None; got2 := [] |}; {| todo2 := [2%nat]; stage := None; got2 := [] |};
             {| todo2 := [2%nat]; stage := None; got2 := [] |}] in
  (* thread 0 looks 1 up and writes the key; thread 1 does its whole call for 2; thread 0 writes its result; thread 2 asks for 2 *)
  exists t, nth_error (snd (run2 f ((None, 0%nat), ts) [0; 0; 1; 1; 1; 0; 2]%nat)) 2 = Some t /\ got2 t = [(2, 10)]%nat.
Proof. eexists. split; vm_compute; reflexivity. Qed.
Print Assumptions C10_two_step_memo_refuted.
