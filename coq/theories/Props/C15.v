(* C15 - adapted user functions follow loop-notation semantics; their outputs are checked.
   Static part: the tuple handed to a numpy-like reduce function as axis= (kernel regenerated
   from decomposednamedtensor_from_classical._expr_to_axis, Gen/GenAdapter.v) is exactly the
   ascending list of positions of the bracketed dimensions.  The meaning of the adapted call is
   the reduce / elementwise index plan of Spec/LoopSem.v with the user function as elementary
   operation; the correspondence check evaluates that plan and compares. *)
From Coq Require Import List Bool Arith Lia Sorted.
From EinxV Require Import Gen.GenAdapter Proofs.AdapterProofs.
Import ListNotations.

(* axis= lists exactly the positions of the bracketed dimensions ... *)
Theorem C15_axis_argument_is_the_bracket_positions : forall marks k,
  In k (gen_expr_to_axis marks) <-> nth k marks false = true.
Proof. exact axis_is_bracket_positions. Qed.
Print Assumptions C15_axis_argument_is_the_bracket_positions.

(* ... in ascending order, each once *)
Theorem C15_axis_argument_is_strictly_ascending : forall marks,
  StronglySorted lt (gen_expr_to_axis marks).
Proof. exact axis_strictly_ascending. Qed.
Print Assumptions C15_axis_argument_is_strictly_ascending.

(* non-vacuity: brackets at positions 1 and 3 of five dimensions *)
Example C15_example : gen_expr_to_axis [false; true; false; true; false] = [1; 3].
Proof. reflexivity. Qed.

(* "keyword-only parameters of the function are forwarded verbatim and can never be captured as axis sizes".  The rule by
   which a keyword of the call is attributed to the adapted function (kernel regenerated from
   frontend/impl/_util.py:_make_iskwarg, Gen/GenKwarg.v - the if-chain over the parameters of inspect.signature): every
   keyword-only parameter is a keyword of the function, with or without a default value; a **kwargs parameter is refused;
   positional parameters are never keywords of the function.  The correspondence check calls adapted functions with
   keyword-only parameters of both kinds and compares what they receive. *)
From EinxV Require Import Gen.GenKwarg.
Theorem C15_every_keyword_only_parameter_is_the_functions : forall has_default,
  gen_kwarg_rule KEYWORD_ONLY has_default = KwFunction.
Proof. intros []; reflexivity. Qed.
Print Assumptions C15_every_keyword_only_parameter_is_the_functions.

Theorem C15_other_parameters_are_never_captured : forall k has_default,
  k <> KEYWORD_ONLY -> gen_kwarg_rule k has_default <> KwFunction.
Proof. intros [] [] H; try discriminate; exfalso; apply H; reflexivity. Qed.
Print Assumptions C15_other_parameters_are_never_captured.

Theorem C15_var_keyword_functions_are_refused : forall has_default, gen_kwarg_rule VAR_KEYWORD has_default = KwRejected.
Proof. intros []; reflexivity. Qed.
Print Assumptions C15_var_keyword_functions_are_refused.
