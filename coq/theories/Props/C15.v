(* C15 - adapted user functions follow loop-notation semantics; their outputs are checked.
   Static part: the tuple handed to a numpy-like reduce function as axis= (kernel regenerated
   from decomposednamedtensor_from_classical._expr_to_axis, Gen/GenAdapter.v) is exactly the
   ascending list of positions of the bracketed dimensions.  The meaning of the adapted call is
   the reduce / elementwise index plan of Spec/LoopSem.v with the user function as elementary
   operation; the correspondence check evaluates that plan and compares. *)
From Coq Require Import List Bool Arith Lia Sorted.
From EinxV Require Import Gen.GenAdapter Proofs.AdapterProofs.
Import ListNotations.

(* axis= lists exactly the positions of the bracketed dimensions ... *)
Theorem C15_axis_argument_is_the_bracket_positions : forall marks k,
  In k (gen_expr_to_axis marks) <-> nth k marks false = true.
Proof. exact axis_is_bracket_positions. Qed.
Print Assumptions C15_axis_argument_is_the_bracket_positions.

(* ... in ascending order, each once *)
Theorem C15_axis_argument_is_strictly_ascending : forall marks,
  StronglySorted lt (gen_expr_to_axis marks).
Proof. exact axis_strictly_ascending. Qed.
Print Assumptions C15_axis_argument_is_strictly_ascending.

(* non-vacuity: brackets at positions 1 and 3 of five dimensions *)
Example C15_example : gen_expr_to_axis [false; true; false; true; false] = [1; 3].
Proof. reflexivity. Qed.
