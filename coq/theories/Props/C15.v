(* C15 - adapted user functions follow loop-notation semantics; their outputs are checked.
   Static part: the tuple handed to a numpy-like reduce function as axis= (kernel regenerated
   from decomposednamedtensor_from_classical._expr_to_axis, Gen/GenAdapter.v) is exactly the
   ascending list of positions of the bracketed dimensions.  The meaning of the adapted call is
   the reduce / elementwise index plan of Spec/LoopSem.v with the user function as elementary
   operation; the correspondence check evaluates that plan and compares. *)
From Coq Require Import List Bool Arith Lia Sorted.
From EinxV Require Import Gen.GenAdapter.
Import ListNotations.

Lemma from_spec idx marks k :
  In k (gen_expr_to_axis_from idx marks) <-> (idx <= k /\ nth (k - idx) marks false = true).
Proof.
  revert idx k. induction marks as [|m r IH]; intros idx k; cbn [gen_expr_to_axis_from].
  - split; [intros []|intros [_ H]]. destruct (k - idx); discriminate.
  - destruct m.
    + cbn [In]. rewrite IH. split.
      * intros [<-|[Hle Hn]]; [split; [lia|now rewrite Nat.sub_diag]|].
        split; [lia|]. replace (k - idx) with (S (k - S idx)) by lia. exact Hn.
      * intros [Hle Hn]. destruct (Nat.eq_dec idx k) as [E|E]; [now left|right]. split; [lia|].
        replace (k - idx) with (S (k - S idx)) in Hn by lia. exact Hn.
    + rewrite IH. split.
      * intros [Hle Hn]. split; [lia|]. replace (k - idx) with (S (k - S idx)) by lia. exact Hn.
      * intros [Hle Hn]. destruct (Nat.eq_dec idx k) as [E|E].
        -- subst. rewrite Nat.sub_diag in Hn. discriminate.
        -- split; [lia|]. replace (k - idx) with (S (k - S idx)) in Hn by lia. exact Hn.
Qed.

(* axis= lists exactly the positions of the bracketed dimensions ... *)
Theorem C15_axis_argument_is_the_bracket_positions : forall marks k,
  In k (gen_expr_to_axis marks) <-> nth k marks false = true.
Proof.
  intros marks k. unfold gen_expr_to_axis. rewrite from_spec, Nat.sub_0_r. split; [tauto|]. intros H. split; [lia|exact H].
Qed.
Print Assumptions C15_axis_argument_is_the_bracket_positions.

(* ... in ascending order, each once *)
Lemma from_sorted idx marks : forall k, In k (gen_expr_to_axis_from idx marks) -> idx <= k.
Proof. intros k H. apply from_spec in H. tauto. Qed.
Theorem C15_axis_argument_is_strictly_ascending : forall marks,
  StronglySorted lt (gen_expr_to_axis marks).
Proof.
  intros marks. unfold gen_expr_to_axis. generalize 0. induction marks as [|m r IH]; intros idx; cbn [gen_expr_to_axis_from]; [constructor|].
  destruct m; [|apply IH]. constructor; [apply IH|]. apply Forall_forall. intros k Hk. apply from_sorted in Hk. lia.
Qed.
