From Coq Require Import List.
Theorem C15_placeholder : True. Proof. exact I. Qed.
