(* C16 - reproducibility.  The part a theorem can carry: the order in which the loop iterations of
   add_at / subtract_at are applied (the only order einx leaves to a hash-ordered set) cannot
   change the result. *)
From Coq Require Import List NArith ZArith Permutation.
From EinxV Require Import Spec.LoopSem Spec.UpdateSem Proofs.UpdateProofs.
Import ListNotations.

Theorem C16_accumulation_order_invariant : forall sgn t u plan plan',
  Permutation plan plan' -> apply_acc sgn t plan u = apply_acc sgn t plan' u.
Proof. exact apply_acc_perm. Qed.
Print Assumptions C16_accumulation_order_invariant.

(* for set_at the statement is false when coordinates collide: the winner depends on the order *)
Theorem C16_set_order_dependent_refuted :
  exists t u plan plan', Permutation plan plan' /\ apply_set t plan u <> apply_set t plan' u.
Proof.
  exists [0%Z], [1%Z; 2%Z], [(0%N, 0%N); (0%N, 1%N)], [(0%N, 1%N); (0%N, 0%N)].
  split; [apply perm_swap|vm_compute; discriminate].
Qed.

(* The random identifiers einx draws for unnamed axes and ellipsis repetitions only name axes.  For the modelled lowerings
   (Model/Lower.v: rearrangements, element-wise calls, reductions, dot on the matmul path) any injective renaming of the
   axes - any other draw - yields the identical term: the same operations, permutations, axis= literal and shapes
   (Proofs/RenameProofs.v). *)
From Coq Require String.
From EinxV Require Import Spec.LoopSem Model.Opt Model.Lower Proofs.LoopSemProofs Proofs.RenameProofs.
Theorem C16_lowering_does_not_depend_on_the_drawn_identifiers :
  forall (f : N -> N), (forall a b, f a = f b -> a = b) ->
  (forall k din dout, lower_rearrange k (map (prename f) din) (map (prename f) dout) = lower_rearrange k din dout) /\
  (forall fn ins dout, lower_elementwise fn (map (map (prename f)) ins) (map (prename f) dout) = lower_elementwise fn ins dout) /\
  (forall fn din dout, lower_reduce fn (map (prename f) din) (map (prename f) dout) = lower_reduce fn din dout) /\
  (forall d1 d2 dout, lower_dot (map (prename f) d1) (map (prename f) d2) (map (prename f) dout) = lower_dot d1 d2 dout).
Proof.
  intros f Hinj. repeat split.
  - exact (lower_rearrange_rename f Hinj).
  - exact (lower_elementwise_rename f Hinj).
  - exact (lower_reduce_rename f Hinj).
  - exact (lower_dot_rename f Hinj).
Qed.
Print Assumptions C16_lowering_does_not_depend_on_the_drawn_identifiers.

(* the same for rearrangements with new output axes (alignment + broadcast_to + reshape) *)
Theorem C16_new_axes_lowering_does_not_depend_on_the_drawn_identifiers :
  forall (f : N -> N), (forall a b, f a = f b -> a = b) ->
  forall k din dout, lower_broadcast k (map (prename f) din) (map (prename f) dout) = lower_broadcast k din dout.
Proof. intros f Hinj. exact (lower_broadcast_rename f Hinj). Qed.
Print Assumptions C16_new_axes_lowering_does_not_depend_on_the_drawn_identifiers.

Example C16_renaming_example :
  (* "a ([b] c) -> c a" with the names 1,2,3 and with the names 901,17,5 *)
  let f := fun n : N => match n with 1 => 901 | 2 => 17 | 3 => 5 | n => n + 1000 end%N in
  let din := [PAx 1 2 false; PFl [PAx 2 3 true; PAx 3 4 false]]%N in
  let dout := [PAx 3 4 false; PAx 1 2 false]%N in
  map (prename f) din = [PAx 901 2 false; PFl [PAx 17 3 true; PAx 5 4 false]]%N /\
  lower_reduce String.EmptyString (map (prename f) din) (map (prename f) dout) = lower_reduce String.EmptyString din dout.
Proof. vm_compute. split; reflexivity. Qed.
