(* C16 - reproducibility.  The part a theorem can carry: the order in which the loop iterations of
   add_at / subtract_at are applied (the only order einx leaves to a hash-ordered set) cannot
   change the result. *)
From Coq Require Import List NArith ZArith Permutation.
From EinxV Require Import Spec.LoopSem Spec.UpdateSem Proofs.UpdateProofs.
Import ListNotations.

Theorem C16_accumulation_order_invariant : forall sgn t u plan plan',
  Permutation plan plan' -> apply_acc sgn t plan u = apply_acc sgn t plan' u.
Proof. exact apply_acc_perm. Qed.
Print Assumptions C16_accumulation_order_invariant.

(* for set_at the statement is false when coordinates collide: the winner depends on the order *)
Theorem C16_set_order_dependent_refuted :
  exists t u plan plan', Permutation plan plan' /\ apply_set t plan u <> apply_set t plan' u.
Proof.
  exists [0%Z], [1%Z; 2%Z], [(0%N, 0%N); (0%N, 1%N)], [(0%N, 1%N); (0%N, 0%N)].
  split; [apply perm_swap|vm_compute; discriminate].
Qed.
