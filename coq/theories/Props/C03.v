(* C03 - ill-formed calls are rejected with documented errors, never with an internal exception.
   What is proved here is the part of the property that is a statement about a function of the
   description string alone: for EVERY string, the stage-1 parser (the first thing every entry
   point runs) ends either with a tree or with a SyntaxError whose markers lie in the string; the
   assert statements of parse.py / tree.py (model outcome [Internal site]) are unreachable.  On
   the pinned tree this theorem was false of the faithful model ('a | b' reached the assert at
   parse.py:219, see known_findings.json "fixed" F1) - it became provable with the fix.
   The remainder of C03 (rule layer, solver, argument binding, "before any backend computation")
   is decided by the oracle harness harness/c03.py over generated corruptions; see DESIGN.md for
   why that part is a sampled check and which statement it checks. *)
From Coq Require Import List NArith ZArith.
From EinxV Require Import Model.Parse Proofs.ParseProofs.
Import ListNotations.

Definition no_internal {A} (r : result A) : Prop := match r with Internal _ => False | _ => True end.

Theorem C03_parser_never_fails_internally :
  forall text : list N, no_internal (parse_op text) /\ no_internal (parse_args text) /\ no_internal (parse_arg text).
Proof.
  intros text. pose proof (parse_op_good text) as H1. pose proof (parse_args_good text) as H2. pose proof (parse_arg_good text) as H3.
  unfold no_internal, well_reported in *.
  destruct (parse_op text), (parse_args text), (parse_arg text); tauto.
Qed.
Print Assumptions C03_parser_never_fails_internally.

(* the string on which the pinned tree raised AssertionError is now a SyntaxError at the bar *)
Example C03_bar_is_a_syntax_error :
  match parse_op [97; 32; 124; 32; 98]%N with Err _ pos => pos = [2%Z] | _ => False end.
Proof. vm_compute. reflexivity. Qed.
