From Coq Require Import List.
Theorem C03_placeholder : True. Proof. exact I. Qed.
