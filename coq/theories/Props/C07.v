(* C07 - documented shorthand forms mean exactly their documented expansions.
   What the reference semantics carries by itself: a number is an axis with a name of its own
   (renaming any axis injectively never moves an element), and parentheses that merely regroup
   the same axes are irrelevant.  The remaining equalities (implicit outputs, automatic brackets,
   ellipses, keepdims, ...) are decided by the pairwise correspondence check. *)
From Coq Require Import List NArith Bool.
From EinxV Require Import Spec.LoopSem Proofs.LoopSemProofs.
Import ListNotations.
Open Scope N_scope.

Theorem C07_number_is_a_fresh_axis : forall f rho dims,
  (forall a b, f a = f b -> a = b) -> pos (erename f rho) (map (prename f) dims) = pos rho dims.
Proof. exact pos_rename. Qed.
Print Assumptions C07_number_is_a_fresh_axis.

Theorem C07_regrouping_with_parentheses_is_irrelevant : forall rho d1 d2,
  forallb offset_free d1 = true -> forallb offset_free d2 = true ->
  flat_map pleaves d1 = flat_map pleaves d2 -> pos rho d1 = pos rho d2.
Proof. exact regroup_invariant. Qed.

(* "additional spaces = single spaces": the parser model (Model/Parse.v, tied to stage1/parse.py by the differential
   correspondence of C12) gives the description with a doubled space the same tree up to source positions, or rejects both
   at the same place - for every description (Proofs/ParseSim.v). *)
From EinxV Require Import Model.Parse Proofs.ParseSim.
Theorem C07_additional_spaces_are_single_spaces : forall pre post : list N,
  match parse_op (pre ++ 32%N :: 32%N :: post), parse_op (pre ++ 32%N :: post) with
  | Ok t', Ok t => erase t' = erase t
  | Err site' _, Err site _ => site' = site
  | Internal site', Internal site => site' = site
  | _, _ => False
  end.
Proof. exact redundant_space_same_structure. Qed.
Print Assumptions C07_additional_spaces_are_single_spaces.

(* "un-bracketed reduction = brackets around the axes missing from the output".  Model/Lower.v [automark] puts the brackets;
   it changes no name, length or position, brackets exactly the axes the output does not list, and the axes that remain are
   those of the output in the input's order.  The correspondence check (harness/c01.py) compares the graph einx traces for
   reductions WRITTEN WITHOUT BRACKETS with [lower_reduce f (automark din dout) dout] - the term of the bracketed form, to
   which the C01 reduction theorems apply. *)
From EinxV Require Import Model.Opt Model.Lower Proofs.LowerProofs.
Theorem C07_unbracketed_reduction_brackets_the_missing_axes : forall din dout,
  lnames (automark din dout) = lnames din /\ llens (automark din dout) = llens din /\
  lmarks (automark din dout) = map (fun n => negb (memNb n (lnames dout))) (lnames din) /\
  lnames (kept (automark din dout)) = filter (fun n => memNb n (lnames dout)) (lnames din).
Proof. exact automark_spec. Qed.
Print Assumptions C07_unbracketed_reduction_brackets_the_missing_axes.

Theorem C07_brackets_move_nothing : forall rho din dout,
  map (pidx rho) (automark din dout) = map (pidx rho) din /\ map psize (automark din dout) = map psize din.
Proof. exact automark_same_positions. Qed.
Print Assumptions C07_brackets_move_nothing.

Example C07_automark_example :
  (* "a (b c) -> c a": b gets the brackets *)
  automark [PAx 1 2 false; PFl [PAx 2 3 false; PAx 3 4 false]] [PAx 3 4 false; PAx 1 2 false]
  = [PAx 1 2 false; PFl [PAx 2 3 true; PAx 3 4 false]].
Proof. vm_compute. reflexivity. Qed.
