(* C07 - documented shorthand forms mean exactly their documented expansions.
   What the reference semantics carries by itself: a number is an axis with a name of its own
   (renaming any axis injectively never moves an element), and parentheses that merely regroup
   the same axes are irrelevant.  The remaining equalities (implicit outputs, automatic brackets,
   ellipses, keepdims, ...) are decided by the pairwise correspondence check. *)
From Coq Require Import List NArith Bool.
From EinxV Require Import Spec.LoopSem Proofs.LoopSemProofs.
Import ListNotations.
Open Scope N_scope.

Theorem C07_number_is_a_fresh_axis : forall f rho dims,
  (forall a b, f a = f b -> a = b) -> pos (erename f rho) (map (prename f) dims) = pos rho dims.
Proof. exact pos_rename. Qed.
Print Assumptions C07_number_is_a_fresh_axis.

Theorem C07_regrouping_with_parentheses_is_irrelevant : forall rho d1 d2,
  forallb offset_free d1 = true -> forallb offset_free d2 = true ->
  flat_map pleaves d1 = flat_map pleaves d2 -> pos rho d1 = pos rho d2.
Proof. exact regroup_invariant. Qed.
