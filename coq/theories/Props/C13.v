From Coq Require Import List.
Theorem C13_placeholder : True. Proof. exact I. Qed.
