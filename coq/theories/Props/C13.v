(* C13 - tensor factories run once per call, with the resolved shape, only at run time.
   Static part over the kernel regenerated from namedtensor_calltensorfactory.py
   (Gen/GenFactory.v): which keywords can reach a factory.  Invocation count, the shape argument,
   "never at trace time", and the substitution property are decided by the history harness; the
   validator of C04 shows that the call node is executed exactly as often as it is written. *)
From Coq Require Import String List Bool.
From EinxV Require Import Gen.GenFactory.
Import ListNotations.
Open Scope string_scope.

(* keywords forwarded to a factory, given what it declares *)
Definition forwarded (has_var_kwargs : bool) (declared : string -> option pkind) (offered : list string) : list string :=
  filter (fun n => gen_use_parameter has_var_kwargs (declared n)) offered.

(* only name / arg_index / signature are ever offered, so nothing else can be forwarded *)
Theorem C13_only_documented_keywords : forall v d n, In n (forwarded v d gen_factory_offered) -> In n ["signature"; "arg_index"; "name"].
Proof. intros v d n H. apply filter_In in H as [H _]. exact H. Qed.

(* a factory without **kwargs receives a keyword only if it declares it as a (positional-or-)keyword parameter *)
Theorem C13_undeclared_keywords_are_not_forwarded : forall d offered n,
  In n (forwarded false d offered) ->
  exists k, d n = Some k /\ (k = POSITIONAL_OR_KEYWORD \/ k = KEYWORD_ONLY).
Proof.
  intros d offered n H. apply filter_In in H as [_ H]. unfold gen_use_parameter in H. cbn [orb] in H.
  destruct (d n) as [k|]; [|discriminate]. exists k. split; [reflexivity|]. destruct k; cbn in H; try discriminate; auto.
Qed.

(* a factory with **kwargs receives everything that is offered *)
Theorem C13_var_keyword_factories_receive_all : forall d offered, forwarded true d offered = offered.
Proof.
  intros d offered. unfold forwarded. induction offered as [|n l IH]; [reflexivity|]. cbn [filter]. unfold gen_use_parameter at 1. cbn [orb]. now rewrite IH.
Qed.
Print Assumptions C13_undeclared_keywords_are_not_forwarded.
