(* C05 - graph optimisation never changes what an operation computes, and terminates.
   Model: Model/Opt.v (term view of graphs; numpy row-major meaning of reshape / transpose on
   index-value entries; broadcast_to / concatenate / every other primitive are parameters, with
   the two facts assumed of numpy stated as hypotheses).  The rewrite rules use the side
   conditions and merged arguments regenerated from optimizer/classical.py (Gen/GenOpt.v). *)
From Coq Require Import String List NArith Arith Bool.
From EinxV Require Import Spec.LoopSem Gen.GenOpt Model.Opt Proofs.OptProofs.
Import ListNotations.
Open Scope N_scope.

Section C05.
  Variable V : Type.
  Variable inp : nat -> entries V.
  Variable F : string -> list (entries V) -> list string -> entries V.
  Variable BC : list N -> list N -> entries V -> entries V.
  Variable CC : nat -> list (list N * entries V) -> entries V.
  Hypothesis BC_same : forall s e, BC s s e = e.                   (* numpy.broadcast_to(x, x.shape) is x *)
  Hypothesis CC_single : forall ax s e, CC ax [(s, e)] = e.        (* numpy.concatenate([x]) is x *)

  (* every rewrite rule, applied anywhere and to a fixed point, preserves the computed entries
     (for all inputs, all ranks and sizes, all interpretations of the other primitives) *)
  Theorem C05_normalisation_preserves_meaning : forall t,
    wf_tm t = true -> sem_ok V inp F BC CC t ->
    meval V inp F BC CC (norm t) = meval V inp F BC CC t /\ mshape (norm t) = mshape t.
  Proof.
    intros t Hw Hs. destruct (norm_sound V inp F BC CC BC_same CC_single t Hw Hs) as [A [B _]]. auto.
  Qed.

  (* the checker applied to every captured (before, after) pair *)
  Theorem C05_equivalence_checker_sound : forall a b,
    equiv a b = true -> wf_tm a = true -> wf_tm b = true ->
    sem_ok V inp F BC CC a -> sem_ok V inp F BC CC b ->
    meval V inp F BC CC a = meval V inp F BC CC b.
  Proof. exact (equiv_sound V inp F BC CC BC_same CC_single). Qed.

  (* merging two transposes uses exactly the composition the source computes *)
  Theorem C05_merge_transpose : forall p1 p2 e,
    Forall (fun k => (k < length p1)%nat) p2 ->
    e_transpose V p2 (e_transpose V p1 e) = e_transpose V (gen_merge_perm p1 p2) e.
  Proof. exact (transpose_merge V). Qed.

  Theorem C05_merge_reshape : forall s0 s1 s2 e,
    valid_entries V s0 e -> nprod s0 = nprod s1 ->
    e_reshape V s1 s2 (e_reshape V s0 s1 e) = e_reshape V s0 s2 e.
  Proof. exact (reshape_merge V). Qed.
End C05.

(* termination: a pass that changes anything strictly shrinks the term *)
Theorem C05_every_change_shrinks : forall t, norm t = t \/ (tsize (norm t) < tsize t)%nat.
Proof. exact norm_fixed_or_smaller. Qed.

Print Assumptions C05_normalisation_preserves_meaning.
Print Assumptions C05_equivalence_checker_sound.
Print Assumptions C05_merge_transpose.
Print Assumptions C05_every_change_shrinks.

(* non-vacuity: a well-formed chain on which three rules fire *)
Example C05_example :
  let t := MTranspose (MTranspose (MReshape (MReshape (MIn 0 [2; 3]) [6]) [3; 2]) [1; 0]%nat) [1; 0]%nat in
  wf_tm t = true /\ norm t = MReshape (MIn 0 [2; 3]) [3; 2].
Proof. vm_compute. split; reflexivity. Qed.

(* No rewrite ever removes, duplicates or reorders a function application: backend calls and in-place updates (every node
   that is not a reshape / transpose / broadcast / concatenation) survive normalisation exactly once and in place, so two
   graphs the equivalence checker accepts apply the same functions, with the same literal arguments, in the same order. *)
From EinxV Require Import Proofs.OptCalls.
Theorem C05_normalisation_keeps_every_call : forall t, calls (norm t) = calls t.
Proof. exact norm_keeps_every_call. Qed.
Print Assumptions C05_normalisation_keeps_every_call.

Theorem C05_accepted_optimisations_keep_every_call : forall a b, equiv a b = true -> calls a = calls b.
Proof. exact equiv_keeps_every_call. Qed.
Print Assumptions C05_accepted_optimisations_keep_every_call.

Example C05_calls_example :
  (* reshape - put (in place) - reshape back: both reshapes may go, the update may not *)
  let t := MReshape (MOther "put"%string [MReshape (MIn 0 [2; 3]) [6]; MIn 1 [2]; MIn 2 [2]] ["kw:"%string] [6]) [2; 3] in
  calls (norm t) = [("put"%string, ["kw:"%string])] /\ equiv t (MIn 0 [2; 3]) = false.
Proof. vm_compute. split; reflexivity. Qed.
