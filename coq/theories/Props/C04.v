From Coq Require Import List.
Theorem C04_placeholder : True. Proof. exact I. Qed.
