(* C04 - generated source is a faithful, self-contained compilation of the traced graph.
   Model/Ir.v: the graph IR with its node-by-node symbolic evaluation [seval] and the
   straight-line Python subset with its symbolic execution [sexec]; IrEq.agree is the validator
   run (extracted) on every captured (graph, text) pair. *)
From Coq Require Import String List ZArith.
From EinxV Require Import Model.Ir Model.IrEq Proofs.CodeSemProofs.
Import ListNotations.

(* Symbolic execution of the text is exactly a concrete execution on a store of values in which
   assignments overwrite earlier bindings, for every value domain and every interpretation of
   the primitives (call results may depend on the whole history = mutation through references):
   re-used variable names, evaluation order and multiplicity of calls are accounted for. *)
Theorem C04_symbolic_execution_is_faithful :
  forall (V : Type) (d : V) c_in c_int c_str c_none c_bool c_float c_tuple c_list c_dict c_slice c_attr c_item c_op c_pure
         c_import c_builtin c_const c_call c_update c_assert fuel pre c r,
    sexec fuel pre c = Some r ->
    cexec V c_in c_int c_str c_none c_bool c_float c_tuple c_list c_dict c_slice c_attr c_item c_op c_pure c_import c_builtin c_const
          c_call c_update c_assert fuel pre c
    = Some (denote V d c_in c_int c_str c_none c_bool c_float c_tuple c_list c_dict c_slice c_attr c_item c_op c_pure c_import
                   c_builtin c_const c_call c_update c_assert r).
Proof. intros. eapply sexec_sound. eassumption. Qed.
Print Assumptions C04_symbolic_execution_is_faithful.

(* If the validator accepts a (graph, text) pair then running the text yields, for every
   interpretation, the result and the ordered effect history that evaluating the graph node by
   node (each application once, demand driven) denotes. *)
Theorem C04_validator_sound : forall fuel g pre c,
  agree fuel g pre c = true ->
  exists rg, seval fuel g = Some rg /\
    forall (V : Type) (d : V) c_in c_int c_str c_none c_bool c_float c_tuple c_list c_dict c_slice c_attr c_item c_op c_pure
           c_import c_builtin c_const c_call c_update c_assert,
      cexec V c_in c_int c_str c_none c_bool c_float c_tuple c_list c_dict c_slice c_attr c_item c_op c_pure c_import c_builtin c_const
            c_call c_update c_assert fuel pre c
      = Some (denote V d c_in c_int c_str c_none c_bool c_float c_tuple c_list c_dict c_slice c_attr c_item c_op c_pure c_import
                     c_builtin c_const c_call c_update c_assert rg).
Proof. exact agree_sound. Qed.
Print Assumptions C04_validator_sound.

(* non-vacuity: a graph with a value used twice and an in-place call, and its text with a re-used name *)
Open Scope string_scope.
Example C04_example :
  let np := GRef 1 [] in
  let g := {| g_nodes := [(0, AInput 0); (1, AImport "numpy" None); (2, AGetAttr np "reshape"); (3, AGetAttr np "put");
                          (4, ACall (GRef 2 []) [GRef 0 []; GTuple [GInt 6]] []);
                          (5, ACallInplace (GRef 4 []) (GRef 3 []) [GRef 4 []; GInt 0; GInt 1] [])];
              g_output := GRef 5 [] |} in
  let c := {| c_params := ["a"];
              c_body := [StAssign "a" (XCall (XAttr (XVar "np") "reshape") [XVar "a"; XTuple [XInt 6]] []);
                         StExpr (XCall (XAttr (XVar "np") "put") [XVar "a"; XInt 0; XInt 1] [])];
              c_ret := XVar "a" |} in
  agree 50 g [StImport "numpy" None "np"] c = true.
Proof. vm_compute. reflexivity. Qed.

(* ---- generated variable names ("self-contained": the text must compile and no generated name may capture a keyword, a builtin
   or a hinted name such as the import alias).  Model/Names.v models the generator names() inside compile(): all words over the
   alphabet in the order of itertools.product with growing length, skipping reserved words; alphabet, first letter and start
   length are regenerated (Gen/GenNames.v), as is the rule that a group of variables takes its single hint or else the next name.
   For EVERY finite list L of reserved words and every number of requested names: ---- *)
From EinxV Require Import Gen.GenNames Model.Names Proofs.NamesProofs.
Close Scope string_scope.

Theorem C04_generated_names_are_pairwise_different : forall L count, NoDup (gen_take L count).
Proof. exact gen_names_are_distinct. Qed.
Print Assumptions C04_generated_names_are_pairwise_different.

Theorem C04_generated_names_are_never_reserved : forall L count x, In x (gen_take L count) -> ~ In x L.
Proof. exact gen_names_are_not_reserved. Qed.
Print Assumptions C04_generated_names_are_never_reserved.

(* the generator always has a next name: looking at count + |L| words is enough (the while-loop of names() ends for every request) *)
Theorem C04_the_name_stream_never_runs_dry : forall L count, List.length (gen_take L count) = count.
Proof. exact gen_names_never_run_dry. Qed.
Print Assumptions C04_the_name_stream_never_runs_dry.

(* different words are different identifiers: rendering is injective on the words the generator hands out *)
Theorem C04_different_words_are_different_identifiers : forall L count x y,
  In x (gen_take L count) -> In y (gen_take L count) -> render x = render y -> x = y.
Proof.
  intros L count x y Hx Hy. apply render_injective; eapply gen_names_are_words_over_the_alphabet; eassumption.
Qed.
Print Assumptions C04_different_words_are_different_identifiers.

Example C04_names_example :
  map render (gen_take [[18; 0]; [1]] 4) = ["a"; "c"; "d"; "e"]%string            (* "as" and "b" reserved *)
  /\ nth 26 (map render (gen_take [[18; 0]] 30)) ""%string = "aa"%string /\ nth 44 (map render (gen_take [[18; 0]] 50)) ""%string = "at"%string.
Proof. vm_compute. repeat split; reflexivity. Qed.

(* the loop that names the groups of variables (regenerated shape: a group with exactly one hint takes it, every other group takes
   the next name of the stream): the groups WITHOUT a hint get pairwise different names, none of which is reserved - in particular
   none equals a hinted name, since compile() puts every hinted name into the reserved set (gen_reserved_holds_keywords_builtins_hints) *)
Theorem C04_groups_without_a_hint_get_fresh_names : forall (L : list word) (hints : list (option word)),
  let names := name_groups hints (gen_take L (count_none hints)) in
  NoDup (picks hints names) /\ forall o, In o (picks hints names) -> exists x, o = Some x /\ ~ In x L.
Proof. exact groups_without_hint_get_fresh_names. Qed.
Print Assumptions C04_groups_without_a_hint_get_fresh_names.

Theorem C04_naming_rules_as_in_the_source :
  gen_names_skip_reserved = true /\ gen_reserved_holds_keywords_builtins_hints = true /\ gen_group_takes_its_single_hint_else_next_name = true.
Proof. repeat split; reflexivity. Qed.
