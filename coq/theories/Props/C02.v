(* C02 - axis and rank solving is sound, unambiguous and exact.
   Spec/Solve.v: size constraints over positive integers of unbounded size and a reference solver
   that substitutes known values one flattened / concatenated axis at a time.  einx's own solver
   (sympy) is not modelled; it is held inside the envelope these theorems define: where the
   reference solver determines a value, einx must report exactly that value; where it finds a
   contradiction, einx must fail; every value einx reports must satisfy all constraints. *)
From Coq Require Import List NArith Bool Arith.
From EinxV Require Import Spec.Solve Proofs.SolveProofs.
Import ListNotations.
Open Scope N_scope.

Theorem C02_forced_values_are_unique_and_contradictions_real : forall rounds fuel s sys, wfsys sys ->
  match propagate rounds fuel s sys with
  | Det s' => (forall tau, agree tau s -> pos tau -> sat tau sys -> agree tau s') /\ (forall tau, agree tau s' -> sat tau sys)
  | Contra => forall tau, agree tau s -> pos tau -> ~ sat tau sys
  | Unknown s' => forall tau, agree tau s -> pos tau -> sat tau sys -> agree tau s'
  end.
Proof. exact propagate_sound. Qed.
Print Assumptions C02_forced_values_are_unique_and_contradictions_real.

Theorem C02_determined_systems_have_exactly_the_reported_solution : forall rounds fuel sys s',
  wfsys sys -> propagate rounds fuel [] sys = Det s' ->
  sat (total s') sys /\ forall tau, pos tau -> sat tau sys -> forall x v, plookup s' x = Some v -> tau x = v.
Proof. exact propagate_unique. Qed.
Print Assumptions C02_determined_systems_have_exactly_the_reported_solution.

(* exact arithmetic: "(a b)" with a = b = 2^33 against a dimension of 2^66, and the residual axis of
   "(a b c)" = 2^70 with a = 2^33, b = 2^33 is 16 - no machine width anywhere *)
Example C02_exact_beyond_64_bits :
  propagate 10 10 [] [(CV 0%nat, 2 ^ 33); (CV 1%nat, 2 ^ 33); (CProd [CV 0%nat; CV 1%nat; CV 2%nat], 2 ^ 70)]
  = Det [(2%nat, 16); (1%nat, 2 ^ 33); (0%nat, 2 ^ 33)].
Proof. vm_compute. reflexivity. Qed.

(* non-integral quotient: "(b 3)" against 4 has no solution *)
Example C02_non_dividing_is_contradiction :
  propagate 10 10 [] [(CProd [CV 0%nat; CN 3], 4)] = Contra.
Proof. vm_compute. reflexivity. Qed.

(* a concatenation of k parts, each at least 1, cannot be shorter than k: "(a + b) c" against (1, 3) has no solution
   (the case einx accepts, known finding F19) *)
Example C02_sum_shorter_than_its_parts_is_contradiction :
  propagate 10 10 [] [(CSum [CV 0%nat; CV 1%nat], 1); (CV 2%nat, 3)] = Contra
  /\ propagate 10 10 [] [(CSum [CV 0%nat; CV 1%nat; CV 3%nat], 5); (CV 2%nat, 3); (CV 0%nat, 4)] = Contra.
Proof. vm_compute. split; reflexivity. Qed.
