From Coq Require Import List.
Theorem C11_placeholder : True. Proof. exact I. Qed.
