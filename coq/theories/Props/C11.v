(* C11 - backend selection follows the documented precedence and is stable.
   Model/Registry.v: (1) [select], the specification - a function of the backend argument, the
   with-stack, the argument types and the *set* of available backends only; (2) the state machine
   of BackendRegistryState (memo, lazily run factories, has_checked latch), which the
   correspondence check compares with the real registry on random histories. *)
From Coq Require Import List ZArith Bool Arith Permutation.
From EinxV Require Import Model.Registry Proofs.RegistryProofs.
Import ListNotations.

(* registration order is irrelevant *)
Theorem C11_selection_is_independent_of_registration_order : forall avail avail' stack a tys,
  Permutation avail avail' -> NoDup (map bname avail) ->
  select avail stack a tys = select avail' stack a tys.
Proof. exact select_order_independent. Qed.
Print Assumptions C11_selection_is_independent_of_registration_order.

(* the precedence chain, read off the specification: object > name > innermost with > tensors *)
Theorem C11_backend_object_wins : forall avail stack b tys, select avail stack (BObj b) tys = OBackend b.
Proof. reflexivity. Qed.
Theorem C11_with_block_beats_tensors : forall avail b rest tys, select avail (b :: rest) BNone tys = OBackend b.
Proof. reflexivity. Qed.
Theorem C11_unknown_name_is_value_error : forall avail stack n tys,
  (forall b, In b avail -> bname b <> n) -> select avail stack (BName n) tys = OValueError.
Proof.
  intros avail stack n tys H. cbn [select].
  replace (find (fun b => Nat.eqb (bname b) n) avail) with (@None backend); [reflexivity|].
  symmetry. apply find_none_iff. intros b Hb. apply Nat.eqb_neq. now apply H.
Qed.

(* a failed factory (InvalidBackend) accepts nothing, so it never takes part in type-based selection *)
Theorem C11_invalid_backend_never_a_candidate : forall b t, bvalid b = false -> accepts b t = false.
Proof. intros b t H. unfold accepts. now rewrite H. Qed.

(* example: numpy arrays defer to the other framework present; scalars alone select numpy *)
Example C11_example :
  let np := {| bid := 0; bname := numpy_name; bprio := (-1)%Z; bfw := 1; bvalid := true |} in
  let npl := {| bid := 1; bname := 7; bprio := (-5)%Z; bfw := 1; bvalid := true |} in
  let tor := {| bid := 2; bname := 9; bprio := 0%Z; bfw := 2; bvalid := true |} in
  select [np; npl; tor] [] BNone [{| tfw := Some 1 |}; {| tfw := Some 2 |}] = OBackend tor
  /\ select [np; npl; tor] [] BNone [{| tfw := None |}] = OBackend np
  /\ select [np; npl] [] BNone [{| tfw := Some 2 |}] = OResolutionError.
Proof. vm_compute. repeat split; reflexivity. Qed.
