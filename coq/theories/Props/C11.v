(* C11 - backend selection follows the documented precedence and is stable.
   Model/Registry.v: (1) [select], the specification - a function of the backend argument, the
   with-stack, the argument types and the *set* of available backends only; (2) the state machine
   of BackendRegistryState (memo, lazily run factories, has_checked latch), which the
   correspondence check compares with the real registry on random histories; (3) the refinement
   theorem: for every history the state machine answers every lookup as [select] does. *)
From Coq Require Import List ZArith Bool Arith Permutation.
From EinxV Require Import Model.Registry Proofs.RegistryProofs Proofs.RegistryRefine.
Import ListNotations.

(* registration order is irrelevant *)
Theorem C11_selection_is_independent_of_registration_order : forall avail avail' stack a tys,
  Permutation avail avail' -> NoDup (map bname avail) ->
  select avail stack a tys = select avail' stack a tys.
Proof. exact select_order_independent. Qed.
Print Assumptions C11_selection_is_independent_of_registration_order.

(* the precedence chain, read off the specification: object > name > innermost with > tensors *)
Theorem C11_backend_object_wins : forall avail stack b tys, select avail stack (BObj b) tys = OBackend b.
Proof. reflexivity. Qed.
Theorem C11_with_block_beats_tensors : forall avail b rest tys, select avail (b :: rest) BNone tys = OBackend b.
Proof. reflexivity. Qed.
Theorem C11_unknown_name_is_value_error : forall avail stack n tys,
  (forall b, In b avail -> bname b <> n) -> select avail stack (BName n) tys = OValueError.
Proof.
  intros avail stack n tys H. cbn [select].
  replace (find (fun b => Nat.eqb (bname b) n) avail) with (@None backend); [reflexivity|].
  symmetry. apply find_none_iff. intros b Hb. apply Nat.eqb_neq. now apply H.
Qed.

(* a failed factory (InvalidBackend) accepts nothing, so it never takes part in type-based selection *)
Theorem C11_invalid_backend_never_a_candidate : forall b t, bvalid b = false -> accepts b t = false.
Proof. intros b t H. unfold accepts. now rewrite H. Qed.

(* example: numpy arrays defer to the other framework present; scalars alone select numpy *)
Example C11_example :
  let np := {| bid := 0; bname := numpy_name; bprio := (-1)%Z; bfw := 1; bvalid := true |} in
  let npl := {| bid := 1; bname := 7; bprio := (-5)%Z; bfw := 1; bvalid := true |} in
  let tor := {| bid := 2; bname := 9; bprio := 0%Z; bfw := 2; bvalid := true |} in
  select [np; npl; tor] [] BNone [{| tfw := Some 1 |}; {| tfw := Some 2 |}] = OBackend tor
  /\ select [np; npl; tor] [] BNone [{| tfw := None |}] = OBackend np
  /\ select [np; npl] [] BNone [{| tfw := Some 2 |}] = OResolutionError.
Proof. vm_compute. repeat split; reflexivity. Qed.

(* The state machine refines the specification, for every history.  Backends are declared first - eagerly or to be created
   on import of a module - under the hypotheses of the property (distinct names; a backend created on import of m is the
   backend of m's tensors; no framework has both an eager and an on-import backend; a tensor type is only looked up once its
   framework is imported).  Then for EVERY sequence of imports, with-blocks and lookups - whatever was looked up, memoised,
   imported or found missing before - each lookup returns [select] applied to the backends available at that moment, the
   current with-stack, the backend argument and the argument types: earlier lookups and the registration order do not matter. *)
Theorem C11_every_history_follows_select : forall mods0 decls ops,
  forallb is_decl decls = true ->
  let eager := eager_of decls in
  let lazy := lazy_of decls in
  NoDup (map bname (eager ++ map snd lazy)) ->
  NoDup (map bid (eager ++ map snd lazy)) ->
  (forall m b, In (m, b) lazy -> bfw b = m) ->
  (forall b m b', In b eager -> In (m, b') lazy -> bfw b <> m) ->
  ops_ok eager lazy mods0 ops ->
  snd (run_history (mods0, rinit) (decls ++ ops)) =
  map (fun _ => ResNone) decls ++ spec_run eager lazy (mods0, []) ops.
Proof. exact registry_refines_select. Qed.
Print Assumptions C11_every_history_follows_select.

(* non-vacuity: a history that meets the hypotheses, in which a lookup first misses the framework that is imported later,
   is memoised, and later lookups see the lazily created backend, a with-block, and a left block *)
Example C11_history_example :
  let np := {| bid := 0; bname := numpy_name; bprio := (-1)%Z; bfw := 1; bvalid := true |} in
  let tor := {| bid := 2; bname := 9; bprio := 0%Z; bfw := 2; bvalid := true |} in
  let decls := [RRegister np; RRegisterOnImport 2 tor] in
  let tn := {| tfw := Some 1 |} in let tt := {| tfw := Some 2 |} in
  let ops := [RLookup BNone [tn]; RLookup (BName 9) []; RImport 2; RLookup BNone [tn; tt]; RLookup BNone [tn];
              REnter np; RLookup BNone [tt]; RExit (Some np); RLookup (BName 9) []] in
  (forallb is_decl decls = true /\ ops_ok (eager_of decls) (lazy_of decls) [1] ops /\
   NoDup (map bname (eager_of decls ++ map snd (lazy_of decls))) /\ NoDup (map bid (eager_of decls ++ map snd (lazy_of decls))))
  /\ snd (run_history ([1], rinit) (decls ++ ops)) =
     [ResNone; ResNone; ResOutcome (OBackend np); ResOutcome OValueError; ResNone; ResOutcome (OBackend tor); ResOutcome (OBackend np);
      ResNone; ResOutcome (OBackend np); ResNone; ResOutcome (OBackend tor)].
Proof.
  cbv zeta. split; [|vm_compute; reflexivity]. split; [reflexivity|]. split.
  - cbn. repeat split; intros t m H E; repeat (destruct H as [<-|H]; [cbn in E; injection E as <-; cbn; tauto|]); destruct H.
  - split; cbn; repeat constructor; cbn; intuition discriminate.
Qed.
