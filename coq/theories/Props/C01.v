(* C01 - every built-in operation computes exactly its loop-notation meaning.
   The reference meaning is Spec/LoopSem.v (index plans).  Theorems stated here are about the
   reference semantics and the lowering model; the tie to /repo is the correspondence check. *)
From Coq Require Import List NArith Bool.
From EinxV Require Import Spec.LoopSem Proofs.LoopSemProofs.
Import ListNotations.
Open Scope N_scope.

(* the flat position an environment denotes in a (concatenation-free) tensor expression is the
   mixed-radix number of its leaf-axis indices: reshaping a tensor to its leaf axes ("unflatten")
   does not move any element, for every nesting depth and every size *)
Theorem C01_unflatten_view : forall rho dims,
  forallb offset_free dims = true ->
  pos rho dims = ravel (dims_leaf_idx rho dims) (dims_leaf_len dims).
Proof. exact pos_leaves. Qed.
Print Assumptions C01_unflatten_view.

Theorem C01_ravel_in_bounds : forall idx lens,
  Forall2 (fun i l => i < l) idx lens -> lens <> [] -> ravel idx lens < nprod lens.
Proof. exact ravel_lt. Qed.
Print Assumptions C01_ravel_in_bounds.

(* The lowering of a rearrangement.  Model/Lower.v: reshape the tensor to its leaf axes, transpose them into the order in
   which the output lists them, reshape to the output dimensions - as a term of Model/Opt.v, whose meaning is numpy's
   row-major reshape / transpose.  For every pair of expressions that only nest flattened axes (any depth, any number of
   axes, any lengths; distinct names; the output uses the input's axes), every loop environment within the axis bounds and
   every element of the input: the element that the input holds at the position the environment denotes there is found in
   the result at the position the environment denotes in the output expression.  The correspondence check asks the
   extracted, proved-sound equivalence checker of Model/Opt.v whether the graph einx traces for such calls is this term. *)
From EinxV Require Import Model.Opt Model.Lower Proofs.LowerProofs.
Theorem C01_rearrangement_lowering_is_the_meaning :
  forall (V : Type) (inp : nat -> entries V) F BC CC (din dout : list pex),
  rearrange_ok din dout = true ->
  forall (k : nat) (rho : env) (v : V),
  in_bounds rho din -> in_bounds rho dout ->
  In (map (pidx rho) din, v) (inp k) ->
  In (map (pidx rho) dout, v) (meval V inp F BC CC (lower_rearrange k din dout)).
Proof. intros V inp F BC CC din dout Hok k rho v. exact (lower_rearrange_correct V inp F BC CC din dout Hok k rho v). Qed.
Print Assumptions C01_rearrangement_lowering_is_the_meaning.

(* the same in flat row-major positions, the way the reference plan [plan_id] speaks *)
Theorem C01_rearrangement_lowering_flat_positions :
  forall (din dout : list pex), rearrange_ok din dout = true ->
  forall rho, in_bounds rho din -> in_bounds rho dout ->
  ravel (moved din dout (map (pidx rho) din)) (map psize dout) = pos rho dout.
Proof. intros din dout Hok rho Bi Bo. exact (proj1 (lower_rearrange_flat din dout Hok rho Bi Bo)). Qed.
Print Assumptions C01_rearrangement_lowering_flat_positions.

(* non-vacuity: "a (b c) -> (c a) b" with lengths 2, 3, 4 is in scope, and the model is the term einx emits *)
Example C01_lowering_example :
  let din := [PAx 1 2 false; PFl [PAx 2 3 false; PAx 3 4 false]] in
  let dout := [PFl [PAx 3 4 false; PAx 1 2 false]; PAx 2 3 false] in
  rearrange_ok din dout = true /\
  lower_rearrange 0 din dout = MReshape (MTranspose (MReshape (MIn 0 [2; 12]) [2; 3; 4]) [2; 0; 1]%nat) [8; 3].
Proof. vm_compute. split; reflexivity. Qed.

(* Element-wise operations.  Model/Lower.v ([lower_align], [lower_elementwise]): every input is reshaped to its leaf axes,
   transposed into the leaf order of the output and reshaped with a length-1 dimension wherever it lacks an output axis;
   the backend's broadcasting operation pairs the aligned tensors and a final reshape gives the output dimensions.  For all
   expressions that only nest flattened axes (distinct names, every input axis an output axis of the same length), every
   in-bounds loop environment and every element: the element the input holds at the environment's position is found in the
   aligned tensor at the output's leaf coordinates, with 0 where the input has no such axis - i.e. exactly where numpy's
   broadcasting looks for the operand of the output element at that environment.  (Broadcasting and the elementary operation
   themselves are numpy's; the final reshape is the rearrangement theorem above.)  The correspondence check compares the whole
   traced graph of such calls with [lower_elementwise] through the extracted equivalence checker. *)
Theorem C01_elementwise_alignment_is_the_meaning :
  forall (V : Type) (inp : nat -> entries V) F BC CC (din dout : list pex),
  align_ok din dout = true ->
  forall (k : nat) (rho : env) (v : V),
  in_bounds rho din ->
  In (map (pidx rho) din, v) (inp k) ->
  In (aligned_idx din dout rho, v) (meval V inp F BC CC (lower_align k din dout)).
Proof. intros V inp F BC CC din dout Hok k rho v. exact (lower_align_correct V inp F BC CC din dout Hok k rho v). Qed.
Print Assumptions C01_elementwise_alignment_is_the_meaning.

Example C01_alignment_example :
  (* "c" aligned to the output "(a c) b" of lengths 2, 4, 3: shape (1, 4, 1) *)
  let din := [PAx 3 4 false] in
  let dout := [PFl [PAx 1 2 false; PAx 3 4 false]; PAx 2 3 false] in
  align_ok din dout = true /\ bshape din dout = [1; 4; 1] /\ aligned_idx din dout [(3, 2)] = [0; 2; 0].
Proof. vm_compute. repeat split; reflexivity. Qed.

(* Reductions.  Model/Lower.v ([lower_reduce]): the tensor is reshaped to its leaf axes, the backend's reduction is called
   with axis = the positions of the bracketed leaves (the kernel regenerated from _expr_to_axis), and the result is
   rearranged into the output expression.  The backend's reduction itself is not modelled (trusted base: numpy's
   sum/max/... over axis=); the three statements below are everything around it, for every nesting, number of axes and
   size: (1) the reduction sees each element at the coordinates of its leaf axes, (2) axis= is exactly the bracketed
   positions, and removing them from the leaf coordinates and lengths leaves those of the un-bracketed leaves in order -
   the coordinates at which any reduction over axis= returns its results -, (3) what the reduction returns there is found
   in the result at the position the output expression gives it.  The correspondence check (harness/c01.py) compares the
   model's term with the graph einx traces for generated reductions. *)
Theorem C01_reduction_sees_the_leaf_view :
  forall (V : Type) (inp : nat -> entries V) F BC CC (din dout : list pex),
  reduce_ok din dout = true ->
  forall (rho : env) (v : V), in_bounds rho din ->
  In (map (pidx rho) din, v) (inp 0%nat) ->
  In (map (lookup rho) (lnames din), v) (meval V inp F BC CC (reduce_arg din)).
Proof. intros V inp F BC CC din dout Hok rho v. exact (reduce_arg_is_the_leaf_view V inp F BC CC din dout Hok rho v). Qed.
Print Assumptions C01_reduction_sees_the_leaf_view.

Theorem C01_reduction_axes_are_the_brackets :
  forall (din : list pex),
  (forall k, In k (reduce_axes din) <-> nth k (lmarks din) false = true) /\
  forall rho, drop_axes (reduce_axes din) (map (lookup rho) (lnames din)) = map (lookup rho) (lnames (kept din)) /\
              drop_axes (reduce_axes din) (llens din) = llens (kept din).
Proof. intros din. split; [exact (reduce_axes_are_the_brackets din)|exact (reduce_drops_to_kept_coordinates din)]. Qed.
Print Assumptions C01_reduction_axes_are_the_brackets.

Theorem C01_reduction_result_is_placed_by_the_output :
  forall (V : Type) (inp : nat -> entries V) F BC CC f (din dout : list pex),
  reduce_ok din dout = true ->
  forall (rho : env) (v : V), in_bounds rho (kept din) -> in_bounds rho dout ->
  In (map (lookup rho) (lnames (kept din)), v) (reduced V inp F BC CC f din) ->
  In (map (pidx rho) dout, v) (meval V inp F BC CC (lower_reduce f din dout)).
Proof. intros V inp F BC CC f din dout Hok rho v. exact (lower_reduce_correct V inp F BC CC f din dout Hok rho v). Qed.
Print Assumptions C01_reduction_result_is_placed_by_the_output.

Example C01_reduction_example :
  (* "a ([b] c) -> c a" with lengths 2, 3, 4: np.sum(reshape(x, (2, 3, 4)), axis=1), transposed *)
  let din := [PAx 1 2 false; PFl [PAx 2 3 true; PAx 3 4 false]] in
  let dout := [PAx 3 4 false; PAx 1 2 false] in
  reduce_ok din dout = true /\ reduce_axes din = [1%nat] /\ llens (kept din) = [2; 4] /\
  drop_axes (reduce_axes din) [7; 8; 9] = [7; 9].
Proof. vm_compute. repeat split; reflexivity. Qed.

(* dot on the matmul path (numpy.numpylike).  Model/Lower.v ([lower_dot]): the axes are classified into batch / contracted /
   kept-left / kept-right, both operands are rearranged to (batch) (left) (contracted) and (batch) (contracted) (right), the
   backend's batched matmul is applied and its (batch) (left) (right) result is rearranged into the output.  matmul itself is
   numpy's (trusted); around it, for every nesting, number of axes and size: each element of either operand reaches matmul
   at the row-major numbers of its batch / kept / contracted loop indices, and what matmul returns at the numbers of the
   batch / left / right indices is found at the output expression's position. *)
Theorem C01_dot_operands_are_placed_for_matmul :
  forall (V : Type) (inp : nat -> entries V) F BC CC (d1 d2 dout : list pex),
  dot_ok d1 d2 dout = true ->
  forall (rho : env) (v : V), in_bounds rho d1 -> in_bounds rho d2 ->
  (In (map (pidx rho) d1, v) (inp 0%nat) -> In (map (pidx rho) (dot_lhs d1 d2 dout), v) (nth 0 (dot_operands V inp F BC CC d1 d2 dout) [])) /\
  (In (map (pidx rho) d2, v) (inp 1%nat) -> In (map (pidx rho) (dot_rhs d1 d2 dout), v) (nth 1 (dot_operands V inp F BC CC d1 d2 dout) [])).
Proof.
  intros V inp F BC CC d1 d2 dout Hok rho v B1 B2. split.
  - exact (dot_left_operand V inp F BC CC d1 d2 dout Hok rho v B1).
  - exact (dot_right_operand V inp F BC CC d1 d2 dout Hok rho v B1 B2).
Qed.
Print Assumptions C01_dot_operands_are_placed_for_matmul.

Theorem C01_dot_group_coordinate_is_rowmajor : forall rho (L : list (N * N * bool)),
  pidx rho (PFl (map leaf_ax L)) = ravel (map (fun x => lookup rho (fst (fst x))) L) (map (fun x => snd (fst x)) L).
Proof. exact pidx_group. Qed.
Print Assumptions C01_dot_group_coordinate_is_rowmajor.

Theorem C01_dot_result_is_placed_by_the_output :
  forall (V : Type) (inp : nat -> entries V) F BC CC (d1 d2 dout : list pex),
  dot_ok d1 d2 dout = true ->
  forall (rho : env) (v : V), in_bounds rho d1 -> in_bounds rho d2 -> in_bounds rho dout ->
  In (map (pidx rho) (dot_mid d1 d2 dout), v) (dot_product V inp F BC CC d1 d2 dout) ->
  In (map (pidx rho) dout, v) (meval V inp F BC CC (lower_dot d1 d2 dout)).
Proof. intros V inp F BC CC d1 d2 dout Hok rho v. exact (lower_dot_correct V inp F BC CC d1 d2 dout Hok rho v). Qed.
Print Assumptions C01_dot_result_is_placed_by_the_output.

Example C01_dot_example :
  (* "a (b c), c b d -> d a" with lengths a=2, b=3, c=4, d=5: no batch axis, contracted (b c) in the left operand's order *)
  let d1 := [PAx 1 2 false; PFl [PAx 2 3 false; PAx 3 4 false]] in
  let d2 := [PAx 3 4 false; PAx 2 3 false; PAx 4 5 false] in
  let dout := [PAx 4 5 false; PAx 1 2 false] in
  dot_ok d1 d2 dout = true /\ map psize (dot_lhs d1 d2 dout) = [1; 2; 12] /\ map psize (dot_rhs d1 d2 dout) = [1; 12; 5] /\
  map psize (dot_mid d1 d2 dout) = [1; 2; 5].
Proof. vm_compute. repeat split; reflexivity. Qed.

(* dot, end to end.  The one assumption is about the backend: a batched matmul that finds, for a result position [b; i; k],
   operand entries [b; i; j] and [b; j; k] for every j below the contracted length J returns the sum of their products there
   (numpy's matmul; outside the model).  Then, for operands X, Y given as functions of the loop environment, every nesting,
   number of axes and size, and every loop environment: the result of the modelled lowering holds, at the position the
   output expression denotes, the sum over all index combinations j of the contracted axes of X * Y - the loop-notation
   meaning of dot.  [at_j rho j] is rho with the contracted axes at their j-th (row-major) index combination. *)
From Coq Require Import ZArith.
From Coq Require Import String.
Close Scope string_scope.
From EinxV Require Import Proofs.DotSum.
Theorem C01_dot_is_the_sum_of_products :
  forall (inp : nat -> entries Z) F BC CC (d1 d2 dout : list pex),
  dot_ok d1 d2 dout = true ->
  (forall (A B : entries Z) (b i k : N) (a c : N -> Z),
     (forall j, j < J d1 d2 dout -> In ([b; i; j], a j) A /\ In ([b; j; k], c j) B) ->
     In ([b; i; k], zsum (J d1 d2 dout) (fun j => (a j * c j)%Z)) (F "matmul"%string [A; B] ["kw:"%string])) ->
  forall X Y : env -> Z,
  (forall rho, in_bounds rho d1 -> In (map (pidx rho) d1, X rho) (inp 0%nat)) ->
  (forall rho, in_bounds rho d2 -> In (map (pidx rho) d2, Y rho) (inp 1%nat)) ->
  forall rho, in_bounds rho d1 -> in_bounds rho d2 -> in_bounds rho dout ->
  In (map (pidx rho) dout, zsum (J d1 d2 dout) (fun j => (X (at_j d1 d2 dout rho j) * Y (at_j d1 d2 dout rho j))%Z))
     (meval Z inp F BC CC (lower_dot d1 d2 dout)).
Proof. intros inp F BC CC d1 d2 dout Hok Hmm X Y HX HY rho. exact (dot_is_the_sum_of_products inp F BC CC d1 d2 dout Hok Hmm X Y HX HY rho). Qed.
Print Assumptions C01_dot_is_the_sum_of_products.

Example C01_dot_sum_example :
  (* "a (b c), c b d -> d a": 12 index combinations of the contracted axes (b, c); the 7th is b = 1, c = 3 *)
  let d1 := [PAx 1 2 false; PFl [PAx 2 3 false; PAx 3 4 false]] in
  let d2 := [PAx 3 4 false; PAx 2 3 false; PAx 4 5 false] in
  let dout := [PAx 4 5 false; PAx 1 2 false] in
  J d1 d2 dout = 12 /\ (lookup (at_j d1 d2 dout [] 7) 2, lookup (at_j d1 d2 dout [] 7) 3) = (1, 3) /\ zsum 4 (fun j => Z.of_N j) = 6%Z.
Proof. vm_compute. repeat split; reflexivity. Qed.

(* Element-wise operations, end to end.  The one assumption is numpy's broadcasting rule for the backend function: at an
   index tuple for which it finds every operand's element - an operand whose dimension is 1 being read at 0 ([bmask]) - it
   returns the elementary operation applied to them.  Then for any number of operands X_k given as functions of the loop
   environment, every nesting and size: the modelled lowering holds, at the position the output expression denotes, the
   operation applied to the operands' elements of that loop environment. *)
From EinxV Require Import Proofs.ElementwiseFull.
Theorem C01_elementwise_is_the_operation_on_the_operands :
  forall (V : Type) (inp : nat -> entries V) F BC CC f (ins : list (list pex)) (dout : list pex),
  elementwise_ok ins dout = true -> ins <> [] ->
  forall (op : list V -> V) (Xs : list (env -> V)),
  List.length Xs = List.length ins ->
  (forall k din X, nth_error ins k = Some din -> nth_error Xs k = Some X ->
     forall rho, in_bounds rho din -> In (map (pidx rho) din, X rho) (inp k)) ->
  (forall (I : list N) (vs : list V),
     Forall2 (fun (dA : list pex * entries V) v => In (bmask (bshape (fst dA) dout) I, v) (snd dA))
             (combine ins (aligned_operands V inp F BC CC ins dout)) vs ->
     In (I, op vs) (F f (aligned_operands V inp F BC CC ins dout) ["kw:"%string])) ->
  forall rho, (forall din, In din ins -> in_bounds rho din) -> in_bounds rho dout ->
  In (map (pidx rho) dout, op (map (fun X => X rho) Xs)) (meval V inp F BC CC (lower_elementwise f ins dout)).
Proof.
  intros V inp F BC CC f ins dout Hok Hne op Xs HXs HX Hbc rho.
  exact (elementwise_is_the_operation_on_the_operands V inp F BC CC f ins dout Hok Hne op Xs HXs HX Hbc rho).
Qed.
Print Assumptions C01_elementwise_is_the_operation_on_the_operands.

(* Reductions, end to end.  The one assumption is about the backend's reduction with axis=: if, for a tuple K of the remaining
   coordinates, it finds an element for every index combination j < JR of the reduced positions (coordinates T j whose
   axis= positions hold the j-th combination and whose other positions are K), it returns the reduction R of those elements
   at K.  Then, for the operand X given as a function of the loop environment, every nesting and size: the modelled lowering
   holds, at the position the output expression denotes, R of X over all index combinations of the bracketed axes
   ([at_r rho j] is rho with the bracketed axes at their j-th combination). *)
From EinxV Require Import Proofs.ReduceFull.
Theorem C01_reduction_is_the_reduction_over_the_brackets :
  forall (V : Type) (inp : nat -> entries V) F BC CC f (din dout : list pex),
  reduce_ok din dout = true ->
  forall (R : list V -> V),
  (forall (A : entries V) (K : list N) (T : N -> list N) (a : N -> V),
     (forall j, j < JR din -> In (T j, a j) A /\ drop_axes (reduce_axes din) (T j) = K /\
                              take_axes (reduce_axes din) (T j) = unravel j (rlens din)) ->
     In (K, R (tabulate (JR din) a)) (F f [A] [axis_lit (reduce_axes din); "kw:axis"%string])) ->
  forall X : env -> V,
  (forall rho, in_bounds rho din -> In (map (pidx rho) din, X rho) (inp 0%nat)) ->
  forall rho, in_bounds rho din -> in_bounds rho dout ->
  In (map (pidx rho) dout, R (tabulate (JR din) (fun j => X (at_r din rho j)))) (meval V inp F BC CC (lower_reduce f din dout)).
Proof.
  intros V inp F BC CC f din dout Hok R HR X HX rho.
  exact (reduce_is_the_reduction_over_the_brackets V inp F BC CC f din dout Hok R HR X HX rho).
Qed.
Print Assumptions C01_reduction_is_the_reduction_over_the_brackets.

(* dot on the einsum path (the default numpy backend).  Model/Lower.v ([lower_einsum_dot]): both operands are reshaped to
   their leaf axes and handed to einsum with a subscript string built by giving every axis name the next free letter at its
   first occurrence; einsum's result - one dimension per leaf axis of the output - is reshaped to the output dimensions.
   einsum itself is numpy's (trusted).  Around it, for every nesting, number of axes and size: each operand is seen at its
   leaf coordinates, the letters identify the axes faithfully (the three words come from ONE table in which different names
   have different letters, so a name has the same letter wherever it occurs), and what einsum returns at the leaf
   coordinates of the output is found at the position the output expression denotes. *)
From EinxV Require Import Proofs.EinsumProofs.
Theorem C01_einsum_operand_is_the_leaf_view :
  forall (V : Type) (inp : nat -> entries V) F BC CC k d rho v,
  forallb plain d = true -> in_bounds rho d -> In (map (pidx rho) d, v) (inp k) ->
  In (map (lookup rho) (lnames d), v) (meval V inp F BC CC (ein_operand k d)).
Proof. exact ein_operand_is_the_leaf_view. Qed.
Print Assumptions C01_einsum_operand_is_the_leaf_view.

Theorem C01_einsum_letters_identify_the_axes : forall n1 n2 no : list N,
  exists (letter : N -> nat),
    let '(k1, v1) := ein_assign [] n1 in
    let '(k2, v2) := ein_assign v1 n2 in
    let '(ko, _) := ein_assign v2 no in
    k1 = map letter n1 /\ k2 = map letter n2 /\ ko = map letter no /\
    forall a b, In a (n1 ++ n2 ++ no) -> In b (n1 ++ n2 ++ no) -> letter a = letter b -> a = b.
Proof. exact ein_letters_faithful. Qed.
Print Assumptions C01_einsum_letters_identify_the_axes.

Theorem C01_einsum_result_is_placed_by_the_output :
  forall (V : Type) (inp : nat -> entries V) F BC CC (d1 d2 dout : list pex) rho v,
  forallb plain dout = true -> in_bounds rho dout ->
  In (map (lookup rho) (lnames dout), v) (einsum_result V inp F BC CC d1 d2 dout) ->
  In (map (pidx rho) dout, v) (meval V inp F BC CC (lower_einsum_dot d1 d2 dout)).
Proof. exact lower_einsum_dot_correct. Qed.
Print Assumptions C01_einsum_result_is_placed_by_the_output.

Example C01_einsum_example :
  (* "a (b c), c b d -> d a": the subscripts 'abc,cbd->da' *)
  let d1 := [PAx 1 2 false; PFl [PAx 2 3 false; PAx 3 4 false]] in
  let d2 := [PAx 3 4 false; PAx 2 3 false; PAx 4 5 false] in
  let dout := [PAx 4 5 false; PAx 1 2 false] in
  einsum_dot_ok d1 d2 dout = true /\ ein_subscripts d1 d2 dout = "'abc,cbd->da'"%string.
Proof. vm_compute. split; reflexivity. Qed.

(* dot on the einsum path, end to end.  The one assumption is about einsum, stated on axis names (the letters identify the
   names faithfully, C01_einsum_letters_identify_the_axes): for output coordinates given by rho, if it finds both operands'
   elements for every index combination j of the axes the output does not list, it returns the sum of their products.
   Then the modelled lowering holds that sum at the position the output expression denotes - for every nesting, number of
   axes and size ([at_s rho j]: rho with the summed axes at their j-th combination). *)
From EinxV Require Import Proofs.EinsumSum.
Theorem C01_einsum_dot_is_the_sum_of_products :
  forall (inp : nat -> entries Z) F BC CC (d1 d2 dout : list pex),
  forallb plain d1 = true -> forallb plain d2 = true -> forallb plain dout = true ->
  NoDup (map nm (leaves d1)) -> NoDup (map nm (leaves d2)) ->
  (forall x y, In x (leaves d1) -> In y (leaves d2) -> nm x = nm y -> ln x = ln y) ->
  (forall (A B : entries Z) (rho : env) (a c : N -> Z),
     (forall j, j < JS d1 d2 dout ->
        In (map (lookup (at_s d1 d2 dout rho j)) (lnames d1), a j) A /\ In (map (lookup (at_s d1 d2 dout rho j)) (lnames d2), c j) B) ->
     In (map (lookup rho) (lnames dout), zsum (JS d1 d2 dout) (fun j => (a j * c j)%Z))
        (F "einsum"%string [A; B] [ein_subscripts d1 d2 dout; "kw:"%string])) ->
  forall X Y : env -> Z,
  (forall rho, in_bounds rho d1 -> In (map (pidx rho) d1, X rho) (inp 0%nat)) ->
  (forall rho, in_bounds rho d2 -> In (map (pidx rho) d2, Y rho) (inp 1%nat)) ->
  forall rho, in_bounds rho d1 -> in_bounds rho d2 -> in_bounds rho dout ->
  In (map (pidx rho) dout, zsum (JS d1 d2 dout) (fun j => (X (at_s d1 d2 dout rho j) * Y (at_s d1 d2 dout rho j))%Z))
     (meval Z inp F BC CC (lower_einsum_dot d1 d2 dout)).
Proof.
  intros inp F BC CC d1 d2 dout Hp1 Hp2 Hpo Hn1 Hn2 Hcoh Hein X Y HX HY rho.
  exact (einsum_dot_is_the_sum_of_products inp F BC CC d1 d2 dout Hp1 Hp2 Hpo Hn1 Hn2 Hcoh Hein X Y HX HY rho).
Qed.
Print Assumptions C01_einsum_dot_is_the_sum_of_products.

(* Operations that keep the shape and act along the bracketed axes (flip, roll).  Model/Lower.v ([lower_preserve]): reshape to
   the leaf axes, the backend function with axis = the tuple of bracketed leaf positions, rearrangement of the leaf axes into
   the output.  The backend function itself is numpy's; around it: it sees each element at its leaf coordinates, axis= is
   exactly the bracketed positions, and what it returns at the leaf coordinates is found at the output expression's position. *)
From EinxV Require Import Proofs.PreserveProofs.
Theorem C01_shape_preserving_operation_sees_the_leaf_view :
  forall (V : Type) (inp : nat -> entries V) F BC CC (din dout : list pex),
  preserve_ok din dout = true ->
  forall rho v, in_bounds rho din -> In (map (pidx rho) din, v) (inp 0%nat) ->
  In (map (lookup rho) (lnames din), v) (meval V inp F BC CC (MReshape (MIn 0 (map psize din)) (llens din))).
Proof. intros V inp F BC CC din dout Hok rho v. exact (preserve_sees_the_leaf_view V inp F BC CC din dout Hok rho v). Qed.
Print Assumptions C01_shape_preserving_operation_sees_the_leaf_view.

Theorem C01_shape_preserving_axes_are_the_brackets : forall (din : list pex) k,
  In k (EinxV.Gen.GenAdapter.gen_expr_to_axis (lmarks din)) <-> nth k (lmarks din) false = true.
Proof. exact preserve_axes_are_the_brackets. Qed.
Print Assumptions C01_shape_preserving_axes_are_the_brackets.

Theorem C01_shape_preserving_result_is_placed_by_the_output :
  forall (V : Type) (inp : nat -> entries V) F BC CC f extra kwlit (din dout : list pex),
  preserve_ok din dout = true ->
  forall rho v, in_bounds rho din -> in_bounds rho dout ->
  In (map (lookup rho) (lnames din), v) (preserve_result V inp F BC CC f extra kwlit din) ->
  In (map (pidx rho) dout, v) (meval V inp F BC CC (lower_preserve f extra kwlit din dout)).
Proof. intros V inp F BC CC f extra kwlit din dout Hok rho v. exact (lower_preserve_correct V inp F BC CC f extra kwlit din dout Hok rho v). Qed.
Print Assumptions C01_shape_preserving_result_is_placed_by_the_output.

(* Rearrangements with new output axes ("a b -> a c b"): "output-only axes repeat the value".  Model/Lower.v ([lower_broadcast]):
   the input aligned with the output's leaf order (length-1 dimensions where it lacks an axis), the backend's broadcast_to to the
   output's leaf lengths, reshape to the output dimensions.  The one assumption is numpy.broadcast_to's rule: at every in-range
   index of the target shape it returns the element the operand holds at that index with 0 in place of every dimension of length
   1.  Then for every nesting and size and every loop environment over ALL output axes - whatever the values of the axes the input
   does not have - the modelled lowering holds, at the position the output expression denotes, the element the input holds at the
   environment's position. *)
From EinxV Require Import Proofs.OptProofs Proofs.BroadcastFull.
Theorem C01_output_only_axes_repeat_the_value :
  forall (V : Type) (inp : nat -> entries V) F BC CC (din dout : list pex),
  broadcast_ok din dout = true ->
  (forall (s0 s1 : list N) (e : entries V) (I : list N) (v : V),
     valid_idx I s1 -> In (bmask s0 I, v) e -> In (I, v) (BC s0 s1 e)) ->
  forall k rho v, in_bounds rho din -> in_bounds rho dout -> In (map (pidx rho) din, v) (inp k) ->
  In (map (pidx rho) dout, v) (meval V inp F BC CC (lower_broadcast k din dout)).
Proof. intros V inp F BC CC din dout Hok Hbc k rho v. exact (broadcast_repeats_the_value V inp F BC CC din dout Hok Hbc k rho v). Qed.
Print Assumptions C01_output_only_axes_repeat_the_value.

(* the hypotheses are satisfiable: "a b -> (a c) b" with a = 2, b = 3, c = 4 *)
Example C01_output_only_axes_example :
  let din := [PAx 1 2 false; PAx 2 3 false] in
  let dout := [PFl [PAx 1 2 false; PAx 3 4 false]; PAx 2 3 false] in
  broadcast_ok din dout = true /\ mshape (lower_broadcast 0 din dout) = [8; 3] /\
  norm (lower_broadcast 0 din dout) = MReshape (MBroadcast (MReshape (MIn 0 [2; 3]) [2; 1; 3]) [2; 4; 3]) [8; 3].
Proof. vm_compute. repeat split; reflexivity. Qed.
