(* C01 - every built-in operation computes exactly its loop-notation meaning.
   The reference meaning is Spec/LoopSem.v (index plans).  Theorems stated here are about the
   reference semantics and the lowering model; the tie to /repo is the correspondence check. *)
From Coq Require Import List NArith Bool.
From EinxV Require Import Spec.LoopSem Proofs.LoopSemProofs.
Import ListNotations.
Open Scope N_scope.

(* the flat position an environment denotes in a (concatenation-free) tensor expression is the
   mixed-radix number of its leaf-axis indices: reshaping a tensor to its leaf axes ("unflatten")
   does not move any element, for every nesting depth and every size *)
Theorem C01_unflatten_view : forall rho dims,
  forallb offset_free dims = true ->
  pos rho dims = ravel (dims_leaf_idx rho dims) (dims_leaf_len dims).
Proof. exact pos_leaves. Qed.
Print Assumptions C01_unflatten_view.

Theorem C01_ravel_in_bounds : forall idx lens,
  Forall2 (fun i l => i < l) idx lens -> lens <> [] -> ravel idx lens < nprod lens.
Proof. exact ravel_lt. Qed.
Print Assumptions C01_ravel_in_bounds.
