(* C14 - indexed updates apply every update exactly once and touch nothing else. *)
From Coq Require Import List NArith ZArith Permutation.
From EinxV Require Import Spec.LoopSem Spec.UpdateSem Proofs.UpdateProofs Gen.GenRavel.
Import ListNotations.
Open Scope Z_scope.

(* add_at (sgn=1) / subtract_at (sgn=-1): every element ends as its original value plus/minus the
   sum of all update values addressed to it - accumulation of duplicates included - for every
   plan length and every tensor size *)
Theorem C14_accumulate_exactly_once : forall sgn t u plan p,
  (forall pq, In pq plan -> (N.to_nat (fst pq) < length t)%nat) ->
  nth p (apply_acc sgn t plan u) 0 = nth p t 0 + sgn * contributions plan u p.
Proof. exact apply_acc_value. Qed.
Print Assumptions C14_accumulate_exactly_once.

Theorem C14_untouched_elsewhere : forall sgn t u plan p,
  (forall pq, In pq plan -> (N.to_nat (fst pq) < length t)%nat) ->
  (forall pq, In pq plan -> N.to_nat (fst pq) <> p) ->
  nth p (apply_acc sgn t plan u) 0 = nth p t 0.
Proof. exact apply_acc_untouched. Qed.
Print Assumptions C14_untouched_elsewhere.

Theorem C14_set_leaves_a_competing_value : forall t u plan p,
  (forall pq, In pq plan -> (N.to_nat (fst pq) < length t)%nat) ->
  (candidates plan u p = [] /\ nth p (apply_set t plan u) 0 = nth p t 0)
  \/ In (nth p (apply_set t plan u) 0) (candidates plan u p).
Proof. exact apply_set_member. Qed.
Print Assumptions C14_set_leaves_a_competing_value.

(* the multiplier loop of the source (regenerated on every run into Gen/GenRavel.v) yields the
   row-major flat index of the addressed element *)
Theorem C14_ravel_is_rowmajor : forall idx lens,
  length idx = length lens -> dotN idx (gen_ravel_multipliers lens) = ravel idx lens.
Proof. exact ravel_is_rowmajor. Qed.
Print Assumptions C14_ravel_is_rowmajor.

(* premises are satisfiable: two updates hit element 1, element 0 and 2 untouched *)
Example C14_example :
  apply_acc 1 [10; 20; 30] [(1%N, 0%N); (1%N, 1%N)] [5; 7] = [10; 32; 30].
Proof. reflexivity. Qed.

(* "get_at with the same coordinates reads back what set_at wrote": when no two loop iterations address the same target
   element, reading the target elements of the plan after set_at yields exactly the update values, for every plan length
   and every tensor size (with collisions, the previous theorem gives one of the competing values) *)
Theorem C14_get_at_reads_back_what_set_at_wrote : forall t u plan,
  (forall pq, In pq plan -> (N.to_nat (fst pq) < length t)%nat) ->
  NoDup (map (fun pq => N.to_nat (fst pq)) plan) ->
  read_back (apply_set t plan u) plan = map (fun pq => (snd pq, getZ u (snd pq))) plan.
Proof. exact set_then_get_reads_back. Qed.
Print Assumptions C14_get_at_reads_back_what_set_at_wrote.
