(* C14 - indexed updates apply every update exactly once and touch nothing else. *)
From Coq Require Import List NArith ZArith Arith Permutation.
From EinxV Require Import Spec.LoopSem Spec.UpdateSem Model.Opt Proofs.UpdateProofs Proofs.OptProofs Proofs.RavelInj Proofs.JoinProofs Gen.GenRavel Gen.GenJoin.
Import ListNotations.
Open Scope Z_scope.

(* add_at (sgn=1) / subtract_at (sgn=-1): every element ends as its original value plus/minus the
   sum of all update values addressed to it - accumulation of duplicates included - for every
   plan length and every tensor size *)
Theorem C14_accumulate_exactly_once : forall sgn t u plan p,
  (forall pq, In pq plan -> (N.to_nat (fst pq) < length t)%nat) ->
  nth p (apply_acc sgn t plan u) 0 = nth p t 0 + sgn * contributions plan u p.
Proof. exact apply_acc_value. Qed.
Print Assumptions C14_accumulate_exactly_once.

Theorem C14_untouched_elsewhere : forall sgn t u plan p,
  (forall pq, In pq plan -> (N.to_nat (fst pq) < length t)%nat) ->
  (forall pq, In pq plan -> N.to_nat (fst pq) <> p) ->
  nth p (apply_acc sgn t plan u) 0 = nth p t 0.
Proof. exact apply_acc_untouched. Qed.
Print Assumptions C14_untouched_elsewhere.

Theorem C14_set_leaves_a_competing_value : forall t u plan p,
  (forall pq, In pq plan -> (N.to_nat (fst pq) < length t)%nat) ->
  (candidates plan u p = [] /\ nth p (apply_set t plan u) 0 = nth p t 0)
  \/ In (nth p (apply_set t plan u) 0) (candidates plan u p).
Proof. exact apply_set_member. Qed.
Print Assumptions C14_set_leaves_a_competing_value.

(* the multiplier loop of the source (regenerated on every run into Gen/GenRavel.v) yields the
   row-major flat index of the addressed element *)
Theorem C14_ravel_is_rowmajor : forall idx lens,
  length idx = length lens -> dotN idx (gen_ravel_multipliers lens) = ravel idx lens.
Proof. exact ravel_is_rowmajor. Qed.
Print Assumptions C14_ravel_is_rowmajor.

(* premises are satisfiable: two updates hit element 1, element 0 and 2 untouched *)
Example C14_example :
  apply_acc 1 [10; 20; 30] [(1%N, 0%N); (1%N, 1%N)] [5; 7] = [10; 32; 30].
Proof. reflexivity. Qed.

(* "get_at with the same coordinates reads back what set_at wrote": when no two loop iterations address the same target
   element, reading the target elements of the plan after set_at yields exactly the update values, for every plan length
   and every tensor size (with collisions, the previous theorem gives one of the competing values) *)
Theorem C14_get_at_reads_back_what_set_at_wrote : forall t u plan,
  (forall pq, In pq plan -> (N.to_nat (fst pq) < length t)%nat) ->
  NoDup (map (fun pq => N.to_nat (fst pq)) plan) ->
  read_back (apply_set t plan u) plan = map (fun pq => (snd pq, getZ u (snd pq))) plan.
Proof. exact set_then_get_reads_back. Qed.
Print Assumptions C14_get_at_reads_back_what_set_at_wrote.

(* "touch nothing else": the flat index the lowering computes from a coordinate vector (coordinates times the regenerated
   multipliers) is a bijection between the in-bounds coordinate vectors and the elements of the flattened target - two
   different in-bounds coordinate vectors never address the same element, the index never leaves the target, and every
   element has a coordinate vector - for every rank and all axis lengths *)
Theorem C14_different_coordinates_address_different_elements : forall idx idx' lens,
  valid_idx idx lens -> valid_idx idx' lens ->
  dotN idx (gen_ravel_multipliers lens) = dotN idx' (gen_ravel_multipliers lens) -> idx = idx'.
Proof. exact flat_index_is_injective. Qed.
Print Assumptions C14_different_coordinates_address_different_elements.

Theorem C14_flat_index_stays_inside_the_target : forall idx lens,
  valid_idx idx lens -> (dotN idx (gen_ravel_multipliers lens) < nprod lens)%N.
Proof. exact flat_index_in_bounds. Qed.
Print Assumptions C14_flat_index_stays_inside_the_target.

Theorem C14_every_element_has_a_coordinate_vector : forall lens n,
  (n < nprod lens)%N -> exists idx, valid_idx idx lens /\ dotN idx (gen_ravel_multipliers lens) = n.
Proof. exact flat_index_is_surjective. Qed.
Print Assumptions C14_every_element_has_a_coordinate_vector.

Example C14_flat_index_example : dotN [1; 2]%N (gen_ravel_multipliers [3; 4]%N) = 6%N /\ valid_idx [1; 2]%N [3; 4]%N.
Proof. split; [reflexivity|]. repeat constructor. Qed.

(* "the element addressed by the coordinates in the matching target slice": the index the lowering builds per target axis
   is the coordinate argument where the axis is bracketed and the loop index (arange) where it is not ([gen_ravel_interleave], regenerated from the source's loop); its
   flat index addresses, in the un-flattened target, exactly that element, and two iterations meet in one element only when
   they are in the same slice with the same coordinates - any rank, any bracket positions, any lengths *)
Theorem C14_the_addressed_element_is_in_the_matching_slice : forall marks loop coord lens,
  valid_idx (gen_ravel_interleave marks loop coord) lens ->
  Opt.unravel (dotN (gen_ravel_interleave marks loop coord) (gen_ravel_multipliers lens)) lens = gen_ravel_interleave marks loop coord.
Proof. exact gen_flat_index_addresses_the_slice_element. Qed.
Print Assumptions C14_the_addressed_element_is_in_the_matching_slice.

Theorem C14_same_element_only_from_same_slice_and_coordinates : forall marks loop coord loop' coord' lens,
  length loop = count false marks -> length coord = count true marks ->
  length loop' = count false marks -> length coord' = count true marks ->
  valid_idx (gen_ravel_interleave marks loop coord) lens -> valid_idx (gen_ravel_interleave marks loop' coord') lens ->
  dotN (gen_ravel_interleave marks loop coord) (gen_ravel_multipliers lens) = dotN (gen_ravel_interleave marks loop' coord') (gen_ravel_multipliers lens) ->
  loop = loop' /\ coord = coord'.
Proof. exact gen_same_element_same_slice_same_coordinates. Qed.
Print Assumptions C14_same_element_only_from_same_slice_and_coordinates.

(* target "a [b c] d" with lengths 2 3 4 5, slice a=1 d=2, coordinates b=2 c=3 *)
Example C14_slice_example :
  gen_ravel_interleave [false; true; true; false] [1; 2]%N [2; 3]%N = [1; 2; 3; 2]%N /\
  dotN [1; 2; 3; 2]%N (gen_ravel_multipliers [2; 3; 4; 5]%N) = 117%N /\ valid_idx [1; 2; 3; 2]%N [2; 3; 4; 5]%N.
Proof. split; [reflexivity|split; [reflexivity|repeat constructor]]. Qed.

From Coq Require Import String.
Close Scope string_scope.

(* "joined intermediate expression": the loop of _join_exprs (regenerated; the while loop as recursion on fuel) never runs
   out of the fuel "number of axis occurrences", and the joined expression holds every axis of every expression, nothing
   else, and each exactly once - for any number of expressions of any rank *)
Theorem C14_joining_expressions_terminates : forall axes,
  exists r, gen_join (total axes) axes = Some r.
Proof. intros axes. apply join_terminates. apply Nat.le_refl. Qed.
Print Assumptions C14_joining_expressions_terminates.

Theorem C14_joined_expression_has_every_axis_exactly_once : forall fuel axes r,
  gen_join fuel axes = Some r ->
  NoDup r /\ (forall m, In m r <-> exists l, In l axes /\ In m l).
Proof.
  intros fuel axes r H. split; [exact (join_nodup _ _ _ H)|].
  intros m. split; [exact (join_sound _ _ _ H m)|]. intros [l [Hl Hm]]. exact (join_complete _ _ _ H l m Hl Hm).
Qed.
Print Assumptions C14_joined_expression_has_every_axis_exactly_once.

Example C14_join_example :
  gen_join 7 [["a"; "d"; "e"]; ["d"; "f"]; ["a"; "d"]]%string = Some ["d"; "a"; "e"; "f"]%string.
Proof. reflexivity. Qed.
