From Coq Require Import List NArith ZArith.
From EinxV Require Import Model.Parse Proofs.ParseGen.
Import ListNotations.

Theorem C12_tables_tied : map lit_text nary_ops = Gen.GenParseTables.gen_nary_ops.
Proof. exact nary_ops_gen. Qed.
Print Assumptions C12_tables_tied.
