(* C12 - the expression parser is total, and every failure is a SyntaxError whose markers lie
   inside the caller's own string.
   The parser model (Model/Parse.v) is a total Gallina function: termination on every string is
   what Coq's guard checker accepted when the model was defined.  The model distinguishes three
   outcomes: [Ok tree], [Err site positions] (a SyntaxError raised at source line [site] with
   caret positions [positions]) and [Internal site] (an assert / internal exception of the source
   at line [site]).  The theorems say that [Internal] is unreachable and that all reported
   positions index into the text - for every string over every alphabet, with no length bound.
   The tie of the model to /repo is the differential check of harness/c12.py (same strings through
   einx's parser and through the extracted model, result class / site / positions / tree compared)
   and the regenerated literal tables below. *)
From Coq Require Import List NArith ZArith.
From EinxV Require Import Model.Parse Proofs.ParseGen Proofs.ParseProofs Proofs.ParseSim Proofs.ParseSpace.
Import ListNotations.

Theorem C12_tables_tied : map lit_text nary_ops = Gen.GenParseTables.gen_nary_ops.
Proof. exact nary_ops_gen. Qed.
Print Assumptions C12_tables_tied.

Theorem C12_parse_op_total_and_markers_in_text :
  forall text : list N,
    match parse_op text with
    | Ok _ => True
    | Err _ pos => Forall (fun p => (0 <= p < Z.of_nat (length text))%Z) pos
    | Internal _ => False
    end.
Proof. exact parse_op_good. Qed.
Print Assumptions C12_parse_op_total_and_markers_in_text.

Theorem C12_parse_args_total_and_markers_in_text :
  forall text : list N,
    match parse_args text with
    | Ok _ => True
    | Err _ pos => Forall (fun p => (0 <= p < Z.of_nat (length text))%Z) pos
    | Internal _ => False
    end.
Proof. exact parse_args_good. Qed.
Print Assumptions C12_parse_args_total_and_markers_in_text.

Theorem C12_parse_arg_total_and_markers_in_text :
  forall text : list N,
    match parse_arg text with
    | Ok _ => True
    | Err _ pos => Forall (fun p => (0 <= p < Z.of_nat (length text))%Z) pos
    | Internal _ => False
    end.
Proof. exact parse_arg_good. Qed.
Print Assumptions C12_parse_arg_total_and_markers_in_text.

(* Spacing.  A redundant space where a space already separates two tokens changes nothing: for every description
   pre ++ " " ++ post, the description with that space doubled parses to the same tree up to positions (and anonymous-axis
   identifiers), or is rejected at the same place of the parser.  Proof (Proofs/ParseSim.v, 800 lines): the lexer's
   look-ahead stops at a space (lex_app_space), later tokens only shift (lex_shift), the doubled space disappears in
   de-duplication; and no stage of the parser ever looks at a position: token lists with equal kinds give related outcomes
   through grouping, the operator parse, both move-up passes, traverse and the final checks (parse_tokens_sim).
   (The second spacing clause - a space where none was, next to an operator or a delimiter - is the next theorem.) *)
Theorem C12_redundant_space_changes_nothing : forall pre post : list N,
  match parse_op (pre ++ 32%N :: 32%N :: post), parse_op (pre ++ 32%N :: post) with
  | Ok t', Ok t => erase t' = erase t
  | Err site' _, Err site _ => site' = site
  | Internal site', Internal site => site' = site
  | _, _ => False
  end.
Proof. exact redundant_space_same_structure. Qed.
Print Assumptions C12_redundant_space_changes_nothing.

(* A space where none was.  On the delimiter trees that grouping produces (Model/Parse.v: [group]): adding a space token
   next to a '->', ',' or '+' token, or at the beginning / end of the expression or of the inside of a parenthesis or
   bracket - at any nesting depth - changes nothing: same tree up to positions, or an error from the same place.
   [tJ] is exactly that relation between the two forests (Proofs/ParseSpace.v, 420 lines: the operator parse splits at the
   operator and strips the operands, so the space ends up at an end of an operand where [strip] removes it; by induction over
   the operator levels with the invariant that operators already split away do not occur).  The token-level statement follows
   below.  Spaces between a name and a delimiter are a different matter: the notation does NOT allow to add them
   ("a(b)" is an error, "a (b)" is not). *)
Theorem C12_space_next_to_an_operator_changes_nothing : forall (ap' ap : list Z) (ts' ts : list ttree),
  tJ (fun z => z) ts' ts ->
  match (do x <- parse_top ts'; stage2 ap' x), (do x <- parse_top ts; stage2 ap x) with
  | Ok t', Ok t => erase t' = erase t
  | Err site' _, Err site _ => site' = site
  | Internal site', Internal site => site' = site
  | _, _ => False
  end.
Proof. exact space_next_to_operator. Qed.
Print Assumptions C12_space_next_to_an_operator_changes_nothing.

(* The same on token lists (after the de-duplication of spaces, [parse_deduped]): for every token list L ++ R and every
   space token s, if L or R is empty, or the token before the place is '->' ',' '+' '(' '[', or the token after it is
   '->' ',' '+' ')' ']' ([cond L R]), then L ++ s :: R parses like L ++ R.  Through [group]: what it returns is a proper
   forest whose tokens are the input (group_sound_gen), every proper forest is what [group] returns for its tokens
   (group_complete), whether and where it fails depends on the delimiters only (group_bal), and the space can be inserted
   into the forest at the corresponding place (insert_space). *)
Theorem C12_space_token_next_to_an_operator_changes_nothing : forall (ap' ap : list Z) (s : token) (L R : list token),
  is_space s = true -> cond L R ->
  match parse_deduped ap' (L ++ s :: R), parse_deduped ap (L ++ R) with
  | Ok t', Ok t => erase t' = erase t
  | Err site' _, Err site _ => site' = site
  | Internal site', Internal site => site' = site
  | _, _ => False
  end.
Proof. exact space_token_next_to_operator. Qed.
Print Assumptions C12_space_token_next_to_an_operator_changes_nothing.

(* Re-printing.  "Every expression einx accepts can be written back in the notation and re-read" is FALSE of the faithful
   model, hence of the pinned tree (known finding F5): "[[a b]...]" parses, its printed form "[{a b}...]" does not. *)
Theorem C12_reprint_refuted : exists text t,
  parse_op text = Ok t /\ match parse_op (print t) with Ok _ => False | _ => True end.
Proof.
  exists [91; 91; 97; 32; 98; 93; 46; 46; 46; 93]%N.
  eexists. split; [vm_compute; reflexivity|]. vm_compute. exact I.
Qed.
Print Assumptions C12_reprint_refuted.

(* non-vacuity: both non-trivial outcomes occur.  "a (b + c) -> c" parses; "a ) b" is rejected
   with the marker on the stray parenthesis (position 2). *)
Example C12_accepts_somewhere :
  match parse_op [97; 32; 40; 98; 32; 43; 32; 99; 41; 32; 45; 62; 32; 99]%N with Ok _ => True | _ => False end.
Proof. vm_compute. exact I. Qed.
Example C12_rejects_somewhere :
  match parse_op [97; 32; 41; 32; 98]%N with Err _ pos => pos = [2%Z] | _ => False end.
Proof. vm_compute. reflexivity. Qed.
Example C12_spacing_example :
  match parse_op [97; 32; 32; 40; 98; 32; 43; 32; 99; 41]%N, parse_op [97; 32; 40; 98; 32; 43; 32; 99; 41]%N with
  | Ok t', Ok t => erase t' = erase t /\ t' <> t | _, _ => False end.
Proof. vm_compute. split; [reflexivity|discriminate]. Qed.
Example C12_operator_spacing_example :
  (* "a->b,(c+d)" and "a -> b , ( c + d )" *)
  match parse_op [97; 45; 62; 98; 44; 40; 99; 43; 100; 41]%N,
        parse_op [97; 32; 45; 62; 32; 98; 32; 44; 32; 40; 32; 99; 32; 43; 32; 100; 32; 41]%N with
  | Ok t', Ok t => erase t' = erase t | _, _ => False end.
Proof. vm_compute. reflexivity. Qed.

(* Re-printing, bounded.  For EVERY sequence of at most 5 tokens over the alphabet  a b 1 0 ( ) [ ] ... -> , + space |  (579 195
   sequences): if the model accepts it, then either its printed form contains '{' or six dots - the two shapes of known finding F5 -
   or the printed form is accepted again with the same tree up to positions, anonymous-axis identifiers and "((x + y))" =
   "(x + y)".  The domain is finite; the proof evaluates the model on all of it inside Coq (Proofs/ReprintBounded.v) and lifts
   the boolean.  Props/C12Deep.v (thorough tier) holds the same statement for 6 tokens. *)
From EinxV Require Import Proofs.ReprintBounded.
Theorem C12_reprint_is_stable_up_to_5_tokens :
  forall toks : list (list N), (List.length toks <= 5)%nat -> Forall (fun t => In t alphabet) toks ->
  reprint_ok (concat toks) = true.
Proof. apply reprint_bounded. vm_compute. reflexivity. Qed.
Print Assumptions C12_reprint_is_stable_up_to_5_tokens.
