#!/venv/bin/python
"""prints the markdown table of seeded changes and which checks caught them (from seeded/*/meta.json)"""
import glob
import json
import os
import re

V = os.path.dirname(os.path.dirname(os.path.abspath(__file__)))
rows = []
for m in sorted(glob.glob(f"{V}/seeded/*/meta.json")):
    d = json.load(open(m))
    sid = d["seed"]
    patch = open(os.path.join(os.path.dirname(m), "patch.diff")).read()
    files = sorted(set(re.findall(r"^\+\+\+ b/(\S+)", patch, re.M)))
    caught = [f"{p} ({(c.get('tags') or {}).get('kind', 'proof/tie' if c.get('no_failing_input_found') else '?')})" for p, c in d.get("checks", {}).items() if c.get("exit") == 1]
    missed = [p for p, c in d.get("checks", {}).items() if c.get("exit") == 0]
    hist = d.get("history", [])
    earlier_miss = any(any(c.get("exit") == 0 for c in (h.get("checks") or {}).values()) for h in hist)
    rows.append((sid, d.get("breaks_property"), ", ".join(f.replace("einx/_src/", "") for f in files), "; ".join(caught) or "-", ", ".join(missed) or "-",
                 ("yes" if earlier_miss else "") + (" (obsolete: " + d["obsolete"][:60] + "...)" if d.get("obsolete") else "")))
print("| seed | property | file(s) changed | caught by (first violation kind) | not caught by | missed before strengthening |")
print("|---|---|---|---|---|---|")
for r in rows:
    print("| " + " | ".join(str(x) for x in r) + " |")
