#!/venv/bin/python
"""refreshes the generated blocks of DESIGN.md (seed table, fixed-defect list) between their markers"""
import json
import os
import re
import subprocess

V = os.path.dirname(os.path.dirname(os.path.abspath(__file__)))
p = os.path.join(V, "DESIGN.md")
s = open(p).read()
table = subprocess.run([os.path.join(V, "tools", "seedtable.py")], capture_output=True, text=True).stdout.strip()
fixed = "\n".join("* " + f[len("fixed: "):] for f in json.load(open(os.path.join(V, "known_findings.json")))["fixed"])


def block(name, body):
    global s
    b, e = f"<!-- {name}:BEGIN -->", f"<!-- {name}:END -->"
    new = f"{b}\n{body}\n{e}"
    if f"@@{name}@@" in s:
        s = s.replace(f"@@{name}@@", new)
    else:
        s = re.sub(re.escape(b) + r".*?" + re.escape(e), lambda m: new, s, flags=re.S)


block("SEEDTABLE", table)
block("FIXED", fixed)
open(p, "w").write(s)
