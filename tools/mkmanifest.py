#!/venv/bin/python
"""regenerates /verif/MANIFEST.json from the table below (claimed checks) and properties.jsonl"""
import json
import os

V = os.path.dirname(os.path.dirname(os.path.abspath(__file__)))
NOTE = ("Trusted: Coq 8.16.1 kernel, gen/translate.py, extraction (ExtrOcamlBasic) + ocaml/driver.ml, the Python harness; "
        "numpy/sympy/CPython are modelled or assumed, not verified. Theorems are about the Gallina model/spec; the tie to /repo is "
        "the regenerated Gen layer plus a differential correspondence that samples the implementation. ")
CLAIMED = {
    "C01": ("Reference loop semantics of all operation families as executable Gallina index plans (Spec/LoopSem.v) with theorems on the "
            "position arithmetic; Model/Lower.v models the lowering of rearrangements with nested flattened axes (reshape - transpose - "
            "reshape as a term of Model/Opt.v) also with new output axes (alignment + broadcast_to + reshape: output-only axes repeat the value), the alignment of element-wise inputs, the reshape / axis= / rearrangement around a reduction and the operand placement around matmul (with the sum-of-products theorem under a matmul hypothesis), and Props/C01.v proves that they put every element "
            "where the loop notation says, for all expressions and sizes; the graph einx traces for such calls is compared with the model's "
            "term by the extracted, proved-sound equivalence checker; every generated well-formed call of every family is evaluated by the extracted spec and compared with "
            "einx on numpy, numpy.numpylike, numpy.einsum (OperationNotSupportedError is the only other accepted outcome)",
            "proof of spec lemmas + verified lowering model for the rearrangement core + value correspondence against the extracted Coq reference semantics", "DESIGN.md 3/C01"),
    "C08": ("Equivariance theorems on the reference semantics (regrouping for any nesting depth; renaming, permutation) plus metamorphic "
            "relations replayed on the implementation (rename, permute-with-tensor, regroup, id inverse, id composition)",
            "Coq theorems on the spec + metamorphic correspondence", "DESIGN.md 3/C08"),
    "C12": ("Gallina model of the lexer/parser/printer (Model/Parse.v) and theorems for every string of any length (Props/C12.v): parse_op / "
            "parse_args / parse_arg end with a tree or a SyntaxError whose markers index into the caller's string, the source's asserts are "
            "unreachable (induction over the token list, the delimiter stack and the expression tree through all five parser stages); a "
            "doubled space parses to the same tree up to positions or fails at the same place (lexer look-ahead lemma + position-"
            "parametricity of every parser stage, Proofs/ParseSim.v), and so does a space added next to '->' ',' '+' or just inside a "
            "delimiter (on de-duplicated token lists, through grouping, Proofs/ParseSpace.v); the re-print clause is refuted in general by a witness (known finding F5) and proved for every token sequence of at most 5 (thorough: 6) tokens by evaluating the model on the whole finite domain inside Coq; "
            "tied to /repo by regenerated tables and an exhaustive + random differential correspondence against parse_op (class, site, "
            "positions, tree); re-printing of the trees that do print is decided by a direct oracle on the implementation (search step)",
            "Coq proof over a hand-written executable model + generated-table lemmas + differential correspondence", "DESIGN.md 3/C12"),
    "C03": ("Theorem (Props/C03.v): for every string the parser model never reaches an internal failure (assert) - the first stage of every "
            "entry point. The rest of the property (rule layer, solver, argument binding, no backend call before the exception) is decided "
            "by an oracle over single-edit corruptions of generated valid calls and raw strings on every entry point: exception class in the "
            "documented set, no internal exception type, an ndarray subclass counts backend calls before the exception",
            "Coq theorem on the parser model (all strings) + corruption oracle on the implementation for the later stages (sampled, partial)", "DESIGN.md 3/C03"),
}
CLAIMED.update({
    "C14": ("Theorems in Props/C14.v over Spec/UpdateSem.v: every contribution applied exactly once (accumulating duplicates), untouched "
            "elsewhere, set_at leaves a competing value, get_at reads back what a collision-free set_at wrote, and the source's multiplier loop (regenerated into Gen/GenRavel.v) yields the "
            "row-major index, is a bijection between in-bounds coordinate vectors and target elements and addresses the element of the matching slice; the regenerated _join_exprs loop terminates and yields every axis exactly once; einx results on generated *_at/get_at calls with colliding coordinates are compared with the extracted spec",
            "Coq proof on the update semantics + regenerated kernel lemma + value correspondence", "DESIGN.md 3/C14"),
    "C09": ("Finite-table theorems (Props/C09.v, vm_compute over tables regenerated from the source): mutating numpy primitives are wrapped "
            "in-place and reachable from the update_at family only; dynamic snapshot comparison of all arguments over 4 memory layouts, "
            "3 backends, run and graph=True, solve_*/matches",
            "Coq theorems over regenerated tables + snapshot correspondence", "DESIGN.md 3/C09"),
    "C16": ("Order-independence theorem for accumulating updates (and the refutation for set_at) and invariance of the four modelled lowerings under "
            "injective renaming of axes (= another draw of random identifiers) in Props/C16.v; generated calls incl. "
            "deliberately colliding coordinates, tied implicit outputs, short forms and same-type tensor factories executed in fresh processes "
            "under 8/50 PYTHONHASHSEED values in process-dependent order, digests compared",
            "Coq theorem on the only order-sensitive choice point + cross-process digest comparison", "DESIGN.md 3/C16"),
})
CLAIMED.update({
    "C04": ("Machine-checked validator: graph IR with node-by-node symbolic evaluation, straight-line Python subset with symbolic execution, "
            "theorem that symbolic execution equals a concrete store-passing execution for every interpretation of the primitives "
            "(history-dependent calls = mutation), hence agree => the text computes what the graph denotes (Props/C04.v). Every captured "
            "(optimised graph, text) pair is validated by the extracted checker; the text is also exec()-uted and compared with a direct "
            "node-by-node evaluation of the real graph, with einx's own result, and with the cached callable's code object; the generator of variable names inside compile() is regenerated (Gen/GenNames.v) and proved to hand out pairwise different names, never a keyword / builtin / hinted name, without ever running dry, and is executed next to the extracted model",
            "translation validation with a Coq-verified validator + differential execution", "DESIGN.md 3/C04"),
    "C05": ("Term model of the optimiser with numpy's row-major meaning of reshape/transpose; theorems norm_sound / equiv_sound / "
            "merge_transpose / merge_reshape / every-change-shrinks / no rewrite removes, duplicates or reorders a function application (Props/C05.v), rules instantiated from the regenerated Gen/GenOpt.v; "
            "every captured and synthetic (before, after) pair - including adapter graphs with run-time checks and wrapper graphs - is checked by the extracted equivalence checker, evaluated node by node on "
            "data, and compared on its in-place effect events; all permutation pairs up to rank 4/5",
            "Coq proof of the rewrite system + verified equivalence checker on captured pairs + differential evaluation", "DESIGN.md 3/C05"),
    "C17": ("Theorems (Props/C17.v): in the straight-line language every execution performs at most as many calls as there are call sites "
            "in the text; the operation skeletons of the modelled lowerings (rearrangement, element-wise, reduction, dot) depend on axis names only; the n-ary unfolding kernel (regenerated) is polymorphic in its operands; the text returned by graph=True must decode into that language (fail closed) and keep its skeleton under "
            "scaling of all non-unit axis lengths",
            "Coq theorem on the code language + ast/skeleton correspondence under size scaling", "DESIGN.md 3/C17"),
})
CLAIMED.update({
    "C02": ("Verified reference solver (Spec/Solve.v: substitution of known values through products and sums over unbounded positive "
            "integers) with theorems: forced values are the values in every solution, reported contradictions have no solution, a "
            "determined outcome is a solution (Props/C02.v). einx's sympy-based solver is not modelled; it is held inside the envelope: "
            "Det => einx reports exactly these shapes/axes, Contra => RankError/AxisSizeError (matches False), free axis => failure, "
            "two verified solutions differing on a reported quantity => failure, anything reported re-checked against all constraints by the "
            "extracted solver; ellipsis repetition counts through the same solver (rank equations, exhaustive enumeration when undecided); "
            "einx.id with reversed root items as operation-level probe; lengths up to 2**40",
            "Coq-verified reference solver + envelope correspondence on solve_shapes / solve_axes / matches", "DESIGN.md 3/C02"),
    "C10": ("Theorem (Props/C10.v, any number of threads / programs / schedules): if every state-replacing registry method holds the lock "
            "then the completion order is a serial execution with the same results and final state; the lock table is regenerated from "
            "frontend/backend.py; the unlocked pinned behaviour is refuted by a concrete schedule; a memo that publishes key and result together is transparent under every interleaving (the source's memo is functools' only: regenerated), a two-step memo is refuted. A deterministic scheduler (sys.settrace, "
            "pre-emption before every source line of backend.py, lock-aware) replays random schedules of 2-3 real threads and compares "
            "with all serial interleavings evaluated by the extracted registry model; part B runs whole einx calls (first-time tracing, "
            "compilation, cache fill) in 2-3 threads under controlled hand-over points and compares every result with the call executed alone; "
            "part C stops a cached call before every source line of api.py / backend.py while another thread enters / leaves with-blocks (and "
            "vice versa), and stops two first-time calls at every pair of lines of einx functions that assign module-level variables",
            "Coq serialisability proof over an interleaving model + deterministic schedule replay on real threads", "DESIGN.md 3/C10"),
    "C11": ("Specification select (function of argument, with-stack, argument types and the set of available backends) with theorems: "
            "order independence under permutation of the declarations, precedence chain, invalid backends never candidates, and the refinement "
            "theorem: after any declarations meeting the property's hypotheses, for EVERY sequence of imports / with-blocks / lookups the "
            "registry state machine (memo, lazy factories, latch) answers each lookup as select does (Props/C11.v, 700 lines of proof); "
            "Gallina model of BackendRegistryState (memo, lazy factories, latch) compared with fresh real BackendRegistry objects on "
            "random histories with synthetic frameworks, failing factories, imports and nested with-blocks",
            "Coq theorems on the specification + model/implementation correspondence on random histories", "DESIGN.md 3/C11"),
})
CLAIMED.update({
    "C06": ("Theorem (Props/C06.v): with numbers compared together with their type - which Gen/GenFreeze.v reads off lru_cache.py - equal cache "
            "keys are identical frozen arguments, so any outcome that is a function of the frozen arguments is the same for a hit and a miss; "
            "the untyped comparison of the pinned tree is refuted (2 vs 2.0), and so is comparison by type and == alone (0.0 vs -0.0); the placeholders that _to_tracer builds for tensor arguments and the attributes their __eq__ compares are regenerated (Gen/GenTracerKey.v): equal placeholders are identical, the cache over keys of frozen values and placeholders is transparent for every history, and the placeholder model is run against _to_tracer / == on 2025 argument pairs. Histories of calls (ops, solve_*, graph=True, with-blocks, failing "
            "calls of every stage, equal-but-not-identical arguments) run in one process are compared call by call with pristine forked processes",
            "Coq theorems on the cache key incl. tensor placeholders (regenerated comparison) + model/implementation correspondence + warm-vs-pristine differential histories", "DESIGN.md 3/C06"),
    "C07": ("Theorems (Props/C07.v) on the reference semantics: a number is an axis with a name of its own (injective renaming never moves an "
            "element), regrouping with parentheses is irrelevant; on the parser model: doubled spaces change nothing; on the lowering model: "
            "automatic brackets are exactly the axes missing from the output (tied through C01's graph correspondence); every other documented shorthand (implicit output, automatic brackets, "
            "anonymous/named ellipsis, keepdims, adjacent brackets, redundant spaces, rearrange, unit coordinate bracket) is decided by "
            "executing (short, long) pairs derived from generated calls on identical data",
            "Coq theorems on the spec + pairwise short/long correspondence", "DESIGN.md 3/C07"),
})
CLAIMED.update({
    "C13": ("Theorems (Props/C13.v) over the kernel regenerated from namedtensor_calltensorfactory.py: only name/arg_index/signature are "
            "offered, a factory without **kwargs receives only keywords it declares, with **kwargs all; histories with recording factories "
            "of six signature kinds at every subset of positions check: one invocation per execution (first, cached, other signature), the "
            "resolved shape as tuple of ints, equality with passing the produced tensor, never for graph=True or rejected calls, wrong "
            "type/shape fails; the traced program is evaluated node by node by the extracted model: exactly one call of every factory input",
            "Coq theorems over a regenerated kernel + recording-factory histories + extracted node-by-node evaluation of the traced program", "DESIGN.md 3/C13"),
    "C15": ("Theorems (Props/C15.v) over kernels regenerated from _expr_to_axis and _make_iskwarg: axis= is exactly the ascending list of bracket positions; every keyword-only parameter (with or without default) is the function's and nothing else is; "
            "recording user functions under adapt_numpylike_reduce / adapt_numpylike_elementwise: value vs the extracted reference plan with "
            "the user function as elementary operation, received arguments vs the documentation, keyword-only forwarding (also on cache "
            "hits), axis/keyword clash, wrong type/shape/arity returns",
            "Coq theorems over a regenerated kernel + value/argument correspondence with recording user functions", "DESIGN.md 3/C15"),
})
EXTRA_NOTES = {"C15": "adapt_with_vmap is not exercised: no framework offering vmap is importable in this sandbox (stated in DESIGN.md). ", "C10": "Partial: pre-emption inside C code (functools.cache, dict operations) and the tracing/compilation part of a call are not scheduled; only the registry methods are. ",
               "C03": "Partial: only the stage-1 parser is covered by a theorem; rule layer, solver and binding errors are sampled by the corruption oracle. ",
               "C11": "The theorem is about the Gallina state machine; it is tied to backend.py by the history correspondence (sampled). "}


def main():
    props = [json.loads(l) for l in open(os.path.join(V, "properties.jsonl"))]
    man = {
        "version": 1,
        "setup_cmd": "cd /verif && ./setup.sh",
        "hooks": {"guard": "EINX_VERIF",
                  "enable": "no source hooks: the harness wraps einx from the outside (EINX_VERIF=1 is exported by the harness, no source file reads it)",
                  "baseline_off_cmd": "cd /repo && /venv/bin/python -m pytest -ra -q -p no:cacheprovider --timeout=900 --continue-on-collection-errors",
                  "source_commits": [], "add_only": True},
        "engines": [{"name": "coq-einxmodel", "path": "/verif/check", "serves_properties": sorted(CLAIMED),
                     "kind_free_text": "Coq 8.16.1 development (spec + model + theorems) + fail-closed ast translator + extracted OCaml model run "
                                       "against /repo by a Python correspondence harness"}],
        "checks": [], "not_applicable": [],
        "notes": "see DESIGN.md; known findings and fixed defects in known_findings.json",
    }
    for p in props:
        pid = p["id"]
        if pid in CLAIMED:
            text, tech, ref = CLAIMED[pid]
            man["checks"].append({
                "property_id": pid, "quick_cmd": f"./check {pid} --tier quick", "thorough_cmd": f"./check {pid} --tier thorough",
                "evidence_file": f"/verif/evidence/{pid}.json", "replay_cmd_template": f"./check {pid} --replay {{path}}",
                "engine": "coq-einxmodel", "level_claimed": {"category": "proof", "text": text, "design_ref": ref},
                "level_note": NOTE + EXTRA_NOTES.get(pid, ""), "technique": tech})
        else:
            man["not_applicable"].append({"property_id": pid, "reason": "check not built yet in this revision (work in progress; DESIGN.md section 5)"})
    json.dump(man, open(os.path.join(V, "MANIFEST.json"), "w"), indent=1)


main()
