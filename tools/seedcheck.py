#!/venv/bin/python
"""confirm a seeded change (scratch worktree: demo fails with it, passes without, suite passes with it) and run checks against it.
usage: seedcheck.py <srcdir> <seed_id> <prop> [more props...]   (srcdir holds patch.diff, demo.py, notes.md)"""
import json
import os
import shutil
import subprocess
import sys
import time

src, sid, props = sys.argv[1], sys.argv[2], sys.argv[3:]
V = "/verif"
wt = f"/tmp/seedwt_{sid}"
PY = "/venv/bin/python"


def sh(cmd, cwd=None, timeout=1800, env=None):
    p = subprocess.run(cmd, shell=True, cwd=cwd, capture_output=True, text=True, timeout=timeout, env=env)
    return p.returncode, (p.stdout + p.stderr)


meta = {"seed": sid, "breaks_property": props[0], "source": "independent sub-agent given only the property text and a scratch worktree"}
old_meta = None
if os.environ.get("SKIP_CONFIRM") and os.path.exists(f"{V}/seeded/{sid}/meta.json"):
    old_meta = json.load(open(f"{V}/seeded/{sid}/meta.json"))
    src = f"{V}/seeded/{sid}"
sh(f"git -C /repo worktree remove --force {wt}")
env = dict(os.environ, PYTHONPATH=wt, PYTHONHASHSEED="0")
if old_meta is not None and old_meta.get("confirmed"):
    for k in ("patch_applies", "demo_with_change", "suite_with_change", "demo_without_change", "needs"):
        if k in old_meta:
            meta[k] = old_meta[k]
    meta["history"] = old_meta.get("history", []) + [{"checks": old_meta.get("checks")}]
else:
  rc, out = sh(f"git -C /repo worktree add --detach {wt} HEAD")
  try:
      rc, out = sh(f"git apply {src}/patch.diff", cwd=wt)
      meta["patch_applies"] = rc == 0
      rc, out = sh(f"{PY} {src}/demo.py", cwd=wt, env=env, timeout=600)
      meta["demo_with_change"] = "fails" if rc != 0 else "passes"
      rc, out = sh(f"{PY} -m pytest -q -p no:cacheprovider --timeout=900 -x", cwd=wt, env=env)
      tail = [l for l in out.splitlines() if "passed" in l or "failed" in l]
      meta["suite_with_change"] = tail[-1] if tail else out[-200:]
      sh("git checkout -- .", cwd=wt)
      rc, out = sh(f"{PY} {src}/demo.py", cwd=wt, env=env, timeout=600)
      meta["demo_without_change"] = "fails" if rc != 0 else "passes"
  finally:
      sh(f"git -C /repo worktree remove --force {wt}")
meta["confirmed"] = bool(meta.get("patch_applies") and meta["demo_with_change"] == "fails" and meta["demo_without_change"] == "passes"
                         and "passed" in meta["suite_with_change"] and "failed" not in meta["suite_with_change"])
try:
    meta["needs"] = open(f"{src}/notes.md").read()[:1500]
except OSError:
    pass
dst = f"{V}/seeded/{sid}"
os.makedirs(dst, exist_ok=True)
for f in ("patch.diff", "demo.py", "notes.md"):
    if os.path.exists(f"{src}/{f}") and os.path.abspath(src) != os.path.abspath(dst):
        shutil.copy(f"{src}/{f}", dst)
# run the checks against the change applied to /repo itself, then undo
meta["checks"] = {}
if meta["confirmed"]:
    for p in props:                       # evidence files must keep describing the unchanged tree
        if os.path.exists(f"{V}/evidence/{p}.json"):
            shutil.copy(f"{V}/evidence/{p}.json", f"/tmp/seedcheck_evidence_{p}.json")
    rc, out = sh(f"git -C /repo apply {src}/patch.diff")
    try:
        for p in props:
            t0 = time.time()
            rc, out = sh(f"./check {p} --tier quick", cwd=V, timeout=3000)
            viol = [l for l in out.splitlines() if l.startswith("VIOLATION")]
            meta["checks"][p] = {"exit": rc, "violation_lines": len(viol), "no_failing_input_found": any("no-failing-input-found" in l for l in viol),
                                 "first": viol[0] if viol else None, "wall_s": round(time.time() - t0, 1)}
            # keep one replay as record
            if viol:
                rp = viol[0].split("replay=")[1].split()[0]
                try:
                    d = json.load(open(rp))
                    meta["checks"][p]["tags"] = d.get("tags")
                except Exception:
                    pass
    finally:
        sh("git -C /repo checkout -- .")
        for p in props:
            sh(f"rm -rf {V}/replays/{p}")
            if os.path.exists(f"/tmp/seedcheck_evidence_{p}.json"):
                shutil.move(f"/tmp/seedcheck_evidence_{p}.json", f"{V}/evidence/{p}.json")
meta["what_was_run"] = "scratch worktree: git apply; demo.py; pytest suite; revert; demo.py. Then: git -C /repo apply; ./check <prop> --tier quick; git -C /repo checkout -- ."
json.dump(meta, open(f"{dst}/meta.json", "w"), indent=1)
print(sid, "confirmed" if meta["confirmed"] else "NOT CONFIRMED", {k: (v["exit"], v.get("tags")) for k, v in meta["checks"].items()})
