#!/venv/bin/python
"""usage: coqappend.py <file.v> <marker> < text   -- inserts stdin before the LAST occurrence of the marker line"""
import sys
p, marker = sys.argv[1], sys.argv[2]
s = open(p).read()
i = s.rindex(marker)
s = s[:i] + sys.stdin.read() + "\n" + s[i:]
open(p, "w").write(s)
