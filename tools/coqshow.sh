#!/bin/bash
# usage: coqshow.sh <file.v> <line>  -- show the proof state after the given line
f=$1; n=$2
head -n $n $f > /tmp/_show.v
echo "Show. " >> /tmp/_show.v
cd /verif/coq && timeout 600 coqc -q -Q theories EinxV /tmp/_show.v 2>&1 | grep -v "^File\|Warning\|unused\|^\[" | tail -${3:-60}
rm -f /tmp/_show.v /tmp/_show.vo /tmp/_show.glob /tmp/._show.aux
