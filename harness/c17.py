"""C17 - generated code is loop-free and size-generic.

For every generated call the text returned with graph=True is (a) parsed with `ast` and checked
against the straight-line grammar (imports, assignments, expression statements, asserts, one
`def` per graph with a final return; expressions without comprehensions / conditionals /
lambdas), and (b) produced again at other axis-length assignments with the same 1-pattern
(named axes scaled by 2 or 3 each); the texts must be equal after masking integer literals."""
import ast
import json
import re

import numpy as np

from . import common, gencalls, implrun, irser
from .c08 import clone

ALLOWED_STMT = (ast.Import, ast.ImportFrom, ast.Assign, ast.Expr, ast.Assert, ast.FunctionDef, ast.Return, ast.AugAssign)
FORBIDDEN = (ast.For, ast.While, ast.If, ast.IfExp, ast.ListComp, ast.SetComp, ast.DictComp, ast.GeneratorExp, ast.Lambda, ast.Try, ast.With,
             ast.AsyncFor, ast.AsyncWith, ast.AsyncFunctionDef, ast.ClassDef, ast.Match, ast.Yield, ast.YieldFrom, ast.Await, ast.NamedExpr)


def grammar_violations(text):
    try:
        tree = ast.parse(text)
    except SyntaxError as e:
        return [f"does not parse: {e}"]
    bad = []
    for n in ast.walk(tree):
        if isinstance(n, FORBIDDEN):
            bad.append(type(n).__name__)
        if isinstance(n, ast.stmt) and not isinstance(n, ALLOWED_STMT):
            bad.append("stmt:" + type(n).__name__)
    return bad


def skeleton(text):
    return re.sub(r"(?<![A-Za-z_])\d+", "N", text)


def n_calls(text):
    return sum(1 for n in ast.walk(ast.parse(text)) if isinstance(n, ast.Call))


def scaled(c, rng):
    d = clone(c)
    f = {}
    for t in d.ins + d.outs:
        for l in gencalls.leaves(t):
            if not l.number and l.size != 1:
                f.setdefault(l.name, rng.choice([2, 3, 4]))
                l.size = c.all_axes()[l.name] * f[l.name]
    d.arrays = []
    for t, a in zip(d.ins, c.arrays):
        sh = gencalls.shape_of(t)
        if int(np.prod(sh)) > 200000:
            return None
        d.arrays.append(np.zeros(sh, dtype=np.asarray(a).dtype))
    if "shift" in d.extra_kwargs:
        pass
    d.desc = c.desc
    return d


def reordered(c, rng):
    """the same call with axis lengths whose ORDER is reversed: the longest axis becomes the shortest and so on (non-unit axes get
    pairwise different lengths), so that no comparison of two lengths comes out as before"""
    d = clone(c)
    names = sorted({l.name for t in d.ins + d.outs for l in gencalls.leaves(t) if not l.number and l.size != 1}, key=lambda n: (c.all_axes()[n], n))
    if len(names) < 2:
        return None
    new_sizes = list(range(2, 2 + len(names)))[::-1]            # ranks reversed, all different
    f = dict(zip(names, new_sizes))
    for t in d.ins + d.outs:
        for l in gencalls.leaves(t):
            if l.name in f:
                l.size = f[l.name]
    d.arrays = []
    for t, a in zip(d.ins, c.arrays):
        sh = gencalls.shape_of(t)
        if int(np.prod(sh)) > 200000:
            return None
        d.arrays.append(np.zeros(sh, dtype=np.asarray(a).dtype))
    if c.family in ("get_at", "update_at", "argfind") or "shift" in d.extra_kwargs:
        pass
    d.desc = c.desc
    return d


def _work(item):
    c, variants = item
    out = []
    for b in implrun.BACKENDS:
        r = implrun.run_call(c, b, graph=True)
        if r[0] == "exc":
            continue
        text = r[1]
        bad = grammar_violations(text)
        if not bad:
            try:
                irser.ser_code(text)          # the decoder of Model/Ir.v's straight-line language (Props/C17.v speaks about it)
            except irser.NotStraightLine as e:
                bad = ["not in the modelled subset: " + str(e)]
        if bad:
            out.append(({"kind": "not_straight_line", "backend": b, "family": c.family, "nodes": ",".join(sorted(set(bad)))},
                        {"call": c.record(), "code": text}))
            continue
        for d in variants:
            r2 = implrun.run_call(d, b, graph=True)
            if r2[0] == "exc":
                out.append(({"kind": "scaled_call_fails", "backend": b, "family": c.family, "exc": r2[1]},
                            {"call": c.record(), "scaled": d.record(), "message": r2[3]}))
                continue
            if skeleton(r2[1]) != skeleton(text):
                out.append(({"kind": "skeleton_differs", "backend": b, "family": c.family, "op": c.op},
                            {"call": c.record(), "scaled": d.record(), "code": text, "code_scaled": r2[1],
                             "calls": [n_calls(text), n_calls(r2[1])]}))
    return out


def run(ctx):
    import einx  # noqa: F401
    n = 300 if ctx.tier == "quick" else 10000
    k = 2 if ctx.tier == "quick" else 5
    items = []
    fam = {}
    extra = ["update_at"] * (n // 4) + ["get_at"] * (n // 10)       # the families whose lowering has the most intermediate layout decisions
    for k_ in range(n + len(extra)):
        c = gencalls.gen_call(ctx.rng) if k_ < n else gencalls.gen_call(ctx.rng, extra[k_ - n])
        vs = [v for v in [scaled(c, ctx.rng) for _ in range(k)] + [reordered(c, ctx.rng)] if v is not None]
        items.append((c, vs))
        fam[c.family] = fam.get(c.family, 0) + 1
        ctx.distinct.add(c.op + "|" + c.desc)
    res = common.pmap(_work, items)
    for viol in res:
        for tags, payload in viol:
            ctx.report(tags, payload)
    for c, vs in items[:4]:
        ctx.sample({"call": c.record(), "scaled_shapes": [v.record()["shapes"] for v in vs]})
    ctx.coverage.update({
        "evaluations": sum(1 + len(vs) for _, vs in items) * len(implrun.BACKENDS),
        "rule": "generated calls x 3 backends: ast grammar check of the graph=True text + skeleton equality at scaled sizes "
                "(same 1-pattern); distinct_nontrivial = distinct (op, description)",
        "input_distribution": {"family": fam, "scalings_per_call": k},
    })


def replay(ctx, path):
    data = json.load(open(path))
    print(json.dumps({k: data.get(k) for k in ("tags", "call", "scaled")}, indent=1)[:3000])
    print(data.get("code"))
    print(data.get("code_scaled"))
    print(f"VIOLATION property=C17 replay={path}")
    return 1
