"""C11 - backend selection follows the documented precedence and is stable.

Random registry histories (declarations in random order, eager or on-import, healthy or failing
factories; then module imports, nested with-blocks and lookups with all argument forms) are run
on fresh BackendRegistry objects with synthetic backends and tensor classes, and on the extracted
Gallina model of BackendRegistryState (Model/Registry.v); every lookup outcome, the with-stack and
the registered names must agree.  Props/C11.v relates the model to the specification [select]."""
import json
import sys
import types

import numpy as np

from . import common
from .common import sx

NUMPY_MOD = 1          # module id of numpy (always imported)
NAMES = {0: "numpy"}


def gen_history(rng):
    nfw = rng.randint(1, 3)
    fws = [NUMPY_MOD] + [2 + i for i in range(nfw)]
    backends = []
    bid = 0
    for fw in fws:
        k = rng.randint(1, 3)
        for j in range(k):
            name = 0 if (fw == NUMPY_MOD and j == 0) else 10 * fw + j
            valid = rng.random() < 0.85
            prio = rng.choice([-5, -1, 0, 0, 1, 5]) if fw != NUMPY_MOD else rng.choice([-5, -5, -1])
            backends.append({"id": bid, "name": name, "prio": prio if valid else 0, "fw": fw, "valid": valid, "decl_prio": prio})
            bid += 1
    imported0 = {NUMPY_MOD} | {fw for fw in fws[1:] if rng.random() < 0.4}
    decls = list(backends)
    rng.shuffle(decls)
    ops = []
    mods = sorted(imported0)
    for b in decls:
        if b["valid"] and b["fw"] in imported0 and rng.random() < 0.3:
            ops.append(["register", b])
        else:
            ops.append(["register_on_import", b["fw"], b])
    imported = set(imported0)
    depth = 0
    n = rng.randint(3, 25)
    for _ in range(n):
        r = rng.random()
        if r < 0.15:
            m = rng.choice(fws + [50, 51])          # 50, 51: modules nobody waits for
            ops.append(["import", m])
            imported.add(m)
        elif r < 0.25:
            # a backend *object* exists only if its factory succeeded: only healthy backends can be entered or passed
            healthy = [b for b in backends if b["valid"]]
            if not healthy:
                continue
            ops.append(["enter", rng.choice(healthy)])
            depth += 1
        elif r < 0.35 and depth > 0:
            ops.append("exit")
            depth -= 1
        else:
            a = rng.random()
            if a < 0.6:
                arg = "none"
            elif a < 0.8:
                arg = ["name", rng.choice([b["name"] for b in backends] + [0, 999])]
            elif a < 0.95 and any(b["valid"] for b in backends):
                arg = ["obj", rng.choice([b for b in backends if b["valid"]])]
            else:
                arg = "bad"
            avail = [fw for fw in fws if fw in imported]
            k = rng.randint(0, 3)
            tys = []
            for _ in range(k):
                tys.append("scalar" if rng.random() < 0.25 else ["t", rng.choice(avail)])
            ops.append(["lookup", arg, tys])
    while depth > 0:
        ops.append("exit")
        depth -= 1
    return {"mods": mods, "ops": ops, "backends": backends}


def wire(h):
    def wb(b):
        return ["b", b["id"], b["name"], b["prio"], b["fw"], bool(b["valid"])]

    out = []
    for o in h["ops"]:
        if o == "exit":
            out.append("exit")
        elif o[0] == "register":
            out.append(["register", wb(o[1])])
        elif o[0] == "register_on_import":
            out.append(["register_on_import", o[1], wb(o[2])])
        elif o[0] == "import":
            out.append(["import", o[1]])
        elif o[0] == "enter":
            out.append(["enter", wb(o[1])])
        elif o[0] == "exitb":
            out.append(["exitb", wb(o[1])])
        else:
            a = o[1]
            if isinstance(a, list) and a[0] == "obj":
                a = ["obj", wb(a[1])]
            out.append(["lookup", a, o[2]])
    return ["registry_run", [h["mods"], out]]


def modname(m):
    return "numpy" if m == NUMPY_MOD else f"einxverif_fakemod_{m}"


def bname(n):
    return NAMES.get(n, f"backend{n}")


def run_impl(h):
    """-> list of results per op (same shape as the model's)"""
    import einx._src.frontend.backend as B
    from einx.errors import BackendResolutionError, ImportBackendError
    reg = B.BackendRegistry()
    classes = {}

    def cls(fw):
        if fw == NUMPY_MOD:
            return np.ndarray
        return classes.setdefault(fw, type(f"T{fw}", (), {}))

    objs = {}

    def obj(b):
        if b["id"] not in objs:
            c = cls(b["fw"])
            objs[b["id"]] = B.Backend(ops={}, name=bname(b["name"]), priority=b["decl_prio"], optimizations=[], compiler=None,
                                      is_supported_tensor=lambda t, c=c: isinstance(t, c), get_shape=None)
        return objs[b["id"]]

    fake = [modname(m) for m in range(2, 60)]
    for f in fake:
        sys.modules.pop(f, None)
    for m in h["mods"]:
        if m != NUMPY_MOD:
            sys.modules[modname(m)] = types.ModuleType(modname(m))
    res = []
    try:
        for o in h["ops"]:
            if o == "exit":
                try:
                    reg.exit(reg.state.use_stack[-1] if reg.state.use_stack else None)
                    res.append("none")
                except (AssertionError, IndexError):
                    res.append("assert")
            elif o[0] == "register":
                reg.register(obj(o[1]))
                res.append("none")
            elif o[0] == "register_on_import":
                b = o[2]
                if b["valid"]:
                    reg.register_on_import(modname(o[1]), bname(b["name"]), lambda b=b: obj(b))
                else:
                    def boom():
                        raise RuntimeError("factory fails")
                    reg.register_on_import(modname(o[1]), bname(b["name"]), boom)
                res.append("none")
            elif o[0] == "import":
                sys.modules[modname(o[1])] = types.ModuleType(modname(o[1]))
                res.append("none")
            elif o[0] == "enter":
                reg.enter(obj(o[1]))
                res.append("none")
            else:
                a = o[1]
                if a == "none":
                    arg = None
                elif a == "bad":
                    arg = 3.5
                elif a[0] == "name":
                    arg = bname(a[1])
                else:
                    arg = obj(a[1])
                tensors = []
                for t in o[2]:
                    if t == "scalar":
                        tensors.append(1)
                    elif t[1] == NUMPY_MOD:
                        tensors.append(np.zeros(2))
                    else:
                        tensors.append(cls(t[1])())
                try:
                    b = reg.get(arg, tensors)
                    try:
                        b.raise_on_import_failure()
                        res.append(["backend", b.name, "usable"])
                    except ImportBackendError:
                        res.append(["backend", b.name, "ImportBackendError"])
                except ValueError:
                    res.append("ValueError")
                except BackendResolutionError:
                    res.append("BackendResolutionError")
                except BaseException as e:  # noqa: BLE001
                    res.append("INTERNAL:" + type(e).__name__)
        final = [[b.name for b in reversed(reg.state.use_stack)], sorted(reg.state.name_to_backend.keys())]
    finally:
        for f in fake:
            sys.modules.pop(f, None)
    return res, final


def _work(h):
    try:
        return run_impl(h)
    except BaseException as e:  # noqa: BLE001
        return ("crash", type(e).__name__ + ": " + str(e)[:200])


def compare(h, impl, model):
    byid = {b["id"]: b for b in h["backends"]}
    if impl[0] == "crash":
        return ({"kind": "harness_crash"}, {"history": h, "detail": impl[1]})
    res, final = impl
    mres = model[0]
    for k, (a, m) in enumerate(zip(res, mres)):
        if isinstance(m, list) and m[0] == "backend":
            b = byid[int(m[1])]
            exp = ["backend", bname(b["name"]), "usable" if b["valid"] else "ImportBackendError"]
        else:
            exp = m
        if a != exp:
            return ({"kind": "lookup_differs_from_model", "impl": a if isinstance(a, str) else a[0], "model": exp if isinstance(exp, str) else exp[0]},
                    {"history": h, "op_index": k, "op": h["ops"][k], "impl": a, "model": exp})
    mstack = [bname(byid[int(i)]["name"]) for i in model[1]]
    mnames = sorted({bname(int(n)) for n in model[2]})
    if final[0] != mstack or final[1] != mnames:
        return ({"kind": "final_state_differs"}, {"history": h, "impl": final, "model": [mstack, mnames]})
    return None


def real_trio_cases():
    """the three real numpy backends: name in the graph text / backend.name for all argument forms"""
    import einx
    out = []
    x = np.zeros((2, 3))
    for arg, exp in [(None, "numpy"), ("numpy", "numpy"), ("numpy.numpylike", "numpy.numpylike"), ("numpy.einsum", "numpy.einsum")]:
        b = einx.backend.get(arg, [x]) if hasattr(einx, "backend") and hasattr(einx.backend, "get") else None
        if b is not None:
            out.append((arg, b.name, exp))
    return out


def _api_history(seed):
    """the public surface (with einx.backend.get(..):, backend=, calls) in a process of its own: a framework whose backend factory
    fails is registered; nested with-blocks are left normally or through an exception; after every step the innermost active
    block decides, a selected failed backend raises ImportBackendError whatever the arguments are, everything else stays usable"""
    import random
    import einx
    from einx._src.frontend.backend import registry
    rng = random.Random(seed)
    out = []
    mod = f"brokenfw{seed}"
    sys.modules[mod] = types.ModuleType(mod)

    def failing_factory():
        raise RuntimeError(mod + " is too old")
    registry.register_on_import(mod, mod, failing_factory)

    class Foreign:                          # a tensor of the broken framework
        __module__ = mod

        def __init__(self, shape):
            self.shape = shape
    x = np.arange(6, dtype=np.float64).reshape(2, 3)
    healthy = ["numpy", "numpy.numpylike", "numpy.einsum"]
    stack = []                              # names of the active blocks, innermost last (the specification)

    # a healthy framework of low priority next to numpy: numpy arrays and scalars (Python or numpy ones) defer to it
    import einx._src.frontend.backend as B
    low = f"lowfw{seed}"
    sys.modules[low] = types.ModuleType(low)

    class LowTensor:
        __module__ = low
    low_prio = rng.choice([-2, -3, 0, 1])
    registry.register_on_import(low, low, lambda: B.Backend(ops={}, name=low, priority=low_prio, optimizations=[], compiler=None,
                                                            is_supported_tensor=lambda t: isinstance(t, LowTensor), get_shape=None))

    def defer_check():
        other = rng.choice([x, 1.5, 2, np.float32(2), x.sum(), x[0, 0], np.int64(3), True])
        # the numpy backends (priority -1) accept numpy arrays only: next to a scalar of any kind the other framework is the one candidate;
        # next to an array the higher priority decides
        both = "numpy" if (isinstance(other, np.ndarray) and low_prio < -1) else low
        for tensors, want in (([LowTensor(), other], both), ([other, LowTensor()], both), ([other], "numpy")):
            try:
                got = einx.backend.get(None, tensors).name
            except BaseException as e:  # noqa: BLE001
                got = "raises " + type(e).__name__
            if not stack and got != want:
                out.append(({"kind": "api_numpy_values_do_not_defer", "next_to": type(other).__name__, "selected": got},
                            {"seed": seed, "arguments": [type(t).__name__ for t in tensors], "expected": want}))

    def executing_backend_check():
        # which backend executes is what was selected - whatever was selected for the same operation before
        b = rng.choice(healthy)
        y = np.arange(12, dtype=np.float64).reshape(3, 4)
        try:
            text = einx.dot("a b, b c -> a c", x, y, backend=b, graph=True)
            ok = ("np.matmul" in text) == (b == "numpy.numpylike") and ("np.einsum" in text) == (b != "numpy.numpylike")
        except BaseException as e:  # noqa: BLE001
            text, ok = "raises " + type(e).__name__, False
        if not ok:
            out.append(({"kind": "api_operation_executed_by_another_backend", "selected": b}, {"seed": seed, "code": text[:300]}))
        # every public entry point hands the backend argument on - the deprecated alias einx.rearrange too
        import warnings
        with warnings.catch_warnings():
            warnings.simplefilter("ignore")
            try:
                t1 = einx.rearrange("a b -> b a", x, backend=b, graph=True)
            except BaseException as e:  # noqa: BLE001
                t1 = "raises " + type(e).__name__
            try:
                t2 = einx.id("a b -> b a", x, backend=b, graph=True)
            except BaseException as e:  # noqa: BLE001
                t2 = "raises " + type(e).__name__
            try:
                einx.rearrange("a b -> b a", x, backend="no_such_backend")
                t3 = "returns"
            except BaseException as e:  # noqa: BLE001
                t3 = type(e).__name__
        if t1 != t2 or t3 != "ValueError":
            out.append(({"kind": "api_entry_point_ignores_the_backend_argument", "selected": b, "unknown_name": t3}, {"seed": seed, "rearrange": str(t1)[:200], "id": str(t2)[:200]}))
        try:
            einx.flip("a [b]", x, backend=b)
            got = "ok"
        except BaseException as e:  # noqa: BLE001
            got = type(e).__name__
        want = "OperationNotSupportedError" if b == "numpy.einsum" else "ok"
        if got != want:
            out.append(({"kind": "api_operation_executed_by_another_backend", "selected": b, "flip": got}, {"seed": seed, "expected": want}))

    class Boom(Exception):
        pass

    def check(where):
        want = stack[-1] if stack else "numpy"
        try:
            got = einx.backend.get(None, [x]).name
        except BaseException as e:  # noqa: BLE001
            got = "raises " + type(e).__name__
        if got != want:
            out.append(({"kind": "api_innermost_block_not_used", "after": where}, {"seed": seed, "stack": list(stack), "selected": got, "expected": want}))
        try:
            r = einx.sum("a [b]", x)
            ok = np.allclose(np.asarray(r), x.sum(axis=1))
        except BaseException as e:  # noqa: BLE001
            ok = "raises " + type(e).__name__
        if ok is not True:
            out.append(({"kind": "api_call_fails_under_healthy_backends", "after": where}, {"seed": seed, "stack": list(stack), "outcome": str(ok)}))

    def body(depth):
        for _ in range(rng.randint(1, 3)):
            r = rng.random()
            if r < 0.45 and depth < 3:
                name = rng.choice(healthy)
                leave = rng.choice(["normally", "normally", "by_exception"])
                try:
                    with einx.backend.get(name):
                        stack.append(name)
                        check("enter")
                        body(depth + 1)
                        if leave == "by_exception":
                            stack.pop()
                            raise Boom()
                        stack.pop()
                except Boom:
                    pass
                check("leave_" + leave)
            elif r < 0.75:
                # the failed backend is selected explicitly: by name or by object, for arguments of any kind
                arg = rng.choice([x, Foreign((2, 3)), 1.5, [[1.0, 2.0, 3.0]], "text"])
                how = rng.choice(["name", "object"])
                try:
                    b = mod if how == "name" else einx.backend.get(mod)
                    einx.sum("a [b]", arg, backend=b)
                    got = "returns"
                except BaseException as e:  # noqa: BLE001
                    got = type(e).__name__
                if got != "ImportBackendError":
                    out.append(({"kind": "api_failed_backend_selected", "argument": type(arg).__name__, "outcome": got, "by": how}, {"seed": seed, "stack": list(stack)}))
                check("failed_backend_call")
            elif r < 0.85:
                defer_check()
            elif r < 0.95:
                executing_backend_check()
            else:
                check("lookup")
    try:
        body(0)
        if len(registry.state.use_stack) != 0:
            out.append(({"kind": "api_with_stack_not_empty_at_the_end"}, {"seed": seed, "left": [b.name for b in registry.state.use_stack]}))
    except BaseException as e:  # noqa: BLE001
        out.append(({"kind": "api_history_crashes", "exc": type(e).__name__}, {"seed": seed, "detail": str(e)[:300], "stack": list(stack)}))
    return out


def run(ctx):
    import einx  # noqa: F401
    n = 400 if ctx.tier == "quick" else 20000
    hs = [gen_history(ctx.rng) for _ in range(n)]
    impl = common.pmap(_work, hs)
    model = ctx.model.batch([sx(wire(h)) for h in hs])
    nlook = 0
    outcomes = {}
    for h, a, m in zip(hs, impl, model):
        if m and m[0] in ("BADCASE", "DRIVERFAIL"):
            ctx.tie_breaks.append({"correspondence": "registry history decoding", "model": m})
            continue
        d = compare(h, a, m)
        if d is not None:
            ctx.report(*d)
        if a[0] != "crash":
            for r in a[0]:
                if r != "none":
                    nlook += 1
                    k = r if isinstance(r, str) else r[2]
                    outcomes[k] = outcomes.get(k, 0) + 1
        ctx.distinct.add(json.dumps(h["ops"], sort_keys=True)[:2000])
    try:
        for arg, got, exp in real_trio_cases():
            if got != exp:
                ctx.report({"kind": "real_backend_selection"}, {"arg": arg, "got": got, "expected": exp})
    except BaseException as e:  # noqa: BLE001
        ctx.report({"kind": "real_backend_selection_raises", "exc": type(e).__name__}, {"detail": str(e)[:300]})
    api_seeds = [ctx.rng.randrange(10 ** 6) for _ in range(40 if ctx.tier == "quick" else 2000)]
    for viol in common.pmap(_api_history, api_seeds):
        for tags, payload in viol:
            ctx.report(tags, payload)
    for h in hs[:3]:
        ctx.sample({"mods": h["mods"], "ops": h["ops"][:12]})
    ctx.coverage.update({
        "evaluations": nlook, "traces_validated_against_impl": len(hs),
        "rule": "random registry histories (1-3 synthetic frameworks beside numpy, 1-3 backends each, priorities with ties, eager/lazy, "
                "failing factories, imports, nested with-blocks, lookups by object/name/tensors/invalid argument); evaluations = lookups compared; "
                "distinct_nontrivial = distinct operation sequences",
        "input_distribution": {"histories": len(hs), "lookup_outcomes": outcomes, "api_level_histories": len(api_seeds)},
    })


def replay(ctx, path):
    data = json.load(open(path))
    h = data.get("history")
    if h is None:
        print(json.dumps(data)[:2000])
        return 1
    import einx  # noqa: F401
    impl = _work(h)
    model = ctx.model.batch([sx(wire(h))])[0]
    d = compare(h, impl, model)
    print("implementation:", impl)
    print("model:", model)
    if d is not None:
        print(d[0])
        print(f"VIOLATION property=C11 replay={path}")
        return 1
    return 0
