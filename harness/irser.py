"""Serialisers: real tracer graphs and generated Python text -> wire form of Model/Ir.v;
capture of (graph before optimisation, graph after, generated text) from real einx calls;
a direct node-by-node evaluator of real graphs (the oracle of C04's search step)."""
import ast
import builtins
import importlib
import operator

import numpy as np


class Unsupported(Exception):
    pass


def s_str(s):
    return ["s"] + [b for b in s.encode("utf-8")]


def s_ostr(s):
    return "none" if s is None else s_str(s)


# ------------------------------------------------------------------ graphs
class GraphSer:
    def __init__(self, graph):
        import einx._src.tracer as tracer
        self.tracer = tracer
        self.py = tracer.signature.python
        self.graph = graph
        self.ids = {}
        self.nodes = []
        self.inputs = list(graph.inputs) if isinstance(graph, tracer.Graph) else []

    def nid(self, key):
        return self.ids.setdefault(key, len(self.ids))

    def path_in(self, tree, x):
        if tree is x:
            return []
        if isinstance(tree, (list, tuple)):
            for i, t in enumerate(tree):
                p = self.path_in(t, x)
                if p is not None:
                    return [i] + p
        if isinstance(tree, dict):
            raise Unsupported("dict-valued application output")
        return None

    def val(self, x):
        tracer, py = self.tracer, self.py
        if isinstance(x, tracer.Tracer):
            if x.origin is None:
                for k, inp in enumerate(self.inputs):
                    if inp is x:
                        key = ("in", k)
                        if key not in self.ids:
                            self.nodes.append([self.nid(key), ["input", k]])
                        return ["r", self.ids[key]]
                raise Unsupported("tracer without origin that is not a graph input")
            o = x.origin
            key = ("app", id(o))
            if key not in self.ids:
                i = self.nid(key)
                self.nodes.append([i, self.app(o)])
            p = self.path_in(o.output, x)
            if p is None:
                raise Unsupported("tracer not found in its origin's output")
            return ["r", self.ids[key]] + p
        if isinstance(x, bool) or isinstance(x, np.bool_):
            return ["b", bool(x)]
        if isinstance(x, (int, np.integer)):
            return ["i", int(x)]
        if isinstance(x, (float, np.floating)):
            return ["f"] + s_str(repr(float(x)))[1:]
        if isinstance(x, str):
            return s_str(x)
        if x is None:
            return "none"
        if isinstance(x, (tuple, list)) and len(x) > 0 and all(isinstance(i, tracer.Tracer) and i.origin is not None for i in x):
            # the complete list/tuple output of one application, passed on as a whole (eta rule, as in CodeObject._to_key)
            o = x[0].origin
            if type(o.output) is type(x) and len(o.output) == len(x) and all(a is b for a, b in zip(o.output, x)):
                self.val(x[0])
                return ["r", self.ids[("app", id(o))]]
        if isinstance(x, tuple):
            return ["tup"] + [self.val(i) for i in x]
        if isinstance(x, list):
            return ["lst"] + [self.val(i) for i in x]
        if isinstance(x, dict):
            return ["dct"] + [[self.val(k), self.val(v)] for k, v in x.items()]
        if isinstance(x, slice):
            return ["slc", self.val(x.start), self.val(x.stop), self.val(x.step)]
        if isinstance(x, tracer.Graph):
            raise Unsupported("nested graph")
        raise Unsupported(f"value of type {type(x).__name__}")

    def key(self, k):
        # item keys are compared as tuples on both sides (x[i] and x[(i,)] print alike)
        return self.val(k if isinstance(k, tuple) else (k,))

    def app(self, o):
        py, tracer = self.py, self.tracer
        kw = lambda d: [[s_str(k), self.val(v)] for k, v in d.items()]  # noqa: E731
        if isinstance(o, py.Call):
            return ["call", self.val(o.function), [self.val(a) for a in o.args], kw(o.kwargs)]
        if isinstance(o, py.CallInplace):
            return ["callinplace", self.val(o.xs), self.val(o.function), [self.val(a) for a in o.args], kw(o.kwargs)]
        if isinstance(o, py.GetAttr):
            return ["getattr", self.val(o.obj), s_str(o.key)]
        if isinstance(o, py.GetItem):
            return ["getitem", self.val(o.obj), self.key(o.key)]
        if isinstance(o, py.UpdateItem):
            return ["updateitem", self.val(o.obj), self.key(o.key), self.val(o.value), s_str(o.op)]
        if isinstance(o, py.Import):
            return ["import", s_str(o.import_), s_ostr(o.from_)]
        if isinstance(o, py.OperatorApplication):
            return ["op", s_str(o.operator), [self.val(a) for a in o.operands]]
        if isinstance(o, py.Builtin):
            return ["builtin", s_str(o.name)]
        if isinstance(o, py.Assert):
            return ["assert", self.val(o.xs), self.val(o.condition), s_ostr(o.message)]
        if isinstance(o, py.Constant):
            return "constant"
        if isinstance(o, tracer.Cast):
            return ["cast", self.val(o.input)]
        raise Unsupported(f"application {type(o).__name__}")

    def run(self):
        out = self.val(self.graph.output if isinstance(self.graph, self.tracer.Graph) else self.graph)
        return ["graph", self.nodes, out]


def ser_graph(graph):
    return GraphSer(graph).run()


# ------------------------------------------------------------------ generated text
class NotStraightLine(Exception):
    pass


OPS = {ast.Add: "+", ast.Sub: "-", ast.Mult: "*", ast.Eq: "==", ast.NotEq: "!=", ast.Lt: "<", ast.LtE: "<=", ast.Gt: ">", ast.GtE: ">=",
       ast.USub: "-", ast.UAdd: "+", ast.Not: "not"}


def x_expr(e):
    if isinstance(e, ast.Name):
        return ["v", s_str(e.id)]
    if isinstance(e, ast.Constant):
        v = e.value
        if isinstance(v, bool):
            return ["b", v]
        if isinstance(v, int):
            return ["i", v]
        if isinstance(v, float):
            return ["f"] + s_str(repr(v))[1:]
        if isinstance(v, str):
            return s_str(v)
        if v is None:
            return "none"
        raise NotStraightLine(f"constant {type(v).__name__}")
    if isinstance(e, ast.Tuple):
        return ["tup"] + [x_expr(i) for i in e.elts]
    if isinstance(e, ast.List):
        return ["lst"] + [x_expr(i) for i in e.elts]
    if isinstance(e, ast.Dict):
        return ["dct"] + [[x_expr(k), x_expr(v)] for k, v in zip(e.keys, e.values)]
    if isinstance(e, ast.Slice):
        f = lambda z: "none" if z is None else x_expr(z)  # noqa: E731
        return ["slc", f(e.lower), f(e.upper), f(e.step)]
    if isinstance(e, ast.Attribute):
        return ["attr", x_expr(e.value), s_str(e.attr)]
    if isinstance(e, ast.Subscript):
        k = e.slice
        k = x_expr(k) if isinstance(k, ast.Tuple) else ["tup", x_expr(k)]
        return ["item", x_expr(e.value), k]
    if isinstance(e, ast.BinOp) and type(e.op) in OPS:
        return ["op", s_str(OPS[type(e.op)]), [x_expr(e.left), x_expr(e.right)]]
    if isinstance(e, ast.Compare) and len(e.ops) == 1 and type(e.ops[0]) in OPS:
        return ["op", s_str(OPS[type(e.ops[0])]), [x_expr(e.left), x_expr(e.comparators[0])]]
    if isinstance(e, ast.UnaryOp) and type(e.op) in OPS:
        if isinstance(e.operand, ast.Constant) and isinstance(e.operand.value, (int, float)) and isinstance(e.op, ast.USub):
            return x_expr(ast.Constant(value=-e.operand.value))
        return ["op", s_str(OPS[type(e.op)]), [x_expr(e.operand)]]
    if isinstance(e, ast.Call):
        if any(isinstance(a, ast.Starred) for a in e.args) or any(k.arg is None for k in e.keywords):
            raise NotStraightLine("starred call")
        return ["call", x_expr(e.func), [x_expr(a) for a in e.args], [[s_str(k.arg), x_expr(k.value)] for k in e.keywords]]
    raise NotStraightLine(type(e).__name__)


def x_stmt(s):
    if isinstance(s, ast.Assign) and len(s.targets) == 1:
        t = s.targets[0]
        if isinstance(t, ast.Name):
            return ["assign", s_str(t.id), x_expr(s.value)]
        if isinstance(t, ast.Subscript):
            it = x_expr(t)
            return ["aug", it[1], it[2], s_str("="), x_expr(s.value)]
    if isinstance(s, ast.AugAssign) and isinstance(s.target, ast.Subscript) and type(s.op) in (ast.Add, ast.Sub):
        it = x_expr(s.target)
        return ["aug", it[1], it[2], s_str("+=" if isinstance(s.op, ast.Add) else "-="), x_expr(s.value)]
    if isinstance(s, ast.Expr):
        return ["expr", x_expr(s.value)]
    if isinstance(s, ast.Assert):
        m = s.msg
        if m is not None and not (isinstance(m, ast.Constant) and isinstance(m.value, str)):
            raise NotStraightLine("assert message")
        return ["assert", x_expr(s.test), s_ostr(None if m is None else m.value)]
    if isinstance(s, ast.Import) and len(s.names) == 1:
        a = s.names[0]
        return ["import", s_str(a.name), "none", s_str(a.asname or a.name)]
    if isinstance(s, ast.ImportFrom) and len(s.names) == 1 and s.level == 0:
        a = s.names[0]
        return ["import", s_str(a.name), s_str(s.module), s_str(a.asname or a.name)]
    raise NotStraightLine("statement " + type(s).__name__)


def ser_code(text):
    """-> ['code', pre, params, body, ret]; raises NotStraightLine"""
    tree = ast.parse(text)
    pre = []
    fn = None
    for s in tree.body:
        if isinstance(s, ast.FunctionDef):
            if fn is not None:
                raise NotStraightLine("several function definitions")
            fn = s
        elif fn is None:
            pre.append(x_stmt(s))
        else:
            raise NotStraightLine("statement after the function definition")
    if fn is None:
        # a call that compiles to a bare (backend) function: "op = np.take"
        if pre and pre[-1][0] == "assign":
            return ["code", pre, [], [], ["v", pre[-1][1]]]
        raise NotStraightLine("no function definition in the text")
    a = fn.args
    if a.vararg or a.kwarg or a.kwonlyargs or a.defaults or a.posonlyargs:
        raise NotStraightLine("non-positional parameters")
    if not fn.body or not isinstance(fn.body[-1], ast.Return) or fn.body[-1].value is None:
        raise NotStraightLine("function does not end in a return")
    body = [x_stmt(s) for s in fn.body[:-1]]
    return ["code", pre, [s_str(p.arg) for p in a.args], body, x_expr(fn.body[-1].value)]


# ------------------------------------------------------------------ capture
class Capture:
    """context manager recording (before, after, text, function) for every graph compiled inside"""

    def __init__(self):
        self.records = []

    def __enter__(self):
        import einx._src.tracer as tracer
        self.tracer = tracer
        self.orig_opt = tracer.optimize
        self.orig_compile = tracer.compiler.python.compile
        cur = {}

        def optimize(x, optimizations):
            cur["before"] = x
            r = self.orig_opt(x, optimizations)
            cur["after"] = r
            cur["optimizations"] = optimizations
            return r

        def compile(obj, return_code=False):  # noqa: A001
            r = self.orig_compile(obj, return_code=True)
            rec = {"graph": obj, "before": cur.get("before"), "function": r[0], "text": r[1], "optimizations": cur.get("optimizations")}
            if cur.get("after") is not obj:
                rec["before"] = None
            self.records.append(rec)
            cur.clear()
            return r if return_code else r[0]

        tracer.optimize = optimize
        tracer.compiler.python.compile = compile
        return self

    def __exit__(self, *a):
        self.tracer.optimize = self.orig_opt
        self.tracer.compiler.python.compile = self.orig_compile


# ------------------------------------------------------------------ direct evaluation of a real graph
NAME_TO_OP = {"+": operator.add, "*": operator.mul, "-": operator.sub, "==": operator.eq, "!=": operator.ne, "<": operator.lt,
              "<=": operator.le, ">": operator.gt, ">=": operator.ge}


def direct_eval(graph, args):
    """evaluate the traced graph node by node (every application once, demand driven); returns (result, log of calls)"""
    import einx._src.tracer as tracer
    py = tracer.signature.python
    memo = {}
    log = []
    is_graph = isinstance(graph, tracer.Graph)
    if is_graph:
        for inp, a in zip(graph.inputs, args):
            memo[id(inp)] = a

    def setout(tree, conc):
        if isinstance(tree, tracer.Tracer):
            memo[id(tree)] = conc
        elif isinstance(tree, (list, tuple)):
            for t, c in zip(tree, conc):
                setout(t, c)

    def ev(x):
        if isinstance(x, tracer.Tracer):
            if id(x) in memo:
                return memo[id(x)]
            o = x.origin
            if o is None:
                raise Unsupported("unbound input")
            if isinstance(o, py.Call):
                f = ev(o.function)
                a = [ev(i) for i in o.args]
                k = {n: ev(v) for n, v in o.kwargs.items()}
                log.append(getattr(f, "__name__", str(f)))
                setout(o.output, f(*a, **k))
            elif isinstance(o, py.CallInplace):
                xs = ev(o.xs)
                f = ev(o.function)
                a = [ev(i) for i in o.args]
                k = {n: ev(v) for n, v in o.kwargs.items()}
                log.append(getattr(f, "__name__", str(f)))
                f(*a, **k)
                setout(o.output, xs)
            elif isinstance(o, py.GetAttr):
                setout(o.output, getattr(ev(o.obj), o.key))
            elif isinstance(o, py.GetItem):
                setout(o.output, ev(o.obj)[ev(o.key)])
            elif isinstance(o, py.UpdateItem):
                obj, key, val = ev(o.obj), ev(o.key), ev(o.value)
                if o.op == "=":
                    obj[key] = val
                elif o.op == "+=":
                    obj[key] += val
                else:
                    obj[key] -= val
                setout(o.output, obj)
            elif isinstance(o, py.Import):
                m = importlib.import_module(o.from_ if o.from_ is not None else o.import_)
                setout(o.output, getattr(m, o.import_) if o.from_ is not None else m)
            elif isinstance(o, py.OperatorApplication):
                ops = [ev(i) for i in o.operands]
                setout(o.output, NAME_TO_OP[o.operator](*ops) if len(ops) == 2 else -ops[0])
            elif isinstance(o, py.Builtin):
                setout(o.output, getattr(builtins, o.name))
            elif isinstance(o, py.Assert):
                xs = ev(o.xs)
                assert ev(o.condition), o.message
                setout(o.output, xs)
            elif isinstance(o, py.Constant):
                setout(o.output, o.value)
            elif isinstance(o, tracer.Cast):
                setout(o.output, ev(o.input))
            else:
                raise Unsupported(type(o).__name__)
            return memo[id(x)]
        if isinstance(x, tracer.Graph):
            return closure(x)
        if isinstance(x, list):
            return [ev(i) for i in x]
        if isinstance(x, tuple):
            return tuple(ev(i) for i in x)
        if isinstance(x, dict):
            return {ev(k): ev(v) for k, v in x.items()}
        if isinstance(x, slice):
            return slice(ev(x.start), ev(x.stop), ev(x.step))
        return x

    def closure(sub):
        """a nested graph as a Python function: what it reads from the enclosing graph is evaluated now, once (in the enclosing
        order of evaluation); its own nodes are evaluated at every call"""
        own = {id(i) for i in sub.inputs}
        dep = {}

        def children(o):
            for v in vars(o).values():
                yield v

        def depends(x):
            if isinstance(x, tracer.Tracer):
                if id(x) in own:
                    return True
                if id(x) not in dep:
                    dep[id(x)] = False
                    dep[id(x)] = x.origin is not None and any(depends(c) for c in children(x.origin) if c is not x.origin.output)
                return dep[id(x)]
            if isinstance(x, (list, tuple)):
                return any(depends(i) for i in x)
            if isinstance(x, dict):
                return any(depends(k) or depends(v) for k, v in x.items())
            if isinstance(x, tracer.Graph):
                return depends(x.output)
            return False

        def force(x):
            if isinstance(x, tracer.Tracer):
                if id(x) in own:
                    return
                if not depends(x):
                    ev(x)
                elif x.origin is not None:
                    for c in children(x.origin):
                        if c is not x.origin.output:
                            force(c)
            elif isinstance(x, (list, tuple)):
                for i in x:
                    force(i)
            elif isinstance(x, dict):
                for k, v in x.items():
                    force(k)
                    force(v)
        force(sub.output)

        def fn(*a):
            saved = dict(memo)
            try:
                for inp, v in zip(sub.inputs, a):
                    memo[id(inp)] = v
                return ev(sub.output)
            finally:
                keep = {k: memo[k] for k in saved}
                memo.clear()
                memo.update(keep)
        fn.__name__ = "nested"
        return fn

    if not is_graph:
        return ev(graph)(*args), log
    return ev(graph.output), log


# ------------------------------------------------------------------ term view for the optimiser model (Model/Opt.v)
def fn_name(t):
    """dotted numpy name of a function tracer (np.add.at -> 'add.at'), or None"""
    import einx._src.tracer as tracer
    py = tracer.signature.python
    parts = []
    while isinstance(t, tracer.Tracer) and isinstance(t.origin, py.GetAttr):
        parts.append(t.origin.key)
        t = t.origin.obj
    if isinstance(t, tracer.Tracer) and isinstance(t.origin, py.Import) and t.origin.import_ == "numpy" and parts:
        return ".".join(reversed(parts))
    return None


def ser_term(graph, root=None):
    """tensor-valued part of a real graph as a term of Model/Opt.v (sharing unfolded, casts dropped).
    Raises Unsupported when the output is not a single tensor expression."""
    import einx._src.tracer as tracer
    py = tracer.signature.python
    cl = tracer.signature.classical

    def lit(x):
        if isinstance(x, (list, tuple)):
            return "[" + ",".join(lit(i) for i in x) + "]"
        if isinstance(x, (int, np.integer, float, str, bool)) or x is None:
            return repr(x)
        if isinstance(x, dict):
            return "{" + ",".join(f"{k}:{lit(v)}" for k, v in x.items()) + "}"
        raise Unsupported("literal " + type(x).__name__)

    def shape_of(x):
        if isinstance(x, (cl.Tensor, cl.ConvertibleTensor)) and x.shape is not None:
            return [int(s) for s in x.shape]
        return None

    def term(x, shape):
        """x: tracer; shape: statically known shape from an enclosing cast (or None)"""
        if not isinstance(x, tracer.Tracer):
            raise Unsupported("non-tracer tensor argument")
        sh = shape_of(x) or shape
        o = x.origin
        if o is None:
            for k, inp in enumerate(graph.inputs):
                if inp is x:
                    return ["in", k, sh if sh is not None else []]
            raise Unsupported("free tracer")
        if isinstance(o, tracer.Cast):
            if isinstance(o.output, (list, tuple)):
                idx = [i for i, t in enumerate(o.output) if t is x][0]
                inner = term(o.input, None)
                return ["other", s_str("getitem"), [inner], [s_str(str(idx))], sh if sh is not None else []]
            return term(o.input, sh)
        if isinstance(o, py.Call):
            name = fn_name(o.function)
            args = o.args
            if name == "reshape" and len(args) == 2 and not o.kwargs:
                return ["reshape", term(args[0], None), [int(s) for s in args[1]]]
            if name == "transpose" and len(args) == 2 and not o.kwargs:
                return ["transpose", term(args[0], None), [int(s) for s in args[1]]]
            if name == "broadcast_to" and len(args) == 2 and not o.kwargs:
                return ["broadcast", term(args[0], None), [int(s) for s in args[1]]]
            if name == "concatenate" and isinstance(args[0], (list, tuple)) and all(isinstance(t, tracer.Tracer) for t in args[0]):
                return ["concat", [term(t, None) for t in args[0]], int(o.kwargs.get("axis", 0))]
            targs, lits = [], []
            for a in list(args) + [v for _, v in sorted(o.kwargs.items())]:
                if isinstance(a, tracer.Tracer) and not isinstance(a.origin, (py.Import, py.GetAttr, py.Builtin, py.Constant)):
                    targs.append(term(a, None))
                elif isinstance(a, (list, tuple)) and a and all(isinstance(t, tracer.Tracer) for t in a):
                    targs.extend(term(t, None) for t in a)
                    lits.append(s_str(f"<{len(a)} tensors>"))
                elif isinstance(a, tracer.Tracer):
                    lits.append(s_str(fn_name(a) or "<obj>"))
                else:
                    lits.append(s_str(lit(a)))
            lits.append(s_str("kw:" + ",".join(sorted(o.kwargs))))
            return ["other", s_str(name or "<fn>"), targs, lits, sh if sh is not None else []]
        if isinstance(o, py.CallInplace):
            inner = term(o.xs, None)
            return ["other", s_str("inplace:" + (fn_name(o.function) or "?")), [inner] + [term(a, None) for a in o.args[1:] if isinstance(a, tracer.Tracer)], [], sh if sh is not None else []]
        if isinstance(o, py.GetItem):
            return ["other", s_str("getitem"), [term(o.obj, None)], [s_str(lit_key(o.key))], sh if sh is not None else []]
        if isinstance(o, py.Assert):
            p = GraphSer(graph).path_in(o.output, x)
            xs = o.xs
            for i in (p or []):
                xs = xs[i]
            return term(xs, sh)
        raise Unsupported("application " + type(o).__name__)

    def lit_key(k):
        import einx._src.tracer as tracer2
        if isinstance(k, tuple):
            return "(" + ",".join(lit_key(i) for i in k) + ")"
        if isinstance(k, slice):
            return f"{lit_key(k.start)}:{lit_key(k.stop)}:{lit_key(k.step)}"
        if isinstance(k, tracer2.Tracer):
            return "<t>"
        return repr(k)

    out = graph.output if root is None else root
    if isinstance(out, (list, tuple)):
        return [term(t, None) for t in out]
    return [term(out, None)]
