"""C04 - generated source is a faithful, self-contained compilation of the traced graph.

Every (optimised graph, generated text) pair captured from real calls is (1) translated to the
wire form of Model/Ir.v and given to the machine-checked validator [agree] (symbolic node-by-node
evaluation of the graph vs symbolic execution of the text: same ordered effect events, same
result term - hence equal under every interpretation of the primitives, CodeSemProofs.v);
(2) the text is exec()-uted in an empty namespace and run on the real data: its result and its
effect on the arguments must equal a direct node-by-node evaluation of the real graph and einx's
own result; (3) the code object of the cached callable must equal the re-executed text's."""
import json

import numpy as np

from . import common, gencalls, implrun, irser
from .common import sx


def capture_call(c, backend):
    """-> (records, outcome) for one call executed under capture"""
    with irser.Capture() as cap:
        r = implrun.run_call(c, backend)
    return cap.records, r


def code_fingerprint(f):
    co = f.__code__
    return (co.co_code, tuple(repr(x) for x in co.co_consts), co.co_names, co.co_varnames)


def _work(c):
    out = []
    for b in implrun.BACKENDS:
        recs, r = capture_call(c, b)
        for rec in recs:
            item = {"backend": b, "text": rec["text"], "n_records": len(recs)}
            g = rec["graph"]
            try:
                item["graph_wire"] = irser.ser_graph(g)
            except irser.Unsupported as e:
                item["unsupported"] = str(e)
            try:
                item["code_wire"] = irser.ser_code(rec["text"])
            except irser.NotStraightLine as e:
                item["not_straight_line"] = str(e)
            # (2) real execution of the text vs direct evaluation of the graph
            try:
                ns = {}
                exec(rec["text"], ns, ns)                     # noqa: S102 - the property is about exactly this text
                fn = ns.get("op") or ns.get("op_")
                if fn is None:
                    item["exec"] = "text defines no function 'op'"
                else:
                    a1 = [np.array(a) for a in c.arrays]
                    a2 = [np.array(a) for a in c.arrays]
                    r1 = fn(*a1)
                    r2, _ = irser.direct_eval(g, a2)
                    same = _same(r1, r2) and all(np.array_equal(x, y) for x, y in zip(a1, a2))
                    if r[0] == "ok":
                        same = same and _same(r1, tuple(r[1]) if len(r[1]) > 1 else r[1][0])
                    item["exec"] = "ok" if same else "differs"
                    if not same:
                        item["exec_detail"] = {"text_result": _tolist(r1), "graph_result": _tolist(r2), "einx_result": _tolist(r[1]) if r[0] == "ok" else r[1]}
                    item["same_code_object"] = (fn is rec["function"]) or (hasattr(fn, "__code__") and hasattr(rec["function"], "__code__") and code_fingerprint(fn) == code_fingerprint(rec["function"]))
            except irser.Unsupported as e:
                item["exec"] = "unsupported: " + str(e)
            except BaseException as e:  # noqa: BLE001
                item["exec"] = "raised " + type(e).__name__ + ": " + str(e)[:200]
            out.append(item)
    return out


def _tolist(r):
    if isinstance(r, (tuple, list)):
        return [_tolist(x) for x in r]
    return np.asarray(r).tolist()


def _same(a, b):
    if isinstance(a, (tuple, list)) or isinstance(b, (tuple, list)):
        return isinstance(a, (tuple, list)) and isinstance(b, (tuple, list)) and len(a) == len(b) and all(_same(x, y) for x, y in zip(a, b))
    a, b = np.asarray(a), np.asarray(b)
    return a.shape == b.shape and (np.array_equal(a, b) or (a.dtype.kind == "f" and np.allclose(a, b, equal_nan=True)))


def run(ctx):
    import einx  # noqa: F401
    n = 300 if ctx.tier == "quick" else 8000
    cases = [gencalls.gen_call(ctx.rng) for _ in range(n)]
    res = common.pmap(_work, cases)
    items = [(c, it) for c, its in zip(cases, res) for it in its]
    lines, owners = [], []
    stats = {"pairs": 0, "validated": 0, "unsupported": 0, "executed": 0, "events": 0}
    for c, it in items:
        stats["pairs"] += 1
        if "not_straight_line" in it:
            ctx.report({"kind": "text_not_in_straight_line_subset", "family": c.family, "backend": it["backend"], "why": it["not_straight_line"]},
                       {"call": c.record(), "code": it["text"]})
            continue
        if "unsupported" in it:
            stats["unsupported"] += 1
            continue
        lines.append(sx(["ir_agree", [it["graph_wire"], it["code_wire"]]]))
        owners.append((c, it))
    out = ctx.model.batch(lines)
    for (c, it), r in zip(owners, out):
        if r[0] == "agree" and r[1] == "T":
            stats["validated"] += 1
            stats["events"] += int(r[2])
        else:
            ctx.report({"kind": "validator_rejects", "family": c.family, "op": c.op, "backend": it["backend"], "verdict": r[0]},
                       {"call": c.record(), "code": it["text"], "validator": r[:6], "graph_wire": it["graph_wire"]})
        ctx.distinct.add(it["text"])
    for c, it in items:
        ex = it.get("exec")
        if ex is None or ex.startswith("unsupported"):
            continue
        stats["executed"] += 1
        if ex != "ok":
            ctx.report({"kind": "text_execution_" + ("differs" if ex == "differs" else "fails"), "family": c.family, "op": c.op, "backend": it["backend"]},
                       {"call": c.record(), "code": it["text"], "detail": it.get("exec_detail", ex), "inputs": [np.asarray(a).tolist() for a in c.arrays]})
        elif it.get("same_code_object") is False:
            ctx.report({"kind": "text_is_not_the_executed_code", "family": c.family, "backend": it["backend"]}, {"call": c.record(), "code": it["text"]})
    for c, it in items[:3]:
        ctx.sample({"call": c.record(), "backend": it["backend"], "code": it["text"]})
    ctx.coverage.update({
        "evaluations": stats["pairs"],
        "programs": stats["pairs"],
        "rule": "one (graph, text) pair per generated call and backend, captured by wrapping tracer.optimize / compiler.python.compile; "
                "distinct_nontrivial = distinct generated texts accepted by the validator",
        "input_distribution": stats,
    })


def replay(ctx, path):
    data = json.load(open(path))
    print(json.dumps({k: data.get(k) for k in ("tags", "call", "validator", "detail")}, indent=1)[:3000])
    print(data.get("code"))
    print(f"VIOLATION property=C04 replay={path}")
    return 1
