"""C04 - generated source is a faithful, self-contained compilation of the traced graph.

Every (optimised graph, generated text) pair captured from real calls is (1) translated to the
wire form of Model/Ir.v and given to the machine-checked validator [agree] (symbolic node-by-node
evaluation of the graph vs symbolic execution of the text: same ordered effect events, same
result term - hence equal under every interpretation of the primitives, CodeSemProofs.v);
(2) the text is exec()-uted in an empty namespace and run on the real data: its result and its
effect on the arguments must equal a direct node-by-node evaluation of the real graph and einx's
own result; (3) the code object of the cached callable must equal the re-executed text's."""
import json
import os
import re

import numpy as np

from . import common, gencalls, implrun, irser
from .common import sx


def capture_call(c, backend):
    """-> (records, outcome) for one call executed under capture"""
    with irser.Capture() as cap:
        r = implrun.run_call(c, backend)
    return cap.records, r


def code_fingerprint(f):
    def fp(co):
        # nested function definitions appear as code objects among the constants (their repr holds an address)
        return (co.co_code, tuple(fp(x) if hasattr(x, "co_code") else repr(x) for x in co.co_consts), co.co_names, co.co_varnames)
    return fp(f.__code__)


def count_ops_text(text):
    """operator evaluations written in the text (a negative numeric literal is a literal)"""
    import ast
    n = 0
    for e in ast.walk(ast.parse(text)):
        if isinstance(e, (ast.BinOp, ast.Compare, ast.BoolOp)):
            n += 1
        elif isinstance(e, ast.UnaryOp) and not (isinstance(e.op, ast.USub) and isinstance(e.operand, ast.Constant)):
            n += 1
    return n


def count_ops_graph(g):
    """operator applications that the graph's output depends on (each is one value), nested graphs included"""
    import einx._src.tracer as tracer
    py = tracer.signature.python
    seen, ops, stack = set(), 0, [g]
    while stack:
        x = stack.pop()
        if isinstance(x, (str, int, float, bool, np.integer, np.floating)) or x is None or id(x) in seen:
            continue
        seen.add(id(x))
        if isinstance(x, tracer.Graph):
            stack.append(x.output)
        elif isinstance(x, tracer.Tracer):
            o = x.origin
            if o is not None and id(o) not in seen:
                seen.add(id(o))
                ops += isinstance(o, py.OperatorApplication)
                stack.extend(o.inputs)
        elif isinstance(x, (list, tuple)):
            stack.extend(x)
        elif isinstance(x, dict):
            stack.extend(list(x.keys()) + list(x.values()))
        elif isinstance(x, slice):
            stack.extend([x.start, x.stop, x.step])
    return ops


def _count_ops(item, text, g):
    try:
        item["ops_text"], item["ops_graph"] = count_ops_text(text), count_ops_graph(g)
    except BaseException as e:  # noqa: BLE001
        item["ops_count_error"] = type(e).__name__ + ": " + str(e)[:200]


def _work(c):
    out = []
    for b in implrun.BACKENDS:
        recs, r = capture_call(c, b)
        if r[0] == "exc" and ("failed to compile" in r[3] or r[1] == "INTERNAL:Exception"):
            out.append({"backend": b, "text": "", "compile_error": r[1] + ": " + r[3], "n_records": 0})
        for rec in recs:
            item = {"backend": b, "text": rec["text"], "n_records": len(recs)}
            g = rec["graph"]
            _count_ops(item, rec["text"], g)
            try:
                item["graph_wire"] = irser.ser_graph(g)
            except irser.Unsupported as e:
                item["unsupported"] = str(e)
            try:
                item["code_wire"] = irser.ser_code(rec["text"])
            except irser.NotStraightLine as e:
                item["not_straight_line"] = str(e)
            # (2) real execution of the text vs direct evaluation of the graph
            try:
                ns = {}
                exec(rec["text"], ns, ns)                     # noqa: S102 - the property is about exactly this text
                fn = ns.get("op") or ns.get("op_")
                if fn is None:
                    item["exec"] = "text defines no function 'op'"
                else:
                    a1 = [np.array(a) for a in c.arrays]
                    a2 = [np.array(a) for a in c.arrays]
                    r1 = fn(*a1)
                    r2, _ = irser.direct_eval(g, a2)
                    same = _same(r1, r2) and all(np.array_equal(x, y) for x, y in zip(a1, a2))
                    if r[0] == "ok":
                        same = same and _same(r1, tuple(r[1]) if len(r[1]) > 1 else r[1][0])
                    item["exec"] = "ok" if same else "differs"
                    if not same:
                        item["exec_detail"] = {"text_result": _tolist(r1), "graph_result": _tolist(r2), "einx_result": _tolist(r[1]) if r[0] == "ok" else r[1]}
                    item["same_code_object"] = (fn is rec["function"]) or (hasattr(fn, "__code__") and hasattr(rec["function"], "__code__") and code_fingerprint(fn) == code_fingerprint(rec["function"]))
            except irser.Unsupported as e:
                item["exec"] = "unsupported: " + str(e)
            except BaseException as e:  # noqa: BLE001
                item["exec"] = "raised " + type(e).__name__ + ": " + str(e)[:200]
            out.append(item)
    return out


def _tolist(r):
    if isinstance(r, (tuple, list)):
        return [_tolist(x) for x in r]
    return np.asarray(r).tolist()


def _same(a, b):
    if isinstance(a, (tuple, list)) or isinstance(b, (tuple, list)):
        return isinstance(a, (tuple, list)) and isinstance(b, (tuple, list)) and len(a) == len(b) and all(_same(x, y) for x, y in zip(a, b))
    a, b = np.asarray(a), np.asarray(b)
    return a.shape == b.shape and (np.array_equal(a, b) or (a.dtype.kind == "f" and np.allclose(a, b, equal_nan=True)))


class Syn:
    """stand-in for a generated call in reports about synthetic graphs"""

    def __init__(self, desc):
        self.family, self.op, self.desc = "synthetic", "graph", desc
        self.arrays = []

    def record(self):
        return {"family": "synthetic", "op": "graph", "desc": self.desc}


def synthetic_graph(rng):
    """random well-formed graph over the IR node types: calls, operators (nested), getattr, getitem, tuple/list/dict arguments,
    builtins, casts, asserts, in-place calls on private copies, values used 0/1/many times, up to ~70 temporaries"""
    import einx._src.tracer as tracer
    py = tracer.signature.python
    np_ = py.import_("numpy", as_="np")
    nin = rng.randint(1, 3)
    inputs = [py.Value(None) for _ in range(nin)]
    pool = list(inputs)            # array-valued tracers, all of shape (4,)
    desc = []
    nsteps = rng.choice([3, 6, 10, 20, 35, 50, 70])
    for _ in range(nsteps):
        r = rng.random()
        a, b = rng.choice(pool), rng.choice(pool)
        if r < 0.22:
            v = py.call(py.getattr(np_, rng.choice(["add", "multiply", "subtract", "maximum"])), [a, b])
            desc.append("call")
        elif r < 0.42:
            c = rng.choice(pool)
            inner = py.operator(rng.choice(["+", "*", "-"]), a, b)                 # nested operators: (a op b) op c
            v = py.operator(rng.choice(["+", "*", "-"]), inner, c) if rng.random() < 0.6 else py.operator(rng.choice(["+", "*"]), c, inner)
            desc.append("nested_op")
        elif r < 0.5:
            v = py.call(py.getattr(np_, "stack"), [[a, b]], {"axis": 0})
            v = py.getitem(v, rng.randint(0, 1))
            desc.append("list_arg_getitem")
        elif r < 0.57:
            t = py.call(py.getattr(np_, "broadcast_arrays"), [a, b])
            t = tracer.cast(t, lambda origin: [py.Value(origin), py.Value(origin)])   # tuple unpacking through a cast
            v = py.operator("+", t[0], t[1])
            desc.append("multi_output")
        elif r < 0.63:
            sh = py.getattr(py.operator("+", a, b), "shape")                          # attribute of an operator expression
            v = py.call(py.getattr(np_, "reshape"), [a, py.builtins.tuple(sh)])
            desc.append("getattr_of_op")
        elif r < 0.7:
            cond = py.equal(py.builtins.len(a), 4)
            v = py.assert_(a, cond, "length check")
            desc.append("assert")
        elif r < 0.8:
            q = rng.random()
            cp = py.call(py.getattr(np_, "copy"), [a]) if q < 0.6 else (py.getitem(a, [rng.randint(0, 3) for _ in range(4)]) if q < 0.8 else py.operator("*", a, 2))
            v = py.call_inplace(cp, py.getattr(np_, "put"), [cp, rng.randint(0, 3), rng.randint(1, 9)])
            desc.append("inplace" if q < 0.6 else "inplace_on_temporary")
        elif r < 0.87:
            q = rng.random()
            if q < 0.5:
                cp = py.call(py.getattr(np_, "copy"), [a])
            elif q < 0.75:
                cp = py.getitem(a, [rng.randint(0, 3) for _ in range(4)])           # a new array made by an inlinable expression
            else:
                cp = py.operator("+", a, rng.randint(1, 3))
            v = py.additem(cp, rng.randint(0, 3), rng.randint(1, 9)) if rng.random() < 0.5 else py.setitem(cp, slice(0, 2), 7)
            desc.append("updateitem" if q < 0.5 else "updateitem_on_temporary")
        elif r < 0.9:
            # a nested function definition that closes over a value of the enclosing function which later statements use too
            row = py.Value(None)
            body = (py.call(py.getattr(np_, rng.choice(["multiply", "add", "subtract"])), [row, a]) if rng.random() < 0.6
                    else py.operator(rng.choice(["*", "+"]), a, row))               # an inlinable body that starts from the outer value
            if rng.random() < 0.4:
                body = py.operator("+", body, rng.choice(pool))
            fn = tracer.Graph([row], body)
            if rng.random() < 0.6:
                pool.append(py.call(py.getattr(np_, rng.choice(["cumsum", "negative", "abs"])), [a]))     # a later reader of the captured value
            v = py.call(py.getattr(np_, "apply_along_axis"), [fn, 0, b])
            desc.append("nested_def")
        elif r < 0.925:
            # a dict argument whose values are traced values that reach the call only through the dict
            w = py.call(py.getattr(np_, rng.choice(["negative", "abs", "square"])), [b])
            if rng.random() < 0.5:
                d = py.call(py.builtins.dict, [{"w": w, "b": py.operator("-", a, b) if rng.random() < 0.5 else a}])
                v = py.operator("+", py.getitem(d, "w"), py.getitem(d, "b"))
                desc.append("dict_arg")
            else:
                row = py.Value(None)
                d = py.call(py.builtins.dict, [{"s": row, "w": w}])
                fn = tracer.Graph([row], py.operator("*", py.getitem(d, "s"), py.getitem(d, "w")))
                v = py.call(py.getattr(np_, "apply_along_axis"), [fn, 0, a])
                desc.append("dict_arg_nested_def")
        elif r < 0.95:
            v = py.call(py.getattr(np_, "where"), [py.operator("<", a, b), a, b])
            desc.append("compare")
        elif r < 0.975:
            v = py.call(py.getattr(np_, "clip"), [a], {"a_min": -2, "a_max": rng.randint(0, 3)})
            desc.append("kwarg")
        elif r < 0.99:
            # traced values handed over by keyword only (one of them an inlinable expression that nothing else uses)
            lo = py.operator("-", b, 5)
            hi = py.call(py.getattr(np_, "abs"), [rng.choice(pool)])
            v = py.call(py.getattr(np_, "clip"), [a], {"a_min": lo, "a_max": hi})
            desc.append("traced_kwarg")
        else:
            # functions nested two deep; the innermost body starts from a value of the outermost function and uses the
            # parameters of both enclosing functions
            j, kk = py.Value(None), py.Value(None)
            if rng.random() < 0.5:
                innermost = tracer.Graph([kk], py.operator("+", py.getitem(a, j), kk))
            else:
                # the callee belongs to the enclosing function (a method of its element), one argument is module-level, one is the
                # innermost parameter: the call belongs into the innermost function
                innermost = tracer.Graph([kk], py.call(py.getattr(py.getitem(a, j), "clip"), [py.getattr(np_, "e"), kk]))
            mid = tracer.Graph([j], py.builtins.list(py.builtins.map(innermost, [10, 20])))
            nested = py.builtins.list(py.builtins.map(mid, [rng.randint(0, 3), rng.randint(0, 3)]))
            v = py.call(py.getattr(np_, "reshape"), [py.call(py.getattr(np_, "asarray"), [nested]), (4,)])
            desc.append("nested_def_two_deep")
        pool.append(v)
    outs = rng.sample(pool[nin:], min(len(pool) - nin, rng.randint(1, 3)))
    out = outs[0] if len(outs) == 1 else tuple(outs)
    g = tracer.Graph(inputs=inputs, output=out, name="op")
    args = [np.array([rng.randint(-5, 5) for _ in range(4)], dtype=np.int64) for _ in range(nin)]
    return g, args, " ".join(desc)


def _work_syn(item):
    g, args, desc = item
    import einx._src.tracer as tracer
    out = {"backend": "synthetic", "n_records": 1}
    try:
        fn, text = tracer.compiler.python.compile(g, return_code=True)
    except BaseException as e:  # noqa: BLE001
        return [dict(out, text="", compile_error=type(e).__name__ + ": " + str(e)[:300])]
    out["text"] = text
    _count_ops(out, text, g)
    try:
        out["graph_wire"] = irser.ser_graph(g)
    except irser.Unsupported as e:
        out["unsupported"] = str(e)
    try:
        out["code_wire"] = irser.ser_code(text)
    except irser.NotStraightLine as e:
        out["not_straight_line"] = str(e)
    try:
        ns = {}
        exec(text, ns, ns)                                   # noqa: S102
        a1 = [np.array(a) for a in args]
        a2 = [np.array(a) for a in args]
        r1 = ns["op"](*a1)
        r2, _ = irser.direct_eval(g, a2)
        same = _same(r1, r2) and all(np.array_equal(x, y) for x, y in zip(a1, a2)) and all(np.array_equal(x, y) for x, y in zip(a1, args))
        out["exec"] = "ok" if same else "differs"
        if not same:
            out["exec_detail"] = {"text_result": _tolist(r1), "graph_result": _tolist(r2)}
        out["same_code_object"] = code_fingerprint(ns["op"]) == code_fingerprint(fn)
    except irser.Unsupported as e:
        out["exec"] = "unsupported: " + str(e)
    except BaseException as e:  # noqa: BLE001
        out["exec"] = "raised " + type(e).__name__ + ": " + str(e)[:200]
    return [out]


def many_tensor_calls(rng, n):
    """real calls that need many temporaries (several coordinate tensors / many inputs)"""
    out = []
    for j in range(n):
        k = [6, 10, 14, 20, 30, 46, 60][j % 7]
        if rng.random() < 0.5 and k <= 14:
            sizes = [2] * k
            desc = "[" + " ".join(f"x{i}" for i in range(k)) + "], " + ", ".join("p" for _ in range(k)) + " -> p"
            arrays = [np.arange(2 ** k, dtype=np.int64).reshape(sizes)] + [np.array([rng.randint(0, 1) for _ in range(3)], dtype=np.int64) for _ in range(k)]
            c = gencalls.Call("get_at", "get_at", [], [], arrays, desc=desc)
        else:
            desc = ", ".join(f"a{i}" for i in range(k)) + " -> " + ", ".join(f"1 a{i}" for i in range(k))
            arrays = [np.arange(2, dtype=np.int64) + i for i in range(k)]
            c = gencalls.Call("id", "id", [], [], arrays, desc=desc)
        out.append(c)
    return out


def names_correspondence(ctx):
    """the Gallina model of the name stream (Model/Names.v over the regenerated alphabet) against the generator names() itself:
    its source, cut out of compile() by the translator, is executed next to the model for several sets of reserved names"""
    import builtins
    import itertools
    import keyword
    path = os.path.join(common.COQ, "theories", "Gen", "names_kernel.py.txt")
    try:
        src = open(path).read()
    except OSError as e:
        ctx.tie_breaks.append("name stream correspondence: the translator did not write the generator's source: " + str(e))
        return
    base = set(keyword.kwlist) | set(dir(builtins))
    sets = [set(), base, base | {"np", "const1", "a", "b", "z", "aa", "zz", "aaa"}, {"a", "c", "ab", "az", "ba", "zz", "aaa", "aab"},
            base | {"".join(ctx.rng.choice("abcdefghijklmnopqrstuvwxyz") for _ in range(ctx.rng.randint(1, 3))) for _ in range(200)}]
    n = 800 if ctx.tier == "quick" else 20000
    lines, expected = [], []
    for res in sets:
        ns = {"itertools": itertools, "reserved_names": res}
        exec(src, ns, ns)
        gen = ns["names"]()
        expected.append([next(gen) for _ in range(n)])
        lines.append(sx(["names_take", [n, sorted(r for r in res if re.fullmatch(r"[A-Za-z0-9_.\-]+", r))]]))
    outs = ctx.model.batch(lines)
    agree = 0
    for res, exp, got in zip(sets, expected, outs):
        if got == exp:
            agree += 1
        else:
            k = next((i for i, (x, y) in enumerate(zip(exp, got)) if x != y), min(len(exp), len(got))) if isinstance(got, list) else 0
            ctx.report({"kind": "name_stream_differs_from_model"}, {"reserved": sorted(res)[:50], "first_difference_at": k,
                                                                    "impl": exp[max(0, k - 2):k + 3], "model": got[max(0, k - 2):k + 3] if isinstance(got, list) else got})
    ctx.coverage["name_stream_model_vs_impl"] = {"reserved_sets": len(sets), "names_per_set": n, "agree": agree}


def run(ctx):
    import einx  # noqa: F401
    names_correspondence(ctx)
    n = 300 if ctx.tier == "quick" else 8000
    cases = [gencalls.gen_call(ctx.rng) for _ in range(n)] + many_tensor_calls(ctx.rng, 14 if ctx.tier == "quick" else 210)
    res = common.pmap(_work, cases)
    syn = [synthetic_graph(ctx.rng) for _ in range(250 if ctx.tier == "quick" else 6000)]
    sres = common.pmap(_work_syn, syn)
    items = [(c, it) for c, its in zip(cases, res) for it in its] + [(Syn(s[2]), it) for s, its in zip(syn, sres) for it in its]
    for c, it in items:
        if "compile_error" in it:
            ctx.report({"kind": "compile_fails", "family": c.family, "error": it["compile_error"].split(":")[0]},
                       {"call": c.record(), "detail": it["compile_error"]})
    items = [(c, it) for c, it in items if "compile_error" not in it]
    lines, owners = [], []
    stats = {"pairs": 0, "validated": 0, "unsupported": 0, "executed": 0, "events": 0}
    for c, it in items:
        stats["pairs"] += 1
        if "not_straight_line" in it and "FunctionDef" in it["not_straight_line"] and "nested graph" in it.get("unsupported", ""):
            # a nested function definition is outside the validated language (no einx call on numpy produces one): such synthetic
            # graphs are decided by executing the text against the node-by-node evaluation only
            stats["nested_def_graphs_exec_only"] = stats.get("nested_def_graphs_exec_only", 0) + 1
        elif "not_straight_line" in it:
            ctx.report({"kind": "text_not_in_straight_line_subset", "family": c.family, "backend": it["backend"], "why": it["not_straight_line"]},
                       {"call": c.record(), "code": it["text"]})
            continue
        if "unsupported" in it:
            stats["unsupported"] += 1
            continue
        lines.append(sx(["ir_agree", [it["graph_wire"], it["code_wire"]]]))
        owners.append((c, it))
    out = ctx.model.batch(lines)
    for (c, it), r in zip(owners, out):
        if r[0] == "agree" and r[1] == "T":
            stats["validated"] += 1
            stats["events"] += int(r[2])
        else:
            ctx.report({"kind": "validator_rejects", "family": c.family, "op": c.op, "backend": it["backend"], "verdict": r[0]},
                       {"call": c.record(), "code": it["text"], "validator": r[:6], "graph_wire": it["graph_wire"]})
        ctx.distinct.add(it["text"])
    for c, it in items:
        ex = it.get("exec")
        if ex is None or ex.startswith("unsupported"):
            continue
        stats["executed"] += 1
        if ex != "ok":
            ctx.report({"kind": "text_execution_" + ("differs" if ex == "differs" else "fails"), "family": c.family, "op": c.op, "backend": it["backend"]},
                       {"call": c.record(), "code": it["text"], "detail": it.get("exec_detail", ex), "inputs": [np.asarray(a).tolist() for a in c.arrays]})
        elif it.get("same_code_object") is False:
            ctx.report({"kind": "text_is_not_the_executed_code", "family": c.family, "backend": it["backend"]}, {"call": c.record(), "code": it["text"]})
    # every value is computed once: the text holds exactly one operator evaluation per operator node of the graph
    for c, it in items:
        if "ops_count_error" in it:
            ctx.report({"kind": "operator_count_failed", "family": c.family, "backend": it["backend"]}, {"call": c.record(), "code": it["text"], "detail": it["ops_count_error"]})
        elif it.get("ops_text") != it.get("ops_graph"):
            ctx.report({"kind": "operator_value_computed_more_than_once" if it["ops_text"] > it["ops_graph"] else "operator_value_not_computed",
                        "family": c.family, "backend": it["backend"]},
                       {"call": c.record(), "code": it["text"], "operators_in_text": it["ops_text"], "operator_nodes_in_graph": it["ops_graph"]})
        else:
            stats["operator_multiplicity_checked"] = stats.get("operator_multiplicity_checked", 0) + 1
            stats["operator_nodes"] = stats.get("operator_nodes", 0) + it["ops_graph"]
    for c, it in items[:3]:
        ctx.sample({"call": c.record(), "backend": it["backend"], "code": it["text"]})
    ctx.coverage.update({
        "evaluations": stats["pairs"],
        "programs": stats["pairs"],
        "rule": "one (graph, text) pair per generated call and backend, captured by wrapping tracer.optimize / compiler.python.compile; "
                "distinct_nontrivial = distinct generated texts accepted by the validator",
        "input_distribution": stats,
    })


def replay(ctx, path):
    data = json.load(open(path))
    print(json.dumps({k: data.get(k) for k in ("tags", "call", "validator", "detail")}, indent=1)[:3000])
    print(data.get("code"))
    print(f"VIOLATION property=C04 replay={path}")
    return 1
