"""C01 - every built-in operation computes exactly its loop-notation meaning.

For generated well-formed calls (sizes known by construction) the extracted reference semantics
(Spec/LoopSem.v) returns an index plan; the plan applied to the data with numpy's *elementary*
functions is the expected result; einx's result on every numpy backend must equal it
(OperationNotSupportedError is the only other allowed outcome)."""
import json

import numpy as np

from . import common, gencalls, implrun, irser
from .common import sx


def _work(c):
    return [implrun.run_call(c, b) for b in implrun.BACKENDS]


def judge(c, plan, results):
    """-> list of (tags, payload)"""
    out = []
    try:
        exp = gencalls.evaluate(c, plan)
    except gencalls.PlanError as e:
        return [({"kind": "spec_rejects_generated_call", "family": c.family}, {"call": c.record(), "detail": str(e)})]
    for b, r in zip(implrun.BACKENDS, results):
        if r[0] == "exc":
            if r[1] == "OperationNotSupportedError":
                continue
            out.append(({"kind": "exception", "family": c.family, "op": c.op, "backend": b, "exc": r[1], "site": r[2]},
                        {"call": c.record(), "message": r[3]}))
            continue
        got = r[1]
        if len(got) != len(exp) or not all(gencalls.matches(e, g) for e, g in zip(exp, got)):
            out.append(({"kind": "wrong_value", "family": c.family, "op": c.op, "backend": b},
                        {"call": c.record(), "inputs": [np.asarray(a).tolist() for a in c.arrays],
                         "expected": [(e[1].tolist() if isinstance(e, tuple) else e.tolist()) for e in exp],
                         "observed": [g.tolist() for g in got]}))
    return out


def gen_cases(rng, n):
    return [gencalls.gen_call(rng) for _ in range(n)]


def gen_rearrange_core(rng, n):
    """rearrangements of one tensor whose expressions only nest flattened axes: the sub-family for which Model/Lower.v
    models the lowering and Proofs/LowerProofs.v proves it equal to the loop-notation meaning"""
    out = []
    g = gencalls.G(rng)
    while len(out) < n:
        axes = g.pick_axes(rng.randint(1, 5), sizes=[2, 3, 4, 5], maxprod=3000)
        if any(a.size == 1 for a in axes):
            continue
        din = g.arrange(g.perm(axes), units=0.0, flat=0.45)
        dout = g.arrange(g.perm(axes), units=0.0, flat=0.45)
        if any(isinstance(d, gencalls.Fl) and not d.leaves() for d in din + dout):
            continue
        c = gencalls.Call("id", "id", [din], [dout], [gencalls.int_data(rng, gencalls.shape_of(din))])
        c.describe(rng)
        out.append(c)
    return out


def gen_broadcast_core(rng, n):
    """rearrangements of one tensor into an output that lists every input axis and one or two new ones (sizes by keyword),
    anywhere in the nesting: the sub-family for which Model/Lower.v models alignment + broadcast_to + reshape
    (Proofs/BroadcastFull.v: output-only axes repeat the value)"""
    out = []
    g = gencalls.G(rng)
    while len(out) < n:
        axes = g.pick_axes(rng.randint(2, 5), sizes=[2, 3, 4, 5], maxprod=3000)
        if any(a.size == 1 for a in axes):
            continue
        k = rng.randint(1, min(2, len(axes) - 1))
        old = axes[k:]
        din = g.arrange(g.perm(old), units=0.0, flat=0.45)
        dout = g.arrange(g.perm(axes), units=0.0, flat=0.45)
        if any(isinstance(d, gencalls.Fl) and not d.leaves() for d in din + dout):
            continue
        c = gencalls.Call("id", "id", [din], [dout], [gencalls.int_data(rng, gencalls.shape_of(din))])
        c.describe(rng)
        out.append(c)
    return out


def _capture_graph_numpylike(c):
    return _capture_graph(c, "numpy.numpylike")


def _capture_graph(c, backend="numpy"):
    """the optimised graph einx builds for the call on the numpy backend, as a term of Model/Opt.v (wire form), and the call's result"""
    import einx._src.tracer as tracer
    graphs = []
    orig = tracer.optimize

    def optimize(x, optimizations):
        after = orig(x, optimizations)
        graphs.append(after)
        return after
    tracer.optimize = optimize
    try:
        r = implrun.run_call(c, backend)
    finally:
        tracer.optimize = orig
    if len(graphs) != 1:
        return ("nograph", len(graphs), r)
    import einx._src.tracer as tracer_mod
    g0 = graphs[0]
    if not isinstance(g0, tracer_mod.Graph) and irser.fn_name(g0) is not None:
        # the whole call was inlined to the bare backend function (op = np.add): the same as applying it to the inputs as they are
        return ("term", ["other", irser.s_str(irser.fn_name(g0)), [["in", k, [int(x) for x in np.shape(a)]] for k, a in enumerate(c.arrays)],
                         [irser.s_str("kw:")], [int(l.size) for l in gencalls.leaves(c.outs[0])]], r)
    try:
        ts = irser.ser_term(graphs[0])
        return ("term", ts[0], r) if len(ts) == 1 else ("unsupported", "several outputs", r)
    except irser.Unsupported as e:
        return ("unsupported", str(e), r)


def gen_elementwise_core(rng, n):
    """two-operand element-wise calls whose expressions only nest flattened axes, every input axis being an output axis and
    vice versa: the sub-family for which Model/Lower.v models the alignment of the inputs (Proofs/LowerProofs.v: lower_align_correct)"""
    out = []
    g = gencalls.G(rng)
    while len(out) < n:
        axes = g.pick_axes(rng.randint(1, 4), sizes=[2, 3, 4, 5], maxprod=2000)
        if any(a.size == 1 for a in axes):
            continue
        subs = [[a for a in axes if rng.random() < 0.7] for _ in range(2)]
        missing = [a for a in axes if all(a.name not in [x.name for x in sub] for sub in subs)]
        subs[rng.randrange(2)] += missing
        if any(not sub for sub in subs):
            continue
        ins = [g.arrange(g.perm(sub), units=0.0, flat=0.4) for sub in subs]
        dout = g.arrange(g.perm(axes), units=0.0, flat=0.4)
        if any(isinstance(d, gencalls.Fl) and not d.leaves() for t in ins + [dout] for d in t):
            continue
        op = rng.choice(["add", "multiply", "subtract", "maximum", "minimum"])
        c = gencalls.Call("elementwise", op, ins, [dout], [gencalls.int_data(rng, gencalls.shape_of(t)) for t in ins])
        c.describe(rng)
        out.append(c)
    return out


def gen_dot_core(rng, n):
    """two-operand dot calls with nested flattened axes: every axis is a batch axis (both operands and the output), contracted
    (both operands only), or kept from one operand"""
    out = []
    g = gencalls.G(rng)
    while len(out) < n:
        axes = g.pick_axes(rng.randint(2, 5), sizes=[2, 3, 4], maxprod=600)
        if any(a.size == 1 for a in axes):
            continue
        role = [rng.choice(["batch", "contract", "contract", "left", "right"]) for _ in axes]
        left = [a for a, r in zip(axes, role) if r != "right"]
        right = [a for a, r in zip(axes, role) if r != "left"]
        outa = [a for a, r in zip(axes, role) if r != "contract"]
        if not left or not right or not outa:
            continue
        ins = [g.arrange(g.perm(left), units=0.0, flat=0.4), g.arrange(g.perm(right), units=0.0, flat=0.4)]
        dout = g.arrange(g.perm(outa), units=0.0, flat=0.4)
        if any(isinstance(d, gencalls.Fl) and not d.leaves() for t in ins + [dout] for d in t):
            continue
        c = gencalls.Call("dot", "dot", ins, [dout], [gencalls.int_data(rng, gencalls.shape_of(t), -3, 3) for t in ins])
        c.describe(rng)
        out.append(c)
    return out


def gen_preserve_core(rng, n):
    """flip / roll along one or two bracketed axes of a tensor with nested flattened axes; the output lists the same leaf axes in
    another arrangement (bracketed ones in their original relative order)"""
    out = []
    g = gencalls.G(rng)
    while len(out) < n:
        axes = g.pick_axes(rng.randint(2, 4), sizes=[2, 3, 4, 5], maxprod=2000)
        if any(a.size == 1 for a in axes):
            continue
        gencalls.mark_some(rng, axes, 1, 2)
        order = g.perm(axes)
        din = g.arrange(order, units=0.0, flat=0.4)
        marked = [a for a in order if a.marked]
        unm = g.perm([a for a in order if not a.marked])
        slots = sorted(rng.sample(range(len(order)), len(marked)))
        oa, mi, ui = [], 0, 0
        for i in range(len(order)):
            if i in slots:
                oa.append(marked[mi].copy())
                mi += 1
            else:
                oa.append(unm[ui].copy())
                ui += 1
        dout = g.arrange(oa, units=0.0, flat=0.3)
        if any(isinstance(d, gencalls.Fl) and not d.leaves() for d in din + dout):
            continue
        op = rng.choice(["flip", "roll"])
        extra = {}
        if op == "roll":
            extra["shift"] = tuple(rng.randint(-4, 4) for _ in marked)
        c = gencalls.Call("preserve", op, [din], [dout], [gencalls.int_data(rng, gencalls.shape_of(din))], extra)
        c.describe(rng)
        out.append(c)
    return out


def gen_reduce_core(rng, n):
    """reductions over one or more bracketed axes of one tensor with nested flattened axes (no unit axes, numbers or repeats)"""
    out = []
    g = gencalls.G(rng)
    while len(out) < n:
        axes = g.pick_axes(rng.randint(1, 4), sizes=[2, 3, 4, 5], maxprod=2000)
        if any(a.size == 1 for a in axes):
            continue
        gencalls.mark_some(rng, axes, 1, 2)
        din = g.arrange(g.perm(axes), units=0.0, flat=0.4)
        dout = g.arrange(g.perm([a for a in axes if not a.marked]), units=0.0, flat=0.4)
        if any(isinstance(d, gencalls.Fl) and not d.leaves() for d in din + dout):
            continue
        op = rng.choice(["sum", "max", "min", "prod", "any", "all", "count_nonzero", "mean", "var", "std"])
        arr = gencalls.int_data(rng, gencalls.shape_of(din), 0, 3)
        c = gencalls.Call("reduce", op, [din], [dout], [arr.astype(bool) if op in ("any", "all") else (arr.astype(np.float64) if op in ("mean", "var", "std") else arr)])
        c.describe(rng)
        if rng.random() < 0.4:
            # the same reduction written without brackets: einx brackets the axes missing from the output (C07); the model does it itself
            c.desc = c.desc.replace("[", "").replace("]", "")
            c.meta["unbracketed"] = True
        out.append(c)
    return out


def _unmarked(dims):
    import copy
    d2 = copy.deepcopy(dims)
    for l in gencalls.leaves(d2):
        l.marked = False
    return d2


def run_lowering(ctx):
    """tie of Model/Lower.v to the code: the graph einx builds must be accepted as equivalent to the model's term by the
    extracted, proved-sound checker of Model/Opt.v (normal forms coincide)"""
    cases = gen_rearrange_core(ctx.rng, 150 if ctx.tier == "quick" else 5000)
    caps = common.pmap(_capture_graph, cases)
    lines, owners = [], []
    stats = {"rearrangements": len(cases), "graph_equals_model": 0, "identity_graphs": 0}
    for c, cap in zip(cases, caps):
        if cap[0] == "term":
            names = gencalls.Names()
            lines.append(sx(["lower_rearrange", [gencalls.w_dims(c.ins[0], names), gencalls.w_dims(c.outs[0], names), cap[1]]]))
            owners.append(c)
        elif cap[0] == "nograph" and cap[1] == 0:
            stats["served_from_cache_no_trace"] = stats.get("served_from_cache_no_trace", 0) + 1     # the same call was traced earlier in this worker
        else:
            ctx.tie_breaks.append({"correspondence": "lowering model vs traced graph: graph not captured as a term", "call": c.record(), "detail": str(cap[:2])})
    for c, r in zip(owners, ctx.model.batch(lines)):
        if isinstance(r, list) and r[0] == "lower" and r[1] == "T" and r[2] == "T" and r[3] == "T" and r[4] == "T":
            stats["graph_equals_model"] += 1
            if r[6] == "1":
                stats["identity_graphs"] += 1
        else:
            ctx.tie_breaks.append({"correspondence": "Model/Lower.v: the graph einx built for this rearrangement is not equivalent to the model's "
                                                     "reshape-transpose-reshape term (verdict: in_scope, equivalent, wf_model, wf_graph, sizes)",
                                   "call": c.record(), "verdict": r})
        ctx.distinct.add("lower|" + c.desc)
    # rearrangements with new output axes: aligned input, broadcast_to, reshape
    bcases = gen_broadcast_core(ctx.rng, 150 if ctx.tier == "quick" else 5000)
    bcaps = common.pmap(_capture_graph, bcases)
    lines, owners = [], []
    stats.update({"new_axis_rearrangements": len(bcases), "new_axis_graph_equals_model": 0})
    for c, cap in zip(bcases, bcaps):
        if cap[0] == "term":
            names = gencalls.Names()
            lines.append(sx(["lower_broadcast", [gencalls.w_dims(c.ins[0], names), gencalls.w_dims(c.outs[0], names), cap[1]]]))
            owners.append(c)
        elif cap[0] == "nograph" and cap[1] == 0:
            stats["served_from_cache_no_trace"] = stats.get("served_from_cache_no_trace", 0) + 1
        else:
            ctx.tie_breaks.append({"correspondence": "lowering model vs traced graph: graph not captured as a term", "call": c.record(), "detail": str(cap[:2])})
    for c, r in zip(owners, ctx.model.batch(lines)):
        if isinstance(r, list) and r[0] == "lower" and r[1:5] == ["T", "T", "T", "T"]:
            stats["new_axis_graph_equals_model"] += 1
        else:
            ctx.tie_breaks.append({"correspondence": "Model/Lower.v: the graph einx built for this rearrangement with new output axes is not equivalent to the "
                                                     "model's term (aligned input, broadcast_to, reshape; verdict: in_scope, equivalent, wf_model, wf_graph, sizes)",
                                   "call": c.record(), "verdict": r})
        ctx.distinct.add("lower|" + c.desc)
    # element-wise calls: the whole traced graph against aligned inputs + broadcasting operation + final reshape
    ecases = gen_elementwise_core(ctx.rng, 150 if ctx.tier == "quick" else 5000)
    ecaps = common.pmap(_capture_graph, ecases)
    lines, owners = [], []
    stats.update({"elementwise_calls": len(ecases), "elementwise_graph_equals_model": 0})
    for c, cap in zip(ecases, ecaps):
        if cap[0] == "term":
            names = gencalls.Names()
            lines.append(sx(["lower_elementwise", [irser.s_str(c.op), [gencalls.w_dims(t, names) for t in c.ins], gencalls.w_dims(c.outs[0], names), cap[1]]]))
            owners.append(c)
        elif cap[0] == "nograph" and cap[1] == 0:
            stats["served_from_cache_no_trace"] = stats.get("served_from_cache_no_trace", 0) + 1
        else:
            ctx.tie_breaks.append({"correspondence": "lowering model vs traced graph: graph not captured as a term", "call": c.record(), "detail": str(cap[:2])})
    for c, r in zip(owners, ctx.model.batch(lines)):
        if isinstance(r, list) and r[0] == "lower" and r[1:5] == ["T", "T", "T", "T"]:
            stats["elementwise_graph_equals_model"] += 1
        else:
            ctx.tie_breaks.append({"correspondence": "Model/Lower.v: the graph einx built for this element-wise call is not equivalent to the model's term "
                                                     "(aligned inputs, broadcasting operation, reshape; verdict: in_scope, equivalent, wf_model, wf_graph, sizes)",
                                   "call": c.record(), "verdict": r})
        ctx.distinct.add("lower|" + c.desc)
    # reductions: reshape to the leaves, the backend's reduction over the bracketed positions, rearrangement of the rest
    rcases = gen_reduce_core(ctx.rng, 150 if ctx.tier == "quick" else 5000)
    rcaps = common.pmap(_capture_graph, rcases)
    lines, owners = [], []
    stats.update({"reduce_calls": len(rcases), "reduce_graph_equals_model": 0})
    for c, cap in zip(rcases, rcaps):
        if cap[0] == "term":
            names = gencalls.Names()
            if c.meta.get("unbracketed"):
                stats["reduce_written_without_brackets"] = stats.get("reduce_written_without_brackets", 0) + 1
                lines.append(sx(["lower_reduce_auto", [irser.s_str(c.op), gencalls.w_dims(_unmarked(c.ins[0]), names), gencalls.w_dims(c.outs[0], names), cap[1]]]))
            else:
                lines.append(sx(["lower_reduce", [irser.s_str(c.op), gencalls.w_dims(c.ins[0], names), gencalls.w_dims(c.outs[0], names), cap[1]]]))
            owners.append(c)
        elif cap[0] == "nograph" and cap[1] == 0:
            stats["served_from_cache_no_trace"] = stats.get("served_from_cache_no_trace", 0) + 1
        else:
            ctx.tie_breaks.append({"correspondence": "lowering model vs traced graph: graph not captured as a term", "call": c.record(), "detail": str(cap[:2])})
    for c, r in zip(owners, ctx.model.batch(lines)):
        if isinstance(r, list) and r[0] == "lower" and r[1:5] == ["T", "T", "T", "T"]:
            stats["reduce_graph_equals_model"] += 1
        else:
            ctx.tie_breaks.append({"correspondence": "Model/Lower.v: the graph einx built for this reduction is not equivalent to the model's term "
                                                     "(reshape to leaves, reduction over the bracketed positions, rearrangement; verdict: in_scope, equivalent, wf_model, wf_graph, sizes)",
                                   "call": c.record(), "verdict": r})
        ctx.distinct.add("lower|" + c.desc)
    # dot on the matmul path (numpy.numpylike): operands rearranged to (batch)(left)(contracted) / (batch)(contracted)(right),
    # np.matmul, rearrangement of (batch)(left)(right) into the output
    dcases = gen_dot_core(ctx.rng, 150 if ctx.tier == "quick" else 5000)
    dcaps = common.pmap(_capture_graph_numpylike, dcases)
    lines, owners = [], []
    stats.update({"dot_calls": len(dcases), "dot_graph_equals_model": 0})
    for c, cap in zip(dcases, dcaps):
        if cap[0] == "term":
            names = gencalls.Names()
            lines.append(sx(["lower_dot", [gencalls.w_dims(c.ins[0], names), gencalls.w_dims(c.ins[1], names), gencalls.w_dims(c.outs[0], names), cap[1]]]))
            owners.append(c)
        elif cap[0] == "nograph" and cap[1] == 0:
            stats["served_from_cache_no_trace"] = stats.get("served_from_cache_no_trace", 0) + 1
        else:
            ctx.tie_breaks.append({"correspondence": "lowering model vs traced graph: graph not captured as a term", "call": c.record(), "detail": str(cap[:2])})
    for c, r in zip(owners, ctx.model.batch(lines)):
        if isinstance(r, list) and r[0] == "lower" and r[1:5] == ["T", "T", "T", "T"]:
            stats["dot_graph_equals_model"] += 1
        else:
            ctx.tie_breaks.append({"correspondence": "Model/Lower.v: the graph einx built for this dot on numpy.numpylike is not equivalent to the model's term "
                                                     "(operands to (batch)(left)(contracted) / (batch)(contracted)(right), matmul, rearrangement; verdict: in_scope, "
                                                     "equivalent, wf_model, wf_graph, sizes)",
                                   "call": c.record(), "verdict": r})
        ctx.distinct.add("lower|" + c.desc)
    # flip / roll: reshape to the leaves, the backend function with axis = bracketed positions, rearrangement into the output
    pcases = gen_preserve_core(ctx.rng, 150 if ctx.tier == "quick" else 5000)
    pcaps = common.pmap(_capture_graph, pcases)
    lines, owners = [], []
    stats.update({"flip_roll_calls": len(pcases), "flip_roll_graph_equals_model": 0})
    for c, cap in zip(pcases, pcaps):
        if cap[0] == "term":
            names = gencalls.Names()
            extra = [irser.s_str("[" + ",".join(str(v) for v in c.extra_kwargs["shift"]) + "]")] if c.op == "roll" else []
            kwlit = irser.s_str("kw:axis,shift" if c.op == "roll" else "kw:axis")
            lines.append(sx(["lower_preserve", [irser.s_str(c.op), extra, kwlit, gencalls.w_dims(c.ins[0], names), gencalls.w_dims(c.outs[0], names), cap[1]]]))
            owners.append(c)
        elif cap[0] == "nograph" and cap[1] == 0:
            stats["served_from_cache_no_trace"] = stats.get("served_from_cache_no_trace", 0) + 1
        else:
            ctx.tie_breaks.append({"correspondence": "lowering model vs traced graph: graph not captured as a term", "call": c.record(), "detail": str(cap[:2])})
    for c, r in zip(owners, ctx.model.batch(lines)):
        if isinstance(r, list) and r[0] == "lower" and r[1:5] == ["T", "T", "T", "T"]:
            stats["flip_roll_graph_equals_model"] += 1
        else:
            ctx.tie_breaks.append({"correspondence": "Model/Lower.v: the graph einx built for this flip / roll is not equivalent to the model's term "
                                                     "(reshape to leaves, the function with axis = bracketed positions, rearrangement; verdict: in_scope, "
                                                     "equivalent, wf_model, wf_graph, sizes)",
                                   "call": c.record(), "verdict": r})
    # the same dot calls on the default numpy backend: operands reshaped to their leaf axes, np.einsum with generated subscripts, reshape
    ecaps = common.pmap(_capture_graph, dcases)
    lines, owners = [], []
    stats.update({"einsum_dot_calls": len(dcases), "einsum_dot_graph_equals_model": 0})
    for c, cap in zip(dcases, ecaps):
        if cap[0] == "term":
            names = gencalls.Names()
            lines.append(sx(["lower_einsum_dot", [gencalls.w_dims(c.ins[0], names), gencalls.w_dims(c.ins[1], names), gencalls.w_dims(c.outs[0], names), cap[1]]]))
            owners.append(c)
        elif cap[0] == "nograph" and cap[1] == 0:
            stats["served_from_cache_no_trace"] = stats.get("served_from_cache_no_trace", 0) + 1
        else:
            ctx.tie_breaks.append({"correspondence": "lowering model vs traced graph: graph not captured as a term", "call": c.record(), "detail": str(cap[:2])})
    for c, r in zip(owners, ctx.model.batch(lines)):
        if isinstance(r, list) and r[0] == "lower" and r[1:5] == ["T", "T", "T", "T"]:
            stats["einsum_dot_graph_equals_model"] += 1
        else:
            ctx.tie_breaks.append({"correspondence": "Model/Lower.v: the graph einx built for this dot on the numpy backend is not equivalent to the model's term "
                                                     "(operands reshaped to leaf axes, einsum with the model's subscript string, reshape; verdict: in_scope, "
                                                     "equivalent, wf_model, wf_graph, sizes)",
                                   "call": c.record(), "verdict": r})
    return stats


def run(ctx):
    n = 600 if ctx.tier == "quick" else 20000
    run_cases(ctx, gen_cases(ctx.rng, n))
    if ctx.prop == "C01":
        stats = run_lowering(ctx)
        ctx.coverage["input_distribution"]["lowering_model_correspondence"] = stats
        ctx.coverage["rule"] += ("; plus rearrangements of one tensor with nested flattened axes: the optimised graph einx traces is compared "
                                 "with the term of Model/Lower.v by the extracted equivalence checker")


def run_cases(ctx, cases):
    import einx  # noqa: F401
    plans = ctx.model.batch([sx(gencalls.plan_request(c)) for c in cases])
    results = common.pmap(_work, cases)
    fam = {}
    unsupported = 0
    for c, p, rs in zip(cases, plans, results):
        fam[c.family] = fam.get(c.family, 0) + 1
        unsupported += sum(1 for r in rs if r[0] == "exc" and r[1] == "OperationNotSupportedError")
        for tags, payload in judge(c, p, rs):
            ctx.report(tags, payload)
        ctx.distinct.add(c.op + "|" + c.desc)
    for c in cases[:6]:
        ctx.sample(c.record())
    ctx.coverage.update({
        "evaluations": len(cases) * len(implrun.BACKENDS),
        "rule": "calls generated per family from trees with known axis lengths (lengths in {1,2,3,5,7}, rank <= 6, nesting <= 2, "
                "<= 4096 elements); distinct_nontrivial = distinct (op, description) pairs",
        "input_distribution": {"family": fam, "operation_not_supported_outcomes": unsupported, "backends": implrun.BACKENDS},
    })


def replay(ctx, path):
    data = json.load(open(path))
    print(json.dumps(data.get("call"), indent=1))
    call = data.get("call")
    if call is None:
        print("replay file names no input (no-failing-input-found)")
        return 1
    import einx
    args = [np.array(a) for a in data.get("inputs", [])]
    kw = {k: (tuple(v) if isinstance(v, list) else v) for k, v in call["kwargs"].items()}
    bad = False
    for b in implrun.BACKENDS:
        try:
            r = getattr(einx, call["op"])(call["desc"], *args, backend=b, **kw)
            r = [np.asarray(x).tolist() for x in (r if isinstance(r, tuple) else (r,))]
            print(b, "->", r)
            if "expected" in data and r != data["expected"]:
                bad = True
        except Exception as e:  # noqa: BLE001
            print(b, "raised", type(e).__name__, str(e)[:200])
            if common.classify_exc(e) != "OperationNotSupportedError":
                bad = True
    print("expected (reference semantics):", data.get("expected"))
    if bad:
        print(f"VIOLATION property={ctx.prop} replay={path}")
        return 1
    return 0
