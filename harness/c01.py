"""C01 - every built-in operation computes exactly its loop-notation meaning.

For generated well-formed calls (sizes known by construction) the extracted reference semantics
(Spec/LoopSem.v) returns an index plan; the plan applied to the data with numpy's *elementary*
functions is the expected result; einx's result on every numpy backend must equal it
(OperationNotSupportedError is the only other allowed outcome)."""
import json

import numpy as np

from . import common, gencalls, implrun
from .common import sx


def _work(c):
    return [implrun.run_call(c, b) for b in implrun.BACKENDS]


def judge(c, plan, results):
    """-> list of (tags, payload)"""
    out = []
    try:
        exp = gencalls.evaluate(c, plan)
    except gencalls.PlanError as e:
        return [({"kind": "spec_rejects_generated_call", "family": c.family}, {"call": c.record(), "detail": str(e)})]
    for b, r in zip(implrun.BACKENDS, results):
        if r[0] == "exc":
            if r[1] == "OperationNotSupportedError":
                continue
            out.append(({"kind": "exception", "family": c.family, "op": c.op, "backend": b, "exc": r[1], "site": r[2]},
                        {"call": c.record(), "message": r[3]}))
            continue
        got = r[1]
        if len(got) != len(exp) or not all(gencalls.matches(e, g) for e, g in zip(exp, got)):
            out.append(({"kind": "wrong_value", "family": c.family, "op": c.op, "backend": b},
                        {"call": c.record(), "inputs": [np.asarray(a).tolist() for a in c.arrays],
                         "expected": [(e[1].tolist() if isinstance(e, tuple) else e.tolist()) for e in exp],
                         "observed": [g.tolist() for g in got]}))
    return out


def gen_cases(rng, n):
    return [gencalls.gen_call(rng) for _ in range(n)]


def run(ctx):
    n = 600 if ctx.tier == "quick" else 20000
    run_cases(ctx, gen_cases(ctx.rng, n))


def run_cases(ctx, cases):
    import einx  # noqa: F401
    plans = ctx.model.batch([sx(gencalls.plan_request(c)) for c in cases])
    results = common.pmap(_work, cases)
    fam = {}
    unsupported = 0
    for c, p, rs in zip(cases, plans, results):
        fam[c.family] = fam.get(c.family, 0) + 1
        unsupported += sum(1 for r in rs if r[0] == "exc" and r[1] == "OperationNotSupportedError")
        for tags, payload in judge(c, p, rs):
            ctx.report(tags, payload)
        ctx.distinct.add(c.op + "|" + c.desc)
    for c in cases[:6]:
        ctx.sample(c.record())
    ctx.coverage.update({
        "evaluations": len(cases) * len(implrun.BACKENDS),
        "rule": "calls generated per family from trees with known axis lengths (lengths in {1,2,3,5,7}, rank <= 6, nesting <= 2, "
                "<= 4096 elements); distinct_nontrivial = distinct (op, description) pairs",
        "input_distribution": {"family": fam, "operation_not_supported_outcomes": unsupported, "backends": implrun.BACKENDS},
    })


def replay(ctx, path):
    data = json.load(open(path))
    print(json.dumps(data.get("call"), indent=1))
    call = data.get("call")
    if call is None:
        print("replay file names no input (no-failing-input-found)")
        return 1
    import einx
    args = [np.array(a) for a in data.get("inputs", [])]
    kw = {k: (tuple(v) if isinstance(v, list) else v) for k, v in call["kwargs"].items()}
    bad = False
    for b in implrun.BACKENDS:
        try:
            r = getattr(einx, call["op"])(call["desc"], *args, backend=b, **kw)
            r = [np.asarray(x).tolist() for x in (r if isinstance(r, tuple) else (r,))]
            print(b, "->", r)
            if "expected" in data and r != data["expected"]:
                bad = True
        except Exception as e:  # noqa: BLE001
            print(b, "raised", type(e).__name__, str(e)[:200])
            if common.classify_exc(e) != "OperationNotSupportedError":
                bad = True
    print("expected (reference semantics):", data.get("expected"))
    if bad:
        print(f"VIOLATION property={ctx.prop} replay={path}")
        return 1
    return 0
