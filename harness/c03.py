"""C03 - ill-formed calls are rejected with documented errors, never computed.

Oracle-free: (a) every public entry point is called with generated valid calls corrupted by one
edit (dimension changed, axis dropped / duplicated / renamed, bracket moved, size keyword removed
or contradicted, tensor removed or added, garbage appended) and with random token strings; the
outcome class must be a value, an einx.errors class, ValueError or TypeError - never an internal
exception type, never a time-out; (b) corruptions that are certainly invalid must not return a
value; (c) a rejected call must not have run any numpy computation on its arguments (observed by
an ndarray subclass that counts __array_function__ / __array_ufunc__ dispatches)."""
import json
import re

import numpy as np

from . import c12, common, gencalls
from .c08 import clone
from .gencalls import Ax, Cat, Fl, leaves, shape_of

ALLOWED = set(common.EINX_ERRORS) | {"ValueError", "TypeError"}


class Watched(np.ndarray):
    """counts numpy computations that touch the array"""
    count = 0

    def __array_function__(self, func, types, args, kwargs):
        Watched.count += 1
        return super().__array_function__(func, types, args, kwargs)

    def __array_ufunc__(self, ufunc, method, *inputs, **kwargs):
        Watched.count += 1
        inputs = tuple(np.asarray(i) if isinstance(i, Watched) else i for i in inputs)
        if kwargs.get("out") is not None:      # numpy's own reductions (np.var) pass their intermediate arrays as out=
            kwargs["out"] = tuple(np.asarray(o) if isinstance(o, Watched) else o for o in kwargs["out"])
        r = getattr(ufunc, method)(*inputs, **kwargs)
        # like a plain ndarray subclass: results stay arrays of the subclass (0-d results too, numpy's reductions write into them)
        wrap = lambda v: np.asarray(v).view(Watched) if isinstance(v, (np.ndarray, np.generic)) else v   # noqa: E731
        return tuple(wrap(v) for v in r) if isinstance(r, tuple) else wrap(r)


def corrupt(c, rng):
    """-> (kind, desc, arrays, kwargs, must_fail)"""
    arrays = [np.array(a) for a in c.arrays]
    kw = dict(c.size_kwargs())
    kw.update(c.extra_kwargs)
    desc = c.desc
    kind = rng.choice(["dim_changed", "dim_zero", "tensor_removed", "tensor_added", "garbage", "axis_renamed", "axis_dropped", "axis_duplicated",
                       "bracket_moved", "kw_removed", "kw_contradicted", "kw_float", "kw_negative", "arrow_doubled", "nontensor_arg"])
    must_fail = False
    if kind == "dim_changed":
        cands = [i for i, a in enumerate(arrays) if a.ndim > 0]
        if cands:
            i = rng.choice(cands)
            sh = list(arrays[i].shape)
            j = rng.randrange(len(sh))
            sh[j] += rng.choice([1, 2])
            arrays[i] = np.zeros(sh, dtype=arrays[i].dtype)
    elif kind == "dim_zero":
        # a zero-sized dimension (possibly contradicting a size that is known otherwise): any documented outcome, never an internal one
        cands = [i for i, a in enumerate(arrays) if a.ndim > 0]
        if cands:
            i = rng.choice(cands)
            sh = list(arrays[i].shape)
            sh[rng.randrange(len(sh))] = 0
            arrays[i] = np.zeros(sh, dtype=arrays[i].dtype)
            if rng.random() < 0.5:
                kw.update({k: v for k, v in c.all_axes().items() if rng.random() < 0.5})
    elif kind == "tensor_removed" and arrays:
        arrays = arrays[:-1]
        must_fail = True
    elif kind == "tensor_added":
        arrays = arrays + [np.zeros((2,), dtype=np.int64)]
        must_fail = True
    elif kind == "garbage":
        g = rng.choice([" (", " )", " [", " ]", " ~", " a..", " -> -> ", "\n", " q\n", " 3\n", "\t", " q\u00b2"])
        desc = desc + g if rng.random() < 0.7 else desc.replace(" ", g + " ", 1)
        must_fail = True
    elif kind in ("axis_renamed", "axis_dropped", "axis_duplicated"):
        names = re.findall(r"(?<![A-Za-z0-9_\[.])[A-Za-z_][A-Za-z0-9_]*", desc)
        if names:
            nm = rng.choice(names)
            occ = [m for m in re.finditer(r"(?<![A-Za-z0-9_])" + re.escape(nm) + r"(?![A-Za-z0-9_])", desc)]
            m = rng.choice(occ)
            rep = {"axis_renamed": "qq", "axis_dropped": "", "axis_duplicated": nm + " " + nm}[kind]
            desc = desc[:m.start()] + rep + desc[m.end():]
    elif kind == "bracket_moved":
        if "[" in desc:
            i = desc.index("[")
            desc = desc[:i] + desc[i + 1:]
            j = rng.randrange(len(desc) + 1)
            desc = desc[:j] + "[" + desc[j:]
        else:
            j = rng.randrange(len(desc) + 1)
            desc = desc[:j] + "[" + desc[j:] + "]"
    elif kind == "kw_removed" and kw:
        kw.pop(rng.choice(sorted(kw)))
    elif kind == "kw_contradicted":
        ax = c.all_axes()
        if ax:
            k = rng.choice(sorted(ax))
            kw[k] = ax[k] + rng.choice([1, 3])
    elif kind == "kw_float":
        ax = c.all_axes()
        if ax:
            k = rng.choice(sorted(ax))
            kw[k] = rng.choice([ax[k] + 0.5, float(ax[k]), "3", None, [ax[k], ax[k]]])
    elif kind == "kw_negative":
        ax = c.all_axes()
        if ax:
            k = rng.choice(sorted(ax))
            kw[k] = rng.choice([0, -1, -ax[k]])
    elif kind == "arrow_doubled":
        desc = desc.replace("->", "-> a ->", 1)
        must_fail = True
    elif kind == "nontensor_arg" and arrays:
        i = rng.randrange(len(arrays))
        arrays[i] = rng.choice(["text", None, [1, 2], {"a": 1}])
        must_fail = not isinstance(arrays[i], list)
    return kind, desc, arrays, kw, must_fail


# template kinds that break one stated rule of their operation and nothing else: rejected with einx.errors.SemanticError
SEMANTIC_RULES = {
    "dot_contracted_in_three_inputs", "dot_contracted_in_one_input", "dot_single_input", "get_at_two_marked_coordinate_axes", "get_at_coordinate_count",
    "get_at_single_input", "sort_needs_exactly_one_bracket", "update_at_two_marked_coordinate_axes", "update_at_target_axis_marked_in_updates",
    "update_at_coordinate_count", "argfind_two_marked_outputs", "argfind_marked_count", "duplicate_vectorized_output_axis", "missing_output",
    "implicit_output_ambiguous", "preserve_output_brackets_differ", "id_piece_count_differs",
}


def rule_breaking(rng):
    """calls that are well-formed as text and consistent in sizes but break one stated rule of their operation
    (einx_from_namedtensor.py: _semantic_checks_*, bracket placement): all must be rejected -> (kind, fn, desc, arrays, kw)"""
    pool = ["a", "b", "c", "d", "h", "w", "p", "q", "i", "j", "k", "n", "m"]
    nm = rng.sample(pool, 8)
    sz = {x: rng.choice([2, 3, 4]) for x in nm}
    A, B, C, D, H, W, P, Q = nm

    def z(*axes, dtype=np.float64):
        return np.zeros(tuple(sz[x] if isinstance(x, str) else x for x in axes), dtype=dtype)

    def zi(*axes):
        return z(*axes, dtype=np.int64)
    t = [
        ("dot_contracted_in_three_inputs", "dot", f"{A} [{B}], [{B}] {C}, [{B}] {D} -> {A} {C} {D}", [z(A, B), z(B, C), z(B, D)]),
        ("dot_contracted_in_three_inputs", "dot", f"{A} {B}, {B} {C}, {B} {D} -> {A} {C} {D}", [z(A, B), z(B, C), z(B, D)]),
        ("dot_contracted_in_three_inputs", "dot", f"[{B}], {A} [{B}], [{B}] -> {A}", [z(B), z(A, B), z(B)]),
        ("dot_contracted_in_one_input", "dot", f"{A} [{B}], {C} -> {A} {C}", [z(A, B), z(C)]),
        ("dot_single_input", "dot", f"{A} [{B}] -> {A}", [z(A, B)]),
        ("get_at_two_marked_coordinate_axes", "get_at", f"[{H} {W}] {C}, {P} [{A} {B}] -> {P} {C}", [z(H, W, C), zi(P, 1, 2)]),
        ("get_at_coordinate_count", "get_at", f"[{H} {W}] {C}, {P} [3] -> {P} {C}", [z(H, W, C), zi(P, 3)]),
        ("get_at_coordinate_count", "get_at", f"[{H} {W}] {C}, {P} -> {P} {C}", [z(H, W, C), zi(P)]),
        ("get_at_coordinate_count", "get_at", f"[{H}] {C}, {P} [2] -> {P} {C}", [z(H, C), zi(P, 2)]),
        ("get_at_coordinate_count", "get_at", f"[{H} {W}] {C}, {P}, {P}, {P} -> {P} {C}", [z(H, W, C), zi(P), zi(P), zi(P)]),
        ("get_at_single_input", "get_at", f"[{H}] {C} -> {C}", [z(H, C)]),
        ("sort_needs_exactly_one_bracket", "sort", f"{A} {B}", [z(A, B)]),
        ("sort_needs_exactly_one_bracket", "sort", f"[{A}] [{B}]", [z(A, B)]),
        ("sort_needs_exactly_one_bracket", "argsort", f"[{A} {B}] {C}", [z(A, B, C)]),
        ("update_at_marked_sets_differ", "set_at", f"[{H}] {C}, {P}, {P} {C} -> [{W}] {C}", [z(H, C), zi(P), z(P, C)]),
        ("update_at_marked_sets_differ", "add_at", f"[{H} {W}] {C}, {P} [2], {P} {C} -> [{H}] {W} {C}", [z(H, W, C), zi(P, 2), z(P, C)]),
        ("update_at_two_marked_coordinate_axes", "add_at", f"[{H} {W}] {C}, {P} [{A} {B}], {P} {C} -> [{H} {W}] {C}", [z(H, W, C), zi(P, 1, 2), z(P, C)]),
        ("update_at_target_axis_marked_in_updates", "set_at", f"[{H}] {C}, {P}, {P} [{H}] {C} -> [{H}] {C}", [z(H, C), zi(P), z(P, H, C)]),
        ("update_at_coordinate_count", "subtract_at", f"[{H} {W}] {C}, {P}, {P} {C} -> [{H} {W}] {C}", [z(H, W, C), zi(P), z(P, C)]),
        ("update_at_coordinate_count", "set_at", f"[{H}] {C}, {P} [2], {P} {C} -> [{H}] {C}", [z(H, C), zi(P, 2), z(P, C)]),
        ("argfind_two_marked_outputs", "argmax", f"{A} [{B}] -> {A} [{C} {D}]", [z(A, B)]),
        ("argfind_marked_count", "argmax", f"{A} [{B}] [{C}] -> {A} [3]", [z(A, B, C)]),
        ("argfind_marked_count", "argmin", f"{A} [{B}] -> {A} [2]", [z(A, B)]),
        ("argfind_marked_count", "argmin", f"{A} [{B}] [{C}] -> {A}", [z(A, B, C)]),
        ("argfind_two_inputs", "argmax", f"{A} [{B}], {C} -> {A}", [z(A, B), z(C)]),
        ("brackets_not_allowed", "add", f"{A} [{B}], {A} -> {A}", [z(A, B), z(A)]),
        ("brackets_not_allowed", "id", f"{A} [{B}] -> {A} {B}", [z(A, B)]),
        ("brackets_not_allowed", "multiply", f"{A} {B}, {A} -> [{A}] {B}", [z(A, B), z(A)]),
        ("duplicate_vectorized_output_axis", "add", f"{A}, {B} -> {A} {B} {A}", [z(A), z(B)]),
        ("duplicate_vectorized_output_axis", "sum", f"{A} [{B}] -> {A} {A}", [z(A, B)]),
        ("reduce_output_has_reduced_axis", "sum", f"{A} [{B}] -> {A} {B}", [z(A, B)]),
        ("missing_output", "dot", f"{A} [{B}], [{B}] {C} -> ", [z(A, B), z(B, C)]),
        ("implicit_output_ambiguous", "add", f"{A} {B}, {B} {A}", [z(A, B), z(B, A)]),
        ("implicit_output_ambiguous", "multiply", f"{A} {B} {C}, {C} {A} {B}", [z(A, B, C), z(C, A, B)]),
        ("implicit_output_ambiguous", "where", f"{A} {B}, {B} {A}, {A}", [z(A, B) > 0, z(B, A), z(A)]),
    ]
    out = [(k, fn, d, arrs, {}) for k, fn, d, arrs in t]
    # per-repetition keyword sizes (sequences) in which one entry is not a positive integer: rejected, and not by quoting a
    # size as expression text
    n = rng.randint(2, 3)
    good = [rng.choice([2, 3]) for _ in range(n)]
    other = [rng.choice([2, 3]) for _ in range(n)]
    j = rng.randrange(n)
    bad = list(good)
    bad[j] = rng.choice([-1, -good[j], 0, -7])
    wrap = rng.choice([tuple, list, lambda v: np.asarray(v)])
    full = np.zeros(tuple(g * o for g, o in zip(good, other)))
    # operations that keep their bracketed axes (flip / roll / softmax / log_softmax / sort): the output's brackets must be the input's
    out += [
        ("preserve_output_brackets_differ", "softmax", f"{A} [{B}] -> {A} [{B} {C}]", [z(A, B)], {C: 2}),
        ("preserve_output_brackets_differ", "flip", f"{A} [{B}] -> {A} [{B}] [{C}]", [z(A, B)], {C: 2}),
        ("preserve_output_brackets_differ", "log_softmax", f"[{A}] {B} -> [{A} {C}] {B}", [z(A, B)], {C: 3}),
        ("preserve_output_brackets_differ", "roll", f"{A} [{B}] -> {A} [{C} {B}]", [z(A, B)], {C: 2, "shift": 1}),
        ("preserve_output_brackets_differ", "sort", f"{A} [{B}] -> {A} [{B} {C}]", [z(A, B)], {C: 2}),
        ("preserve_output_brackets_differ", "softmax", f"{A} [{B}] -> {A} [{C}]", [z(A, B)], {C: sz[B]}),
    ]
    # sizes for an axis under an ellipsis whose number of repetitions cannot be met (sequence too long / too short, rank mismatch)
    m = rng.randint(2, 3)
    sizes = [rng.choice([2, 3]) for _ in range(m)]
    grid = np.zeros(tuple(2 * v for v in sizes))
    out += [
        ("kw_sequence_length_mismatch", "id", f"({A} {B})... -> {A}... {B}...", [grid], {B: tuple(sizes) + (2,)}),
        ("kw_sequence_length_mismatch", "id", f"{C} {A}... -> {A}... {C}", [np.zeros((2,) + tuple(sizes))], {A: list(sizes) + [4]}),
        ("kw_sequence_length_mismatch", "id", f"{C} ({A} {B})... {D} -> {C} {A}... {B}... {D}", [np.zeros((2,) + grid.shape + (3,))], {B: tuple(sizes)[:-1] + (2, 2, 2)}),
        ("kw_ellipsis_rank_mismatch", "mean", f"{C} [{A}...] {D}", [np.zeros((4,))], {A: 2}),
        ("kw_ellipsis_rank_mismatch", "add", f"{A}..., {A}... -> {A}...", [np.zeros((4, 4)), np.zeros((4, 4, 4))], {A: 4}),
    ]
    # einx.id pairs the pieces of its inputs with the pieces of its outputs one to one: fewer or more is a SemanticError
    out += [
        ("id_piece_count_differs", "id", f"{A}, {B} -> ({A} + {B}), {A}", [z(A), z(B)], {}),
        ("id_piece_count_differs", "id", f"{A} {C}, {B} {C} -> ({A} + {B}) {C}, {B} {C}", [z(A, C), z(B, C)], {}),
        ("id_piece_count_differs", "id", f"({A} + {B}) -> {A}, {B}, {A}", [np.zeros((sz[A] + sz[B],))], {A: sz[A]}),
        ("id_piece_count_differs", "id", f"{A}, {B}, {C} -> ({A} + {B})", [z(A), z(B), z(C)], {}),
    ]
    # ill-formed updates of an EMPTY target (a zero-sized dimension in the first tensor)
    out += [
        ("empty_target_text_is_not_an_expression", "set_at", f"{A} [{H}] {C}, {P}, {P} {C} -> {A} [{H}] {C} ((", [np.zeros((0, sz[H], sz[C])), zi(P), z(P, C)], {}),
        ("empty_target_marked_sets_differ", "add_at", f"{A} [{H}] {C}, {P}, {P} {C} -> {A} [{W}] {C}", [np.zeros((0, sz[H], sz[C])), zi(P), z(P, C)], {}),
        ("empty_target_rank_mismatch", "subtract_at", f"{A} [{H}] {C} {D}, {P}, {P} {C} -> {A} [{H}] {C} {D}", [np.zeros((0, sz[H], sz[C])), zi(P), z(P, C)], {}),
        ("empty_target_tensor_missing", "set_at", f"{A} [{H}] {C}, {P}, {P} {C} -> {A} [{H}] {C}", [np.zeros((0, sz[H], sz[C])), zi(P)], {}),
    ]
    # a size that is no positive integer, given under a name the description does not use: still an invalid call
    out += [
        ("kw_unused_name_invalid_value", "id", f"{A} {B} -> {B} {A}", [z(A, B)], {Q: -1}),
        ("kw_unused_name_invalid_value", "sum", f"{A} [{B}]", [z(A, B)], {Q: 2.5}),
        ("kw_unused_name_invalid_value", "solve_axes", f"{A} {B}", [z(A, B)], {Q: [1, -2]}),
        ("kw_unused_name_invalid_value", "add", f"{A} {B}, {B}", [z(A, B), z(B)], {Q: -3}),
    ]
    # the same rule-breaking updates with empty coordinate / update tensors: still ill-formed, still to be rejected
    out += [
        ("empty_update_marked_sets_differ", "set_at", f"[{H}] {C}, {P}, {P} {C} -> [{W}] {C}", [z(H, C), zi(0), z(0, C)], {}),
        ("empty_update_coordinate_count", "add_at", f"[{H} {W}] {C}, {P}, {P} {C} -> [{H} {W}] {C}", [z(H, W, C), zi(0), z(0, C)], {}),
        ("empty_update_text_is_not_an_expression", "subtract_at", f"[{H}] {C}, {P}, {P} {C} -> [{H}] {C} ((", [z(H, C), zi(0), z(0, C)], {}),
        ("empty_update_rank_mismatch", "set_at", f"[{H}] {C} {D}, {P}, {P} {C} -> [{H}] {C} {D}", [z(H, C), zi(0), z(0, C)], {}),
    ]
    out += [
        ("kw_sequence_entry_not_positive", "id", f"({A} {B})... -> {A}... {B}...", [full], {B: wrap(bad)}),
        ("kw_sequence_entry_not_positive", "sum", f"{A} [{B}...]", [np.zeros((2,) + tuple(good))], {B: wrap(bad)}),
        ("kw_sequence_entry_not_positive", "solve_axes", f"({A} {B})...", [full], {B: wrap(bad)}),
        ("kw_sequence_entry_not_positive", "id", f"{C} ({A} {B})... -> {C} {B}... {A}...", [np.zeros((2,) + full.shape)], {A: wrap(bad)}),
    ]
    return out



def call_watched(fn_name, desc, arrays, kw, backend=None):
    import einx
    fn = getattr(einx, fn_name)
    args = [a.view(Watched) if isinstance(a, np.ndarray) else a for a in arrays]
    Watched.count = 0
    kw = dict(kw)
    import contextlib
    block = contextlib.nullcontext()
    if backend == "WITH:3":
        # an argument that is neither a backend, nor a name, nor None - while a with-block is open
        kw["backend"] = 3
        block = einx.backend.get("numpy")
    elif backend:
        kw["backend"] = backend
    try:
        with block:
            try:
                r = common.with_alarm(30, fn, desc, *args, **kw)
            except common.Timeout:
                # a machine under heavy load is not a hang: once more with a generous limit (values are not compared here)
                Watched.count = 0
                r = common.with_alarm(240, fn, desc, *args, **kw)
        return {"outcome": "value", "computations": Watched.count}
    except BaseException as e:  # noqa: BLE001
        msg = str(e)
        quoted = re.findall(r'Expression: "([^"\n]*)"', msg)
        return {"outcome": common.classify_exc(e), "site": common.exc_site(e), "message": msg[:200], "full_message": msg[-400:], "computations": Watched.count,
                # solve_* append " ->" to the caller's text before parsing: a quotation that contains the caller's string is accepted
                "quotes_foreign_text": isinstance(desc, str) and bool(quoted) and not any(desc.strip() in q for q in quoted), "quoted": quoted[:2]}


def _work(item):
    what, fn, desc, arrays, kw, must_fail, backend = item
    r = call_watched(fn, desc, arrays, kw, backend)
    out = []
    rec = {"fn": fn, "desc": desc, "shapes": [list(np.shape(a)) if isinstance(a, np.ndarray) else repr(a) for a in arrays],
           "kwargs": {k: repr(v) for k, v in kw.items()}, "backend": backend, "corruption": what}
    o = r["outcome"]
    if o.startswith("INTERNAL") or o == "TIMEOUT":
        out.append(({"kind": "internal_exception", "exc": o, "site": r.get("site", ""), "corruption": what}, {**rec, "message": r.get("message")}))
    elif o == "value":
        if must_fail:
            out.append(({"kind": "ill_formed_call_returns_value", "corruption": what, "fn": fn}, rec))
    elif what.startswith("rule:") and what[5:] in SEMANTIC_RULES and o != "SemanticError" and o not in ("OperationNotSupportedError",) and not o.startswith("INTERNAL"):
        # a call that breaks a stated rule of its operation is rejected as such, not by whatever fails first further down
        out.append(({"kind": "rule_violation_reported_as_another_error", "corruption": what, "fn": fn, "exc": o}, {**rec, "message": r.get("message")}))
    elif o == "CallOperationError":
        out.append(({"kind": "rejected_only_at_run_time", "corruption": what, "fn": fn,
                     "runtime_error": "read_only_array" if "read-only" in (r.get("full_message") or "") else "other"}, {**rec, "message": r.get("message")}))
    elif o == "SyntaxError" and r.get("quotes_foreign_text"):
        out.append(({"kind": "syntax_error_about_text_the_caller_did_not_write", "has_brace": any("{" in q for q in r["quoted"]),
                     "nested_dots": any("......" in q for q in r["quoted"]) and not any("{" in q for q in r["quoted"])},
                    {**rec, "quoted": r["quoted"], "message": r.get("message")}))
    elif o not in ALLOWED:
        out.append(({"kind": "undocumented_error_class", "exc": o}, {**rec, "message": r.get("message")}))
    elif r["computations"] > 0:
        out.append(({"kind": "computation_before_rejection", "exc": o, "fn": fn}, {**rec, "computations": r["computations"]}))
    return o, out


def solve_items(c, rng):
    """the solve_* / matches entry points on (possibly corrupted) expression lists"""
    kind, desc, arrays, kw, must_fail = corrupt(c, rng)
    d = desc.split(" -> ")[0] if rng.random() < 0.8 else desc
    fn = rng.choice(["solve_shapes", "solve_axes", "solve", "matches", "check"])
    if kind in ("tensor_removed", "tensor_added") and fn != "matches" and "->" not in d and d.count(",") + 1 != len(arrays):
        # a wrong number of tensors for the expressions must be refused by the solving entry points as well
        return ("solve:" + kind, fn, d, arrays, kw, True, None)
    if fn == "matches":
        return ("solve:" + kind, fn, d, arrays, kw, False, None)
    return ("solve:" + kind, fn, d, arrays, kw, False, None)


def run(ctx):
    import einx  # noqa: F401
    n = 1500 if ctx.tier == "quick" else 50000
    items = []
    for _ in range(n):
        c = gencalls.gen_call(ctx.rng)
        r = ctx.rng.random()
        if r < 0.7:
            kind, desc, arrays, kw, must_fail = corrupt(c, ctx.rng)
            items.append((kind, c.op, desc, arrays, kw, must_fail, ctx.rng.choice([None, None, "numpy.numpylike", "numpy.einsum", "nosuchbackend", 3])))
        elif r < 0.85:
            items.append(solve_items(c, ctx.rng))
        else:
            s = ctx.rng.choice(c12.random_strings(ctx.rng, 3)[:3] + c12.structured_strings(ctx.rng, 3))
            items.append(("random_string", c.op, s, [np.array(a) for a in c.arrays], dict(c.size_kwargs(), **c.extra_kwargs), False, None))
    # descriptions whose derived (elementary-operation) text differs from what the caller wrote
    for fn, d, sh in [("sum", "[a b]...", (2, 3, 2, 3)), ("sum", "c [a b]... -> c", (2, 2, 3)), ("softmax", "[a b]...", (2, 3)), ("get_at", "[a b]..., i [2] -> i", None),
                      ("sum", "a [b]...", (2, 3, 4)), ("max", "[(a b)]...", (6, 6)), ("flip", "a [b c]...", (2, 3, 4)),
                      ("sum", "[b...]...", (2, 3)), ("sum", "a [[b...]...]", (4, 2, 3)), ("softmax", "[b...]... c", (2, 3, 4))]:
        arrs = [np.zeros(sh)] if sh else [np.zeros((2, 3)), np.zeros((4, 2), dtype=np.int64)]
        items.append(("derived_text", fn, d, arrs, {}, False, None))
    # a backend argument of the wrong type is refused, with or without an open with-block
    for _ in range(4 if ctx.tier == "quick" else 60):
        c = gencalls.gen_call(ctx.rng)
        items.append(("bad_backend_argument", c.op, c.desc, [np.array(a) for a in c.arrays], dict(c.size_kwargs(), **c.extra_kwargs), True, ctx.rng.choice([3, "WITH:3"])))
    # expressions nested far deeper than any program writes them: rejected or computed, never an internal error
    for depth in (120, 400, 1000, 3000):
        flat = "(" * depth + "a" + ")" * depth
        items.append(("deep_nesting", "id", flat, [np.arange(3.0)], {}, False, None))
        items.append(("deep_nesting", "solve_shapes", flat, [np.arange(3.0)], {}, False, None))
        if depth >= 400:      # (below that, numpy's limit of 64 dimensions decides at run time)
            nest = "".join(f"(a{i} " for i in range(depth)) + "z" + ")" * depth
            items.append(("deep_nesting", "sum", nest + " -> z", [np.arange(3.0)], {f"a{i}": 1 for i in range(depth)}, False, None))
    for _ in range(6 if ctx.tier == "quick" else 200):
        for k, fn, d, arrs, kw in rule_breaking(ctx.rng):
            b = ctx.rng.choice([None, None, "numpy.numpylike", "numpy.einsum"])
            items.append(("rule:" + k, fn, d, arrs, kw, True, None if fn.startswith("solve") else b))
    res = common.pmap(_work, items)
    outcomes = {}
    kinds = {}
    for it, (o, viol) in zip(items, res):
        outcomes[o] = outcomes.get(o, 0) + 1
        kinds[it[0]] = kinds.get(it[0], 0) + 1
        for tags, payload in viol:
            ctx.report(tags, payload)
        ctx.distinct.add(it[1] + "|" + it[2] + "|" + str([np.shape(a) if isinstance(a, np.ndarray) else repr(a) for a in it[3]]))
    for it in items[:5]:
        ctx.sample({"corruption": it[0], "fn": it[1], "desc": it[2], "kwargs": {k: repr(v) for k, v in it[4].items()}})
    ctx.coverage.update({
        "evaluations": len(items),
        "rule": "single-edit corruptions of generated valid calls (15 kinds), calls breaking one stated rule of their operation (rule:*, all "
                "must be rejected), the solve_* / matches / check entry points, random token strings; distinct_nontrivial = distinct (function, description, argument shapes)",
        "input_distribution": {"corruption": kinds, "outcome_classes": outcomes},
    })


def replay(ctx, path):
    import ast
    data = json.load(open(path))
    print(json.dumps(data, indent=1)[:3000])
    if "fn" in data and "desc" in data and "shapes" in data:
        import einx  # noqa: F401
        arrays = []
        for sh in data["shapes"]:
            if isinstance(sh, list):
                arrays.append(np.zeros(tuple(sh)))
            else:
                try:
                    arrays.append(ast.literal_eval(sh))
                except (ValueError, SyntaxError):
                    arrays.append(sh)
        kw = {}
        for k, v in (data.get("kwargs") or {}).items():
            try:
                kw[k] = ast.literal_eval(v) if isinstance(v, str) else v
            except (ValueError, SyntaxError):
                kw[k] = v
        what = data.get("corruption") or "replay"
        o, viol = _work((what, data["fn"], data["desc"], arrays, kw, what.startswith("rule:") or bool(data.get("must_fail")), data.get("backend")))
        print("re-executed:", o, [t for t, _ in viol])
        known = [t for t, _ in viol if common.match_known(ctx.known, t) is not None]
        if viol and len(known) < len(viol):
            print(f"VIOLATION property=C03 replay={path}")
            return 1
        print("not reproduced on this tree (zeros of the recorded shapes; the recorded element types are not kept)" if not viol else "only known findings")
        return 0
    print(f"VIOLATION property=C03 replay={path}")
    return 1
