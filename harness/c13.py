"""C13 - tensor factories run once per call, with the resolved shape, only at run time.

Generated calls in which a subset of the argument positions is replaced by recording factories of
several signature kinds, executed in short histories (first call, cached repeat, graph=True, a
different factory of another signature for the same call, wrong-type / wrong-shape returns)."""
import json

import numpy as np

from . import common, gencalls, implrun, irser
from .c08 import eq
from .common import sx

KINDS = ["positional", "name_kw", "all_kw", "var_kw", "object", "object_unhashable", "argindex_kw", "deco_positional", "deco_all_kw", "deco_name_kw",
         "array_default", "star_args"]


def _deco(f):
    """one decorator shared by several factories: inspect.signature follows __wrapped__ to the signature of each of them"""
    import functools

    @functools.wraps(f)
    def wrapper(*a, **k):
        return f(*a, **k)
    return wrapper


class Recorder:
    def __init__(self, value, kind, bad=None):
        self.value, self.kind, self.bad, self.calls = value, kind, bad, []

    def result(self, shape):
        if self.bad == "type":
            return [1, 2, 3]
        if self.bad == "type_duck":
            # not a tensor of the backend although shape, dtype and conversion look right
            v = np.array(self.value)

            class Duck:
                shape, dtype, ndim = v.shape, v.dtype, v.ndim

                def __array__(self, dtype=None, copy=None):
                    return v if dtype is None else v.astype(dtype)
            return Duck()
        if self.bad == "type_nested":
            v = np.array(self.value)
            return v[()] if v.ndim == 0 else (memoryview(np.ascontiguousarray(v)) if v.dtype.kind in "if" else v.tolist())
        if self.bad == "shape":
            return np.zeros(tuple(shape) + (2,), dtype=self.value.dtype)
        return np.array(self.value)

    def make(self):
        rec = self

        def positional(shape):
            rec.calls.append((shape, {}))
            return rec.result(shape)

        def name_kw(shape, name=None):
            rec.calls.append((shape, {"name": name}))
            return rec.result(shape)

        def all_kw(shape, name=None, arg_index=None, signature=None):
            rec.calls.append((shape, {"name": name, "arg_index": arg_index, "signature": type(signature).__name__}))
            return rec.result(shape)

        def var_kw(shape, **kw):
            rec.calls.append((shape, {k: (type(v).__name__ if k == "signature" else v) for k, v in kw.items()}))
            return rec.result(shape)

        def argindex_kw(shape, *, arg_index=-1):
            rec.calls.append((shape, {"arg_index": arg_index}))
            return rec.result(shape)

        def array_default(shape, name=None, table=np.arange(3)):
            # a parameter whose default is an array: signatures are compared on every cached call
            rec.calls.append((shape, {"name": name}))
            return rec.result(shape)

        def star_args(shape, *rest):
            # declares none of the optional keywords (and cannot take any)
            rec.calls.append((shape, {}))
            return rec.result(shape)

        class Obj:
            def __call__(self, shape, name="x"):
                rec.calls.append((shape, {"name": name}))
                return rec.result(shape)

        class ObjEq:
            """a callable object that defines equality and therefore is not hashable (a plain dataclass initialiser)"""
            def __init__(self, tag):
                self.tag = tag

            def __eq__(self, other):
                return isinstance(other, ObjEq) and self.tag == other.tag

            def __call__(self, shape, name="x"):
                rec.calls.append((shape, {"name": name}))
                return rec.result(shape)

        if self.kind == "object_unhashable":
            return ObjEq(id(rec))
        if self.kind.startswith("deco_"):
            return _deco({"positional": positional, "name_kw": name_kw, "all_kw": all_kw}[self.kind[5:]])
        return {"positional": positional, "name_kw": name_kw, "all_kw": all_kw, "var_kw": var_kw, "object": Obj(), "argindex_kw": argindex_kw,
                "array_default": array_default, "star_args": star_args}[self.kind]


def expected_kwargs(kind, op, idx):
    if kind.startswith("deco_"):
        kind = kind[5:]
    if kind in ("positional", "star_args"):
        return {}
    if kind in ("name_kw", "object", "object_unhashable", "array_default"):
        return {"name": op}
    if kind == "argindex_kw":
        return {"arg_index": idx}
    return {"name": op, "arg_index": idx, "signature": "SimpleNamespace"}


def run_history(c, positions, kinds, backend, rng_seed):
    """-> list of violations for one call with factories at the given positions"""
    import random
    import einx
    rng = random.Random(rng_seed)
    out = []
    fn = getattr(einx, c.op)
    kw = dict(c.all_axes())
    kw.update(c.extra_kwargs)
    kw["backend"] = backend
    base = implrun.run_call(c, backend)
    if base[0] != "ok":
        return out          # the plain call itself is not accepted (C01's business)

    def args_with(recs):
        return [recs[i].make() if i in recs else np.array(a) for i, a in enumerate(c.arrays)]

    def check_calls(recs, step):
        for i, r in recs.items():
            exp_shape = tuple(int(s) for s in np.shape(c.arrays[i]))
            if len(r.calls) != 1:
                out.append(({"kind": "factory_call_count", "step": step, "count": len(r.calls), "factory": r.kind, "family": c.family},
                            {"call": c.record(), "position": i, "calls": str(r.calls)[:300]}))
                continue
            shape, kws = r.calls[0]
            if not (isinstance(shape, tuple) and all(type(s) is int for s in shape) and shape == exp_shape):
                out.append(({"kind": "factory_wrong_shape_argument", "step": step, "factory": r.kind}, {"call": c.record(), "position": i, "got": str(shape), "expected": str(exp_shape)}))
            if kws != expected_kwargs(r.kind, c.op, i):
                out.append(({"kind": "factory_wrong_keywords", "step": step, "factory": r.kind}, {"call": c.record(), "position": i, "got": str(kws), "expected": str(expected_kwargs(r.kind, c.op, i))}))

    # step 1: first call (the traced graph is captured); step 2: cached repeat; both must equal the plain call
    for step in ("first", "repeat"):
        recs = {i: Recorder(c.arrays[i], kinds[i]) for i in positions}
        try:
            if step == "first":
                with irser.Capture() as cap:
                    r = common.with_alarm(30, fn, c.desc, *args_with(recs), **kw)
                for rec in cap.records:
                    try:
                        GRAPHS.append({"wire": irser.ser_graph(rec["graph"]), "positions": positions,
                                       "shapes": {i: [int(s) for s in np.shape(c.arrays[i])] for i in positions},
                                       "kinds": kinds, "call": c.record(), "backend": backend})
                    except irser.Unsupported:
                        pass
            else:
                r = common.with_alarm(30, fn, c.desc, *args_with(recs), **kw)
            r = [np.asarray(x) for x in (r if isinstance(r, tuple) else (r,))]
            if not eq(r, base[1]):
                out.append(({"kind": "factory_result_differs", "step": step, "family": c.family}, {"call": c.record(), "positions": positions}))
            check_calls(recs, step)
        except BaseException as e:  # noqa: BLE001
            out.append(({"kind": "factory_call_fails", "step": step, "exc": common.classify_exc(e), "family": c.family},
                        {"call": c.record(), "positions": positions, "kinds": kinds, "message": str(e)[:300]}))
            return out
    # step 3: graph=True never runs a factory
    recs = {i: Recorder(c.arrays[i], kinds[i]) for i in positions}
    try:
        common.with_alarm(30, fn, c.desc, *args_with(recs), graph=True, **kw)
    except BaseException:  # noqa: BLE001
        pass
    if any(r.calls for r in recs.values()):
        out.append(({"kind": "factory_invoked_for_graph_text"}, {"call": c.record(), "positions": positions}))
    # step 4: another factory signature for the same call in the same process gets its own keywords
    kinds2 = {i: rng.choice([k for k in KINDS if k != kinds[i]]) for i in positions}
    recs = {i: Recorder(c.arrays[i], kinds2[i]) for i in positions}
    try:
        r = common.with_alarm(30, fn, c.desc, *args_with(recs), **kw)
        r = [np.asarray(x) for x in (r if isinstance(r, tuple) else (r,))]
        if not eq(r, base[1]):
            out.append(({"kind": "factory_result_differs", "step": "other_signature", "family": c.family}, {"call": c.record(), "positions": positions, "kinds": [kinds, kinds2]}))
        check_calls(recs, "other_signature")
    except BaseException as e:  # noqa: BLE001
        out.append(({"kind": "factory_call_fails", "step": "other_signature", "exc": common.classify_exc(e)},
                    {"call": c.record(), "positions": positions, "kinds": [kinds, kinds2], "message": str(e)[:300]}))
    # step 5: a rejected call (one dimension of a non-factory tensor changed) never runs a factory
    others = [i for i in range(len(c.arrays)) if i not in positions and np.ndim(c.arrays[i]) > 0]
    if others:
        j = rng.choice(others)
        bad = [np.array(a) for a in c.arrays]
        sh = list(bad[j].shape)
        sh[rng.randrange(len(sh))] += 1
        bad[j] = np.zeros(sh, dtype=bad[j].dtype)
        recs = {i: Recorder(c.arrays[i], kinds[i]) for i in positions}
        a2 = [recs[i].make() if i in recs else bad[i] for i in range(len(c.arrays))]
        try:
            common.with_alarm(30, fn, c.desc, *a2, **kw)
            rejected = False
        except BaseException:  # noqa: BLE001
            rejected = True
        if rejected and any(r.calls for r in recs.values()):
            out.append(({"kind": "factory_invoked_by_rejected_call"}, {"call": c.record(), "positions": positions, "changed": j}))
    # step 7: the same through an adapted numpy function (einx.numpy.adapt_numpylike_*): graph=True runs no factory, a call runs each once
    adapted = None
    import einx as _einx
    if c.family == "elementwise" and c.op in ("add", "multiply", "subtract", "maximum", "minimum") and len(c.arrays) == 2:
        adapted = _einx.numpy.adapt_numpylike_elementwise(getattr(np, c.op))
    elif c.family == "reduce" and c.op in ("sum", "max", "min", "prod") and not c.extra_kwargs:
        adapted = _einx.numpy.adapt_numpylike_reduce(getattr(np, c.op))
    if adapted is not None:
        kwa = {k: v for k, v in kw.items() if k != "backend"}
        recs = {i: Recorder(c.arrays[i], kinds[i]) for i in positions}
        try:
            common.with_alarm(30, adapted, c.desc, *args_with(recs), graph=True, **kwa)
        except BaseException:  # noqa: BLE001
            pass
        if any(r.calls for r in recs.values()):
            out.append(({"kind": "factory_invoked_for_graph_text", "through": "adapter"}, {"call": c.record(), "positions": positions}))
        recs = {i: Recorder(c.arrays[i], kinds[i]) for i in positions}
        try:
            r = common.with_alarm(30, adapted, c.desc, *args_with(recs), **kwa)
        except BaseException:  # noqa: BLE001
            r = None                   # what adapters accept is C15's business
        if r is not None:
            for i, rec in recs.items():
                if len(rec.calls) != 1 or tuple(rec.calls[0][0]) != tuple(int(s) for s in np.shape(c.arrays[i])):
                    out.append(({"kind": "factory_call_count", "through": "adapter", "count": len(rec.calls)}, {"call": c.record(), "position": i, "calls": str(rec.calls)[:300]}))
    # step 6: wrong return type / shape makes the call fail
    i = rng.choice(positions)
    for badkind in ("type", "shape", "type_duck", "type_nested"):
        recs = {p: Recorder(c.arrays[p], kinds[p], bad=badkind if p == i else None) for p in positions}
        try:
            r = common.with_alarm(30, fn, c.desc, *args_with(recs), **kw)
            out.append(({"kind": "bad_factory_output_accepted", "bad": badkind, "family": c.family}, {"call": c.record(), "position": i}))
        except BaseException as e:  # noqa: BLE001
            cls = common.classify_exc(e)
            if cls.startswith("INTERNAL") and cls != "INTERNAL:AssertionError":
                pass
    return out


GRAPHS = []


def _work(item):
    c, positions, kinds, seed = item
    res = []
    GRAPHS.clear()
    for b in ["numpy", "numpy.numpylike"]:
        res.extend(run_history(c, positions, kinds, b, seed))
    return res, list(GRAPHS)


def factory_events(events, i):
    """events of the symbolic evaluation whose callee is graph input i"""
    return [e for e in events if e[0] == "call" and e[1] == ["in", str(i)]]


def empty_update_probes(rng):
    """indexed updates whose coordinate / update tensors are empty (no element addressed), with a factory as target or as coordinates:
    the factory is still invoked once with its shape and the result is a tensor; with a control that addresses some elements"""
    import einx
    out = []
    a, b = rng.choice([2, 3]), rng.choice([3, 4])
    for op in ("set_at", "add_at", "subtract_at"):
        for p in (0, 3):
            for where in ("target", "coordinates"):
                calls = []
                idx, upd = np.zeros((p, 1), dtype=np.int64), np.ones((p,))

                def fac(shape, _calls=calls, _where=where, _idx=idx):
                    _calls.append(shape)
                    return np.zeros(shape) if _where == "target" else np.array(_idx)
                args = [fac, idx, upd] if where == "target" else [np.zeros((a, b)), fac, upd]
                tags = {"kind": "factory_with_empty_update", "position": where, "empty": p == 0}
                try:
                    r = common.with_alarm(30, getattr(einx, op), "a [b], p [1], p -> a [b]", *args, a=a, b=b)
                except BaseException as e:  # noqa: BLE001
                    out.append((dict(tags, outcome=common.classify_exc(e)), {"op": op, "p": p, "message": str(e)[:300]}))
                    continue
                want = (a, b) if where == "target" else (p, 1)
                if not isinstance(r, np.ndarray):
                    out.append((dict(tags, outcome="result_is_not_a_tensor:" + type(r).__name__), {"op": op, "p": p, "factory_calls": str(calls)}))
                elif calls != [want]:
                    out.append((dict(tags, outcome="factory_call_count:" + str(len(calls))), {"op": op, "p": p, "factory_calls": str(calls), "expected": str([want])}))
                else:
                    out.append((None, None))
    return out


def run(ctx):
    import einx  # noqa: F401
    n = 220 if ctx.tier == "quick" else 8000
    items = []
    fam = {}
    kind_hist = {}
    while len(items) < n:
        c = gencalls.gen_call(ctx.rng)
        cand = [i for i in range(len(c.arrays)) if not (c.family == "update_at" and i == 0)]
        if not cand:
            continue
        k = ctx.rng.randint(1, len(cand))
        positions = sorted(ctx.rng.sample(cand, k))
        kinds = {i: ctx.rng.choice(KINDS) for i in positions}
        for v in kinds.values():
            kind_hist[v] = kind_hist.get(v, 0) + 1
        fam[c.family] = fam.get(c.family, 0) + 1
        items.append((c, positions, kinds, ctx.rng.randrange(1 << 30)))
        ctx.distinct.add(c.op + "|" + c.desc + "|" + json.dumps(positions))
    res = common.pmap(_work, items)
    probes = empty_update_probes(ctx.rng)
    for tags, payload in probes:
        if tags is not None:
            ctx.report(tags, payload)
    graphs = []
    for viol, gs in res:
        graphs.extend(gs)
        for tags, payload in viol:
            ctx.report(tags, payload)
    # the traced program, evaluated node by node by the extracted model: one call of every factory input, with the resolved shape
    outs = ctx.model.batch([sx(["ir_seval", g["wire"]]) for g in graphs])
    n_graph = 0
    for g, o in zip(graphs, outs):
        if o[0] != "ok":
            continue
        n_graph += 1
        for i in g["positions"]:
            evs = factory_events(o[1], i)
            want_args = [["tup"] + [["i", str(s)] for s in g["shapes"][i]]]
            if len(evs) != 1 or evs[0][2] != want_args:
                ctx.report({"kind": "traced_program_calls_factory_wrongly", "count": len(evs)},
                           {"call": g["call"], "position": i, "events": evs[:3], "expected_args": want_args, "backend": g["backend"]})
            elif sorted("".join(chr(int(x)) for x in kv[0][1:]) for kv in evs[0][3]) != sorted(expected_kwargs(g["kinds"][i], g["call"]["op"], i)):
                ctx.report({"kind": "traced_program_factory_keywords"}, {"call": g["call"], "position": i, "events": evs[:1], "factory": g["kinds"][i]})
    ctx.coverage["traced_programs_checked"] = n_graph
    for c, positions, kinds, _ in items[:4]:
        ctx.sample({"call": c.record(), "factory_positions": positions, "kinds": kinds})
    ctx.coverage.update({
        "evaluations": len(items) * 2 * 8,
        "rule": "generated calls with recording factories at a random subset of argument positions; history per call = first call, cached "
                "repeat, graph=True, another factory signature, rejected call, wrong-type and wrong-shape return; distinct_nontrivial = "
                "distinct (op, description, positions)",
        "input_distribution": {"family": fam, "factory_kinds": kind_hist},
    })


def replay(ctx, path):
    data = json.load(open(path))
    print(json.dumps({k: data.get(k) for k in ("tags", "call", "positions", "position", "kinds", "got", "expected", "message", "calls")}, indent=1)[:3000])
    print(f"VIOLATION property=C13 replay={path}")
    return 1
