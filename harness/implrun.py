"""Running generated calls on the implementation in /repo."""
import numpy as np

from . import common

BACKENDS = ["numpy", "numpy.numpylike", "numpy.einsum"]


def run_call(c, backend=None, graph=False, arrays=None, timeout=30):
    """-> ('ok', [arrays]) | ('graph', text) | ('exc', class, site, message)"""
    import einx
    fn = getattr(einx, c.op)
    kw = dict(c.size_kwargs())
    kw.update(c.extra_kwargs)
    if backend is not None:
        kw["backend"] = backend
    if graph:
        kw["graph"] = True
    args = [a.copy() if isinstance(a, np.ndarray) else a for a in (c.arrays if arrays is None else arrays)]
    try:
        r = common.with_alarm(timeout, fn, c.desc, *args, **kw)
    except BaseException as e:  # noqa: BLE001
        if common.classify_exc(e) == "TIMEOUT" and timeout < 200:
            # a loaded machine is not a hang: once more, alone, with a generous limit
            return run_call(c, backend, graph, arrays, timeout=300)
        return ("exc", common.classify_exc(e), common.exc_site(e), str(e)[:300])
    if graph:
        return ("graph", str(r))
    if isinstance(r, tuple):
        return ("ok", [np.asarray(x) for x in r])
    if not isinstance(r, (np.ndarray, np.generic)):
        # several results are documented to come as a tuple, one result as a tensor
        return ("exc", "WRONG_RESULT_CONTAINER:" + type(r).__name__, "", "the call returned a " + type(r).__name__)
    return ("ok", [np.asarray(r)])
