"""C08 - equivariance: renaming, permuting un-bracketed axes (with the tensor), regrouping with
parentheses, inverse and composition of rearrangements.  Metamorphic relations on the
implementation (oracle-free); the same relations are theorems about the reference semantics."""
import copy
import json

import numpy as np

from . import common, gencalls, implrun
from .gencalls import Ax, Cat, Fl, leaves, shape_of

BACKENDS = ["numpy", "numpy.numpylike"]


def clone(c):
    d = gencalls.Call(c.family, c.op, [[x.copy() for x in t] for t in c.ins], [[x.copy() for x in t] for t in c.outs],
                      [np.array(a) for a in c.arrays], copy.deepcopy(c.extra_kwargs), None, c.sizes_mode)
    return d


def unmarked_dim(d):
    return all(not l.marked for l in d.leaves())


def has_cat(t):
    def h(d):
        return isinstance(d, Cat) or (isinstance(d, Fl) and any(h(c) for c in d.cs))
    return any(h(d) for d in t)


def t_rename(c, rng):
    d = clone(c)
    names = sorted({l.name for t in d.ins + d.outs for l in leaves(t) if not l.number})
    pool = ["q", "r", "s", "t", "u", "v", "w", "zz", "cse", "unnamed_1", "axis0", "N", "_p", "shift_", "out"]
    rng.shuffle(pool)
    m = dict(zip(names, pool))
    for t in d.ins + d.outs:
        for l in leaves(t):
            if not l.number:
                l.name = m[l.name]
    return d, (lambda outs: outs)


def has_cat(x):
    return isinstance(x, Cat) or (isinstance(x, Fl) and any(has_cat(y) for y in x.cs))


def several_cats(t):
    """an expression with two or more concatenated dimensions pairs its pieces with the other side in an order that depends on the
    order of these dimensions (leftmost varies slowest): permuting them is another operation, not the same one on a transposed tensor"""
    return sum(1 for x in t if has_cat(x)) >= 2


def t_perm_in(c, rng):
    d = clone(c)
    if any(several_cats(t) for t in d.ins + d.outs):
        return None
    ks = [k for k, t in enumerate(d.ins) if sum(1 for x in t if unmarked_dim(x)) >= 2 and shape_of(t) == tuple(np.shape(d.arrays[k]))]
    if not ks:
        return None
    k = rng.choice(ks)
    t = d.ins[k]
    idx = [i for i, x in enumerate(t) if unmarked_dim(x)]
    if rng.random() < 0.5:
        # un-bracketed dimensions trade places among themselves
        sh = idx[:]
        rng.shuffle(sh)
        perm = list(range(len(t)))
        for i, j in zip(idx, sh):
            perm[i] = j
    else:
        # un-bracketed dimensions move anywhere, also across bracketed ones (which keep their relative order)
        other = [i for i in range(len(t)) if i not in idx]
        sh = idx[:]
        rng.shuffle(sh)
        slots = sorted(rng.sample(range(len(t)), len(other)))
        perm, oi, ui = [], 0, 0
        for pos in range(len(t)):
            if pos in slots:
                perm.append(other[oi])
                oi += 1
            else:
                perm.append(sh[ui])
                ui += 1
    d.ins[k] = [t[p] for p in perm]
    d.arrays[k] = np.ascontiguousarray(np.transpose(d.arrays[k], perm))
    if d.family == "update_at" and k == 0:
        d.outs[0] = [x.copy() for x in d.ins[0]]
        inv = np.argsort(perm)
        return d, (lambda outs: [np.transpose(outs[0], inv)])
    return d, (lambda outs: outs)


def t_perm_out(c, rng):
    if c.family == "update_at":
        return None
    d = clone(c)
    if any(several_cats(t) for t in d.ins + d.outs):
        return None
    ks = [k for k, t in enumerate(d.outs) if sum(1 for x in t if unmarked_dim(x)) >= 2]
    if not ks:
        return None
    k = rng.choice(ks)
    t = d.outs[k]
    idx = [i for i, x in enumerate(t) if unmarked_dim(x)]
    if rng.random() < 0.5:
        # un-bracketed dimensions trade places among themselves
        sh = idx[:]
        rng.shuffle(sh)
        perm = list(range(len(t)))
        for i, j in zip(idx, sh):
            perm[i] = j
    else:
        # un-bracketed dimensions move anywhere, also across bracketed ones (which keep their relative order)
        other = [i for i in range(len(t)) if i not in idx]
        sh = idx[:]
        rng.shuffle(sh)
        slots = sorted(rng.sample(range(len(t)), len(other)))
        perm, oi, ui = [], 0, 0
        for pos in range(len(t)):
            if pos in slots:
                perm.append(other[oi])
                oi += 1
            else:
                perm.append(sh[ui])
                ui += 1
    d.outs[k] = [t[p] for p in perm]
    inv = list(np.argsort(perm))

    def back(outs):
        outs = list(outs)
        outs[k] = np.transpose(outs[k], inv)
        return outs
    return d, back


def t_regroup(c, rng):
    d = clone(c)
    cands = []
    for side, ts in (("in", d.ins), ("out", d.outs)):
        for k, t in enumerate(ts):
            if side == "out" and d.family == "update_at":
                continue
            for i in range(len(t)):
                if isinstance(t[i], Fl) and not has_cat([t[i]]) and (unmarked_dim(t[i]) or d.family in ("reduce", "dot", "elementwise")):
                    cands.append((side, k, i, "ungroup"))
                if i + 1 < len(t) and not has_cat(t[i:i + 2]) and unmarked_dim(t[i]) and unmarked_dim(t[i + 1]):
                    cands.append((side, k, i, "group"))
    if not cands:
        return None
    side, k, i, what = rng.choice(cands)
    ts = d.ins if side == "in" else d.outs
    t = ts[k]
    if what == "group":
        ts[k] = t[:i] + [Fl(t[i:i + 2])] + t[i + 2:]
    else:
        ts[k] = t[:i] + list(t[i].cs) + t[i + 1:]
    if side == "in":
        d.arrays[k] = np.reshape(d.arrays[k], shape_of(ts[k]))
        if d.family == "update_at" and k == 0:
            d.outs[0] = [x.copy() for x in ts[k]]
            old = shape_of(c.ins[0])
            return d, (lambda outs: [np.reshape(outs[0], old)])
        return d, (lambda outs: outs)
    old = shape_of(c.outs[k])

    def back(outs):
        outs = list(outs)
        outs[k] = np.reshape(outs[k], old)
        return outs
    return d, back


TRANSFORMS = {"rename": t_rename, "perm_in": t_perm_in, "perm_out": t_perm_out, "regroup": t_regroup}


def eq(a, b):
    if len(a) != len(b):
        return False
    for x, y in zip(a, b):
        x, y = np.asarray(x), np.asarray(y)
        if x.shape != y.shape:
            return False
        if x.dtype.kind == "f" or y.dtype.kind == "f":
            if not np.allclose(x, y, rtol=1e-9, atol=1e-12, equal_nan=True):
                return False
        elif not np.array_equal(x, y):
            return False
    return True


def _work(item):
    kind, c, d = item
    out = []
    for b in BACKENDS:
        if kind in TRANSFORMS:
            r1 = implrun.run_call(c, b)
            r2 = implrun.run_call(d[0], b)
            if r1[0] == "exc" and r2[0] == "exc" and r1[1] == r2[1]:
                continue
            if r1[0] != r2[0] or (r1[0] == "ok" and not eq(r1[1], d[1](r2[1]))):
                if c.family == "update_at" and c.op == "set_at":
                    continue  # colliding coordinates may legitimately pick another winner
                out.append(({"kind": "relation_broken", "relation": kind, "family": c.family, "backend": b},
                            {"call": c.record(), "transformed": d[0].record(), "inputs": [np.asarray(a).tolist() for a in c.arrays],
                             "first": r1[1] if r1[0] == "exc" else [x.tolist() for x in r1[1]],
                             "second": r2[1] if r2[0] == "exc" else [x.tolist() for x in d[1](r2[1])]}))
        elif kind == "inverse":
            r1 = implrun.run_call(c, b)
            if r1[0] != "ok":
                out.append(({"kind": "relation_broken", "relation": kind, "backend": b, "exc": r1[1]}, {"call": c.record(), "message": r1[3]}))
                continue
            r2 = implrun.run_call(d, b, arrays=r1[1])
            if r2[0] != "ok" or not eq(r2[1], c.arrays):
                out.append(({"kind": "relation_broken", "relation": kind, "family": "id", "backend": b},
                            {"call": c.record(), "inverse": d.record(), "inputs": [np.asarray(a).tolist() for a in c.arrays],
                             "roundtrip": r2[1] if r2[0] == "exc" else [x.tolist() for x in r2[1]]}))
        elif kind == "compose":
            c12, c23, c13 = d
            r1 = implrun.run_call(c12, b)
            r13 = implrun.run_call(c13, b)
            if r1[0] != "ok" or r13[0] != "ok":
                out.append(({"kind": "relation_broken", "relation": kind, "backend": b, "exc": (r1 if r1[0] != "ok" else r13)[1]}, {"call": c12.record()}))
                continue
            r2 = implrun.run_call(c23, b, arrays=r1[1])
            if r2[0] != "ok" or not eq(r2[1], r13[1]):
                out.append(({"kind": "relation_broken", "relation": kind, "family": "id", "backend": b},
                            {"call": c12.record(), "second": c23.record(), "direct": c13.record(), "inputs": [np.asarray(a).tolist() for a in c12.arrays]}))
    return out


def gen_bijective(g, n_exprs):
    """n_exprs arrangements of one axis set (each name once, no unit/broadcast axes)"""
    axes = g.pick_axes(g.rng.randint(1, 5), maxprod=400)
    return [g.arrange(g.perm(axes), units=0.0) for _ in range(n_exprs)]


def _scattered(c):
    """two bracketed axes of the first input with an un-bracketed axis between them"""
    m = [bool(l.marked) for l in gencalls.leaves(c.ins[0])]
    if sum(m) < 2:
        return False
    first, last = m.index(True), len(m) - 1 - m[::-1].index(True)
    return not all(m[first:last + 1])


def scattered_items(rng, n):
    """reductions and axis-preserving operations over bracketed axes that are not neighbours, moved with the tensor / regrouped:
    the adjacent and the scattered spelling of the same operation have to agree"""
    items, tries = [], 0
    while len(items) < n and tries < 40 * n:
        tries += 1
        c = gencalls.gen_call(rng, rng.choice(["reduce", "preserve"]))
        if not _scattered(c):
            continue
        kind = rng.choice(["perm_in", "perm_in", "regroup"])
        t = TRANSFORMS[kind](c, rng)
        if t is None:
            continue
        t[0].describe(rng)
        items.append((kind, c, t))
    return items


def make_items(rng, n):
    items = scattered_items(rng, n // 5)
    for i in range(n):
        kind = rng.choice(["rename", "perm_in", "perm_out", "regroup", "regroup", "inverse", "compose"])
        g = gencalls.G(rng)
        if kind in TRANSFORMS:
            c = gencalls.gen_call(rng)
            if getattr(c, "out_perm", None) is not None:
                # the transformations below rewrite the target and its output expression together: start from the plain form
                c.outs = [[x.copy() for x in c.ins[0]]]
                c.out_perm = None
                c.desc = None
                c.describe(rng)
            t = TRANSFORMS[kind](c, rng)
            if t is None:
                continue
            t[0].describe(rng)
            items.append((kind, c, t))
        elif kind == "inverse":
            if rng.random() < 0.4:
                c = gencalls.gen_id(g, concat=True)
            else:
                e1, e2 = gen_bijective(g, 2)
                c = gencalls.Call("id", "id", [e1], [e2], [gencalls.int_data(rng, shape_of(e1))])
            c.sizes_mode = "all"
            c.describe(rng)
            d = gencalls.Call("id", "id", [[x.copy() for x in t] for t in c.outs], [[x.copy() for x in t] for t in c.ins],
                              [np.zeros(shape_of(t), dtype=np.int64) for t in c.outs], sizes_mode="all")
            d.describe(rng)
            items.append((kind, c, d))
        else:
            e1, e2, e3 = gen_bijective(g, 3)
            x = gencalls.int_data(rng, shape_of(e1))
            mk = lambda a, b_, arr: gencalls.Call("id", "id", [[y.copy() for y in a]], [[y.copy() for y in b_]], [arr], sizes_mode="all")  # noqa: E731
            c12, c23, c13 = mk(e1, e2, x), mk(e2, e3, np.zeros(shape_of(e2), dtype=np.int64)), mk(e1, e3, x)
            for cc in (c12, c23, c13):
                cc.describe(rng)
            items.append((kind, c12, (c12, c23, c13)))
    return items


def run(ctx):
    import einx  # noqa: F401
    n = 700 if ctx.tier == "quick" else 20000
    items = make_items(ctx.rng, n)
    res = common.pmap(_work, items)
    kinds = {}
    for (kind, c, d), viol in zip(items, res):
        kinds[kind] = kinds.get(kind, 0) + 1
        for tags, payload in viol:
            ctx.report(tags, payload)
        ctx.distinct.add(kind + "|" + c.op + "|" + c.desc)
    for kind, c, d in items[:6]:
        ctx.sample({"relation": kind, "call": c.record(),
                    "related": (d[0].record() if kind in TRANSFORMS else (d.record() if kind == "inverse" else [x.record() for x in d]))})
    ctx.coverage.update({
        "evaluations": len(items) * len(BACKENDS),
        "rule": "metamorphic relations (rename / permute input dims with the tensor / permute output dims / (un)group parentheses / "
                "id inverse / id composition) applied to generated calls; distinct_nontrivial = distinct (relation, op, description)",
        "input_distribution": {"relation": kinds, "backends": BACKENDS},
    })


def replay(ctx, path):
    data = json.load(open(path))
    print(json.dumps({k: data.get(k) for k in ("tags", "call", "transformed", "inverse", "second", "direct")}, indent=1)[:3000])
    if "call" not in data:
        return 1
    import einx
    call = data["call"]
    args = [np.array(a) for a in data.get("inputs", [])]
    kw = {k: (tuple(v) if isinstance(v, list) else v) for k, v in call["kwargs"].items()}
    try:
        r = getattr(einx, call["op"])(call["desc"], *args, backend=data["tags"].get("backend"), **kw)
        print("first call ->", [np.asarray(x).tolist() for x in (r if isinstance(r, tuple) else (r,))])
    except Exception as e:  # noqa: BLE001
        print("first call raised", type(e).__name__)
    print("recorded first:", data.get("first"), "\nrecorded second:", data.get("second"))
    print(f"VIOLATION property=C08 replay={path}")
    return 1
